/- C13 — trajectories keep every frame, in order, each identical to a single load.

   Theorems are about the executable model `Model/Traj.lean` (the definitions the driver runs in the `traj`,
   `trajc`, `dumpm` and `fchkm` streams).  For each of the six text formats: prefix-consumption law, round trip for
   every non-empty frame list, malformed-reached, truncated-last at every cut point (XYZ, SDF, PDB, MOL2 against
   the library's writer; GRO and extended XYZ against the harness's renderer `groRender` / `extRender`).  Per-line field parsing is a parameter: `pa`/`pb` parse an atom / bond
   record, `fa`/`fb` print one, with the round-trip hypothesis `pa (fa a) = some a`; the count lines are printed by
   `showNat` / `fc` with the stated parse hypotheses.  -/
import Iodata.Lemmas.Traj
import Iodata.Gen.TrajFlow
namespace Iodata.Props.C13
open Iodata.Traj

/-! ## The model's loops and funnel are the ones found in the source (regenerated each run) -/

/-- xyz.load_many: skip blank lines (end of file = return), `except StopIteration: raise LoadError` around load_one -/
theorem gen_xyz_loop : Iodata.Gen.TrajFlow.xyz = xyzSkel := by decide
theorem gen_extxyz_loop : Iodata.Gen.TrajFlow.extxyz = xyzSkel := by decide
theorem gen_sdf_loop : Iodata.Gen.TrajFlow.sdf = sdfSkel := by decide
theorem gen_gromacs_loop : Iodata.Gen.TrajFlow.gromacs = groSkel := by decide
/-- pdb.load_many: `except LoadError: if nframe == 0: raise; return` -/
theorem gen_pdb_loop : Iodata.Gen.TrajFlow.pdb = pdbSkel := by decide
theorem gen_mol2_loop : Iodata.Gen.TrajFlow.mol2 = mol2Skel := by decide
theorem gen_mol2_bond_check : Iodata.Gen.TrajFlow.mol2BondCheck = true := by decide
/-- api.load_many: `except StopIteration: return / except LoadError: raise / except Exception: raise LoadError` -/
theorem gen_api_load_many : Iodata.Gen.TrajFlow.apiLoadMany = apiHandlersRef := by decide

/-- api.dump_many touches the iterable only through `iter`, one `next` before the first check, and the `for`
    inside the checking generator; `open` comes after the first check; no `list(...)`. -/
theorem gen_api_dump_many : Iodata.Gen.TrajFlow.apiDumpMany =
    ["iter(iter_data)", "next(iter_data)", "check(first)", "prepare(first)", "yield first", "for other in iter_data",
     "check(other)", "yield prepared(other)", "prepare(other)", "open",
     "format.dump_many(f, checking_iterator())"] := by decide

/-- every format's dump_many is `for data in datas: dump_one(f, data)` -/
theorem gen_fmt_dump_many : Iodata.Gen.TrajFlow.fmtDumpMany =
    [("xyz", ["for data in datas:\n    dump_one(f, data, atom_columns)"]),
     ("pdb", ["for data in datas:\n    dump_one(f, data)"]),
     ("mol2", ["for data in datas:\n    dump_one(f, data)"]),
     ("sdf", ["for data in datas:\n    dump_one(f, data)"])] := by decide

/-- the point / step expressions of fchk.load_many that `fchkGo` transcribes -/
theorem gen_fchk_loop : Iodata.Gen.TrajFlow.fchkLoop =
    ["f'7d'", "f'{prefix} {ipoint + 1:7d} Geometries'", "f'{prefix} {ipoint + 1:7d} Gradient at each geome'",
     "f'{prefix} {ipoint + 1:7d} Results for each geome'", "for (ipoint, nstep) in enumerate(nsteps)",
     "for (istep, (energy, recor, atcoords, gradients)) in enumerate(trajectory)", "ipoint=ipoint", "istep=istep",
     "len(trajectory) != nstep", "npoint=len(nsteps)", "nstep=len(trajectory)", "prefix == 'IRC point'",
     "reshape(-1, natom, 3)", "results_geoms[1::2]", "results_geoms[::2]"] := by decide

/-- With the clauses of the tree the api lets nothing but LoadError out, and never turns an exception of the
    format's generator into a silent end: PEP 479 makes an escaping StopIteration a RuntimeError, which the
    `except Exception` clause wraps (the `except StopIteration: return` clause is unreachable for it). -/
theorem api_funnel (g : GenFinal) :
    apiFinalOf apiHandlersRef g = (match apiFinal g with | .done => .done | .loadError ln => .loadError ln) := by
  cases g with
  | ret => rfl
  | raised e s => cases e <;> rfl

/-- an exception of the generator is never swallowed by the api -/
theorem api_never_swallows (e : Exc) (s : Lit) : apiFinal (.raised e s) = .loadError s.lineno := rfl

/-! ## LineIterator -/

/-- `back` pushes on the stack: the pushed line is the next one returned, the line number goes back by one -/
theorem lit_back_next (l : Line) (r : LitRaw) :
    (LitRaw.back l r).next = (some l, { r with lineno := r.lineno - 1 + 1 }) := by
  simp [LitRaw.back, LitRaw.next]

theorem lit_refines_back (l : Line) (r : LitRaw) :
    (LitRaw.back l r).abs = ⟨l :: r.abs.pending, r.abs.lineno - 1⟩ := abs_back l r

theorem lit_refines_next (r : LitRaw) :
    (match r.next with
     | (some l, r') => next r.abs = .ok l r'.abs
     | (none, r') => next r.abs = .raise .stop r'.abs) := abs_next r

/-! ## dump_many: frames in iteration order, lazily, each pulled exactly once -/

/-- the trace for items that all pass the check -/
def restTrace : Nat → Nat → List Ev
  | 0, i => [.pull i, .close]
  | n + 1, i => .pull i :: .check i :: .write i :: restTrace n (i + 1)

theorem dumpRest_valid {F : Type} (valid : F → Bool) (dumpOne : F → List Line) (boom : Bool) :
    ∀ (fs : List F) (i : Nat), (∀ f ∈ fs, valid f = true) →
      dumpRest valid dumpOne boom fs i =
        (restTrace fs.length i, fs.flatMap dumpOne, if boom then .dumpErrorUncaught else .ok)
  | [], i, _ => by cases boom <;> simp [dumpRest, restTrace]
  | f :: t, i, h => by
    have hf : valid f = true := h f (by simp)
    simp [dumpRest, hf, restTrace, dumpRest_valid valid dumpOne boom t (i + 1) (fun x hx => h x (by simp [hx]))]

/-- **dump_many writes `concat (map dump_one frames)`** and its consumption trace is
    `pull₀ check₀ open write₀ pull₁ check₁ write₁ … pullₙ close`: the file is opened after the first item was
    checked, item i+1 is pulled only after item i was written, every item is pulled once.  With an iterator that
    raises after its items (`boom`), all items pulled before are in the file and the outcome is DumpError. -/
theorem dumpMany_lines_and_trace {F : Type} (valid : F → Bool) (dumpOne : F → List Line) (f : F) (fs : List F)
    (boom : Bool) (h : ∀ x ∈ f :: fs, valid x = true) :
    dumpMany valid dumpOne (f :: fs) boom =
      ⟨.pull 0 :: .check 0 :: .openFile :: .write 0 :: restTrace fs.length 1, (f :: fs).flatMap dumpOne, true,
       if boom then .dumpErrorUncaught else .ok⟩ := by
  have hf : valid f = true := h f (by simp)
  simp [dumpMany, hf, dumpRest_valid valid dumpOne boom fs 1 (fun x hx => h x (by simp [hx]))]

theorem restTrace_count_pull : ∀ (n i j : Nat), (restTrace n i).count (.pull j) = if i ≤ j ∧ j ≤ i + n then 1 else 0
  | 0, i, j => by
    by_cases h : i = j <;> simp [restTrace, h] <;> omega
  | n + 1, i, j => by
    have ih := restTrace_count_pull n (i + 1) j
    by_cases h : i = j
    · subst h; simp [restTrace, ih]; omega
    · simp [restTrace, ih, h, List.count_cons]
      by_cases h2 : i + 1 ≤ j ∧ j ≤ i + 1 + n
      · rw [if_pos h2, if_pos (by omega)]
      · rw [if_neg h2, if_neg (by omega)]

/-- each of the n items, and the end of the iterable, is pulled exactly once; nothing else is pulled -/
theorem dumpMany_pulls_once {F : Type} (valid : F → Bool) (dumpOne : F → List Line) (f : F) (fs : List F)
    (boom : Bool) (h : ∀ x ∈ f :: fs, valid x = true) (j : Nat) :
    (dumpMany valid dumpOne (f :: fs) boom).events.count (.pull j) = if j ≤ fs.length + 1 then 1 else 0 := by
  rw [dumpMany_lines_and_trace valid dumpOne f fs boom h]
  by_cases hj : j = 0
  · subst hj; simp [List.count_cons, restTrace_count_pull]
  · have hj' : ¬ 0 = j := fun e => hj e.symm
    simp [List.count_cons, restTrace_count_pull, hj']
    by_cases h2 : j ≤ fs.length + 1
    · rw [if_pos h2, if_pos (by omega)]
    · rw [if_neg h2, if_neg (by omega)]

/-- an empty iterable: DumpError before the file is opened; a first item that fails the check: PrepareDumpError
    before the file is opened, only one item pulled -/
theorem dumpMany_empty {F : Type} (valid : F → Bool) (dumpOne : F → List Line) :
    dumpMany valid dumpOne [] false = ⟨[.pull 0], [], false, .dumpErrorEmpty⟩ := rfl

theorem dumpMany_first_invalid {F : Type} (valid : F → Bool) (dumpOne : F → List Line) (f : F) (fs : List F)
    (boom : Bool) (h : valid f = false) :
    dumpMany valid dumpOne (f :: fs) boom = ⟨[.pull 0, .check 0], [], false, .prepareError⟩ := by
  simp [dumpMany, h]

/-- a later item that fails the check: the frames before it are in the file, nothing after it is pulled -/
theorem dumpRest_invalid_at {F : Type} (valid : F → Bool) (dumpOne : F → List Line) (boom : Bool) :
    ∀ (pre : List F) (bad : F) (post : List F) (i : Nat), (∀ f ∈ pre, valid f = true) → valid bad = false →
      (dumpRest valid dumpOne boom (pre ++ bad :: post) i).2 = (pre.flatMap dumpOne, .prepareError) ∧
      ∀ j, j > i + pre.length → (dumpRest valid dumpOne boom (pre ++ bad :: post) i).1.count (.pull j) = 0
  | [], bad, post, i, _, hb => by
    simp [dumpRest, hb, List.count_cons]
    intro j hj; omega
  | f :: pre, bad, post, i, h, hb => by
    have hf : valid f = true := h f (by simp)
    obtain ⟨h1, h2⟩ := dumpRest_invalid_at valid dumpOne boom pre bad post (i + 1) (fun x hx => h x (by simp [hx])) hb
    constructor
    · simp [dumpRest, hf, h1]
    · intro j hj
      have := h2 j (by simp at hj ⊢; omega)
      simp [dumpRest, hf, List.count_cons, this]
      simp at hj; omega

/-! ## XYZ (writer + reader) -/

section xyz
variable {α : Type} (showNat : Nat → Line) (pa : Line → Option α) (fa : α → Line)

theorem xyz_dump_ne (f : XyzFrame α) : xyzDumpOne showNat fa f ≠ [] := by simp [xyzDumpOne]

/-- **prefix-consumption law**: a frame as written, followed by anything, is read back as `xyzNorm f` and exactly
    its lines are consumed.  Domain: the title is a single line (no `'\n'`); titles that look like counts,
    separators or are blank are inside the domain (the title is taken by position, never interpreted). -/
theorem xyz_prefix_law (hs : ∀ n, pyInt (showNat n) = some (n : Int)) (h : ∀ a, pa (fa a) = some a)
    (f : XyzFrame α) (hnl : '\n' ∉ f.title) (rest : List Line) (ln : Int) :
    ∃ ln', xyzLoadOne pa ⟨xyzDumpOne showNat fa f ++ rest, ln⟩ = .ok (xyzNorm f) ⟨rest, ln'⟩ := by
  obtain ⟨ln', hr⟩ := readN_map pa fa h f.atoms rest (ln + 1 + 1)
  have hneg : ¬ ((f.atoms.length : Int) < 0) := by omega
  exact ⟨ln', by simp [xyzDumpOne, splitNl_no_nl _ (titleOr_no_nl _ hnl), xyzLoadOne, hs, xyzNorm, hneg, hr]⟩

theorem xyz_step (hs : ∀ n, pyInt (showNat n) = some (n : Int)) (hb : ∀ n, isBlank (showNat n) = false)
    (h : ∀ a, pa (fa a) = some a) (f : XyzFrame α) (hnl : '\n' ∉ f.title) (rest : List Line) (ln : Int)
    (first : Bool) :
    ∃ s' ln', runPeek xyzSkel.peek first ⟨xyzDumpOne showNat fa f ++ rest, ln⟩ = .go s' ∧
      xyzLoadOne pa s' = .ok (xyzNorm f) ⟨rest, ln'⟩ := by
  obtain ⟨ln', hl⟩ := xyz_prefix_law showNat pa fa hs h f hnl rest ln
  exact ⟨_, ln', skipBlank_go _ _ _ _ (hb _), hl⟩

/-- **round trip, any number of frames**: reading the file written by dump_many yields exactly the frames, in
    order, each as its single-frame file would load; trailing blank lines are ignored. -/
theorem xyz_roundtrip (hs : ∀ n, pyInt (showNat n) = some (n : Int)) (hb : ∀ n, isBlank (showNat n) = false)
    (h : ∀ a, pa (fa a) = some a) (fs : List (XyzFrame α)) (hne : fs ≠ []) (hnl : ∀ f ∈ fs, '\n' ∉ f.title)
    (blanks : List Line) (hbl : ∀ l ∈ blanks, isBlank l = true) :
    loadMany xyzSkel (xyzLoadOne pa) (fs.flatMap (xyzDumpOne showNat fa) ++ blanks) = ⟨fs.map xyzNorm, .done⟩ := by
  have htail : ∀ fuel ln, fuel ≥ blanks.length + 1 →
      runLoop xyzSkel (xyzLoadOne pa) fuel false ⟨blanks, ln⟩ = (([] : List (XyzFrame α)), GenFinal.ret) := by
    intro fuel ln hf
    cases fuel with
    | zero => simp at hf
    | succ fuel => simp [runLoop, xyzSkel, runPeek, skipBlank_eof blanks ln hbl]
  obtain ⟨r, hr, he⟩ := runLoop_blocks xyzSkel (xyzLoadOne pa) (xyzDumpOne showNat fa) xyzNorm
    (fun f => '\n' ∉ f.title) (xyz_dump_ne showNat fa)
    (fun f hf rest ln first => xyz_step showNat pa fa hs hb h f hf rest ln first)
    blanks (fun r => r = (([] : List (XyzFrame α)), GenFinal.ret)) htail fs _ 0 true hnl (Or.inl hne)
    (Nat.le_refl _)
  subst hr
  simpa [apiFinal] using loadMany_of_runLoop _ _ _ _ _ he

/-- a frame cut after m of its lines (0 < m < all): `load_one` runs into the end of the file -/
theorem xyz_cut_stops (hs : ∀ n, pyInt (showNat n) = some (n : Int)) (h : ∀ a, pa (fa a) = some a)
    (f : XyzFrame α) (hnl : '\n' ∉ f.title) (m : Nat) (hm0 : 0 < m) (hm : m < (xyzDumpOne showNat fa f).length)
    (ln : Int) :
    ∃ ln', xyzLoadOne pa ⟨(xyzDumpOne showNat fa f).take m, ln⟩ = .raise .stop ⟨[], ln'⟩ := by
  have hneg : ¬ ((f.atoms.length : Int) < 0) := by omega
  match m, hm0 with
  | 1, _ => exact ⟨ln + 1 + 1, by simp [xyzDumpOne, xyzLoadOne, hs]⟩
  | k + 2, _ =>
    have hk : (f.atoms.take k).length < f.atoms.length := by
      simp [xyzDumpOne, splitNl_no_nl _ (titleOr_no_nl _ hnl)] at hm
      simp; omega
    obtain ⟨ln', hr⟩ := readN_short pa fa h (f.atoms.take k) f.atoms.length (ln + 1 + 1) hk
    exact ⟨ln', by
      simp [xyzDumpOne, splitNl_no_nl _ (titleOr_no_nl _ hnl), xyzLoadOne, hs, hneg, ← List.map_take, hr]⟩

/-- **truncated_last**: a file cut inside its last frame (after any number of complete frames, also none) yields
    exactly the complete frames and then raises LoadError — never a silent end, never a partial frame. -/
theorem xyz_truncated_last (hs : ∀ n, pyInt (showNat n) = some (n : Int)) (hb : ∀ n, isBlank (showNat n) = false)
    (h : ∀ a, pa (fa a) = some a) (fs : List (XyzFrame α)) (hnl : ∀ f ∈ fs, '\n' ∉ f.title)
    (f : XyzFrame α) (hf : '\n' ∉ f.title) (m : Nat) (hm0 : 0 < m) (hm : m < (xyzDumpOne showNat fa f).length) :
    ∃ ln, loadMany xyzSkel (xyzLoadOne pa)
        (fs.flatMap (xyzDumpOne showNat fa) ++ (xyzDumpOne showNat fa f).take m) = ⟨fs.map xyzNorm, .loadError ln⟩ := by
  have htail : ∀ fuel ln first, fuel ≥ ((xyzDumpOne showNat fa f).take m).length + 1 →
      EndsRaised (runLoop xyzSkel (xyzLoadOne pa) fuel first ⟨(xyzDumpOne showNat fa f).take m, ln⟩) := by
    intro fuel ln first hfu
    obtain ⟨s, hst⟩ := xyz_cut_stops showNat pa fa hs h f hf m hm0 hm ln
    cases fuel with
    | zero => simp at hfu
    | succ fuel =>
      have hp : runPeek .skipBlank first ⟨(xyzDumpOne showNat fa f).take m, ln⟩ =
          .go ⟨(xyzDumpOne showNat fa f).take m, ln⟩ := by
        match m, hm0 with
        | k + 1, _ => simp [xyzDumpOne, skipBlank_go _ _ _ _ (hb _)]
      obtain ⟨e', he'⟩ := runLoop_raise .skipBlank (xyzLoadOne pa) fuel first _ _ _ _ hp hst
      exact endsRaised_of he'
  obtain ⟨r, ⟨hr1, e, s, hr2⟩, he⟩ := runLoop_blocks_any xyzSkel (xyzLoadOne pa) (xyzDumpOne showNat fa) xyzNorm
    (fun f => '\n' ∉ f.title) (xyz_dump_ne showNat fa)
    (fun f hf rest ln first => xyz_step showNat pa fa hs hb h f hf rest ln first)
    ((xyzDumpOne showNat fa f).take m) EndsRaised htail fs _ 0 true hnl (Nat.le_refl _)
  refine ⟨s.lineno, ?_⟩
  have := loadMany_of_runLoop _ _ _ _ _ he
  simpa [hr1, hr2, apiFinal] using this

/-- **malformed_reached**: complete frames followed by a frame on which `load_one` fails (whatever the exception:
    a bad count, an unparsable atom line, the end of the file) — the frames before it are yielded, then LoadError
    is raised; the bad frame is neither skipped nor does it end the sequence silently. -/
theorem xyz_malformed_reached (hs : ∀ n, pyInt (showNat n) = some (n : Int)) (hb : ∀ n, isBlank (showNat n) = false)
    (h : ∀ a, pa (fa a) = some a) (fs : List (XyzFrame α)) (hnl : ∀ f ∈ fs, '\n' ∉ f.title)
    (l : Line) (t : List Line) (hl : isBlank l = false)
    (hbad : ∀ ln, ∃ e s, xyzLoadOne pa ⟨l :: t, ln⟩ = .raise e s) :
    ∃ ln, loadMany xyzSkel (xyzLoadOne pa) (fs.flatMap (xyzDumpOne showNat fa) ++ l :: t) =
      ⟨fs.map xyzNorm, .loadError ln⟩ := by
  have htail : ∀ fuel ln first, fuel ≥ (l :: t).length + 1 →
      EndsRaised (runLoop xyzSkel (xyzLoadOne pa) fuel first ⟨l :: t, ln⟩) := by
    intro fuel ln first hfu
    obtain ⟨e, s, hst⟩ := hbad ln
    cases fuel with
    | zero => simp at hfu
    | succ fuel =>
      obtain ⟨e', he'⟩ := runLoop_raise .skipBlank (xyzLoadOne pa) fuel first _ _ _ _
        (skipBlank_go l t ln first hl) hst
      exact endsRaised_of he'
  obtain ⟨r, ⟨hr1, e, s, hr2⟩, he⟩ := runLoop_blocks_any xyzSkel (xyzLoadOne pa) (xyzDumpOne showNat fa) xyzNorm
    (fun f => '\n' ∉ f.title) (xyz_dump_ne showNat fa)
    (fun f hf rest ln first => xyz_step showNat pa fa hs hb h f hf rest ln first)
    (l :: t) EndsRaised htail fs _ 0 true hnl (Nat.le_refl _)
  refine ⟨s.lineno, ?_⟩
  have := loadMany_of_runLoop _ _ _ _ _ he
  simpa [hr1, hr2, apiFinal] using this
end xyz


/-! ## SDF (writer + reader) -/

section sdf
variable {α β : Type} (fc : Nat → Nat → Line) (pa : Line → Option α) (fa : α → Line)
  (pb : Line → Option β) (fb : β → Line)

/-- **prefix-consumption law** for SDF: title by position (a title `$$$$` or `M  END` is inside the domain), two
    comment lines, counts, atom and bond blocks, then the search for `$$$$` stops at the record's own terminator. -/
theorem sdf_prefix_law (hc : SdfCountsOk fc) (ha : ∀ a, pa (fa a) = some a) (hb : ∀ b, pb (fb b) = some b)
    (f : SdfFrame α β) (hnl : '\n' ∉ f.title) (rest : List Line) (ln : Int) :
    ∃ ln', sdfLoadOne pa pb ⟨sdfDumpOne fc fa fb f ++ rest, ln⟩ = .ok (sdfNorm f) ⟨rest, ln'⟩ := by
  obtain ⟨h1, h2, h3, _⟩ := hc f.atoms.length f.bonds.length
  obtain ⟨ln1, hr1⟩ := readN_map pa fa ha f.atoms
    (f.bonds.map fb ++ ((['M', ' ', ' ', 'E', 'N', 'D'] : Line) :: sdfEnd :: rest)) (ln + 1 + 1 + 1 + 1)
  obtain ⟨ln2, hr2⟩ := readN_map pb fb hb f.bonds ((['M', ' ', ' ', 'E', 'N', 'D'] : Line) :: sdfEnd :: rest) ln1
  have hneg1 : ¬ ((f.atoms.length : Int) < 0) := by omega
  have hneg2 : ¬ ((f.bonds.length : Int) < 0) := by omega
  have hme : (['M', ' ', ' ', 'E', 'N', 'D'] : Line) ≠ sdfEnd := by decide
  refine ⟨ln2 + 1 + 1, ?_⟩
  simp [sdfDumpOne, splitNl_no_nl _ (titleOr_no_nl _ hnl), sdfLoadOne, h1, h2, h3, hneg1, hneg2, hr1, hr2,
    sdfFindEndM, sdfFindEnd, hme, sdfNorm]

theorem sdf_dump_ne (f : SdfFrame α β) : sdfDumpOne fc fa fb f ≠ [] := by
  simp [sdfDumpOne]

theorem sdf_step (hc : SdfCountsOk fc) (ha : ∀ a, pa (fa a) = some a) (hb : ∀ b, pb (fb b) = some b)
    (f : SdfFrame α β) (hnl : '\n' ∉ f.title) (rest : List Line) (ln : Int) (first : Bool) :
    ∃ s' ln', runPeek sdfSkel.peek first ⟨sdfDumpOne fc fa fb f ++ rest, ln⟩ = .go s' ∧
      sdfLoadOne pa pb s' = .ok (sdfNorm f) ⟨rest, ln'⟩ := by
  obtain ⟨ln', hl⟩ := sdf_prefix_law fc pa fa pb fb hc ha hb f hnl rest ln
  refine ⟨_, ln', peekPushAll_go _ first ⟨fc f.atoms.length f.bonds.length, ?_, (hc _ _).2.2.2⟩, hl⟩
  simp [sdfDumpOne]

/-- **round trip, any number of molecules**, trailing blank lines ignored -/
theorem sdf_roundtrip (hc : SdfCountsOk fc) (ha : ∀ a, pa (fa a) = some a) (hb : ∀ b, pb (fb b) = some b)
    (fs : List (SdfFrame α β)) (hne : fs ≠ []) (hnl : ∀ f ∈ fs, '\n' ∉ f.title)
    (blanks : List Line) (hbl : ∀ l ∈ blanks, isBlank l = true) :
    loadMany sdfSkel (sdfLoadOne pa pb) (fs.flatMap (sdfDumpOne fc fa fb) ++ blanks) = ⟨fs.map sdfNorm, .done⟩ := by
  have htail : ∀ fuel ln, fuel ≥ blanks.length + 1 →
      runLoop sdfSkel (sdfLoadOne pa pb) fuel false ⟨blanks, ln⟩ = (([] : List (SdfFrame α β)), GenFinal.ret) := by
    intro fuel ln hf
    cases fuel with
    | zero => simp at hf
    | succ fuel => simp [runLoop, sdfSkel, runPeek, collectGo_none blanks [] ln hbl]
  obtain ⟨r, hr, he⟩ := runLoop_blocks sdfSkel (sdfLoadOne pa pb) (sdfDumpOne fc fa fb) sdfNorm
    (fun f => '\n' ∉ f.title) (sdf_dump_ne fc fa fb)
    (fun f hf rest ln first => sdf_step fc pa fa pb fb hc ha hb f hf rest ln first)
    blanks (fun r => r = (([] : List (SdfFrame α β)), GenFinal.ret)) htail fs _ 0 true hnl (Or.inl hne)
    (Nat.le_refl _)
  subst hr
  simpa [apiFinal] using loadMany_of_runLoop _ _ _ _ _ he

/-- **malformed_reached / truncated_last** for SDF: after any number of complete molecules, a block on which
    `load_one` raises (StopIteration because the file ends inside the header, the atom or the bond block; LoadError
    because `$$$$` is missing or the record is not V2000; ValueError for an unreadable count or field) makes the
    sequence end with LoadError after exactly the complete molecules.  `hbad` is discharged for truncated files at every cut point by
    `sdf_cut_raises` (`sdf_truncated_last` below). -/
theorem sdf_malformed_reached (hc : SdfCountsOk fc) (ha : ∀ a, pa (fa a) = some a) (hb : ∀ b, pb (fb b) = some b)
    (fs : List (SdfFrame α β)) (hnl : ∀ f ∈ fs, '\n' ∉ f.title)
    (bad : List Line) (hnb : ∃ l ∈ bad, isBlank l = false)
    (hbad : ∀ ln, ∃ e s, sdfLoadOne pa pb ⟨bad, ln⟩ = .raise e s) :
    ∃ ln, loadMany sdfSkel (sdfLoadOne pa pb) (fs.flatMap (sdfDumpOne fc fa fb) ++ bad) =
      ⟨fs.map sdfNorm, .loadError ln⟩ := by
  have htail : ∀ fuel ln first, fuel ≥ bad.length + 1 →
      EndsRaised (runLoop sdfSkel (sdfLoadOne pa pb) fuel first ⟨bad, ln⟩) := by
    intro fuel ln first hfu
    obtain ⟨e, s, hst⟩ := hbad ln
    cases fuel with
    | zero => simp at hfu
    | succ fuel =>
      obtain ⟨e', he'⟩ := runLoop_raise .peekPushAll (sdfLoadOne pa pb) fuel first _ _ _ _
        (peekPushAll_go ⟨bad, ln⟩ first hnb) hst
      exact endsRaised_of he'
  obtain ⟨r, ⟨hr1, e, s, hr2⟩, he⟩ := runLoop_blocks_any sdfSkel (sdfLoadOne pa pb) (sdfDumpOne fc fa fb) sdfNorm
    (fun f => '\n' ∉ f.title) (sdf_dump_ne fc fa fb)
    (fun f hf rest ln first => sdf_step fc pa fa pb fb hc ha hb f hf rest ln first)
    bad EndsRaised htail fs _ 0 true hnl (Nat.le_refl _)
  refine ⟨s.lineno, ?_⟩
  have := loadMany_of_runLoop _ _ _ _ _ he
  simpa [hr1, hr2, apiFinal] using this

/-- a molecule cut inside its four header lines: StopIteration in `load_one` -/
theorem sdf_cut_header_stops (t : List Line) (ht : 0 < t.length ∧ t.length < 4) (ln : Int) :
    ∃ s, sdfLoadOne pa pb ⟨t, ln⟩ = .raise .stop s := by
  match t, ht with
  | [a], _ => exact ⟨_, by simp [sdfLoadOne]; rfl⟩
  | [a, b], _ => exact ⟨_, by simp [sdfLoadOne]; rfl⟩
  | [a, b, c], _ => exact ⟨_, by simp [sdfLoadOne]; rfl⟩
  | _ :: _ :: _ :: _ :: _, h => simp at h; omega

/-- **truncated_last for SDF, EVERY cut point**: a written file cut after `m` lines of its last record
    (`0 < m < all`: inside the header, the atom block, the bond block, before `M  END` or before `$$$$`), after any
    number of complete records: exactly the complete records are yielded, then LoadError.  `hnb`: the cut part holds
    a non-blank line — always the case from the counts line on (`m ≥ 4`); a cut that leaves only blank lines of the
    next record (blank title, the two comment lines) is a clean end (`sdf_roundtrip` with `blanks`). -/
theorem sdf_truncated_last (hc : SdfCountsOk fc) (ha : ∀ a, pa (fa a) = some a) (hb : ∀ b, pb (fb b) = some b)
    (fs : List (SdfFrame α β)) (hnl : ∀ f ∈ fs, '\n' ∉ f.title) (f : SdfFrame α β) (hf : '\n' ∉ f.title)
    (m : Nat) (hm0 : 0 < m) (hm : m < (sdfDumpOne fc fa fb f).length)
    (hnb : ∃ l ∈ (sdfDumpOne fc fa fb f).take m, isBlank l = false) :
    ∃ ln, loadMany sdfSkel (sdfLoadOne pa pb)
        (fs.flatMap (sdfDumpOne fc fa fb) ++ (sdfDumpOne fc fa fb f).take m) = ⟨fs.map sdfNorm, .loadError ln⟩ :=
  sdf_malformed_reached fc pa fa pb fb hc ha hb fs hnl _ hnb
    (fun ln => sdf_cut_raises fc pa fa pb fb hc ha hb f hf m hm0 hm ln)

/-- from the counts line on the cut part always holds a non-blank line -/
theorem sdf_cut_nonblank (hc : SdfCountsOk fc) (f : SdfFrame α β) (hf : '\n' ∉ f.title) (m : Nat) (hm : 4 ≤ m) :
    ∃ l ∈ (sdfDumpOne fc fa fb f).take m, isBlank l = false := by
  obtain ⟨k, rfl⟩ : ∃ k, m = k + 4 := ⟨m - 4, by omega⟩
  refine ⟨fc f.atoms.length f.bonds.length, ?_, (hc _ _).2.2.2⟩
  simp [sdfDumpOne, splitNl_no_nl _ (titleOr_no_nl _ hf)]
end sdf

/-! ## GRO and extended XYZ (readers only; the library has no writer for them)

   The round trip is stated against the harness's own renderer of well-formed frames (`groRender`, `extRender`):
   `loadMany (flatMap specRender fs) = ok (map norm fs)`.  The per-line parsers are parameters: `pt` accepts the
   title line (GRO: the optional `t=` time stamp must parse; extXYZ: `_parse_title`), `pa` an atom line, `pc` the
   GRO box line. -/

section gro
variable {α : Type} (showNat : Nat → Line) (pt : Line → Bool) (pa : Line → Option α) (pc : Line → Bool)
  (fa : α → Line) (box : Line)

/-- **prefix-consumption law for GRO**: title (any text that passes `pt`: blank, a number, with commas — it is
    taken by position), count, atom lines, box line -/
theorem gro_prefix_law (hs : ∀ n, pyInt (showNat n) = some (n : Int)) (ha : ∀ a, pa (fa a) = some a)
    (hbox : pc box = true) (f : XyzFrame α) (hpt : pt f.title = true) (rest : List Line) (ln : Int) :
    ∃ ln', groLoadOne pt pa pc ⟨groRender showNat fa box f ++ rest, ln⟩ = .ok (groNorm f) ⟨rest, ln'⟩ :=
  gro_loadOne_render showNat pt pa pc fa box hs ha hbox f hpt rest ln

/-- **round trip, any number of frames**, trailing blank lines ignored -/
theorem gro_roundtrip (hs : ∀ n, pyInt (showNat n) = some (n : Int)) (hb : ∀ n, isBlank (showNat n) = false)
    (ha : ∀ a, pa (fa a) = some a) (hbox : pc box = true) (fs : List (XyzFrame α)) (hne : fs ≠ [])
    (hpt : ∀ f ∈ fs, pt f.title = true) (blanks : List Line) (hbl : ∀ l ∈ blanks, isBlank l = true) :
    loadMany groSkel (groLoadOne pt pa pc) (fs.flatMap (groRender showNat fa box) ++ blanks) =
      ⟨fs.map groNorm, .done⟩ :=
  loadMany_blocks_then_end .peekPushAll (groLoadOne pt pa pc) (groRender showNat fa box) groNorm
    (fun f => pt f.title = true) (gro_render_ne showNat fa box)
    (fun f hf rest ln first => gro_step showNat pt pa pc fa box hs hb ha hbox f hf rest ln first)
    fs hne hpt blanks (fun ln => by simp [runPeek, collectGo_none blanks [] ln hbl])

/-- **malformed_reached**: complete frames, then lines (not all blank) on which `load_one` raises — a bad count, an
    unparsable atom or box line, a bad time stamp, the end of the file: the complete frames, then LoadError -/
theorem gro_malformed_reached (hs : ∀ n, pyInt (showNat n) = some (n : Int)) (hb : ∀ n, isBlank (showNat n) = false)
    (ha : ∀ a, pa (fa a) = some a) (hbox : pc box = true) (fs : List (XyzFrame α))
    (hpt : ∀ f ∈ fs, pt f.title = true) (bad : List Line) (hnb : ∃ l ∈ bad, isBlank l = false)
    (hbad : ∀ ln, ∃ e s, groLoadOne pt pa pc ⟨bad, ln⟩ = .raise e s) :
    ∃ ln, loadMany groSkel (groLoadOne pt pa pc) (fs.flatMap (groRender showNat fa box) ++ bad) =
      ⟨fs.map groNorm, .loadError ln⟩ :=
  loadMany_blocks_then_bad .peekPushAll (groLoadOne pt pa pc) (groRender showNat fa box) groNorm
    (fun f => pt f.title = true) (gro_render_ne showNat fa box)
    (fun f hf rest ln first => gro_step showNat pt pa pc fa box hs hb ha hbox f hf rest ln first)
    fs hpt bad (fun ln first => peekPushAll_go ⟨bad, ln⟩ first hnb) hbad

/-- **truncated_last, every cut point** (`hnb`: the cut part is not only a blank title line) -/
theorem gro_truncated_last (hs : ∀ n, pyInt (showNat n) = some (n : Int)) (hb : ∀ n, isBlank (showNat n) = false)
    (ha : ∀ a, pa (fa a) = some a) (hbox : pc box = true) (fs : List (XyzFrame α))
    (hpt : ∀ f ∈ fs, pt f.title = true) (f : XyzFrame α) (hf : pt f.title = true) (m : Nat) (hm0 : 0 < m)
    (hm : m < (groRender showNat fa box f).length)
    (hnb : ∃ l ∈ (groRender showNat fa box f).take m, isBlank l = false) :
    ∃ ln, loadMany groSkel (groLoadOne pt pa pc)
        (fs.flatMap (groRender showNat fa box) ++ (groRender showNat fa box f).take m) =
      ⟨fs.map groNorm, .loadError ln⟩ :=
  gro_malformed_reached showNat pt pa pc fa box hs hb ha hbox fs hpt _ hnb (fun ln => by
    obtain ⟨s, h⟩ := gro_cut_stops showNat pt pa pc fa box hs ha f hf m hm0 hm ln
    exact ⟨_, _, h⟩)

/-- from the count line on the cut part holds a non-blank line -/
theorem gro_cut_nonblank (hb : ∀ n, isBlank (showNat n) = false) (f : XyzFrame α) (m : Nat) (hm : 2 ≤ m) :
    ∃ l ∈ (groRender showNat fa box f).take m, isBlank l = false := by
  obtain ⟨k, rfl⟩ : ∃ k, m = k + 2 := ⟨m - 2, by omega⟩
  exact ⟨showNat f.atoms.length, by simp [groRender], hb _⟩
end gro

section ext
variable {α : Type} (showNat : Nat → Line) (pt : Line → Bool) (pa : Line → Option α) (fa : α → Line)

/-- **prefix-consumption law for extended XYZ**: `load_one` reads the count and the title line, parses the title,
    pushes both back and lets the XYZ reader consume the frame -/
theorem extxyz_prefix_law (hs : ∀ n, pyInt (showNat n) = some (n : Int)) (ha : ∀ a, pa (fa a) = some a)
    (f : XyzFrame α) (hpt : pt f.title = true) (rest : List Line) (ln : Int) :
    ∃ ln', extLoadOne pt pa ⟨extRender showNat fa f ++ rest, ln⟩ = .ok (extNorm f) ⟨rest, ln'⟩ :=
  ext_loadOne_render showNat pt pa fa hs ha f hpt rest ln

theorem extxyz_roundtrip (hs : ∀ n, pyInt (showNat n) = some (n : Int)) (hb : ∀ n, isBlank (showNat n) = false)
    (ha : ∀ a, pa (fa a) = some a) (fs : List (XyzFrame α)) (hne : fs ≠ [])
    (hpt : ∀ f ∈ fs, pt f.title = true) (blanks : List Line) (hbl : ∀ l ∈ blanks, isBlank l = true) :
    loadMany xyzSkel (extLoadOne pt pa) (fs.flatMap (extRender showNat fa) ++ blanks) = ⟨fs.map extNorm, .done⟩ :=
  loadMany_blocks_then_end .skipBlank (extLoadOne pt pa) (extRender showNat fa) extNorm
    (fun f => pt f.title = true) (ext_render_ne showNat fa)
    (fun f hf rest ln first => ext_step showNat pt pa fa hs hb ha f hf rest ln first)
    fs hne hpt blanks (fun ln => by simp [runPeek, skipBlank_eof blanks ln hbl])

theorem extxyz_malformed_reached (hs : ∀ n, pyInt (showNat n) = some (n : Int))
    (hb : ∀ n, isBlank (showNat n) = false) (ha : ∀ a, pa (fa a) = some a) (fs : List (XyzFrame α))
    (hpt : ∀ f ∈ fs, pt f.title = true) (l : Line) (t : List Line) (hl : isBlank l = false)
    (hbad : ∀ ln, ∃ e s, extLoadOne pt pa ⟨l :: t, ln⟩ = .raise e s) :
    ∃ ln, loadMany xyzSkel (extLoadOne pt pa) (fs.flatMap (extRender showNat fa) ++ l :: t) =
      ⟨fs.map extNorm, .loadError ln⟩ :=
  loadMany_blocks_then_bad .skipBlank (extLoadOne pt pa) (extRender showNat fa) extNorm
    (fun f => pt f.title = true) (ext_render_ne showNat fa)
    (fun f hf rest ln first => ext_step showNat pt pa fa hs hb ha f hf rest ln first)
    fs hpt (l :: t) (fun ln first => skipBlank_go l t ln first hl) hbad

/-- **truncated_last, every cut point** -/
theorem extxyz_truncated_last (hs : ∀ n, pyInt (showNat n) = some (n : Int))
    (hb : ∀ n, isBlank (showNat n) = false) (ha : ∀ a, pa (fa a) = some a) (fs : List (XyzFrame α))
    (hpt : ∀ f ∈ fs, pt f.title = true) (f : XyzFrame α) (hf : pt f.title = true) (m : Nat) (hm0 : 0 < m)
    (hm : m < (extRender showNat fa f).length) :
    ∃ ln, loadMany xyzSkel (extLoadOne pt pa)
        (fs.flatMap (extRender showNat fa) ++ (extRender showNat fa f).take m) = ⟨fs.map extNorm, .loadError ln⟩ := by
  obtain ⟨k, rfl⟩ : ∃ k, m = k + 1 := ⟨m - 1, by omega⟩
  have hshape : (extRender showNat fa f).take (k + 1) =
      showNat f.atoms.length :: (f.title :: f.atoms.map fa).take k := by simp [extRender]
  have hcut := fun ln => ext_cut_stops showNat pt pa fa hs ha f hf (k + 1) hm0 hm ln
  rw [hshape] at hcut ⊢
  exact extxyz_malformed_reached showNat pt pa fa hs hb ha fs hpt _ _ (hb _) (fun ln => by
    obtain ⟨s, h⟩ := hcut ln
    exact ⟨_, _, h⟩)
end ext

/-! ## PDB (writer + reader)

   A frame is recognised by the reader through its ATOM/HETATM records only: TITLE and COMPND records are collected,
   every other record is passed over, and a record starting with `END` (`END`, `ENDMDL`) ends the frame only after
   an atom record was read.  Theorems are stated for frames in the general form `PdbBlock` (`Lemmas/Traj.lean`):
   passed-over lines, TITLE / COMPND records with continuation numbers as written by `_dump_multiline_str`,
   passed-over lines (`MODEL n`), ATOM records, CONECT records, an `END…` record.  `dump_one` writes the instance
   `pdbBlockOfObj` (`pdbBlockLines_ofObj`), trajectories of other programs the instance `pdbModelBlock`.

   DOMAIN.  A frame WITHOUT ATOM/HETATM record is outside: it is not a molecule for the reader — its TITLE records
   and its END are absorbed by the next frame (`pdb_empty_frame_merged_violated` below: two frames written, one
   read), or, at the end of the file, by the "Molecule could not be read" that ends the loop.  That tolerant end is
   needed for every well-formed file: after the last frame's END (and after the END / MASTER records that follow the
   last ENDMDL) `load_one` finds no atom record, raises LoadError, and `load_many` returns because a frame was read
   (`except LoadError: if nframe == 0: raise; return`). -/

section pdb
variable {α β : Type} (pa : Line → Option α) (fa : α → Line) (pb : Line → Option β) (fb : β → Line)

/-- **prefix-consumption law** for a PDB frame in general form: followed by anything, it is read back as
    `pdbBlockFrame b` (title / compound lines stripped, continuation numbers removed by `line[10:]`) and exactly its
    lines are consumed. -/
theorem pdb_frame_law (ha : ∀ a, pa (pATOM ++ [' ', ' '] ++ fa a) = some a)
    (hb : ∀ b, pb (pCONECT ++ fb b) = some b) (b : PdbBlock α β) (hok : PdbBlockOk b) (rest : List Line) (ln : Int) :
    ∃ ln', pdbLoadOne pa pb ⟨pdbBlockLines fa fb b ++ rest, ln⟩ = .ok (pdbBlockFrame b) ⟨rest, ln'⟩ :=
  pdb_block_law pa fa pb fb ha hb b hok rest ln

/-- the same for a frame written by `dump_one`, multi-line title and compound included -/
theorem pdb_prefix_law (ha : ∀ a, pa (pATOM ++ [' ', ' '] ++ fa a) = some a)
    (hb : ∀ b, pb (pCONECT ++ fb b) = some b) (o : PdbObj α β) (hd : PdbDom o) (rest : List Line) (ln : Int) :
    ∃ ln', pdbLoadOne pa pb ⟨pdbDumpOne fa fb o ++ rest, ln⟩ = .ok (pdbNorm o) ⟨rest, ln'⟩ := by
  have := pdb_block_law pa fa pb fb ha hb (pdbBlockOfObj o) (pdbBlockOk_ofObj o hd) rest ln
  rwa [pdbBlockLines_ofObj, pdbBlockFrame_ofObj] at this

/-- **round trip for PDB frames in general form** (written by `dump_one`, or MODEL/ENDMDL frames of other
    programs), any number of them, followed by records that carry no atom (END, MASTER, blank lines): after the
    last frame `load_one` raises "Molecule could not be read" and — a frame having been read — the loop returns. -/
theorem pdb_blocks_roundtrip (ha : ∀ a, pa (pATOM ++ [' ', ' '] ++ fa a) = some a)
    (hb : ∀ b, pb (pCONECT ++ fb b) = some b) (bs : List (PdbBlock α β)) (hne : bs ≠ [])
    (hd : ∀ b ∈ bs, PdbBlockOk b) (trail : List Line)
    (htr : ∀ l ∈ trail, startsWith pATOM l = false ∧ startsWith pHETATM l = false ∧ startsWith pCONECT l = false) :
    loadMany pdbSkel (pdbLoadOne pa pb) (bs.flatMap (pdbBlockLines fa fb) ++ trail) =
      ⟨bs.map pdbBlockFrame, .done⟩ := by
  have htail : ∀ fuel ln, fuel ≥ trail.length + 1 →
      runLoop pdbSkel (pdbLoadOne pa pb) fuel false ⟨trail, ln⟩ = (([] : List (PdbFrame α β)), GenFinal.ret) := by
    intro fuel ln hf
    obtain ⟨ln', hk⟩ := pdbGo_no_atoms pa pb trail ln ⟨[], [], [], [], false⟩ htr
    cases fuel with
    | zero => simp at hf
    | succ fuel => simp [runLoop, pdbSkel, runPeek, pdbLoadOne, hk, findHandler]
  obtain ⟨r, hr, he⟩ := runLoop_blocks pdbSkel (pdbLoadOne pa pb) (pdbBlockLines fa fb) pdbBlockFrame
    PdbBlockOk (pdbBlockLines_ne fa fb)
    (fun b hb' rest ln first => pdb_step pa fa pb fb ha hb b hb' rest ln first)
    trail (fun r => r = (([] : List (PdbFrame α β)), GenFinal.ret)) htail bs _ 0 true hd (Or.inl hne)
    (Nat.le_refl _)
  subst hr
  simpa [apiFinal] using loadMany_of_runLoop _ _ _ _ _ he

/-- **round trip of dump_many / load_many for PDB, any number of frames**, multi-line titles and compounds
    included.  Domain `PdbDom`: at least one atom per frame, fewer than 99 999 title lines and 9 999 compound lines. -/
theorem pdb_roundtrip (ha : ∀ a, pa (pATOM ++ [' ', ' '] ++ fa a) = some a)
    (hb : ∀ b, pb (pCONECT ++ fb b) = some b) (os : List (PdbObj α β)) (hne : os ≠ [])
    (hd : ∀ o ∈ os, PdbDom o) :
    loadMany pdbSkel (pdbLoadOne pa pb) (os.flatMap (pdbDumpOne fa fb)) = ⟨os.map pdbNorm, .done⟩ := by
  have := pdb_blocks_roundtrip pa fa pb fb ha hb (os.map pdbBlockOfObj) (by simpa using hne)
    (by intro b hb'; simp at hb'; obtain ⟨o, ho, rfl⟩ := hb'; exact pdbBlockOk_ofObj o (hd o ho)) [] (by simp)
  rw [pdb_flatMap_ofObj, pdb_map_ofObj, List.append_nil] at this
  exact this

/-- **malformed_reached** for PDB: after complete frames, lines on which `load_one` raises anything but its own
    "Molecule could not be read" (an unreadable ATOM/HETATM/CONECT record) end the sequence with LoadError after
    exactly the complete frames. -/
theorem pdb_malformed_reached (ha : ∀ a, pa (pATOM ++ [' ', ' '] ++ fa a) = some a)
    (hb : ∀ b, pb (pCONECT ++ fb b) = some b) (bs : List (PdbBlock α β)) (hd : ∀ b ∈ bs, PdbBlockOk b)
    (bad : List Line) (hbad : ∀ ln, ∃ s, pdbLoadOne pa pb ⟨bad, ln⟩ = .raise .other s) :
    ∃ ln, loadMany pdbSkel (pdbLoadOne pa pb) (bs.flatMap (pdbBlockLines fa fb) ++ bad) =
      ⟨bs.map pdbBlockFrame, .loadError ln⟩ := by
  have htail : ∀ fuel ln first, fuel ≥ bad.length + 1 →
      EndsRaised (runLoop pdbSkel (pdbLoadOne pa pb) fuel first ⟨bad, ln⟩) := by
    intro fuel ln first hfu
    obtain ⟨s, hst⟩ := hbad ln
    cases fuel with
    | zero => simp at hfu
    | succ fuel =>
      exact endsRaised_of (e := .other) (s := s) (by simp [runLoop, pdbSkel, runPeek, hst, findHandler])
  obtain ⟨r, ⟨hr1, e, s, hr2⟩, he⟩ := runLoop_blocks_any pdbSkel (pdbLoadOne pa pb) (pdbBlockLines fa fb)
    pdbBlockFrame PdbBlockOk (pdbBlockLines_ne fa fb)
    (fun b hb' rest ln first => pdb_step pa fa pb fb ha hb b hb' rest ln first)
    bad EndsRaised htail bs _ 0 true hd (Nat.le_refl _)
  refine ⟨s.lineno, ?_⟩
  have := loadMany_of_runLoop _ _ _ _ _ he
  simpa [hr1, hr2, apiFinal] using this

/-- a frame as other programs write trajectories: `MODEL n`, ATOM records, CONECT records, `ENDMDL` -/
def pdbModelBlock (f : Line × List α × List β) : PdbBlock α β :=
  ⟨[], [], [], [f.1], f.2.1, f.2.2, ['M', 'D', 'L']⟩

/-- **MODEL / ENDMDL trajectories** (the harness's renderer; the library writes END-terminated frames only): every
    model is one frame, the `END` after the last `ENDMDL` is absorbed by the tolerant end of the loop. -/
theorem pdb_models_roundtrip (ha : ∀ a, pa (pATOM ++ [' ', ' '] ++ fa a) = some a)
    (hb : ∀ b, pb (pCONECT ++ fb b) = some b) (fs : List (Line × List α × List β)) (hne : fs ≠ [])
    (hd : ∀ f ∈ fs, pdbSkip f.1 = true ∧ f.2.1 ≠ []) :
    loadMany pdbSkel (pdbLoadOne pa pb) (fs.flatMap (fun f => pdbBlockLines fa fb (pdbModelBlock f)) ++ [pEND]) =
      ⟨fs.map (fun f => ⟨[], [], f.2.1, f.2.2, true⟩), .done⟩ := by
  have := pdb_blocks_roundtrip pa fa pb fb ha hb (fs.map pdbModelBlock) (by simpa using hne)
    (by
      intro b hb'
      simp only [List.mem_map] at hb'
      obtain ⟨f, hf, rfl⟩ := hb'
      obtain ⟨h1, h2⟩ := hd f hf
      exact ⟨h2, by simp [pdbModelBlock], by simpa [pdbModelBlock] using h1, by simp [pdbModelBlock],
        by simp [pdbModelBlock]⟩)
    [pEND] (by decide)
  simpa [List.flatMap_map, List.map_map, Function.comp_def, pdbBlockFrame, pdbModelBlock] using this

/-- the loop yields one more frame, flagged with the "END is not found" warning, and ends normally -/
def PartialEnd (r : List (PdbFrame α β) × GenFinal) : Prop := ∃ g, g.endReached = false ∧ r = ([g], .ret)

/-- **truncated_last** for PDB: a written file cut inside its last frame, after at least one of its ATOM records
    and before its END record: the complete frames are yielded, then the partial frame WITH the LoadWarning "The
    END is not found" (`endReached = false`) — never without it. -/
theorem pdb_truncated_last (ha : ∀ a, pa (pATOM ++ [' ', ' '] ++ fa a) = some a)
    (hb : ∀ b, pb (pCONECT ++ fb b) = some b) (os : List (PdbObj α β)) (hd : ∀ o ∈ os, PdbDom o)
    (o : PdbObj α β) (hat : o.atoms ≠ []) (m : Nat) (hlo : (pdbHeader o).length < m)
    (hm : m < (pdbDumpOne fa fb o).length) :
    ∃ g, g.endReached = false ∧
      loadMany pdbSkel (pdbLoadOne pa pb) (os.flatMap (pdbDumpOne fa fb) ++ (pdbDumpOne fa fb o).take m) =
        ⟨os.map pdbNorm ++ [g], .done⟩ := by
  have htail : ∀ fuel ln first, fuel ≥ ((pdbDumpOne fa fb o).take m).length + 1 →
      PartialEnd
        (runLoop pdbSkel (pdbLoadOne pa pb) fuel first ⟨(pdbDumpOne fa fb o).take m, ln⟩) := by
    intro fuel ln first hfu
    obtain ⟨g, ln', hl, hg⟩ := pdb_cut_partial pa fa pb fb ha hb o hat m hlo hm ln
    have hlen : ((pdbDumpOne fa fb o).take m).length ≥ 1 := by
      rw [List.length_take]; omega
    obtain ⟨k, rfl⟩ : ∃ k, fuel = k + 2 := ⟨fuel - 2, by omega⟩
    refine ⟨g, hg, ?_⟩
    have h2 : pdbLoadOne pa pb ⟨[], ln'⟩ = .raise .loadError ⟨[], ln' + 1⟩ := by simp [pdbLoadOne, pdbGo]
    simp [runLoop, pdbSkel, runPeek, hl, h2, findHandler]
  obtain ⟨r, ⟨g, hg, hr⟩, he⟩ := runLoop_blocks_any pdbSkel (pdbLoadOne pa pb) (pdbBlockLines fa fb)
    pdbBlockFrame PdbBlockOk (pdbBlockLines_ne fa fb)
    (fun b hb' rest ln first => pdb_step pa fa pb fb ha hb b hb' rest ln first)
    ((pdbDumpOne fa fb o).take m) PartialEnd htail (os.map pdbBlockOfObj) _ 0 true
    (by intro b hb'; simp at hb'; obtain ⟨o', ho, rfl⟩ := hb'; exact pdbBlockOk_ofObj o' (hd o' ho))
    (Nat.le_refl _)
  refine ⟨g, hg, ?_⟩
  subst hr
  rw [pdb_flatMap_ofObj, pdb_map_ofObj] at he
  simpa [apiFinal] using loadMany_of_runLoop _ _ _ _ _ he

/-- a written file cut inside the TITLE / COMPND records of its last frame, after at least one complete frame: no
    atom record of the last frame is in the file; the sequence ends normally after the complete frames -/
theorem pdb_cut_in_header (ha : ∀ a, pa (pATOM ++ [' ', ' '] ++ fa a) = some a)
    (hb : ∀ b, pb (pCONECT ++ fb b) = some b) (os : List (PdbObj α β)) (hne : os ≠ []) (hd : ∀ o ∈ os, PdbDom o)
    (o : PdbObj α β) (m : Nat) (hm : m ≤ (pdbHeader o).length) :
    loadMany pdbSkel (pdbLoadOne pa pb) (os.flatMap (pdbDumpOne fa fb) ++ (pdbDumpOne fa fb o).take m) =
      ⟨os.map pdbNorm, .done⟩ := by
  have := pdb_blocks_roundtrip pa fa pb fb ha hb (os.map pdbBlockOfObj) (by simpa using hne)
    (by intro b hb'; simp at hb'; obtain ⟨o', ho, rfl⟩ := hb'; exact pdbBlockOk_ofObj o' (hd o' ho))
    ((pdbDumpOne fa fb o).take m)
    (by
      intro l hl
      rw [pdbDumpOne_split, List.take_append_of_le_length hm] at hl
      rcases pdbHeader_mem o l (List.mem_of_mem_take hl) with ⟨r, rfl⟩ | ⟨r, rfl⟩ <;>
        simp [startsWith, pTITLE, pCOMPND, pATOM, pHETATM, pCONECT, List.isPrefixOf])
  rwa [pdb_flatMap_ofObj, pdb_map_ofObj] at this

/-- a file without any ATOM/HETATM record is rejected (before commit a119425 it yielded zero frames silently) -/
theorem pdb_no_molecule_rejected (ls : List Line)
    (h : ∀ l ∈ ls, startsWith pATOM l = false ∧ startsWith pHETATM l = false ∧ startsWith pCONECT l = false) :
    ∃ ln, loadMany pdbSkel (pdbLoadOne pa pb) ls = ⟨[], .loadError ln⟩ := by
  have key : ∀ (t : List Line) (ln : Int) (acc : PdbFrame α β),
      (∀ l ∈ t, startsWith pATOM l = false ∧ startsWith pHETATM l = false ∧ startsWith pCONECT l = false) →
      ∃ ln', pdbGo pa pb t ln acc false = .raise .loadError ⟨[], ln'⟩ := by
    intro t
    induction t with
    | nil => intro ln acc _; exact ⟨ln + 1, by simp [pdbGo]⟩
    | cons l t ih =>
      intro ln acc hl
      obtain ⟨h1, h2, h3⟩ := hl l (by simp)
      have ht := fun x hx => hl x (List.mem_cons_of_mem l hx)
      unfold pdbGo
      split
      · exact ih _ _ ht
      · split
        · exact ih _ _ ht
        · simp [h1, h2, h3]
          exact ih _ _ ht
  obtain ⟨ln', hk⟩ := key ls 0 ⟨[], [], [], [], false⟩ h
  refine ⟨ln', ?_⟩
  simp [loadMany, Lit.ofLines, runLoop, pdbSkel, runPeek, pdbLoadOne, hk, findHandler, apiFinal]

/-- non-vacuity: a two-frame file with a three-line title, a two-line compound, CONECT records (kernel evaluation
    of the same model; `TITLE     2 ` continuation records are read back without their number) -/
example : loadMany pdbSkel (pdbLoadOne (fun l => some l) (fun l => some l))
    ([(⟨['a', '\n', ' ', 'b', '\n', 'c'], some ['x', '\n', 'y'], [['p'], ['q']], [['1']]⟩ : PdbObj Line Line),
      ⟨[], none, [['r']], []⟩].flatMap (pdbDumpOne id id)) =
    ⟨[⟨[['a'], ['b'], ['c']], [['x'], ['y']], [pATOM ++ [' ', ' ', 'p'], pATOM ++ [' ', ' ', 'q']], [pCONECT ++ ['1']], true⟩,
      ⟨[defaultTitle], [], [pATOM ++ [' ', ' ', 'r']], [], true⟩], .done⟩ := by decide
end pdb

/-! ## Witnesses: the loops before the repairs (commits 634dee3 … 78fd620) violated the property; the loops of
    the tree do not.  All by kernel evaluation of the same executable model, every line accepted as a record. -/

section witnesses
def anyLine : Line → Option Line := fun l => some l

/-- xyz, second frame cut after its title: the old loop ended silently after one frame -/
theorem xyz_old_truncated_violated :
    loadMany xyzSkelOld (xyzLoadOne anyLine) [['2'], ['A'], ['H'], ['H'], ['1'], ['B']] =
      ⟨[⟨['A'], [['H'], ['H']]⟩], .done⟩ := by decide
theorem xyz_truncated_now :
    loadMany xyzSkel (xyzLoadOne anyLine) [['2'], ['A'], ['H'], ['H'], ['1'], ['B']] =
      ⟨[⟨['A'], [['H'], ['H']]⟩], .loadError 7⟩ := by decide

/-- xyz, a blank line between two complete frames: the old loop dropped everything after it -/
theorem xyz_old_blank_between_violated :
    loadMany xyzSkelOld (xyzLoadOne anyLine) [['1'], ['A'], ['H'], [], ['1'], ['B'], ['H']] =
      ⟨[⟨['A'], [['H']]⟩], .done⟩ := by decide
theorem xyz_blank_between_now :
    loadMany xyzSkel (xyzLoadOne anyLine) [['1'], ['A'], ['H'], [], ['1'], ['B'], ['H']] =
      ⟨[⟨['A'], [['H']]⟩, ⟨['B'], [['H']]⟩], .done⟩ := by decide

/-- sdf, second molecule cut inside its header -/
theorem sdf_old_truncated_violated :
    loadMany sdfSkelOld (sdfLoadOne anyLine anyLine)
      [['A'], [], [], "  1  0 V2000".toList, ['H'], sdfEnd, ['B'], []] =
      ⟨[⟨['A'], [['H']], []⟩], .done⟩ := by decide
theorem sdf_truncated_now :
    loadMany sdfSkel (sdfLoadOne anyLine anyLine)
      [['A'], [], [], "  1  0 V2000".toList, ['H'], sdfEnd, ['B'], []] =
      ⟨[⟨['A'], [['H']], []⟩], .loadError 9⟩ := by decide

/-- pdb, a file without any molecule: the old loop yielded nothing and ended normally -/
theorem pdb_old_garbage_violated :
    loadMany pdbSkelOld (pdbLoadOne anyLine anyLine) [['h', 'i'], ['y', 'o']] = ⟨[], .done⟩ := by decide
theorem pdb_garbage_now :
    loadMany pdbSkel (pdbLoadOne anyLine anyLine) [['h', 'i'], ['y', 'o']] = ⟨[], .loadError 3⟩ := by decide

/-- mol2, second molecule cut inside its atom records: the old `except (StopIteration, LoadError): return` -/
theorem mol2_old_truncated_violated :
    loadMany pdbSkelOld (mol2LoadOne false anyLine anyLine)
      [tMOLECULE, ['A'], ['1', ' ', '0'], tATOM, ['x'], tMOLECULE, ['B'], ['2', ' ', '0'], tATOM, ['y']] =
      ⟨[⟨['A'], [['x']], none⟩], .done⟩ := by decide
theorem mol2_truncated_now :
    loadMany mol2Skel (mol2LoadOne true anyLine anyLine)
      [tMOLECULE, ['A'], ['1', ' ', '0'], tATOM, ['x'], tMOLECULE, ['B'], ['2', ' ', '0'], tATOM, ['y']] =
      ⟨[⟨['A'], [['x']], none⟩], .loadError 11⟩ := by decide

/-- mol2, the announced BOND section cut off: without the check a frame without bonds was yielded silently -/
theorem mol2_old_bond_section_violated :
    loadMany mol2Skel (mol2LoadOne false anyLine anyLine) [tMOLECULE, ['A'], ['1', ' ', '1'], tATOM, ['x']] =
      ⟨[⟨['A'], [['x']], none⟩], .done⟩ := by decide
theorem mol2_bond_section_now :
    loadMany mol2Skel (mol2LoadOne true anyLine anyLine) [tMOLECULE, ['A'], ['1', ' ', '1'], tATOM, ['x']] =
      ⟨[], .loadError 6⟩ := by decide

/-- DOMAIN BOUNDARY of the round trip (current tree): a title containing a newline is printed as several lines
    and mis-frames the file — one frame written, two different frames read, no error. -/
theorem xyz_multiline_title_misframed_violated :
    loadMany xyzSkel (xyzLoadOne anyLine)
      (xyzDumpOne natDigits id (⟨['T', '\n', 'H', '\n', '0'], [['X']]⟩ : XyzFrame Line)) =
      ⟨[⟨['T'], [['H']]⟩, ⟨['X'], []⟩], .done⟩ := by decide

/-- DOMAIN BOUNDARY (current tree): a PDB frame without atoms has no record the reader recognises as a frame; it
    merges into the next one (two frames written, one read, carrying both titles). -/
theorem pdb_empty_frame_merged_violated :
    loadMany pdbSkel (pdbLoadOne anyLine anyLine)
      ([(⟨['A'], none, [], []⟩ : PdbObj Line Line), ⟨['B'], none, [['x']], []⟩].flatMap (pdbDumpOne id id)) =
      ⟨[⟨[['A'], ['B']], [], [pATOM ++ [' ', ' ', 'x']], [], true⟩], .done⟩ := by decide
end witnesses

/-! ## MOL2 (writer + reader)

   `mol2.load_one` does not stop at the end of its own records: its section loop reads on until the next
   `@<TRIPOS>MOLECULE` record (pushed back) or the end of the file, so the seven comment lines that `dump_one` prints
   in front of the NEXT frame are consumed by the PREVIOUS frame's `load_one`.  The blocks the reader consumes are
   therefore not the blocks the writer wrote, and the generic block lemma does not apply.  The invariant used instead
   (`Lemmas/Traj.lean`, `mol2_runLoop_frames`): the pending lines are
     comment lines ++ MOLECULE record ++ rest of a written frame ++ complete written frames ++ comment lines ++ tail,
   where the tail is empty or starts with a MOLECULE record; `load_one` from a MOLECULE record returns `mol2Norm f`
   and leaves exactly the lines from the next MOLECULE record on (`mol2_prefix_law`).  A line is a comment line
   (`inert`) when it is empty or its first word is none of the three record tags; both the scan of `load_many` and
   the section loop of `load_one` pass over such lines. -/

section mol2
variable {α β : Type} (fc : Nat → Nat → Line) (pa : Line → Option α) (fa : α → Line)
  (pb : Line → Option β) (fb : β → Line)

/-- **prefix-consumption law of MOL2** in the form the format allows: from the MOLECULE record of a written frame,
    followed by comment lines and then by nothing or by a further MOLECULE record, `load_one` returns the frame and
    leaves exactly what starts at that further record.  Titles are taken by position: a title that reads
    `@<TRIPOS>MOLECULE`, `@<TRIPOS>ATOM` or is blank is inside the domain; the domain excludes multi-line titles. -/
theorem mol2_prefix_law (hc : Mol2CountsOk fc) (ha : ∀ a, pa (fa a) = some a) (hb : ∀ b, pb (fb b) = some b)
    (f : Mol2Frame α β) (hnl : '\n' ∉ f.title) (sk : List Line) (hsk : ∀ l ∈ sk, inert l = true)
    (tl : List Line) (htl : MolStart tl) (ln : Int) :
    ∃ ln', mol2LoadOne true pa pb ⟨tMOLECULE :: (mol2Body fc fa fb f ++ (sk ++ tl)), ln⟩ =
      .ok (mol2Norm f) ⟨tl, ln'⟩ :=
  mol2_loadOne_frame pa pb fc fa fb hc ha hb f hnl sk hsk tl htl ln

/-- a written frame is seven comment lines, the MOLECULE record line and the body -/
theorem mol2_dump_shape (f : Mol2Frame α β) :
    mol2DumpOne fc fa fb f = mol2Pre ++ tMOLECULE :: mol2Body fc fa fb f := mol2DumpOne_eq fc fa fb f

/-- **round trip, any number of frames**: the file written by dump_many (optionally followed by comment or blank
    lines) reads back as exactly the frames, in order, each as its single-frame file would load. -/
theorem mol2_roundtrip (hc : Mol2CountsOk fc) (ha : ∀ a, pa (fa a) = some a) (hb : ∀ b, pb (fb b) = some b)
    (fs : List (Mol2Frame α β)) (hne : fs ≠ []) (hnl : ∀ f ∈ fs, '\n' ∉ f.title)
    (trail : List Line) (htr : ∀ l ∈ trail, inert l = true) :
    loadMany mol2Skel (mol2LoadOne true pa pb) (fs.flatMap (mol2DumpOne fc fa fb) ++ trail) =
      ⟨fs.map mol2Norm, .done⟩ := by
  have hemp : fs.isEmpty = false := by cases fs with | nil => exact absurd rfl hne | cons _ _ => rfl
  obtain ⟨r, hr, he⟩ := mol2_runLoop_file pa pb fc fa fb hc ha hb trail [] htr (Or.inl rfl)
    (fun r => r = (([] : List (Mol2Frame α β)), GenFinal.ret)) fs true
    (fun fuel ln hf => by
      cases fuel with
      | zero => simp at hf
      | succ fuel => simp [runLoop, mol2Skel, runPeek, scanMolGo, hemp])
    hnl ((fs.flatMap (mol2DumpOne fc fa fb) ++ trail).length + 1) (by simp) 0
  subst hr
  have := loadMany_of_runLoop mol2Skel (mol2LoadOne true pa pb) (fs.flatMap (mol2DumpOne fc fa fb) ++ trail) _ _
    (by simpa using he)
  simpa [apiFinal] using this

/-- **malformed_reached**: complete frames (also none), comment lines, then a MOLECULE record on which `load_one`
    raises (whatever the exception: unreadable counts, an unparsable atom or bond record, the end of the file inside
    the records, an announced but absent BOND section): exactly the complete frames are yielded, then LoadError —
    the bad frame is neither skipped nor does it end the sequence silently. -/
theorem mol2_malformed_reached (hc : Mol2CountsOk fc) (ha : ∀ a, pa (fa a) = some a) (hb : ∀ b, pb (fb b) = some b)
    (fs : List (Mol2Frame α β)) (hnl : ∀ f ∈ fs, '\n' ∉ f.title)
    (sk : List Line) (hsk : ∀ l ∈ sk, inert l = true) (m : Line) (t : List Line)
    (hm : (words m).head? = some tMOLECULE)
    (hbad : ∀ ln, ∃ e s, mol2LoadOne true pa pb ⟨m :: t, ln⟩ = .raise e s) :
    ∃ ln, loadMany mol2Skel (mol2LoadOne true pa pb) (fs.flatMap (mol2DumpOne fc fa fb) ++ (sk ++ m :: t)) =
      ⟨fs.map mol2Norm, .loadError ln⟩ := by
  obtain ⟨r, ⟨hr1, e, s, hr2⟩, he⟩ := mol2_runLoop_file pa pb fc fa fb hc ha hb sk (m :: t) hsk
    (Or.inr ⟨m, t, rfl, hm⟩) EndsRaised fs true
    (fun fuel ln hf => by
      obtain ⟨e, s, hst⟩ := hbad ln
      cases fuel with
      | zero => simp at hf
      | succ fuel =>
        obtain ⟨e', he'⟩ := runLoop_raise .scanMolecule (mol2LoadOne true pa pb) fuel (true && fs.isEmpty)
          ⟨m :: t, ln⟩ ⟨m :: t, ln⟩ s e (by simp [runPeek, scanMolGo, hm]) hst
        exact endsRaised_of he')
    hnl _ (Nat.le_refl _) 0
  refine ⟨s.lineno, ?_⟩
  have := loadMany_of_runLoop _ _ _ _ _ he
  simpa [hr1, hr2, apiFinal] using this

/-- a written frame cut after `m ≥ 8` lines is the comment lines, the MOLECULE record and a prefix of the body -/
theorem mol2_dump_take (f : Mol2Frame α β) (m : Nat) (hm : 8 ≤ m) :
    (mol2DumpOne fc fa fb f).take m = mol2Pre ++ tMOLECULE :: (mol2Body fc fa fb f).take (m - 8) := by
  obtain ⟨k, rfl⟩ : ∃ k, m = k + 8 := ⟨m - 8, by omega⟩
  rw [mol2DumpOne_eq]
  simp [mol2Pre]

/-- **truncated_last**: a file cut inside its last frame — after the frame's MOLECULE record line (`8 ≤ m`) and
    before its last line — after any number of complete frames (also none): exactly the complete frames are
    yielded, then LoadError; never a partial frame, never a silent end.  The one cut excluded by `hex` removes only
    the header line of an EMPTY bond section: what is left is byte for byte a complete written file
    (`mol2_cut_empty_bond_section`), to which `mol2_roundtrip` applies. -/
theorem mol2_truncated_last (hc : Mol2CountsOk fc) (ha : ∀ a, pa (fa a) = some a) (hb : ∀ b, pb (fb b) = some b)
    (fs : List (Mol2Frame α β)) (hnl : ∀ f ∈ fs, '\n' ∉ f.title) (f : Mol2Frame α β) (hf : '\n' ∉ f.title)
    (m : Nat) (hm8 : 8 ≤ m) (hm : m < (mol2DumpOne fc fa fb f).length)
    (hex : ¬ (f.bonds = some [] ∧ m + 1 = (mol2DumpOne fc fa fb f).length)) :
    ∃ ln, loadMany mol2Skel (mol2LoadOne true pa pb)
        (fs.flatMap (mol2DumpOne fc fa fb) ++ (mol2DumpOne fc fa fb f).take m) = ⟨fs.map mol2Norm, .loadError ln⟩ := by
  rw [mol2_dump_take fc fa fb f m hm8]
  have hlen : (mol2DumpOne fc fa fb f).length = (mol2Body fc fa fb f).length + 8 := by
    rw [mol2DumpOne_eq]; simp [mol2Pre]
  rw [hlen] at hm hex
  exact mol2_malformed_reached fc pa fa pb fb hc ha hb fs hnl mol2Pre mol2Pre_inert tMOLECULE _
    (by rw [words_tMOLECULE]; rfl)
    (fun ln => mol2_cut_raises pa pb fc fa fb hc ha hb f hf (m - 8) (by omega)
      (fun h => hex ⟨h.1, by omega⟩) ln)

/-- a cut inside the seven comment lines in front of the last frame (`m ≤ 7`), after at least one complete frame:
    nothing of the last frame's data is in the file, the sequence ends normally after the complete frames -/
theorem mol2_cut_in_comment_lines (hc : Mol2CountsOk fc) (ha : ∀ a, pa (fa a) = some a)
    (hb : ∀ b, pb (fb b) = some b) (fs : List (Mol2Frame α β)) (hne : fs ≠ []) (hnl : ∀ f ∈ fs, '\n' ∉ f.title)
    (f : Mol2Frame α β) (m : Nat) (hm : m ≤ 7) :
    loadMany mol2Skel (mol2LoadOne true pa pb)
        (fs.flatMap (mol2DumpOne fc fa fb) ++ (mol2DumpOne fc fa fb f).take m) = ⟨fs.map mol2Norm, .done⟩ := by
  apply mol2_roundtrip fc pa fa pb fb hc ha hb fs hne hnl
  intro l hl
  have hz : m - mol2Pre.length = 0 := by simp [mol2Pre]; omega
  rw [mol2DumpOne_eq, List.take_append, hz, List.take_zero, List.append_nil] at hl
  exact mol2Pre_inert l (List.mem_of_mem_take hl)

/-- the cut excluded in `mol2_truncated_last`: without the header line of its empty bond section the frame is the
    written form of the same frame without bond section — a complete file -/
theorem mol2_cut_empty_bond_section (f : Mol2Frame α β) (h : f.bonds = some []) :
    (mol2DumpOne fc fa fb f).take ((mol2DumpOne fc fa fb f).length - 1) =
      mol2DumpOne fc fa fb { f with bonds := none } := by
  have hlen : (mol2DumpOne fc fa fb f).length = (mol2Body fc fa fb f).length + 8 := by
    rw [mol2DumpOne_eq]; simp [mol2Pre]
  have hpos : 1 ≤ (mol2Body fc fa fb f).length := by
    obtain ⟨t, a, b⟩ := f; simp [mol2Body]; omega
  rw [mol2_dump_take fc fa fb f _ (by omega), hlen, mol2DumpOne_eq,
    show (mol2Body fc fa fb f).length + 8 - 1 - 8 = (mol2Body fc fa fb f).length - 1 by omega,
    mol2Body_cut_empty_bonds fc fa fb f h]

/-! concrete sequences by kernel evaluation of the same model (non-vacuity: every hypothesis discharged):
    separator-looking titles, with / without / empty bond sections, and every cut of a two-frame file -/

def cnt2 (na nb : Nat) : Line := natDigits na ++ [' '] ++ natDigits nb

def mA : Mol2Frame Line Line := ⟨tMOLECULE, [['x']], none⟩                      -- title looks like a record
def mB : Mol2Frame Line Line := ⟨[], [['y'], ['z']], some [['b']]⟩              -- no title, one bond
def mC : Mol2Frame Line Line := ⟨[' ', 'E', 'N', 'D', ' '], [['w']], some []⟩  -- padded title, empty bond section

theorem mol2_roundtrip_examples :
    loadMany mol2Skel (mol2LoadOne true anyLine anyLine) ([mA, mB, mC].flatMap (mol2DumpOne cnt2 id id)) =
      ⟨[mA, mB, mC].map mol2Norm, .done⟩ ∧
    loadMany mol2Skel (mol2LoadOne true anyLine anyLine) ([mB].flatMap (mol2DumpOne cnt2 id id)) =
      ⟨[mol2Norm mB], .done⟩ ∧
    loadMany mol2Skel (mol2LoadOne true anyLine anyLine) ([mC, mC, mA, mB].flatMap (mol2DumpOne cnt2 id id)) =
      ⟨[mC, mC, mA, mB].map mol2Norm, .done⟩ := by decide

/-- every cut of the two-frame file `[mA, mB]`: the complete frames, then either a clean end (cut before the next
    MOLECULE record or after the last record) or LoadError — never a silent short or partial sequence -/
theorem mol2_truncation_examples :
    (List.range 28).all (fun k =>
      let o := loadMany mol2Skel (mol2LoadOne true anyLine anyLine)
        (([mA, mB].flatMap (mol2DumpOne cnt2 id id)).take k)
      if k < 8 then o.frames = [] ∧ o.final ≠ .done            -- no molecule yet: LoadError
      else if k < 12 then o.frames = [] ∧ o.final ≠ .done      -- inside the first molecule
      else if k < 20 then o = ⟨[mol2Norm mA], .done⟩           -- first complete, second not started
      else if k < 27 then o.frames = [mol2Norm mA] ∧ o.final ≠ .done   -- inside the second molecule
      else o = ⟨[mol2Norm mA, mol2Norm mB], .done⟩) = true := by decide

/-- the `load_many` loop of mol2 never ends silently on an exception of `load_one` -/
theorem mol2_loop_never_swallows {α β : Type} (pa : Line → Option α) (pb : Line → Option β) (fuel : Nat)
    (first : Bool) (s s' s'' : Lit) (e : Exc) (hp : runPeek .scanMolecule first s = .go s')
    (hl : mol2LoadOne true pa pb s' = .raise e s'') :
    ∃ e', runLoop mol2Skel (mol2LoadOne true pa pb) (fuel + 1) first s = ([], .raised e' s'') :=
  runLoop_raise .scanMolecule _ fuel first s s' s'' e hp hl

/-- a file without any MOLECULE record is rejected -/
theorem mol2_no_molecule_rejected {α β : Type} (pa : Line → Option α) (pb : Line → Option β) (ls : List Line)
    (h : ∀ l ∈ ls, (words l).head? ≠ some tMOLECULE) :
    ∃ ln, loadMany mol2Skel (mol2LoadOne true pa pb) ls = ⟨[], .loadError ln⟩ := by
  have key : ∀ (t : List Line) (ln : Int), (∀ l ∈ t, (words l).head? ≠ some tMOLECULE) →
      ∃ ln', scanMolGo true t ln = .eofErr ⟨[], ln'⟩ := by
    intro t
    induction t with
    | nil => intro ln _; exact ⟨ln + 1, by simp [scanMolGo]⟩
    | cons l t ih =>
      intro ln hl
      obtain ⟨ln', h'⟩ := ih (ln + 1) (fun x hx => hl x (List.mem_cons_of_mem l hx))
      exact ⟨ln', by simp [scanMolGo, hl l (by simp), h']⟩
  obtain ⟨ln', hk⟩ := key ls 0 h
  exact ⟨ln', by simp [loadMany, Lit.ofLines, runLoop, mol2Skel, runPeek, hk, apiFinal]⟩

/-- the library's counts line `f"{natom:5d} {nbonds:6d} {0:6d} {0:6d}"` at sample values satisfies `Mol2CountsOk` -/
example : words ("    3      2      0      0".toList) = [['3'], ['2'], ['0'], ['0']] ∧
    pyInt ['3'] = some 3 ∧ pyInt ['2'] = some 2 := by decide
end mol2

/-! ## FCHK: point / step bookkeeping -/

theorem fchkSteps_spec (ip np len : Nat) (w : Bool) (t : FchkTag) (ht : t ∈ fchkSteps ip np len w) :
    t.ipoint = ip ∧ t.npoint = np ∧ t.nstep = len ∧ t.istep < len ∧ t.energyIx = 2 * t.istep ∧
      t.geomIx = t.istep := by
  simp only [fchkSteps, List.mem_map, List.mem_range] at ht
  obtain ⟨i, hi, rfl⟩ := ht
  simp [hi]

/-- every yielded frame carries consistent counters: `istep < nstep`, `npoint` is the number of points,
    `ipoint` is the index of its point, the energy is entry `2*istep` and the geometry block `istep` of its point;
    and the frames of a point are exactly `istep = 0 … nstep-1` in order (`fchkSteps`), points in file order. -/
theorem fchk_counters (natom np : Nat) :
    ∀ (pts : List (Nat × Option FchkPoint)) (i : Nat) (t : FchkTag), t ∈ (fchkGo natom np pts i).1 →
      t.npoint = np ∧ i ≤ t.ipoint ∧ t.ipoint < i + pts.length ∧ t.istep < t.nstep ∧
        t.energyIx = 2 * t.istep ∧ t.geomIx = t.istep
  | [], _, t, ht => by simp [fchkGo] at ht
  | (nstep, p) :: pts, i, t, ht => by
    unfold fchkGo at ht
    split at ht
    · simp at ht
    · rename_i len _
      simp only [List.mem_append] at ht
      cases ht with
      | inl h1 =>
        obtain ⟨a, b, c, d, e, f⟩ := fchkSteps_spec _ _ _ _ t h1
        simp; omega
      | inr h2 =>
        obtain ⟨a, b, c, d, e, f⟩ := fchk_counters natom np pts (i + 1) t h2
        simp; omega

/-- the number of frames of a file whose points all have consistent arrays is the sum of the trajectory lengths -/
theorem fchk_point_frames (ip np len : Nat) (w : Bool) :
    (fchkSteps ip np len w).map (·.istep) = List.range len := by
  simp [fchkSteps, Function.comp_def]

example : fchkLoadMany 2 [(2, some ⟨4, 12, 12⟩), (1, some ⟨2, 6, 6⟩)] =
    ([⟨0, 2, 0, 2, 0, 0, false⟩, ⟨0, 2, 1, 2, 2, 1, false⟩, ⟨1, 2, 0, 1, 0, 0, false⟩], 0, true) := by decide
/-- inconsistent `Number of geometries`: the frames actually present are yielded, nstep is their number, one warning -/
example : fchkLoadMany 1 [(3, some ⟨4, 6, 6⟩)] =
    ([⟨0, 1, 0, 2, 0, 0, true⟩, ⟨0, 1, 1, 2, 2, 1, true⟩], 1, true) := by decide

/-! ## Non-vacuity of the hypotheses (the concrete printers of the library at sample values) -/

/-- `print(natom)` / `int(line)` -/
example : pyInt (natDigits 0) = some 0 ∧ pyInt (natDigits 7) = some 7 ∧ pyInt (natDigits 50) = some 50 ∧
    pyInt (natDigits 1234) = some 1234 ∧ isBlank (natDigits 0) = false := by decide

/-- the SDF counts line `f"{natom:3d}{nbond:3d}  0     0  0  0  0  0  0999 V2000"` -/
def sdfCountsLine (na nb : Nat) : Line :=
  rjust 3 (natDigits na) ++ rjust 3 (natDigits nb) ++ "  0     0  0  0  0  0  0999 V2000".toList

example : pyInt ((sdfCountsLine 16 15).take 3) = some 16 ∧ pyInt (((sdfCountsLine 16 15).drop 3).take 3) = some 15 ∧
    lastWordUpper (sdfCountsLine 16 15) = some ['V', '2', '0', '0', '0'] ∧ isBlank (sdfCountsLine 16 15) = false := by
  decide
example : pyInt ((sdfCountsLine 999 0).take 3) = some 999 ∧ pyInt (((sdfCountsLine 999 0).drop 3).take 3) = some 0 := by
  decide
/-- outside the column capacity the hypothesis `SdfCountsOk` fails (1000 atoms are read back as 100) -/
example : pyInt ((sdfCountsLine 1000 0).take 3) = some 100 := by decide

/-- instances of the GRO and extended-XYZ statements by evaluation (titles that look like counts or are blank) -/
example : loadMany groSkel (groLoadOne (fun _ => true) anyLine (fun _ => true))
    ([(⟨['3'], [['a'], ['b']]⟩ : XyzFrame Line), ⟨[], []⟩, ⟨['w', ',', 't', '=', '1'], [['c']]⟩].flatMap
      (groRender natDigits id ['9', ' ', '9', ' ', '9']) ++ [[]]) =
    ⟨[⟨['3'], [['a'], ['b']]⟩, ⟨[], []⟩, ⟨['w'], [['c']]⟩], .done⟩ := by decide
example : loadMany xyzSkel (extLoadOne (fun _ => true) anyLine)
    ([(⟨['2'], [['a'], ['b']]⟩ : XyzFrame Line), ⟨[' ', 'x', ' '], []⟩].flatMap (extRender natDigits id)) =
    ⟨[⟨['2'], [['a'], ['b']]⟩, ⟨['x'], []⟩], .done⟩ := by decide
/-- a GRO file cut inside its second frame at every cut point -/
example : (List.range 4).all (fun k =>
    (loadMany groSkel (groLoadOne (fun _ => true) anyLine (fun _ => true))
      (groRender natDigits id ['9'] (⟨['A'], [['a']]⟩ : XyzFrame Line) ++
        (groRender natDigits id ['9'] (⟨['B'], [['b']]⟩ : XyzFrame Line)).take (k + 1) |>.take (4 + k + 1))).final ≠ .done
      || k == 3) = true := by decide

/-- a complete instance of the XYZ statements with every hypothesis discharged by evaluation -/
example : loadMany xyzSkel (xyzLoadOne anyLine)
    ([(⟨['$', '$', '$', '$'], [['a'], ['b']]⟩ : XyzFrame Line), ⟨[], [['c']]⟩, ⟨['1', '2'], []⟩].flatMap
      (xyzDumpOne natDigits id) ++ [[], [' ']]) =
    ⟨[⟨['$', '$', '$', '$'], [['a'], ['b']]⟩, ⟨defaultTitle, [['c']]⟩, ⟨['1', '2'], []⟩], .done⟩ := by decide

end Iodata.Props.C13
