/- C13 — trajectories keep every frame, in order, each identical to a single load.

   Theorems are about the executable model `Model/Traj.lean` (the definitions the driver runs in the `traj`,
   `trajc`, `dumpm` and `fchkm` streams).  Per-line field parsing is a parameter: `pa`/`pb` parse an atom / bond
   record, `fa`/`fb` print one, with the round-trip hypothesis `pa (fa a) = some a`; the count lines are printed by
   `showNat` / `fc` with the stated parse hypotheses.  -/
import Iodata.Lemmas.Traj
import Iodata.Gen.TrajFlow
namespace Iodata.Props.C13
open Iodata.Traj

/-! ## The model's loops and funnel are the ones found in the source (regenerated each run) -/

/-- xyz.load_many: skip blank lines (end of file = return), `except StopIteration: raise LoadError` around load_one -/
theorem gen_xyz_loop : Iodata.Gen.TrajFlow.xyz = xyzSkel := by decide
theorem gen_extxyz_loop : Iodata.Gen.TrajFlow.extxyz = xyzSkel := by decide
theorem gen_sdf_loop : Iodata.Gen.TrajFlow.sdf = sdfSkel := by decide
theorem gen_gromacs_loop : Iodata.Gen.TrajFlow.gromacs = groSkel := by decide
/-- pdb.load_many: `except LoadError: if nframe == 0: raise; return` -/
theorem gen_pdb_loop : Iodata.Gen.TrajFlow.pdb = pdbSkel := by decide
theorem gen_mol2_loop : Iodata.Gen.TrajFlow.mol2 = mol2Skel := by decide
theorem gen_mol2_bond_check : Iodata.Gen.TrajFlow.mol2BondCheck = true := by decide
/-- api.load_many: `except StopIteration: return / except LoadError: raise / except Exception: raise LoadError` -/
theorem gen_api_load_many : Iodata.Gen.TrajFlow.apiLoadMany = apiHandlersRef := by decide

/-- api.dump_many touches the iterable only through `iter`, one `next` before the first check, and the `for`
    inside the checking generator; `open` comes after the first check; no `list(...)`. -/
theorem gen_api_dump_many : Iodata.Gen.TrajFlow.apiDumpMany =
    ["iter(iter_data)", "next(iter_data)", "check(first)", "prepare(first)", "yield first", "for other in iter_data",
     "check(other)", "yield prepared(other)", "prepare(other)", "open",
     "format.dump_many(f, checking_iterator())"] := by decide

/-- every format's dump_many is `for data in datas: dump_one(f, data)` -/
theorem gen_fmt_dump_many : Iodata.Gen.TrajFlow.fmtDumpMany =
    [("xyz", ["for data in datas:\n    dump_one(f, data, atom_columns)"]),
     ("pdb", ["for data in datas:\n    dump_one(f, data)"]),
     ("mol2", ["for data in datas:\n    dump_one(f, data)"]),
     ("sdf", ["for data in datas:\n    dump_one(f, data)"])] := by decide

/-- the point / step expressions of fchk.load_many that `fchkGo` transcribes -/
theorem gen_fchk_loop : Iodata.Gen.TrajFlow.fchkLoop =
    ["f'7d'", "f'{prefix} {ipoint + 1:7d} Geometries'", "f'{prefix} {ipoint + 1:7d} Gradient at each geome'",
     "f'{prefix} {ipoint + 1:7d} Results for each geome'", "for (ipoint, nstep) in enumerate(nsteps)",
     "for (istep, (energy, recor, atcoords, gradients)) in enumerate(trajectory)", "ipoint=ipoint", "istep=istep",
     "len(trajectory) != nstep", "npoint=len(nsteps)", "nstep=len(trajectory)", "prefix == 'IRC point'",
     "reshape(-1, natom, 3)", "results_geoms[1::2]", "results_geoms[::2]"] := by decide

/-- With the clauses of the tree the api lets nothing but LoadError out, and never turns an exception of the
    format's generator into a silent end: PEP 479 makes an escaping StopIteration a RuntimeError, which the
    `except Exception` clause wraps (the `except StopIteration: return` clause is unreachable for it). -/
theorem api_funnel (g : GenFinal) :
    apiFinalOf apiHandlersRef g = (match apiFinal g with | .done => .done | .loadError ln => .loadError ln) := by
  cases g with
  | ret => rfl
  | raised e s => cases e <;> rfl

/-- an exception of the generator is never swallowed by the api -/
theorem api_never_swallows (e : Exc) (s : Lit) : apiFinal (.raised e s) = .loadError s.lineno := rfl

/-! ## LineIterator -/

/-- `back` pushes on the stack: the pushed line is the next one returned, the line number goes back by one -/
theorem lit_back_next (l : Line) (r : LitRaw) :
    (LitRaw.back l r).next = (some l, { r with lineno := r.lineno - 1 + 1 }) := by
  simp [LitRaw.back, LitRaw.next]

theorem lit_refines_back (l : Line) (r : LitRaw) :
    (LitRaw.back l r).abs = ⟨l :: r.abs.pending, r.abs.lineno - 1⟩ := abs_back l r

theorem lit_refines_next (r : LitRaw) :
    (match r.next with
     | (some l, r') => next r.abs = .ok l r'.abs
     | (none, r') => next r.abs = .raise .stop r'.abs) := abs_next r

/-! ## dump_many: frames in iteration order, lazily, each pulled exactly once -/

/-- the trace for items that all pass the check -/
def restTrace : Nat → Nat → List Ev
  | 0, i => [.pull i, .close]
  | n + 1, i => .pull i :: .check i :: .write i :: restTrace n (i + 1)

theorem dumpRest_valid {F : Type} (valid : F → Bool) (dumpOne : F → List Line) (boom : Bool) :
    ∀ (fs : List F) (i : Nat), (∀ f ∈ fs, valid f = true) →
      dumpRest valid dumpOne boom fs i =
        (restTrace fs.length i, fs.flatMap dumpOne, if boom then .dumpErrorUncaught else .ok)
  | [], i, _ => by cases boom <;> simp [dumpRest, restTrace]
  | f :: t, i, h => by
    have hf : valid f = true := h f (by simp)
    simp [dumpRest, hf, restTrace, dumpRest_valid valid dumpOne boom t (i + 1) (fun x hx => h x (by simp [hx]))]

/-- **dump_many writes `concat (map dump_one frames)`** and its consumption trace is
    `pull₀ check₀ open write₀ pull₁ check₁ write₁ … pullₙ close`: the file is opened after the first item was
    checked, item i+1 is pulled only after item i was written, every item is pulled once.  With an iterator that
    raises after its items (`boom`), all items pulled before are in the file and the outcome is DumpError. -/
theorem dumpMany_lines_and_trace {F : Type} (valid : F → Bool) (dumpOne : F → List Line) (f : F) (fs : List F)
    (boom : Bool) (h : ∀ x ∈ f :: fs, valid x = true) :
    dumpMany valid dumpOne (f :: fs) boom =
      ⟨.pull 0 :: .check 0 :: .openFile :: .write 0 :: restTrace fs.length 1, (f :: fs).flatMap dumpOne, true,
       if boom then .dumpErrorUncaught else .ok⟩ := by
  have hf : valid f = true := h f (by simp)
  simp [dumpMany, hf, dumpRest_valid valid dumpOne boom fs 1 (fun x hx => h x (by simp [hx]))]

theorem restTrace_count_pull : ∀ (n i j : Nat), (restTrace n i).count (.pull j) = if i ≤ j ∧ j ≤ i + n then 1 else 0
  | 0, i, j => by
    by_cases h : i = j <;> simp [restTrace, h] <;> omega
  | n + 1, i, j => by
    have ih := restTrace_count_pull n (i + 1) j
    by_cases h : i = j
    · subst h; simp [restTrace, ih]; omega
    · simp [restTrace, ih, h, List.count_cons]
      by_cases h2 : i + 1 ≤ j ∧ j ≤ i + 1 + n
      · rw [if_pos h2, if_pos (by omega)]
      · rw [if_neg h2, if_neg (by omega)]

/-- each of the n items, and the end of the iterable, is pulled exactly once; nothing else is pulled -/
theorem dumpMany_pulls_once {F : Type} (valid : F → Bool) (dumpOne : F → List Line) (f : F) (fs : List F)
    (boom : Bool) (h : ∀ x ∈ f :: fs, valid x = true) (j : Nat) :
    (dumpMany valid dumpOne (f :: fs) boom).events.count (.pull j) = if j ≤ fs.length + 1 then 1 else 0 := by
  rw [dumpMany_lines_and_trace valid dumpOne f fs boom h]
  by_cases hj : j = 0
  · subst hj; simp [List.count_cons, restTrace_count_pull]
  · have hj' : ¬ 0 = j := fun e => hj e.symm
    simp [List.count_cons, restTrace_count_pull, hj']
    by_cases h2 : j ≤ fs.length + 1
    · rw [if_pos h2, if_pos (by omega)]
    · rw [if_neg h2, if_neg (by omega)]

/-- an empty iterable: DumpError before the file is opened; a first item that fails the check: PrepareDumpError
    before the file is opened, only one item pulled -/
theorem dumpMany_empty {F : Type} (valid : F → Bool) (dumpOne : F → List Line) :
    dumpMany valid dumpOne [] false = ⟨[.pull 0], [], false, .dumpErrorEmpty⟩ := rfl

theorem dumpMany_first_invalid {F : Type} (valid : F → Bool) (dumpOne : F → List Line) (f : F) (fs : List F)
    (boom : Bool) (h : valid f = false) :
    dumpMany valid dumpOne (f :: fs) boom = ⟨[.pull 0, .check 0], [], false, .prepareError⟩ := by
  simp [dumpMany, h]

/-- a later item that fails the check: the frames before it are in the file, nothing after it is pulled -/
theorem dumpRest_invalid_at {F : Type} (valid : F → Bool) (dumpOne : F → List Line) (boom : Bool) :
    ∀ (pre : List F) (bad : F) (post : List F) (i : Nat), (∀ f ∈ pre, valid f = true) → valid bad = false →
      (dumpRest valid dumpOne boom (pre ++ bad :: post) i).2 = (pre.flatMap dumpOne, .prepareError) ∧
      ∀ j, j > i + pre.length → (dumpRest valid dumpOne boom (pre ++ bad :: post) i).1.count (.pull j) = 0
  | [], bad, post, i, _, hb => by
    simp [dumpRest, hb, List.count_cons]
    intro j hj; omega
  | f :: pre, bad, post, i, h, hb => by
    have hf : valid f = true := h f (by simp)
    obtain ⟨h1, h2⟩ := dumpRest_invalid_at valid dumpOne boom pre bad post (i + 1) (fun x hx => h x (by simp [hx])) hb
    constructor
    · simp [dumpRest, hf, h1]
    · intro j hj
      have := h2 j (by simp at hj ⊢; omega)
      simp [dumpRest, hf, List.count_cons, this]
      simp at hj; omega

/-! ## XYZ (writer + reader) -/

section xyz
variable {α : Type} (showNat : Nat → Line) (pa : Line → Option α) (fa : α → Line)

theorem xyz_dump_ne (f : XyzFrame α) : xyzDumpOne showNat fa f ≠ [] := by simp [xyzDumpOne]

/-- **prefix-consumption law**: a frame as written, followed by anything, is read back as `xyzNorm f` and exactly
    its lines are consumed.  Domain: the title is a single line (no `'\n'`); titles that look like counts,
    separators or are blank are inside the domain (the title is taken by position, never interpreted). -/
theorem xyz_prefix_law (hs : ∀ n, pyInt (showNat n) = some (n : Int)) (h : ∀ a, pa (fa a) = some a)
    (f : XyzFrame α) (hnl : '\n' ∉ f.title) (rest : List Line) (ln : Int) :
    ∃ ln', xyzLoadOne pa ⟨xyzDumpOne showNat fa f ++ rest, ln⟩ = .ok (xyzNorm f) ⟨rest, ln'⟩ := by
  obtain ⟨ln', hr⟩ := readN_map pa fa h f.atoms rest (ln + 1 + 1)
  have hneg : ¬ ((f.atoms.length : Int) < 0) := by omega
  exact ⟨ln', by simp [xyzDumpOne, splitNl_no_nl _ (titleOr_no_nl _ hnl), xyzLoadOne, hs, xyzNorm, hneg, hr]⟩

theorem xyz_step (hs : ∀ n, pyInt (showNat n) = some (n : Int)) (hb : ∀ n, isBlank (showNat n) = false)
    (h : ∀ a, pa (fa a) = some a) (f : XyzFrame α) (hnl : '\n' ∉ f.title) (rest : List Line) (ln : Int)
    (first : Bool) :
    ∃ s' ln', runPeek xyzSkel.peek first ⟨xyzDumpOne showNat fa f ++ rest, ln⟩ = .go s' ∧
      xyzLoadOne pa s' = .ok (xyzNorm f) ⟨rest, ln'⟩ := by
  obtain ⟨ln', hl⟩ := xyz_prefix_law showNat pa fa hs h f hnl rest ln
  exact ⟨_, ln', skipBlank_go _ _ _ _ (hb _), hl⟩

/-- **round trip, any number of frames**: reading the file written by dump_many yields exactly the frames, in
    order, each as its single-frame file would load; trailing blank lines are ignored. -/
theorem xyz_roundtrip (hs : ∀ n, pyInt (showNat n) = some (n : Int)) (hb : ∀ n, isBlank (showNat n) = false)
    (h : ∀ a, pa (fa a) = some a) (fs : List (XyzFrame α)) (hne : fs ≠ []) (hnl : ∀ f ∈ fs, '\n' ∉ f.title)
    (blanks : List Line) (hbl : ∀ l ∈ blanks, isBlank l = true) :
    loadMany xyzSkel (xyzLoadOne pa) (fs.flatMap (xyzDumpOne showNat fa) ++ blanks) = ⟨fs.map xyzNorm, .done⟩ := by
  have htail : ∀ fuel ln, fuel ≥ blanks.length + 1 →
      runLoop xyzSkel (xyzLoadOne pa) fuel false ⟨blanks, ln⟩ = (([] : List (XyzFrame α)), GenFinal.ret) := by
    intro fuel ln hf
    cases fuel with
    | zero => simp at hf
    | succ fuel => simp [runLoop, xyzSkel, runPeek, skipBlank_eof blanks ln hbl]
  obtain ⟨r, hr, he⟩ := runLoop_blocks xyzSkel (xyzLoadOne pa) (xyzDumpOne showNat fa) xyzNorm
    (fun f => '\n' ∉ f.title) (xyz_dump_ne showNat fa)
    (fun f hf rest ln first => xyz_step showNat pa fa hs hb h f hf rest ln first)
    blanks (fun r => r = (([] : List (XyzFrame α)), GenFinal.ret)) htail fs _ 0 true hnl (Or.inl hne)
    (Nat.le_refl _)
  subst hr
  simpa [apiFinal] using loadMany_of_runLoop _ _ _ _ _ he
end xyz

end Iodata.Props.C13
