/-
C10 — basis-function convention conversion is an exact signed permutation.

Property theorems only (helpers live in `Iodata/Lemmas/Conv.lean`).  The model
(`Iodata/Model/Conv.lean`) is tied to `iodata/convert.py` by the correspondence
stream `conv`/`convb`; the built-in tables (`Iodata/Gen/Conventions.lean`) are
regenerated from the source on every run.
-/
import Iodata.Lemmas.Conv
import Iodata.Gen.Conventions
import Mathlib.Data.List.Nodup

set_option linter.unusedSectionVars false
set_option linter.unusedSimpArgs false

namespace Iodata.Props.C10
open Iodata.Conv

variable {β : Type} [DecidableEq β]

/-- 1. The conversion succeeds exactly for conventions naming the same functions, each once. -/
theorem convCore_ok_iff (c1 c2 : List (Bool × β)) (rev : Bool) :
    (∃ r, convCore c1 c2 rev = .ok r) ↔ Compatible c1 c2 := by
  rw [← guards_ok_iff]
  unfold convCore
  cases hg : guards c1 c2 with
  | error e => simp
  | ok u => cases u; cases rev <;> simp

/-- 1b. Any other input is rejected with a `ValueError` (never a silent mis-map, never another class). -/
theorem convCore_rejects (c1 c2 : List (Bool × β)) (rev : Bool) (h : ¬ Compatible c1 c2) :
    ∃ e, convCore c1 c2 rev = .error e ∧ e ≠ .keyError := by
  rw [← guards_ok_iff] at h
  unfold convCore
  cases hg : guards c1 c2 with
  | error e => exact ⟨e, rfl, guards_error_ne_key c1 c2 e hg⟩
  | ok u => cases u; exact absurd hg h

/-- 2. Pointwise specification of a successful conversion: the function labelled X in the source
moves to the position labelled X in the target, with the product of the two label signs. -/
theorem convCore_spec (c1 c2 : List (Bool × β)) (r : List (Nat × Int))
    (h : convCore c1 c2 false = .ok r) :
    r.length = c2.length ∧
    ∀ (j : Nat) (hj : j < c2.length) (hr : j < r.length),
      ∃ (hi : (r[j]).1 < c1.length),
        (c1[(r[j]).1]).2 = (c2[j]).2 ∧ (r[j]).2 = sgnB (c1[(r[j]).1]).1 * sgnB (c2[j]).1 := by
  have hc : Compatible c1 c2 := (convCore_ok_iff c1 c2 false).mp ⟨r, h⟩
  unfold convCore at h
  rw [(guards_ok_iff c1 c2).mpr hc] at h
  simp only [Bool.false_eq_true, if_false, Except.ok.injEq] at h
  subst h
  refine ⟨by simp, ?_⟩
  intro j hj hr
  have hmem : (c2[j]).2 ∈ labels c1 := by
    apply (hc.2.2.2 _).mpr
    simp only [labels]; exact List.mem_map.mpr ⟨c2[j], List.getElem_mem hj, rfl⟩
  have hlt : (labels c1).idxOf (c2[j]).2 < c1.length := by
    have := List.idxOf_lt_length_iff.mpr hmem; simpa using this
  have hget : (labels c1)[(labels c1).idxOf (c2[j]).2]'(by simpa using hlt) = (c2[j]).2 :=
    List.getElem_idxOf _
  simp only [labels, List.getElem_map] at hget
  simp only [convFwd, List.getElem_map]
  refine ⟨hlt, ?_, ?_⟩
  · simpa [labels] using hget
  · simp only [signs, List.getD_eq_getElem?_getD, List.getElem?_map]
    rw [List.getElem?_eq_getElem hlt]
    simp

/-- 2b. The permutation part is a permutation: no source position is used twice and all are in range. -/
theorem convCore_perm_nodup (c1 c2 : List (Bool × β)) (r : List (Nat × Int))
    (h : convCore c1 c2 false = .ok r) :
    (r.map Prod.fst).Nodup ∧ ∀ i ∈ r.map Prod.fst, i < c1.length := by
  have hc : Compatible c1 c2 := (convCore_ok_iff c1 c2 false).mp ⟨r, h⟩
  unfold convCore at h
  rw [(guards_ok_iff c1 c2).mpr hc] at h
  simp only [Bool.false_eq_true, if_false, Except.ok.injEq] at h
  subst h
  have hmap : (convFwd c1 c2).map Prod.fst = (labels c2).map (fun x => (labels c1).idxOf x) := by
    simp [convFwd, labels, List.map_map, Function.comp]
  rw [hmap]
  constructor
  · refine (List.nodup_map_iff_inj_on hc.2.2.1).mpr ?_
    intro x hx y hy hxy
    have hx1 := (hc.2.2.2 x).mpr hx
    have hy1 := (hc.2.2.2 y).mpr hy
    have gx : (labels c1)[(labels c1).idxOf x]'(List.idxOf_lt_length_iff.mpr hx1) = x := List.getElem_idxOf _
    have gy : (labels c1)[(labels c1).idxOf y]'(List.idxOf_lt_length_iff.mpr hy1) = y := List.getElem_idxOf _
    rw [← gx, ← gy]
    simp [hxy]
  · intro i hi
    obtain ⟨x, hx, rfl⟩ := List.mem_map.mp hi
    have := List.idxOf_lt_length_iff.mpr ((hc.2.2.2 x).mpr hx)
    simpa using this

/-- 3. `reverse=True` returns exactly the conversion in the opposite direction. -/
theorem conv_reverse (c1 c2 : List (Bool × β)) (r : List (Nat × Int))
    (h : convCore c1 c2 true = .ok r) : convCore c2 c1 false = .ok r := by
  have hc : Compatible c1 c2 := (convCore_ok_iff c1 c2 true).mp ⟨r, h⟩
  unfold convCore at h ⊢
  rw [(guards_ok_iff c1 c2).mpr hc] at h
  rw [(guards_ok_iff c2 c1).mpr hc.symm]
  simpa [convFwd] using h

/-- 4. There and back is the identity. -/
theorem conv_inverse (c1 c2 : List (Bool × β)) (r r' : List (Nat × Int))
    (h : convCore c1 c2 false = .ok r) (h' : convCore c2 c1 false = .ok r')
    (v : List Int) (hv : v.length = c1.length) :
    apply r' (apply r v) = v := by
  have hc : Compatible c1 c2 := (convCore_ok_iff c1 c2 false).mp ⟨r, h⟩
  unfold convCore at h h'
  rw [(guards_ok_iff c1 c2).mpr hc] at h
  rw [(guards_ok_iff c2 c1).mpr hc.symm] at h'
  simp only [Bool.false_eq_true, if_false, Except.ok.injEq] at h h'
  subst h; subst h'
  apply val_ext hc.2.1 (by simp) hv
  intro x
  rw [val_apply_convFwd hc.symm, val_apply_convFwd hc]

/-- 4b. … and so is converting with the `reverse` flag. -/
theorem conv_reverse_inverse (c1 c2 : List (Bool × β)) (r r' : List (Nat × Int))
    (h : convCore c1 c2 false = .ok r) (h' : convCore c1 c2 true = .ok r')
    (v : List Int) (hv : v.length = c1.length) :
    apply r' (apply r v) = v :=
  conv_inverse c1 c2 r r' h (conv_reverse c1 c2 r' h') v hv

/-- 5. A → B → C equals A → C. -/
theorem conv_compose (c1 c2 c3 : List (Bool × β)) (r12 r23 r13 : List (Nat × Int))
    (h12 : convCore c1 c2 false = .ok r12) (h23 : convCore c2 c3 false = .ok r23)
    (h13 : convCore c1 c3 false = .ok r13) (v : List Int) :
    apply r23 (apply r12 v) = apply r13 v := by
  have hc12 : Compatible c1 c2 := (convCore_ok_iff c1 c2 false).mp ⟨_, h12⟩
  have hc23 : Compatible c2 c3 := (convCore_ok_iff c2 c3 false).mp ⟨_, h23⟩
  have hc13 : Compatible c1 c3 := hc12.trans hc23
  unfold convCore at h12 h23 h13
  rw [(guards_ok_iff _ _).mpr hc12] at h12
  rw [(guards_ok_iff _ _).mpr hc23] at h23
  rw [(guards_ok_iff _ _).mpr hc13] at h13
  simp only [Bool.false_eq_true, if_false, Except.ok.injEq] at h12 h23 h13
  subst h12; subst h23; subst h13
  apply val_ext hc23.2.2.1 (by simp) (by simp)
  intro x
  rw [val_apply_convFwd hc23, val_apply_convFwd hc12, val_apply_convFwd hc13]

/-- 5b. If A→B and B→C succeed then A→C succeeds (composition never needs a rejected conversion). -/
theorem conv_compose_defined (c1 c2 c3 : List (Bool × β))
    (h12 : ∃ r, convCore c1 c2 false = .ok r) (h23 : ∃ r, convCore c2 c3 false = .ok r) :
    ∃ r, convCore c1 c3 false = .ok r :=
  (convCore_ok_iff c1 c3 false).mpr
    (((convCore_ok_iff c1 c2 false).mp h12).trans ((convCore_ok_iff c2 c3 false).mp h23))

/-! ### basis level: block structure -/

/-- 6. The basis-level conversion is the concatenation of the shell-level conversions,
each shifted by the number of functions before it (for any shell list, incl. generalized
contractions, because `keys` is the flattened `(angmom, kind)` list). -/
theorem convBasisFrom_cons (t1 t2 : Table) (rev : Bool) (off : Nat) (k : Key) (ks : List Key)
    (c1 c2 : List Label) (r rest : List (Nat × Int))
    (h1 : lookup t1 k = .ok c1) (h2 : lookup t2 k = .ok c2)
    (hr : convShell c1 c2 rev = .ok r)
    (hrest : convBasisFrom t1 t2 rev (off + r.length) ks = .ok rest) :
    convBasisFrom t1 t2 rev off (k :: ks) = .ok (r.map (shift off) ++ rest) := by
  simp [convBasisFrom, h1, h2, hr, hrest]

/-- 6b. Offsets only shift: the conversion from offset `off` is the conversion from 0, shifted. -/
theorem convBasisFrom_shift (t1 t2 : Table) (rev : Bool) (ks : List Key) :
    ∀ (off : Nat), convBasisFrom t1 t2 rev off ks =
      (convBasisFrom t1 t2 rev 0 ks).map (fun r => r.map (shift off)) := by
  induction ks with
  | nil => intro off; simp [convBasisFrom, Except.map]
  | cons k ks ih =>
    intro off
    simp only [convBasisFrom]
    cases lookup t1 k with
    | error e => simp [Except.map]
    | ok c1 =>
      cases lookup t2 k with
      | error e => simp [Except.map]
      | ok c2 =>
        dsimp only
        generalize convShell c1 c2 rev = cs
        cases cs with
        | error e => simp [Except.map]
        | ok r =>
          simp only []
          rw [ih (off + r.length), ih (0 + r.length)]
          generalize convBasisFrom t1 t2 rev 0 ks = cb
          cases cb with
          | error e => simp [Except.map]
          | ok rest =>
            simp only [Except.map, List.map_append, List.map_map]
            congr 2
            apply List.map_congr_left; intro p _; simp [shift]; try omega

/-- 6c. A missing key is a `KeyError`, raised at the first shell that needs it. -/
theorem convBasis_missing_key (t1 t2 : Table) (rev : Bool) (off : Nat) (k : Key) (ks : List Key)
    (h : lookup t1 k = .error .keyError) :
    convBasisFrom t1 t2 rev off (k :: ks) = .error .keyError := by
  simp [convBasisFrom, h]

/-- applying a block-structured conversion to a block-structured vector works block by block -/
theorem apply_block (r : List (Nat × Int)) (rest : List (Nat × Int)) (v w : List Int)
    (hr : ∀ p ∈ r, p.1 < v.length) :
    apply (r ++ rest.map (shift v.length)) (v ++ w) = apply r v ++ apply rest w := by
  unfold apply
  rw [List.map_append, List.map_map]
  congr 1
  · apply List.map_congr_left
    intro p hp
    have := hr p hp
    simp [List.getD_eq_getElem?_getD, List.getElem?_append_left this]
  · apply List.map_congr_left
    intro p _
    simp [shift, List.getD_eq_getElem?_getD, List.getElem?_append_right]

/-! ### the built-in tables (regenerated from the source on every run) -/

/-- 7. Every entry of every built-in convention table lists each function of its shell type
exactly once (monomials of degree l / `c0, c1, s1, …, cl, sl`), and no key occurs twice. -/
theorem tables_wellformed : Iodata.Gen.Conventions.allTables.all (fun t => wellFormedTable t.2) = true := by
  decide +kernel

/-- 7b. For every ordered pair of built-in tables and every key they share, the shell conversion
succeeds in both directions. -/
theorem tables_pairwise :
    Iodata.Gen.Conventions.allTables.all (fun a =>
      Iodata.Gen.Conventions.allTables.all (fun b =>
        a.2.all (fun e => match lookup b.2 e.1 with
          | .ok c2 => (match convShell e.2 c2 false with | .ok _ => true | .error _ => false)
                      && (match convShell e.2 c2 true with | .ok _ => true | .error _ => false)
          | .error _ => true))) = true := by
  decide +kernel

/-! ### non-vacuity -/

/-- ORCA's `(3,'p')` entry (with `-c3, -s3`) against Molden's: hypotheses are satisfiable and the
result carries the sign flips. -/
example : convShell (["c0","c1","s1","c2","s2","-c3","-s3"].map String.toList)
    (["c0","c1","s1","c2","s2","c3","s3"].map String.toList) false
    = .ok [(0,1),(1,1),(2,1),(3,1),(4,1),(5,-1),(6,-1)] := by decide

example : convShell (["xx","xy","xz","yy","yz","zz"].map String.toList)
    (["xx","yy","zz","xy","xz","yz"].map String.toList) false
    = .ok [(0,1),(3,1),(5,1),(1,1),(2,1),(4,1)] := by decide

example : convShell (["xx","xy"].map String.toList) (["xx","xx"].map String.toList) false
    = .error .dup2 := by decide

end Iodata.Props.C10
