/-
C10 — basis-function convention conversion is an exact signed permutation.

Property theorems only (helpers live in `Iodata/Lemmas/Conv.lean`).  The model
(`Iodata/Model/Conv.lean`) is tied to `iodata/convert.py` by the correspondence
stream `conv`/`convb`; the built-in tables (`Iodata/Gen/Conventions.lean`) are
regenerated from the source on every run.
-/
import Iodata.Lemmas.Conv
import Iodata.Gen.Conventions
import Mathlib.Data.List.Nodup

set_option linter.unusedSectionVars false
set_option linter.unusedSimpArgs false

namespace Iodata.Props.C10
open Iodata.Conv

variable {β : Type} [DecidableEq β]

/-- 1. The conversion succeeds exactly for conventions naming the same functions, each once. -/
theorem convCore_ok_iff (c1 c2 : List (Bool × β)) (rev : Bool) :
    (∃ r, convCore c1 c2 rev = .ok r) ↔ Compatible c1 c2 := by
  rw [← guards_ok_iff]
  unfold convCore
  cases hg : guards c1 c2 with
  | error e => simp
  | ok u => cases u; cases rev <;> simp

/-- 1b. Any other input is rejected with a `ValueError` (never a silent mis-map, never another class). -/
theorem convCore_rejects (c1 c2 : List (Bool × β)) (rev : Bool) (h : ¬ Compatible c1 c2) :
    ∃ e, convCore c1 c2 rev = .error e ∧ e ≠ .keyError := by
  rw [← guards_ok_iff] at h
  unfold convCore
  cases hg : guards c1 c2 with
  | error e => exact ⟨e, rfl, guards_error_ne_key c1 c2 e hg⟩
  | ok u => cases u; exact absurd hg h

/-- 2. Pointwise specification of a successful conversion: the function labelled X in the source
moves to the position labelled X in the target, with the product of the two label signs. -/
theorem convCore_spec (c1 c2 : List (Bool × β)) (r : List (Nat × Int))
    (h : convCore c1 c2 false = .ok r) :
    r.length = c2.length ∧
    ∀ (j : Nat) (hj : j < c2.length) (hr : j < r.length),
      ∃ (hi : (r[j]).1 < c1.length),
        (c1[(r[j]).1]).2 = (c2[j]).2 ∧ (r[j]).2 = sgnB (c1[(r[j]).1]).1 * sgnB (c2[j]).1 := by
  have hc : Compatible c1 c2 := (convCore_ok_iff c1 c2 false).mp ⟨r, h⟩
  unfold convCore at h
  rw [(guards_ok_iff c1 c2).mpr hc] at h
  simp only [Bool.false_eq_true, if_false, Except.ok.injEq] at h
  subst h
  refine ⟨by simp, ?_⟩
  intro j hj hr
  have hmem : (c2[j]).2 ∈ labels c1 := by
    apply (hc.2.2.2 _).mpr
    simp only [labels]; exact List.mem_map.mpr ⟨c2[j], List.getElem_mem hj, rfl⟩
  have hlt : (labels c1).idxOf (c2[j]).2 < c1.length := by
    have := List.idxOf_lt_length_iff.mpr hmem; simpa using this
  have hget : (labels c1)[(labels c1).idxOf (c2[j]).2]'(by simpa using hlt) = (c2[j]).2 :=
    List.getElem_idxOf _
  simp only [labels, List.getElem_map] at hget
  simp only [convFwd, List.getElem_map]
  refine ⟨hlt, ?_, ?_⟩
  · simpa [labels] using hget
  · simp only [signs, List.getD_eq_getElem?_getD, List.getElem?_map]
    rw [List.getElem?_eq_getElem hlt]
    simp

/-- 2b. The permutation part is a permutation: no source position is used twice and all are in range. -/
theorem convCore_perm_nodup (c1 c2 : List (Bool × β)) (r : List (Nat × Int))
    (h : convCore c1 c2 false = .ok r) :
    (r.map Prod.fst).Nodup ∧ ∀ i ∈ r.map Prod.fst, i < c1.length := by
  have hc : Compatible c1 c2 := (convCore_ok_iff c1 c2 false).mp ⟨r, h⟩
  unfold convCore at h
  rw [(guards_ok_iff c1 c2).mpr hc] at h
  simp only [Bool.false_eq_true, if_false, Except.ok.injEq] at h
  subst h
  have hmap : (convFwd c1 c2).map Prod.fst = (labels c2).map (fun x => (labels c1).idxOf x) := by
    simp [convFwd, labels, List.map_map, Function.comp]
  rw [hmap]
  constructor
  · refine (List.nodup_map_iff_inj_on hc.2.2.1).mpr ?_
    intro x hx y hy hxy
    have hx1 := (hc.2.2.2 x).mpr hx
    have hy1 := (hc.2.2.2 y).mpr hy
    have gx : (labels c1)[(labels c1).idxOf x]'(List.idxOf_lt_length_iff.mpr hx1) = x := List.getElem_idxOf _
    have gy : (labels c1)[(labels c1).idxOf y]'(List.idxOf_lt_length_iff.mpr hy1) = y := List.getElem_idxOf _
    rw [← gx, ← gy]
    simp [hxy]
  · intro i hi
    obtain ⟨x, hx, rfl⟩ := List.mem_map.mp hi
    have := List.idxOf_lt_length_iff.mpr ((hc.2.2.2 x).mpr hx)
    simpa using this

/-- 3. `reverse=True` returns exactly the conversion in the opposite direction. -/
theorem conv_reverse (c1 c2 : List (Bool × β)) (r : List (Nat × Int))
    (h : convCore c1 c2 true = .ok r) : convCore c2 c1 false = .ok r := by
  have hc : Compatible c1 c2 := (convCore_ok_iff c1 c2 true).mp ⟨r, h⟩
  unfold convCore at h ⊢
  rw [(guards_ok_iff c1 c2).mpr hc] at h
  rw [(guards_ok_iff c2 c1).mpr hc.symm]
  simpa [convFwd] using h

/-- 4. There and back is the identity. -/
theorem conv_inverse (c1 c2 : List (Bool × β)) (r r' : List (Nat × Int))
    (h : convCore c1 c2 false = .ok r) (h' : convCore c2 c1 false = .ok r')
    (v : List Int) (hv : v.length = c1.length) :
    apply r' (apply r v) = v := by
  have hc : Compatible c1 c2 := (convCore_ok_iff c1 c2 false).mp ⟨r, h⟩
  unfold convCore at h h'
  rw [(guards_ok_iff c1 c2).mpr hc] at h
  rw [(guards_ok_iff c2 c1).mpr hc.symm] at h'
  simp only [Bool.false_eq_true, if_false, Except.ok.injEq] at h h'
  subst h; subst h'
  apply val_ext hc.2.1 (by simp) hv
  intro x
  rw [val_apply_convFwd hc.symm, val_apply_convFwd hc]

/-- 4b. … and so is converting with the `reverse` flag. -/
theorem conv_reverse_inverse (c1 c2 : List (Bool × β)) (r r' : List (Nat × Int))
    (h : convCore c1 c2 false = .ok r) (h' : convCore c1 c2 true = .ok r')
    (v : List Int) (hv : v.length = c1.length) :
    apply r' (apply r v) = v :=
  conv_inverse c1 c2 r r' h (conv_reverse c1 c2 r' h') v hv

/-- 5. A → B → C equals A → C. -/
theorem conv_compose (c1 c2 c3 : List (Bool × β)) (r12 r23 r13 : List (Nat × Int))
    (h12 : convCore c1 c2 false = .ok r12) (h23 : convCore c2 c3 false = .ok r23)
    (h13 : convCore c1 c3 false = .ok r13) (v : List Int) :
    apply r23 (apply r12 v) = apply r13 v := by
  have hc12 : Compatible c1 c2 := (convCore_ok_iff c1 c2 false).mp ⟨_, h12⟩
  have hc23 : Compatible c2 c3 := (convCore_ok_iff c2 c3 false).mp ⟨_, h23⟩
  have hc13 : Compatible c1 c3 := hc12.trans hc23
  unfold convCore at h12 h23 h13
  rw [(guards_ok_iff _ _).mpr hc12] at h12
  rw [(guards_ok_iff _ _).mpr hc23] at h23
  rw [(guards_ok_iff _ _).mpr hc13] at h13
  simp only [Bool.false_eq_true, if_false, Except.ok.injEq] at h12 h23 h13
  subst h12; subst h23; subst h13
  apply val_ext hc23.2.2.1 (by simp) (by simp)
  intro x
  rw [val_apply_convFwd hc23, val_apply_convFwd hc12, val_apply_convFwd hc13]

/-- 5b. If A→B and B→C succeed then A→C succeeds (composition never needs a rejected conversion). -/
theorem conv_compose_defined (c1 c2 c3 : List (Bool × β))
    (h12 : ∃ r, convCore c1 c2 false = .ok r) (h23 : ∃ r, convCore c2 c3 false = .ok r) :
    ∃ r, convCore c1 c3 false = .ok r :=
  (convCore_ok_iff c1 c3 false).mpr
    (((convCore_ok_iff c1 c2 false).mp h12).trans ((convCore_ok_iff c2 c3 false).mp h23))

/-! ### basis level: block structure -/

/-- 6. The basis-level conversion is the concatenation of the shell-level conversions,
each shifted by the number of functions before it (for any shell list, incl. generalized
contractions, because `keys` is the flattened `(angmom, kind)` list). -/
theorem convBasisFrom_cons (t1 t2 : Table) (rev : Bool) (off : Nat) (k : Key) (ks : List Key)
    (c1 c2 : List Label) (r rest : List (Nat × Int))
    (h1 : lookup t1 k = .ok c1) (h2 : lookup t2 k = .ok c2)
    (hr : convShell c1 c2 rev = .ok r)
    (hrest : convBasisFrom t1 t2 rev (off + r.length) ks = .ok rest) :
    convBasisFrom t1 t2 rev off (k :: ks) = .ok (r.map (shift off) ++ rest) := by
  simp [convBasisFrom, h1, h2, hr, hrest]

/-- 6b. Offsets only shift: the conversion from offset `off` is the conversion from 0, shifted. -/
theorem convBasisFrom_shift (t1 t2 : Table) (rev : Bool) (ks : List Key) :
    ∀ (off : Nat), convBasisFrom t1 t2 rev off ks =
      (convBasisFrom t1 t2 rev 0 ks).map (fun r => r.map (shift off)) := by
  induction ks with
  | nil => intro off; simp [convBasisFrom, Except.map]
  | cons k ks ih =>
    intro off
    simp only [convBasisFrom]
    cases lookup t1 k with
    | error e => simp [Except.map]
    | ok c1 =>
      cases lookup t2 k with
      | error e => simp [Except.map]
      | ok c2 =>
        dsimp only
        generalize convShell c1 c2 rev = cs
        cases cs with
        | error e => simp [Except.map]
        | ok r =>
          simp only []
          rw [ih (off + r.length), ih (0 + r.length)]
          generalize convBasisFrom t1 t2 rev 0 ks = cb
          cases cb with
          | error e => simp [Except.map]
          | ok rest =>
            simp only [Except.map, List.map_append, List.map_map]
            congr 2
            apply List.map_congr_left; intro p _; simp [shift]; try omega

/-- 6c. A missing key is a `KeyError`, raised at the first shell that needs it. -/
theorem convBasis_missing_key (t1 t2 : Table) (rev : Bool) (off : Nat) (k : Key) (ks : List Key)
    (h : lookup t1 k = .error .keyError) :
    convBasisFrom t1 t2 rev off (k :: ks) = .error .keyError := by
  simp [convBasisFrom, h]

/-- applying a block-structured conversion to a block-structured vector works block by block -/
theorem apply_block (r : List (Nat × Int)) (rest : List (Nat × Int)) (v w : List Int)
    (hr : ∀ p ∈ r, p.1 < v.length) :
    apply (r ++ rest.map (shift v.length)) (v ++ w) = apply r v ++ apply rest w := by
  unfold apply
  rw [List.map_append, List.map_map]
  congr 1
  · apply List.map_congr_left
    intro p hp
    have := hr p hp
    simp [List.getD_eq_getElem?_getD, List.getElem?_append_left this]
  · apply List.map_congr_left
    intro p _
    simp [shift, List.getD_eq_getElem?_getD, List.getElem?_append_right]

/-- shell-level facts at the `convShell` (label) level used by the basis-level theorems -/
theorem convShell_length (c1 c2 : List Label) (r : List (Nat × Int)) (h : convShell c1 c2 false = .ok r) :
    r.length = c1.length ∧ r.length = c2.length ∧ ∀ p ∈ r, p.1 < c1.length := by
  unfold convShell at h
  have hc : Compatible (c1.map parse) (c2.map parse) := (convCore_ok_iff _ _ false).mp ⟨r, h⟩
  have hs := convCore_spec _ _ r h
  have hb := (convCore_perm_nodup _ _ r h).2
  have l1 : (c1.map parse).length = c1.length := by simp
  have l2 : (c2.map parse).length = c2.length := by simp
  refine ⟨by rw [hs.1, ← hc.1, l1], by rw [hs.1, l2], ?_⟩
  intro p hp
  have := hb p.1 (List.mem_map.mpr ⟨p, hp, rfl⟩)
  simpa using this

theorem shift_zero (r : List (Nat × Int)) : r.map (shift 0) = r := by
  induction r with
  | nil => rfl
  | cons p r ih => simp [shift, ih]

/-- 6d. Basis level: converting a whole basis there and back is the identity, for every shell
list (any number of shells, generalized contractions included) and any pair of tables. -/
theorem convBasis_inverse (t1 t2 : Table) (keys : List Key) :
    ∀ (r r' : List (Nat × Int)), convBasis t1 t2 keys false = .ok r → convBasis t2 t1 keys false = .ok r' →
      ∀ (v : List Int), v.length = r.length → apply r' (apply r v) = v := by
  unfold convBasis
  induction keys with
  | nil =>
    intro r r' h h' v hv
    simp only [convBasisFrom, Except.ok.injEq] at h h'
    subst h; subst h'
    have : v = [] := List.eq_nil_of_length_eq_zero (by simpa using hv)
    subst this; rfl
  | cons k ks ih =>
    intro r r' h h' v hv
    simp only [convBasisFrom] at h h'
    -- unfold the forward direction
    cases hl1 : lookup t1 k with
    | error e => simp [hl1] at h
    | ok c1 =>
      cases hl2 : lookup t2 k with
      | error e => simp [hl1, hl2] at h
      | ok c2 =>
        simp only [hl1, hl2] at h h'
        cases hs : convShell c1 c2 false with
        | error e => simp [hs] at h
        | ok r1 =>
          cases hs' : convShell c2 c1 false with
          | error e => simp [hs'] at h'
          | ok r1' =>
            simp only [hs, hs'] at h h'
            rw [convBasisFrom_shift] at h h'
            cases hb : convBasisFrom t1 t2 false 0 ks with
            | error e => simp [hb, Except.map] at h
            | ok rest =>
              cases hb' : convBasisFrom t2 t1 false 0 ks with
              | error e => simp [hb', Except.map] at h'
              | ok rest' =>
                simp only [hb, hb', Except.map, Except.ok.injEq, shift_zero] at h h'
                subst h; subst h'
                obtain ⟨hn1, hn2, hbound⟩ := convShell_length c1 c2 r1 hs
                obtain ⟨hn1', hn2', hbound'⟩ := convShell_length c2 c1 r1' hs'
                -- split the vector
                have hvlen : v.length = r1.length + rest.length := by simpa using hv
                have hsplit : v = v.take r1.length ++ v.drop r1.length := (List.take_append_drop _ _).symm
                have htake : (v.take r1.length).length = r1.length := by
                  rw [List.length_take]; omega
                have hdrop : (v.drop r1.length).length = rest.length := by
                  rw [List.length_drop]; omega
                have zero_add' : 0 + r1.length = r1.length := Nat.zero_add _
                have zero_add'' : 0 + r1'.length = r1'.length := Nat.zero_add _
                rw [zero_add'] ; rw [zero_add'']
                rw [hsplit]
                have e1 : apply (r1 ++ rest.map (shift r1.length)) (v.take r1.length ++ v.drop r1.length)
                    = apply r1 (v.take r1.length) ++ apply rest (v.drop r1.length) := by
                  have := apply_block r1 rest (v.take r1.length) (v.drop r1.length)
                    (fun p hp => by rw [htake, hn1]; exact hbound p hp)
                  rwa [htake] at this
                rw [e1]
                have hlen1 : (apply r1 (v.take r1.length)).length = r1'.length := by
                  rw [apply_length, hn2, ← hn1']
                have e2 : apply (r1' ++ rest'.map (shift r1'.length))
                      (apply r1 (v.take r1.length) ++ apply rest (v.drop r1.length))
                    = apply r1' (apply r1 (v.take r1.length)) ++ apply rest' (apply rest (v.drop r1.length)) := by
                  have := apply_block r1' rest' (apply r1 (v.take r1.length)) (apply rest (v.drop r1.length))
                    (fun p hp => by rw [hlen1, hn1']; exact hbound' p hp)
                  rwa [hlen1] at this
                rw [e2]
                have i1 : apply r1' (apply r1 (v.take r1.length)) = v.take r1.length := by
                  unfold convShell at hs hs'
                  exact conv_inverse _ _ r1 r1' hs hs' _ (by rw [htake, hn1]; simp)
                have i2 : apply rest' (apply rest (v.drop r1.length)) = v.drop r1.length :=
                  ih rest rest' hb hb' _ hdrop
                rw [i1, i2]

/-- 6e. Basis level: A → B → C equals A → C for every shell list and any three tables. -/
theorem convBasis_compose (t1 t2 t3 : Table) (keys : List Key) :
    ∀ (r12 r23 r13 : List (Nat × Int)), convBasis t1 t2 keys false = .ok r12 →
      convBasis t2 t3 keys false = .ok r23 → convBasis t1 t3 keys false = .ok r13 →
      ∀ (v : List Int), v.length = r12.length → apply r23 (apply r12 v) = apply r13 v := by
  unfold convBasis
  induction keys with
  | nil =>
    intro r12 r23 r13 h12 h23 h13 v _
    simp only [convBasisFrom, Except.ok.injEq] at h12 h23 h13
    subst h12; subst h23; subst h13; rfl
  | cons k ks ih =>
    intro r12 r23 r13 h12 h23 h13 v hv
    simp only [convBasisFrom] at h12 h23 h13
    cases hl1 : lookup t1 k with
    | error e => simp [hl1] at h12
    | ok c1 =>
      cases hl2 : lookup t2 k with
      | error e => simp [hl1, hl2] at h12
      | ok c2 =>
        cases hl3 : lookup t3 k with
        | error e => simp [hl2, hl3] at h23
        | ok c3 =>
          simp only [hl1, hl2, hl3] at h12 h23 h13
          cases hs12 : convShell c1 c2 false with
          | error e => simp [hs12] at h12
          | ok s12 =>
            cases hs23 : convShell c2 c3 false with
            | error e => simp [hs23] at h23
            | ok s23 =>
              cases hs13 : convShell c1 c3 false with
              | error e => simp [hs13] at h13
              | ok s13 =>
                simp only [hs12, hs23, hs13] at h12 h23 h13
                rw [convBasisFrom_shift] at h12 h23 h13
                cases hb12 : convBasisFrom t1 t2 false 0 ks with
                | error e => simp [hb12, Except.map] at h12
                | ok q12 =>
                  cases hb23 : convBasisFrom t2 t3 false 0 ks with
                  | error e => simp [hb23, Except.map] at h23
                  | ok q23 =>
                    cases hb13 : convBasisFrom t1 t3 false 0 ks with
                    | error e => simp [hb13, Except.map] at h13
                    | ok q13 =>
                      simp only [hb12, hb23, hb13, Except.map, Except.ok.injEq, shift_zero] at h12 h23 h13
                      subst h12; subst h23; subst h13
                      obtain ⟨a1, a2, ab⟩ := convShell_length c1 c2 s12 hs12
                      obtain ⟨b1, b2, bb⟩ := convShell_length c2 c3 s23 hs23
                      obtain ⟨d1, d2, db⟩ := convShell_length c1 c3 s13 hs13
                      have hvlen : v.length = s12.length + q12.length := by simpa using hv
                      have hsplit : v = v.take s12.length ++ v.drop s12.length := (List.take_append_drop _ _).symm
                      have htake : (v.take s12.length).length = s12.length := by
                        rw [List.length_take]; omega
                      have hdrop : (v.drop s12.length).length = q12.length := by
                        rw [List.length_drop]; omega
                      have z1 : 0 + s12.length = s12.length := Nat.zero_add _
                      have z2 : 0 + s23.length = s23.length := Nat.zero_add _
                      have z3 : 0 + s13.length = s13.length := Nat.zero_add _
                      rw [z1, z2, z3, hsplit]
                      have e1 : apply (s12 ++ q12.map (shift s12.length)) (v.take s12.length ++ v.drop s12.length)
                          = apply s12 (v.take s12.length) ++ apply q12 (v.drop s12.length) := by
                        have := apply_block s12 q12 (v.take s12.length) (v.drop s12.length)
                          (fun p hp => by rw [htake, a1]; exact ab p hp)
                        rwa [htake] at this
                      have hs13len : s13.length = s12.length := by rw [d1, a1]
                      have e3 : apply (s13 ++ q13.map (shift s13.length)) (v.take s12.length ++ v.drop s12.length)
                          = apply s13 (v.take s12.length) ++ apply q13 (v.drop s12.length) := by
                        have := apply_block s13 q13 (v.take s12.length) (v.drop s12.length)
                          (fun p hp => by rw [htake, a1]; exact db p hp)
                        rw [htake] at this
                        rw [hs13len]; exact this
                      have hlen1 : (apply s12 (v.take s12.length)).length = s23.length := by
                        rw [apply_length, a2, ← b1]
                      have e2 : apply (s23 ++ q23.map (shift s23.length))
                            (apply s12 (v.take s12.length) ++ apply q12 (v.drop s12.length))
                          = apply s23 (apply s12 (v.take s12.length)) ++ apply q23 (apply q12 (v.drop s12.length)) := by
                        have := apply_block s23 q23 (apply s12 (v.take s12.length)) (apply q12 (v.drop s12.length))
                          (fun p hp => by rw [hlen1, b1]; exact bb p hp)
                        rwa [hlen1] at this
                      rw [e1, e2, e3]
                      have i1 : apply s23 (apply s12 (v.take s12.length)) = apply s13 (v.take s12.length) := by
                        unfold convShell at hs12 hs23 hs13
                        exact conv_compose _ _ _ s12 s23 s13 hs12 hs23 hs13 _
                      have i2 : apply q23 (apply q12 (v.drop s12.length)) = apply q13 (v.drop s12.length) :=
                        ih q12 q23 q13 hb12 hb23 hb13 _ hdrop
                      rw [i1, i2]

/-! ### the built-in tables (regenerated from the source on every run) -/

/-- 7. Every entry of every built-in convention table lists each function of its shell type
exactly once (monomials of degree l / `c0, c1, s1, …, cl, sl`), and no key occurs twice. -/
theorem tables_wellformed : Iodata.Gen.Conventions.allTables.all (fun t => wellFormedTable t.2) = true := by
  decide +kernel

/-! ### the two generated default tables, all angular momenta -/

/-- Cartesian functions of degree `l` in alphabetical order (`iter_cart_alphabet`): `x^nx y^ny z^nz`, `nx` descending,
then `ny` descending. -/
def cartAlphabet (l : Nat) : List Label :=
  (List.range (l + 1)).reverse.flatMap fun nx =>
    (List.range (l - nx + 1)).reverse.map fun ny =>
      List.replicate nx 'x' ++ List.replicate ny 'y' ++ List.replicate (l - nx - ny) 'z'

/-- decimal digits of `n` (labels such as `c10`, `s24`) -/
def numChars (n : Nat) : List Char := (Nat.toDigits 10 n)

/-- HORTON2 pure functions: `c0, c1, s1, …, cl, sl` -/
def horton2Pure (l : Nat) : List Label :=
  ['c', '0'] :: (List.range l).flatMap fun i => ['c' :: numChars (i + 1), 's' :: numChars (i + 1)]

/-- CCA pure functions: `sl, …, s1, c0, c1, …, cl` (m = −l … l) -/
def ccaPure (l : Nat) : List Label :=
  ((List.range l).reverse.map fun i => 's' :: numChars (i + 1)) ++ [['c', '0']]
    ++ (List.range l).map fun i => 'c' :: numChars (i + 1)

/-- a default table up to `lmax`: `(0,c) = [1]`, `(1,c)`, and for `l ≥ 2` the Cartesian and the pure entry -/
def defaultTable (pure : Nat → List Label) (lmax : Nat) : Table :=
  ((0, 'c'), [['1']]) :: (List.range lmax).flatMap fun i =>
    let l := i + 1
    if l = 1 then [((1, 'c'), cartAlphabet 1)] else [((l, 'c'), cartAlphabet l), ((l, 'p'), pure l)]

/-- **default_tables_closed_form.**  `HORTON2_CONVENTIONS` and `CCA_CONVENTIONS` as the module builds them (regenerated
from the imported module on every run, every angular momentum 0..24) are exactly their closed forms: alphabetical
Cartesian monomials, `c0 c1 s1 … cl sl` resp. `sl … s1 c0 c1 … cl` — in particular every entry is complete (2l+1 resp.
(l+1)(l+2)/2 functions) for two-digit `l` as well. -/
theorem default_tables_closed_form :
    Iodata.Gen.Conventions.horton2Full = defaultTable horton2Pure 24 ∧
    Iodata.Gen.Conventions.ccaFull = defaultTable ccaPure 24 := by
  decide +kernel

example : ccaPure 2 = [['s','2'], ['s','1'], ['c','0'], ['c','1'], ['c','2']] ∧ (ccaPure 10).length = 21 ∧
    (cartAlphabet 24).length = 325 := by decide +kernel

/-- 7b. For every ordered pair of built-in tables and every key they share, the shell conversion
succeeds in both directions. -/
theorem tables_pairwise :
    Iodata.Gen.Conventions.allTables.all (fun a =>
      Iodata.Gen.Conventions.allTables.all (fun b =>
        a.2.all (fun e => match lookup b.2 e.1 with
          | .ok c2 => (match convShell e.2 c2 false with | .ok _ => true | .error _ => false)
                      && (match convShell e.2 c2 true with | .ok _ => true | .error _ => false)
          | .error _ => true))) = true := by
  decide +kernel

/-! ### non-vacuity -/

/-- ORCA's `(3,'p')` entry (with `-c3, -s3`) against Molden's: hypotheses are satisfiable and the
result carries the sign flips. -/
example : convShell (["c0","c1","s1","c2","s2","-c3","-s3"].map String.toList)
    (["c0","c1","s1","c2","s2","c3","s3"].map String.toList) false
    = .ok [(0,1),(1,1),(2,1),(3,1),(4,1),(5,-1),(6,-1)] := by decide

example : convShell (["xx","xy","xz","yy","yz","zz"].map String.toList)
    (["xx","yy","zz","xy","xz","yz"].map String.toList) false
    = .ok [(0,1),(3,1),(5,1),(1,1),(2,1),(4,1)] := by decide

example : convShell (["xx","xy"].map String.toList) (["xx","xx"].map String.toList) false
    = .error .dup2 := by decide

end Iodata.Props.C10
