/-
C15 — after one save/reload cycle, further cycles change nothing: second group of formats.

`norm` is what the first reload returns (`Props/C02W`); the theorems say that it is a fixed point: the reloaded object,
saved and reloaded again, is itself, and it stays inside the domain, so the second and third files coincide.
The theorems speak about quantised objects (every real carried as the digits the format prints).
-/
import Iodata.Lemmas.Fmt.FcidumpW
import Iodata.Gen.LayoutsW

namespace Iodata.Props.C15W
open Iodata.Chars Iodata.Decimal Iodata.Fmt Iodata.Gen.LayoutsW

/-! ## FCIDUMP (full file) -/

/-- FCIDUMP: the object returned by the first reload is a fixed point of save/reload and stays in the domain
(integral `nelec`/`spinpol` are not rounded again, canonical zeros stay, nothing appears outside the arrays). -/
theorem fcidump_norm_stable (L : FcidumpW.Layout) (o : FcidumpW.Obj) (h : FcidumpW.Dom L o) :
    FcidumpW.norm (FcidumpW.norm o).obj = FcidumpW.norm o ∧ FcidumpW.Dom L (FcidumpW.norm o).obj :=
  ⟨FcidumpW.norm_idem o, FcidumpW.dom_norm L o h⟩

/-- FCIDUMP: generations — if `x₁` is what the first reload returned, then saving and reloading `x₁` returns `x₁` again
(so every later file is the file written from `x₁`). -/
theorem fcidump_generations (L : FcidumpW.Layout) (hL : FcidumpW.LayoutOK L) (o : FcidumpW.Obj) (x₁ : FcidumpW.Loaded)
    (h : FcidumpW.Dom L o) (h₁ : FcidumpW.load L (FcidumpW.dump L o) = .ok x₁) :
    FcidumpW.load L (FcidumpW.dump L x₁.obj) = .ok x₁ := by
  rw [FcidumpW.load_dump L hL o h] at h₁
  cases h₁
  rw [FcidumpW.load_dump L hL _ (FcidumpW.dom_norm L o h), FcidumpW.norm_idem]

end Iodata.Props.C15W
