/-
C15 — after one save/reload cycle, further cycles change nothing: second group of formats.

`norm` is what the first reload returns (`Props/C02W`); the theorems say that it is a fixed point: the reloaded object,
saved and reloaded again, is itself, and it stays inside the domain, so the second and third files coincide.
The theorems speak about quantised objects (every real carried as the digits the format prints).
-/
import Iodata.Lemmas.Fmt.FcidumpW
import Iodata.Lemmas.Fmt.PoscarW
import Iodata.Lemmas.Fmt.FchkO
import Iodata.Lemmas.Fmt.WfnS
import Iodata.Lemmas.Fmt.WfxS
import Iodata.Lemmas.Fmt.Qcs
import Iodata.Gen.LayoutsW

namespace Iodata.Props.C15W
open Iodata.Chars Iodata.Decimal Iodata.Fmt Iodata.Gen.Layouts Iodata.Gen.LayoutsW

/-! ## FCIDUMP (full file) -/

/-- FCIDUMP: the object returned by the first reload is a fixed point of save/reload and stays in the domain
(integral `nelec`/`spinpol` are not rounded again, canonical zeros stay, nothing appears outside the arrays). -/
theorem fcidump_norm_stable (L : FcidumpW.Layout) (o : FcidumpW.Obj) (h : FcidumpW.Dom L o) :
    FcidumpW.norm (FcidumpW.norm o).obj = FcidumpW.norm o ∧ FcidumpW.Dom L (FcidumpW.norm o).obj :=
  ⟨FcidumpW.norm_idem o, FcidumpW.dom_norm L o h⟩

/-- FCIDUMP: generations — if `x₁` is what the first reload returned, then saving and reloading `x₁` returns `x₁` again
(so every later file is the file written from `x₁`). -/
theorem fcidump_generations (L : FcidumpW.Layout) (hL : FcidumpW.LayoutOK L) (o : FcidumpW.Obj) (x₁ : FcidumpW.Loaded)
    (h : FcidumpW.Dom L o) (h₁ : FcidumpW.load L (FcidumpW.dump L o) = .ok x₁) :
    FcidumpW.load L (FcidumpW.dump L x₁.obj) = .ok x₁ := by
  rw [FcidumpW.load_dump L hL o h] at h₁
  cases h₁
  rw [FcidumpW.load_dump L hL _ (FcidumpW.dom_norm L o h), FcidumpW.norm_idem]

/-- FCIDUMP: the source has the shape the theorems assume (layout side condition, the seven `print` calls, the
`int(round(…))` conversions that make the reloaded integers fixed points, reader literals and word positions). -/
theorem fcidump_current :
    FcidumpW.LayoutOK fcidumpL ∧ fcidump_writes = FcidumpW.expectedWrites fcidumpL ∧ fcidumpSource = FcidumpW.expectedSource := by
  decide +kernel

/-! ## POSCAR (text layer)

The theorems are about the numbers *as printed* (cell rows in angstrom and direct coordinates, 16 decimals each): on these,
save/reload is the identity up to the grouping, and the grouping is idempotent.  The known last-digit drift of the real code
(`known_findings.json`: C15-poscar-last-digit-drift) is outside these statements in exactly two places, both floating-point
maps between an `IOData` object and the printed numbers: (1) `fl(fl(inv(cell))ᵀ·r)` followed by rounding to 16 decimals,
applied to `r = fl(s·cell)`, need not return the 16-decimal `s` it came from (error ≈ cond(cell)·2⁻⁵², above the half unit
5·10⁻¹⁷ of the last printed digit); (2) `fl(fl(c·Å)/Å)` printed with 16 decimals shows digits below the precision of a
double for |c| ≥ 1 Å.  In exact arithmetic both maps are the identity (`poscar_exact_cycle`), so the drift is confined to
the trailing digits of the numeric columns: titles, element/count lines, atom order and the line structure are stable
(`poscar_norm_stable`), which the `dump-gen2:poscar` stream checks byte for byte on the real code. -/

/-- POSCAR: the object returned by the first reload is a fixed point of save/reload (already grouped, title defaulted)
and stays in the domain. -/
theorem poscar_norm_stable (T : Tables) (L : PoscarW.Layout) (hL : PoscarW.LayoutOK L) (o : PoscarW.Obj) (h : PoscarW.Dom T o) :
    PoscarW.norm L (PoscarW.norm L o).obj = PoscarW.norm L o ∧ PoscarW.Dom T (PoscarW.norm L o).obj :=
  ⟨PoscarW.norm_idem L hL o, PoscarW.dom_norm T L hL o h⟩

/-- POSCAR: generations on the printed numbers. -/
theorem poscar_generations (T : Tables) (L : PoscarW.Layout) (hL : PoscarW.LayoutOK L) (o : PoscarW.Obj) (x₁ : PoscarW.Loaded)
    (h : PoscarW.Dom T o) (h₁ : PoscarW.load T L (PoscarW.dump T L o) = .ok x₁) :
    PoscarW.load T L (PoscarW.dump T L x₁.obj) = .ok x₁ := by
  rw [PoscarW.load_dump T L hL o h] at h₁
  cases h₁
  rw [PoscarW.load_dump T L hL _ (PoscarW.dom_norm T L hL o h), PoscarW.norm_idem L hL]

/-- POSCAR: the source has the shape the theorems assume. -/
theorem poscar_current :
    PoscarW.LayoutOK poscarL ∧ poscar_writes = PoscarW.expectedWrites poscarL ∧ poscarSource = PoscarW.expectedSource := by
  decide +kernel

/-- POSCAR: in exact arithmetic the two coordinate maps are inverse in both directions for every non-singular cell, so a
second cycle would print the same direct coordinates and reload the same Cartesian ones; the drift of the real code is
floating-point rounding only. -/
theorem poscar_exact_cycle (cell : Poscar.M3) (h : Poscar.det cell ≠ 0) (s r : Poscar.V3) :
    Poscar.toFrac cell (Poscar.toCart cell s) = s ∧ Poscar.toCart cell (Poscar.toFrac cell r) = r :=
  ⟨Poscar.toFrac_toCart cell h s, Poscar.toCart_toFrac cell h r⟩

/-! ## FCHK object mapping -/

/-- FCHK objects: the object returned by the first reload is a fixed point of save/reload (same attributes, same values,
same level of theory in the density labels, header already lower-cased) and stays in the domain; the second file holds a
sub-list of the fields of the first (attributes without a reader row are gone after the first cycle and stay gone). -/
theorem fchkobj_norm_stable (L : Fchk.Layout) (hL : Fchk.LayoutOK L) (hA : Chars.upper L.absent = L.absent) (Rn : Fchk.RunTypes)
    (hR : Fchk.RunTypesOK L Rn) (W R : List FchkO.Row) (o : FchkO.Obj)
    (hT : FchkO.TablesOK (FchkO.resolve (FchkO.levelOf L.absent o.lot) W) R) (h : FchkO.Dom L W o) :
    FchkO.norm L Rn W R (FchkO.norm L Rn W R o).obj = FchkO.norm L Rn W R o ∧ FchkO.Dom L W (FchkO.norm L Rn W R o).obj :=
  ⟨FchkO.norm_idem L hL hA Rn hR W R o hT h, FchkO.dom_norm L hL hA Rn hR W R o hT h⟩

/-- FCHK objects: generations. -/
theorem fchkobj_generations (L : Fchk.Layout) (hL : Fchk.LayoutOK L) (hA : Chars.upper L.absent = L.absent) (Rn : Fchk.RunTypes)
    (hR : Fchk.RunTypesOK L Rn) (W R : List FchkO.Row) (o : FchkO.Obj) (x₁ : FchkO.Loaded)
    (hT : FchkO.TablesOK (FchkO.resolve (FchkO.levelOf L.absent o.lot) W) R) (h : FchkO.Dom L W o)
    (h₁ : FchkO.load L Rn R (FchkO.dump L Rn W o) = .ok x₁) :
    FchkO.load L Rn R (FchkO.dump L Rn W x₁.obj) = .ok x₁ := by
  rw [FchkO.load_dump L hL Rn hR W R o hT h] at h₁
  cases h₁
  have hlv : FchkO.levelOf L.absent (FchkO.norm L Rn W R o).obj.lot = FchkO.levelOf L.absent o.lot :=
    FchkO.level_stable L hL hA o.lot h.1.2.2.1 h.2.2
  rw [FchkO.load_dump L hL Rn hR W R _ (hlv ▸ hT) (FchkO.dom_norm L hL hA Rn hR W R o hT h), FchkO.norm_idem L hL hA Rn hR W R o hT h]

/-- FCHK: the tables probed from the source satisfy the hypotheses of the two theorems above at every level of theory:
in particular the writer's and the reader's quadrupole index vectors are inverse (otherwise xz/yz would alternate between
generations) and the mass unit factors cancel (otherwise the masses would grow by 1822.89 per cycle). -/
theorem fchk_tables_current :
    (∀ lv ∈ FchkO.levels ++ [fchkL.absent], FchkO.TablesOK (FchkO.resolve lv fchkW) fchkR) ∧
    Chars.upper fchkL.absent = fchkL.absent ∧ Fchk.LayoutOK fchkL ∧ Fchk.RunTypesOK fchkL fchkRunTypes := by
  decide +kernel

/-! ## WFN (section layer) -/

/-- WFN: the arrays returned by the first reload, taken as an object again, are a fixed point of save/reload and stay in
the domain (orbital numbers are positions, the default title is kept, an absent `$MOSPIN` section stays absent). -/
theorem wfn_norm_stable (T : Tables) (L : WfnS.Layout) (hL : WfnS.LayoutOK L) (o : WfnS.Obj) (h : WfnS.Dom T L o) :
    WfnS.norm L (WfnS.norm L o).obj = WfnS.norm L o ∧ WfnS.Dom T L (WfnS.norm L o).obj :=
  ⟨WfnS.norm_idem L hL o, WfnS.dom_norm T L hL o h⟩

/-- WFN: generations at the section level; in particular the orbitals are written in the order they were read. -/
theorem wfn_generations (T : Tables) (L : WfnS.Layout) (hL : WfnS.LayoutOK L) (o : WfnS.Obj) (x₁ : WfnS.Loaded)
    (h : WfnS.Dom T L o) (h₁ : WfnS.load T L (WfnS.dump T L o) = .ok x₁) :
    WfnS.load T L (WfnS.dump T L x₁.obj) = .ok x₁ ∧ x₁.obj.mos = o.mos := by
  rw [WfnS.load_dump T L hL o h] at h₁
  cases h₁
  refine ⟨?_, ?_⟩
  · rw [WfnS.load_dump T L hL _ (WfnS.dom_norm T L hL o h), WfnS.norm_idem L hL]
  · rw [WfnS.obj_norm]

/-- WFN: the source has the shape the theorems assume. -/
theorem wfn_current : WfnS.LayoutOK wfnL ∧ wfnSource = WfnS.expectedSource wfnL := by
  decide +kernel

/-! ## WFX (section layer) -/

/-- WFX: the sections as the reader knows them (`normSec`: text lines without surrounding blanks, numbers as decoded by
`wfx_numbers`) are a fixed point: written again they give a file that `parse_wfx` reads into the same dictionary, they
stay in the domain, and normalising twice changes nothing. -/
theorem wfx_norm_stable (L : WfxS.Layout) (secs : List WfxS.Sec) (h : WfxS.Dom L secs) :
    WfxS.parse (WfxS.dump L (secs.map WfxS.normSec)) = WfxS.parse (WfxS.dump L secs) ∧
    WfxS.Dom L (secs.map WfxS.normSec) ∧ (secs.map WfxS.normSec).map WfxS.normSec = secs.map WfxS.normSec := by
  refine ⟨?_, WfxS.dom_normSec L secs h, ?_⟩
  · rw [WfxS.parse_dump L _ (WfxS.dom_normSec L secs h), WfxS.parse_dump L secs h, WfxS.norm_normSec]
  · rw [List.map_map]; apply List.map_congr_left; intro s _; exact WfxS.normSec_idem s

/-- WFX: the source has the shape the theorems assume. -/
theorem wfx_current : WfxS.LayoutOK wfxL ∧ wfx_writes = WfxS.expectedWrites wfxL ∧ wfx_parse_consts = WfxS.expectedParseConsts := by
  decide +kernel

/-! ## QCSchema JSON, molecule core: stable except for the provenance trail (the documented exception) -/

/-- QCSchema molecule: after one cycle a further cycle returns the same object in everything but the provenance trail,
which grows by exactly one entry per save, by design; the reloaded object stays in the domain. -/
theorem qcschema_norm_stable (T : Tables) (K : Qcs.Keys) (known : List Str) (reshapes : Bool) (hK : Qcs.KeysOK K K known) (m : Qcs.Mol)
    (h : Qcs.Dom T K known reshapes m) :
    (Qcs.norm K.pass (Qcs.norm K.pass m).mol).dropProv = (Qcs.norm K.pass m).dropProv ∧
    (Qcs.norm K.pass (Qcs.norm K.pass m).mol).prov = Qcs.provGrow (Qcs.norm K.pass m).prov ∧
    Qcs.provLen (Qcs.norm K.pass m).prov = Qcs.provLen m.prov + 1 ∧ Qcs.Dom T K known reshapes (Qcs.norm K.pass m).mol := by
  obtain ⟨a, b, c⟩ := Qcs.norm_norm K.pass hK.2.2.2 m
  exact ⟨a, b, c, Qcs.dom_norm T K known reshapes hK m h⟩

/-- QCSchema molecule: generations on the model — the second reload is the first one with one more provenance entry. -/
theorem qcschema_generations (T : Tables) (K : Qcs.Keys) (known : List Str) (reshapes : Bool) (hK : Qcs.KeysOK K K known) (m : Qcs.Mol)
    (x₁ : Qcs.Loaded) (h : Qcs.Dom T K known reshapes m) (h₁ : Qcs.load T K known reshapes (Qcs.dump T K m) = .ok x₁) :
    ∃ x₂, Qcs.load T K known reshapes (Qcs.dump T K x₁.mol) = .ok x₂ ∧ x₂.dropProv = x₁.dropProv ∧ x₂.prov = Qcs.provGrow x₁.prov := by
  rw [Qcs.load_dump T K known reshapes hK m h] at h₁
  cases h₁
  refine ⟨_, Qcs.load_dump T K known reshapes hK _ (Qcs.dom_norm T K known reshapes hK m h), ?_, ?_⟩
  · exact (Qcs.norm_norm K.pass hK.2.2.2 m).1
  · exact (Qcs.norm_norm K.pass hK.2.2.2 m).2.1

/-- QCSchema molecule: the key tables in the source satisfy the hypotheses of the theorems above. -/
theorem qcschema_current : Qcs.KeysOK qcsW qcsR qcsKnown ∧ qcsExprs = Qcs.expectedExprs := by
  decide +kernel

end Iodata.Props.C15W
