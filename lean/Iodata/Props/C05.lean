/-
C05 — Molden/Molekel files written with the known deviations of ORCA, PSI4, Turbomole, CFOUR or with
unnormalised contractions are repaired by a cascade of attempts, each validated by the orbital norms.

What is proved here is the DECISION LOGIC of `_fix_molden_from_buggy_codes` and the structure of its
correction tables; the attempts (order, guards, tested and stored variables, warnings) and the tables are
regenerated from the source on every run (`Iodata/Gen/Cascade.lean`) and tied to a hand-written reference
by kernel evaluation.  The norm tests are oracle booleans `ok i`.

NOT proved (numerical, searched on random vendor-encoded files by harness/vh/props/c05.py):
  "for a file of vendor V the first passing attempt is V's own correction (or one that coincides with it on
   the shell types present), so the loaded wavefunction is the true one"            -- hence level: partial.
-/
import Iodata.Lemmas.Cascade
import Iodata.Gen.Cascade
import Mathlib.Algebra.Field.Basic

set_option linter.unusedSimpArgs false
set_option linter.unusedVariables false

namespace Iodata.Props.C05
open Iodata.Cascade
open Iodata.Gen.Cascade (cascade tables)

/-! ## 1. the generated skeleton is the reviewed one -/

/-- The attempts extracted from the source (order, guards, what is tested, what is stored, which warning)
are exactly the reference list: re-ordering, dropping or re-wiring an attempt breaks this. -/
theorem gen_cascade_eq_ref : cascade = Ref.cascade := by decide

/-- The function ends with `raise LoadError`, the norm test is `max |cᵗSc − 1| ≤ norm_threshold` over all
orbitals, and both loaders end with the cascade (shape facts recorded by the translator). -/
theorem gen_shape :
    Gen.Cascade.finalRaisesLoadError = true ∧ Gen.Cascade.normTestShape = true ∧
    Gen.Cascade.moldenLoadEndsWithCascade = true ∧ Gen.Cascade.molekelLoadEndsWithCascade = true := by decide

/-! ## 2. decision logic, for every list of attempts, every shell list and every oracle -/

/-- `cascade_first`: the cascade returns attempt `j` iff `j` is the FIRST applicable attempt, in the code's
order, whose norm test passes. -/
theorem cascade_first (T : Tables) (as : List Attempt) (sh : List ShellType) (ok : Nat → Bool)
    (j : Nat) (a : Attempt) :
    run T as sh ok = .loaded j a ↔
      as[j]? = some a ∧ applicable T sh a = true ∧ ok j = true ∧
        ∀ k b, k < j → as[k]? = some b → applicable T sh b = true → ok k = false := by
  unfold run
  rw [runFrom_loaded_iff]
  constructor
  · rintro ⟨k, hj, hget, ha, hok, hprev⟩
    have : j = k := by omega
    subst this
    exact ⟨hget, ha, hok, fun k' b hk hb hab => by simpa using hprev k' b hk hb hab⟩
  · rintro ⟨hget, ha, hok, hprev⟩
    exact ⟨j, by omega, hget, ha, hok, fun k' b hk hb hab => by simpa using hprev k' b hk hb hab⟩

/-- `none_pass`: the file is rejected with `LoadError` iff no applicable attempt passes its norm test. -/
theorem none_pass_iff_loadError (T : Tables) (as : List Attempt) (sh : List ShellType) (ok : Nat → Bool) :
    run T as sh ok = .loadError ↔
      ∀ k b, as[k]? = some b → applicable T sh b = true → ok k = false := by
  unfold run
  rw [runFrom_loadError_iff]
  simp

/-- The result is never anything else: either an attempt of the list or `LoadError`. -/
theorem loaded_or_error (T : Tables) (as : List Attempt) (sh : List ShellType) (ok : Nat → Bool) :
    run T as sh ok = .loadError ∨ ∃ j a, run T as sh ok = .loaded j a ∧ as[j]? = some a := by
  cases h : run T as sh ok with
  | loadError => exact Or.inl rfl
  | loaded j a => exact Or.inr ⟨j, a, rfl, ((cascade_first T as sh ok j a).mp h).1⟩

/-- Every norm test that is executed is an applicable attempt and is recorded with its own result
(the `tests=` part of the correspondence stream). -/
theorem tests_are_applicable (T : Tables) (as : List Attempt) (sh : List ShellType) (ok : Nat → Bool)
    (t : Nat × Bool) (h : t ∈ testsFrom T sh ok 0 as) :
    t.2 = ok t.1 ∧ ∃ a, as[t.1]? = some a ∧ applicable T sh a = true := by
  obtain ⟨h1, k, a, hk, hget, ha⟩ := testsFrom_mem T sh ok as 0 t h
  have : t.1 = k := by omega
  exact ⟨h1, a, by rw [this]; exact hget, ha⟩

/-! ## 3. the cascade of the current source -/

/-- `standard_untouched`: a file whose orbitals are normalised as read is returned as read: attempt 0, no
warning, `result["obasis"]` and the coefficients are not assigned. -/
theorem standard_untouched (sh : List ShellType) (ok : Nat → Bool) (h : ok 0 = true) :
    ∃ a, run tables cascade sh ok = .loaded 0 a ∧ a.warn = none ∧ a.storeBasis = none ∧ a.storeCoeff = none := by
  rw [gen_cascade_eq_ref]
  refine ⟨⟨none, .raw, .raw, false, false, none, none⟩, ?_, rfl, rfl, rfl⟩
  simp [run, Ref.cascade, runFrom, applicable, h]

private theorem forall_attempt (P : Nat → Attempt → Prop)
    (h : ∀ p ∈ Ref.cascade.zipIdx, P p.2 p.1) (j : Nat) (a : Attempt) (hj : cascade[j]? = some a) : P j a := by
  rw [gen_cascade_eq_ref] at hj
  exact h (a, j) (List.mem_zipIdx_iff_getElem?.mpr hj)

/-- `warning_iff_correction`: whenever the cascade loads the file with attempt `j`,
* a warning is emitted iff `j ≠ 0` iff something is stored (a correction is applied);
* the warning names exactly the correction that was tested;
* what is stored is what was tested (basis and coefficients), never another variant. -/
theorem warning_iff_correction (sh : List ShellType) (ok : Nat → Bool) (j : Nat) (a : Attempt)
    (h : run tables cascade sh ok = .loaded j a) :
    (a.warn.isSome ↔ j ≠ 0) ∧ (a.warn.isSome ↔ a.storeBasis.isSome) ∧
    (∀ w, a.warn = some w → w.names = some (a.testBasis, a.testCoeff)) ∧
    (j ≠ 0 → a.storeBasis = some a.testBasis ∧
      a.storeCoeff = if a.testCoeff = .raw then none else some a.testCoeff) := by
  have hget := ((cascade_first tables cascade sh ok j a).mp h).1
  revert hget
  apply forall_attempt (fun j a =>
    (a.warn.isSome ↔ j ≠ 0) ∧ (a.warn.isSome ↔ a.storeBasis.isSome) ∧
    (∀ w, a.warn = some w → w.names = some (a.testBasis, a.testCoeff)) ∧
    (j ≠ 0 → a.storeBasis = some a.testBasis ∧
      a.storeCoeff = if a.testCoeff = .raw then none else some a.testCoeff))
  decide

/-- Each warning names one correction: the warnings of the attempts are pairwise different and none is
unclassified. -/
theorem warnings_distinct :
    (cascade.filterMap (·.warn)).Nodup ∧ Warn.other ∉ cascade.filterMap (·.warn) := by decide

/-- `none_pass ⇒ LoadError` for the current source (with the trailing `raise LoadError`). -/
theorem none_pass_loadError (sh : List ShellType) (ok : Nat → Bool) (h : ∀ i, i < 7 → ok i = false) :
    run tables cascade sh ok = .loadError ∧ Gen.Cascade.finalRaisesLoadError = true := by
  refine ⟨?_, by decide⟩
  rw [none_pass_iff_loadError]
  intro k b hb _
  apply h
  have : k < cascade.length := by
    rcases List.getElem?_eq_some_iff.mp hb with ⟨hk, _⟩; exact hk
  simpa [gen_cascade_eq_ref, Ref.cascade] using this

/-! ## 4. the corrections are positive diagonal scalings -/

/-- All entries of the generated tables are classified, positive scalings. -/
theorem tables_positive :
    (∀ f : BasisFix, ∀ e ∈ tables.basis f, e.2.okPos = true) ∧
    (∀ f : CoeffFix, ∀ e ∈ tables.coeff f, ∀ x ∈ e.2, 0 < x.1 ∧ 0 < x.2) := by
  constructor
  · intro f; cases f <;> decide
  · intro f; cases f <;> decide

variable {α : Type} [Field α]

/-- Dividing the MO coefficients by `s` (CFOUR, PSI4<=1.3.2 fixes) and dividing the basis functions by `s`
(ORCA, PSI4<=1.0, Turbomole, re-normalisation: coefficients of a shell are divided, i.e. every function of the
shell) give the same orbital `Σ (cᵢ/sᵢ) φᵢ`: both kinds of fix are one operation, a diagonal scaling. -/
theorem scale_coeffs_eq_scale_basis (s c φ : List α) :
    expand (scaleBy s c) φ = expand c (scaleBy s φ) := by
  induction s generalizing c φ with
  | nil => cases c <;> simp [scaleBy, expand]
  | cons x xs ih =>
    cases c with
    | nil => simp [scaleBy, expand]
    | cons y ys =>
      cases φ with
      | nil => simp [scaleBy, expand]
      | cons p ps =>
        have := ih ys ps
        simp only [scaleBy] at this
        simp only [scaleBy, List.zipWith_cons_cons, expand, this]
        rw [div_mul_eq_mul_div, mul_div_assoc]

/-- A diagonal scaling by non-zero factors is undone by the reciprocal factors: no information is lost. -/
theorem scale_invertible (s c : List α) (hs : ∀ x ∈ s, x ≠ 0) (hl : c.length ≤ s.length) :
    scaleBy (s.map (·⁻¹)) (scaleBy s c) = c := by
  induction s generalizing c with
  | nil => cases c <;> simp_all [scaleBy]
  | cons x xs ih =>
    cases c with
    | nil => simp [scaleBy]
    | cons y ys =>
      have hx : x ≠ 0 := hs x (by simp)
      have := ih ys (fun z hz => hs z (by simp [hz])) (by simpa using hl)
      simp only [scaleBy] at this
      simp only [scaleBy, List.map_cons, List.zipWith_cons_cons, this]
      congr 1
      rw [div_inv_eq_mul, div_mul_cancel₀ _ hx]

/-- Hence a fix cannot change the function space, only the normalisation: every expansion in the fixed
basis is an expansion in the original basis and vice versa. -/
theorem same_span (s φ : List α) (hs : ∀ x ∈ s, x ≠ 0) (hl : φ.length ≤ s.length) :
    (∀ c, ∃ c', expand c' φ = expand c (scaleBy s φ)) ∧
    (∀ c, ∃ c', expand c' (scaleBy s φ) = expand c φ) := by
  constructor
  · intro c; exact ⟨scaleBy s c, scale_coeffs_eq_scale_basis s c φ⟩
  · intro c
    refine ⟨scaleBy (s.map (·⁻¹)) c, ?_⟩
    rw [scale_coeffs_eq_scale_basis]
    have hlen : (scaleBy s φ).length ≤ (s.map (·⁻¹)).length := by simp [scaleBy]; omega
    rw [scale_invertible s φ hs hl]

/-! ## 5. the correction tables of the current source -/

/-- ORCA: s, p and pure d..h shells get the normalisation constant of a fixed monomial
(`xy`, `xyz`, `xxyz`, `x⁵`), nothing else is touched. -/
theorem orca_table : ∀ e ∈ Gen.Cascade.orcaTable, e.2 = Ref.orcaScale e.1 := by decide

/-- PSI4 <= 1.0: s, p, pure d, pure f get the normalisation constant of `x^l`; g, h and Cartesian shells
are not touched. -/
theorem psi4old_table : ∀ e ∈ Gen.Cascade.psi4oldTable, e.2 = Ref.psi4oldScale e.1 := by decide

/-- Turbomole: Cartesian d, f, g coefficients are divided by `1/√((2l-1)!!)`; nothing else. -/
theorem turbomole_table : ∀ e ∈ Gen.Cascade.turbomoleTable, e.2 = Ref.turbomoleScale e.1 := by decide

/-- Re-normalisation touches every shell (it never returns `None`) and only normalises. -/
theorem normalize_table : ∀ e ∈ Gen.Cascade.normalizeTable, e.2 = .unit := by decide

/-- CFOUR 2.1: exactly Cartesian d, f, g; the squared divisor of the function `x^a y^b z^c` (Molden order,
from the generated `CONVENTIONS`) is `1 / ((2a-1)!!(2b-1)!!(2c-1)!!)`. -/
theorem cfour_table :
    Gen.Cascade.cfourTable.map (·.1) = [(2, 'c'), (3, 'c'), (4, 'c')] ∧
    ∀ e ∈ Gen.Cascade.cfourTable,
      (Gen.Cascade.moldenConventions.lookup e.1).map (·.map fun lab => (1, monoQ (monoOf lab))) = some e.2 := by
  decide

/-- PSI4 <= 1.3.2: exactly Cartesian d, f, g; the squared divisor of `x^a y^b z^c` is
`(2l-1)!! / ((2a-1)!!(2b-1)!!(2c-1)!!)` (compared by cross-multiplication). -/
theorem psi4new_table :
    Gen.Cascade.psi4newTable.map (·.1) = [(2, 'c'), (3, 'c'), (4, 'c')] ∧
    ∀ e ∈ Gen.Cascade.psi4newTable,
      ∃ labs, Gen.Cascade.moldenConventions.lookup e.1 = some labs ∧ labs.length = e.2.length ∧
        ∀ p ∈ e.2.zip labs, p.1.1 * monoQ (monoOf p.2) = p.1.2 * oddFact e.1.1 := by
  decide

/-- The two coefficient corrections have the same guard (they touch the same shell types), so attempts 4
and 6 are applicable for the same files. -/
theorem coeff_guards_agree (sh : List ShellType) :
    (tables.coeff .cfour).touches sh = (tables.coeff .psi4new).touches sh := by
  unfold CoeffTable.touches
  congr 1
  funext s
  rw [lookup_isSome_eq_contains, lookup_isSome_eq_contains]
  have : (tables.coeff .cfour).map (·.1) = (tables.coeff .psi4new).map (·.1) := by decide
  rw [this]

/-- ORCA and PSI4<=1.0 corrections coincide exactly on the shell types other than pure d, f, g, h
(on the probed domain l ≤ 6): in particular on s and p. -/
theorem orca_psi4old_agree_iff :
    ∀ e ∈ Gen.Cascade.orcaTable,
      (Gen.Cascade.orcaTable.get e.1 = Gen.Cascade.psi4oldTable.get e.1 ↔
        ¬ (e.1.2 = 'p' ∧ 2 ≤ e.1.1 ∧ e.1.1 ≤ 5)) := by decide

/-- Why an s,p-only PSI4<=1.0 file is legitimately announced as "ORCA": on such a file both fixes act
identically on every shell, and the conventions attached by the ORCA fix equal Molden's there. -/
theorem sp_only_psi4old_is_orca (sh : List ShellType) (h : ∀ s ∈ sh, s = (0, 'c') ∨ s = (1, 'c')) :
    sh.map Gen.Cascade.orcaTable.get = sh.map Gen.Cascade.psi4oldTable.get ∧
    ∀ s ∈ sh, Gen.Cascade.orcaConventions.lookup s = Gen.Cascade.moldenConventions.lookup s := by
  constructor
  · apply List.map_congr_left
    intro s hs
    rcases h s hs with rfl | rfl <;> decide
  · intro s hs
    rcases h s hs with rfl | rfl <;> decide

/-- The conventions attached by the ORCA fix differ from Molden's only by the sign of the listed pure
functions (c3, s3 of f; c3, s3, c4, s4 of g and h): same keys, same labels in the same order. -/
theorem orca_conventions_only_signs :
    Gen.Cascade.orcaConventions.map (·.1) = Gen.Cascade.moldenConventions.map (·.1) ∧
    (∀ e ∈ Gen.Cascade.orcaConventions,
      Gen.Cascade.moldenConventions.lookup e.1 = some (e.2.map Ref.strip) ∧
      (e.2.filter (fun l => l.head? = some '-')).map Ref.strip = Ref.orcaNegative e.1) := by
  decide

/-! ## non-vacuity -/

/-- a PSI4<=1.0 file with a pure d shell: attempts 0 and 1 fail, attempt 2 passes -/
example : run tables cascade [(0, 'c'), (2, 'p')] (fun i => i == 2) = .loaded 2 (Ref.cascade[2]) := by decide

/-- s,p only and nothing passes: Turbomole/CFOUR/PSI4<=1.3.2 attempts are skipped, LoadError -/
example : run tables cascade [(0, 'c'), (1, 'c')] (fun _ => false) = .loadError ∧
    testsFrom tables [(0, 'c'), (1, 'c')] (fun _ => false) 0 cascade = [(0, false), (1, false), (2, false), (5, false)] := by
  decide

/-- the order matters: if both ORCA and PSI4<=1.0 tests pass, ORCA is announced -/
example : run tables cascade [(0, 'c')] (fun i => i == 1 || i == 2) = .loaded 1 (Ref.cascade[1]) ∧
    (Ref.cascade[1]).warn = some .orca := by decide

/-- a guarded attempt that would pass is NOT taken when its fix touches nothing -/
example : run tables cascade [(0, 'c')] (fun i => i == 3) = .loadError := by decide

end Iodata.Props.C05
