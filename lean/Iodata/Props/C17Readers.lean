/-
C17 — "a loader that succeeds returns an object in which every attribute it declares as guaranteed is set",
as THEOREMS for the ten formats with a raw reader model (`Model/Rd/*`: XYZ, SDF, MOL2, PDB, Gaussian cube, GROMACS
gro, VASP POSCAR / CHGCAR / LOCPOT, CHARMM CRD — the same functions the driver runs for the `rdr:<fmt>` correspondence streams, which compare, for every
input, the keys of the result dictionary and the attributes that are not `None` on the constructed object).

All statements are about the *generated* terms
* `Gen.Registry.declared` — the `guaranteed` list that `document_load_one/many` attach to each entry point, and
* `Gen.ReaderKeys` — by `ast`, the keys that every dictionary returned by the real `load_one` carries
  (`always`), the keys stored on some paths only (`sometimes`), whether every frame of `load_many` is an unmodified
  `load_one(lit)` dictionary, and the `IOData` fields whose default is not `None`,
both regenerated from the source on every run: a changed decorator list, or a reader that stops storing a key
unconditionally, breaks a theorem below.

What "set" means.  `hasKeyB o a`: the name `a` is a key of the dictionary the reader returns, with a value that is
not `None`.  `isSetB o a`: `getattr(IOData(**result), a) is not None` (the predicate of the direct search) — a
passed key, or a field defaulting to a fresh `dict`, or `atcorenums` derived from `atnums`.  Both are `false` for
every name the model's result object does not represent (`Rd.accessor? a = none`), so a guaranteed name outside
the represented ones makes the theorem unprovable instead of being skipped; `uncovered_none` pins that today no
guaranteed name of the ten modules is outside.  Represented: atcoords, atnums, atcorenums, atcharges, atffparams,
atmasses, bonds, cellvecs, cube, extra, title (presence of the key; for the dictionaries `atcharges`, `atffparams`, `extra`
presence of the dictionary — their sub-keys are not part of any declaration).

Per format `F`:
* `F_keys` — for ALL line lists: a returned object has at least the keys `always` and at most `always ++ sometimes`
  of the model's table `Rd.modelKeys` (from the structure of the reader, by bind inversion);
* `F_guaranteed_load_one`, `F_guaranteed_load_many` — for ALL line lists on which the reader returns `ok o`: every
  name of the generated guaranteed list of `F.load_one` (`F.load_many`) is a key of `o` and is set on `IOData(**o)`;
  for `load_many` together with the generated fact that every frame is an unmodified `load_one(lit)` dictionary;
* `F_api_guaranteed` — through the API funnel proved in C07 (`apiOutcome`): if `iodata.api.load_one` returns an
  object, the reader returned `ok o`, the constructor accepted `o`, and every guaranteed name is set.
Registry-wide (closed by computation over the generated terms): `source_keys_match_model`,
`guaranteed_within_source_always`, `load_many_frames_are_load_one`, `dict_defaults_match_source`, `uncovered_none`.
-/
import Iodata.Lemmas.C17Readers
import Iodata.Props.C07Readers
import Iodata.Gen.Registry
import Iodata.Gen.ReaderKeys
import Iodata.Gen.Layouts

set_option linter.unusedSimpArgs false
set_option linter.unusedVariables false

namespace Iodata.Props.C17Readers
open Iodata.Chars Iodata.Rd Iodata.Fmt Iodata.Flow
open Iodata.Gen.Registry (declared)
open Iodata.Gen.ReaderKeys (resultKeys loadManyFrames notNoneDefaults)
open Iodata.Props.C07Readers (reader_load_one_ret)

/-- "every name of the generated guaranteed list of `m.e` is a key of `o` and is set on the constructed object"
(the list exists: `m.e` is a declared entry point) -/
def GuaranteedSet (m e : Str) (o : RObj) : Prop :=
  (guaranteedOf declared m e).isSome = true ∧
    ∀ a ∈ (guaranteedOf declared m e).getD [], hasKeyB o a = true ∧ isSetB o a = true

/-! ## registry-wide facts (generated terms only) -/

/-- **source_keys_match_model**.  The table of keys the reader MODELS return (`Rd.modelKeys`, proved row by row
below: `F_keys`) and the table extracted from the SOURCE of the ten `load_one` functions (`Gen.ReaderKeys.resultKeys`:
keys in every returned dictionary / keys stored on some paths only) list the same formats with the same `always` and
the same `sometimes` sets.  (A reader that stops storing a key unconditionally moves it to `sometimes` and breaks
this theorem.) -/
theorem source_keys_match_model :
    resultKeys.map (·.1) = modelKeys.map (·.1) ∧
    ∀ e ∈ resultKeys, ∃ m ∈ modelKeys, m.1 = e.1 ∧ sameSet e.2.1 m.2.1 = true ∧ sameSet e.2.2 m.2.2 = true := by
  decide +kernel

/-- **guaranteed_within_source_always**.  For each of the ten modules and for `load_one` and `load_many`: every
declared guaranteed name is one of the keys that, by the source skeleton, every dictionary returned by `load_one`
carries. -/
theorem guaranteed_within_source_always :
    ∀ d ∈ declared, ∀ e ∈ resultKeys, d.module = e.1 → (d.entry = eLoadOne ∨ d.entry = eLoadMany) →
      ∀ a ∈ d.guaranteed, a ∈ e.2.1 := by
  decide +kernel

/-- **load_many_frames_are_load_one**.  Every `load_many` of the ten modules (cube, the VASP formats and CHARMM CRD have none) yields, by the source
skeleton, only unmodified dictionaries returned by `load_one(lit, …)`; the modules with a `load_many` are exactly
those the registry lists. -/
theorem load_many_frames_are_load_one :
    (∀ p ∈ loadManyFrames, p.2 = true) ∧
    ∀ m ∈ modelKeys, ((loadManyFrames.lookup m.1).isSome ↔ (guaranteedOf declared m.1 eLoadMany).isSome) := by
  decide +kernel

/-- **dict_defaults_match_source**.  Among the represented attribute names, those the constructor model treats as
"defaults to a fresh dict" are exactly the `IOData` fields whose default is not `None` in the source. -/
theorem dict_defaults_match_source :
    ∀ p ∈ accessors, (dictDefaults.contains p.1 = true ↔ p.1 ∈ notNoneDefaults) := by
  decide +kernel

/-- **uncovered_none**.  The list of guaranteed names (of the ten modules' `load_one`/`load_many`) that the model's
result object does not represent is empty — it cannot grow silently; and the list of guaranteed names it is computed
from has at least one `load_one` name for each of the ten modules. -/
theorem uncovered_none :
    uncovered declared = [] ∧
    ∀ m ∈ modelKeys, ∃ t ∈ guaranteedNames declared, t.1 = m.1 ∧ t.2.1 = eLoadOne := by
  decide +kernel

/-! ## XYZ -/

/-- **xyz_keys**: for every line list, an object returned by the XYZ reader has exactly the keys atcoords, atnums,
title. -/
theorem xyz_keys (T : Tables) (ls : List Str) (o : RObj) (h : (Rd.Xyz.read T ls).res = .ok o) :
    KeysBetween o xyzB [] := by
  obtain ⟨n, rfl⟩ := xyz_form T ls o h
  exact keysBetween_of_eq (ks := [kAtcoords, kAtnums, kTitle]) rfl (by decide) (by decide)

/-- **xyz_guaranteed_load_one**: for every line list on which the XYZ reader returns `ok o`, every name of the
generated `guaranteed` list of `xyz.load_one` is a key of `o` and set on `IOData(**o)`. -/
theorem xyz_guaranteed_load_one (T : Tables) (ls : List Str) (o : RObj) (h : (Rd.Xyz.read T ls).res = .ok o) :
    GuaranteedSet fXyz eLoadOne o :=
  ⟨by decide +kernel, guaranteed_of_keys (xyz_keys T ls o h) (by decide +kernel)⟩

/-- **xyz_guaranteed_load_many**: every frame of `xyz.load_many` is an unmodified `load_one(lit)` dictionary
(generated fact), and for every line list on which the reader returns `ok o`, every name of the generated
`guaranteed` list of `xyz.load_many` is a key of `o` and set on `IOData(**o)`. -/
theorem xyz_guaranteed_load_many (T : Tables) (ls : List Str) (o : RObj) (h : (Rd.Xyz.read T ls).res = .ok o) :
    loadManyFrames.lookup fXyz = some true ∧ GuaranteedSet fXyz eLoadMany o :=
  ⟨by decide +kernel, by decide +kernel, guaranteed_of_keys (xyz_keys T ls o h) (by decide +kernel)⟩

/-- **xyz_api_guaranteed**: if `iodata.api.load_one` returns an object for an XYZ file content, the reader returned
a dictionary the constructor accepted and every guaranteed attribute is set on it. -/
theorem xyz_api_guaranteed (T : Tables) (ls : List Str) (h : apiOutcome (Rd.Xyz.read T ls) = .ret) :
    ∃ o, (Rd.Xyz.read T ls).res = .ok o ∧ ctorE o = none ∧ GuaranteedSet fXyz eLoadOne o := by
  obtain ⟨o, ho, hc⟩ := (reader_load_one_ret _).mp h
  exact ⟨o, ho, by simp [ctorE, hc], xyz_guaranteed_load_one T ls o ho⟩

/-! ## SDF -/

/-- **sdf_keys**: for every line list, an object returned by the SDF reader has exactly the keys atcoords, atnums,
bonds, title (`bonds` also when the counts line announces no bond: an array of shape `(0, 3)`). -/
theorem sdf_keys (T : Tables) (L : Rd.Sdf.Layout) (ls : List Str) (o : RObj)
    (h : (Rd.Sdf.read T L ls).res = .ok o) : KeysBetween o sdfB [] := by
  obtain ⟨n, m, rfl⟩ := sdf_form T L ls o h
  exact keysBetween_of_eq (ks := [kAtcoords, kAtnums, kBonds, kTitle]) rfl (by decide) (by decide)

/-- **sdf_guaranteed_load_one**: as `xyz_guaranteed_load_one`, for `sdf.load_one`. -/
theorem sdf_guaranteed_load_one (T : Tables) (L : Rd.Sdf.Layout) (ls : List Str) (o : RObj)
    (h : (Rd.Sdf.read T L ls).res = .ok o) : GuaranteedSet fSdf eLoadOne o :=
  ⟨by decide +kernel, guaranteed_of_keys (sdf_keys T L ls o h) (by decide +kernel)⟩

/-- **sdf_guaranteed_load_many**: as `xyz_guaranteed_load_many`, for `sdf.load_many`. -/
theorem sdf_guaranteed_load_many (T : Tables) (L : Rd.Sdf.Layout) (ls : List Str) (o : RObj)
    (h : (Rd.Sdf.read T L ls).res = .ok o) :
    loadManyFrames.lookup fSdf = some true ∧ GuaranteedSet fSdf eLoadMany o :=
  ⟨by decide +kernel, by decide +kernel, guaranteed_of_keys (sdf_keys T L ls o h) (by decide +kernel)⟩

/-- **sdf_api_guaranteed**: as `xyz_api_guaranteed`. -/
theorem sdf_api_guaranteed (T : Tables) (L : Rd.Sdf.Layout) (ls : List Str)
    (h : apiOutcome (Rd.Sdf.read T L ls) = .ret) :
    ∃ o, (Rd.Sdf.read T L ls).res = .ok o ∧ ctorE o = none ∧ GuaranteedSet fSdf eLoadOne o := by
  obtain ⟨o, ho, hc⟩ := (reader_load_one_ret _).mp h
  exact ⟨o, ho, by simp [ctorE, hc], sdf_guaranteed_load_one T L ls o ho⟩

/-! ## MOL2 -/

/-- **mol2_keys**: for every line list, an object returned by the MOL2 reader has the keys atcoords, atnums,
atcharges, atffparams, title, and possibly bonds, nothing else. -/
theorem mol2_keys (ls : List Str) (o : RObj) (h : (Rd.Mol2.read ls).res = .ok o) :
    KeysBetween o mol2B [kBonds] := by
  obtain ⟨n, b, rfl⟩ := mol2_form ls o h
  cases b
  · exact keysBetween_of_eq (ks := [kAtcoords, kAtnums, kAtcharges, kAtffparams, kTitle]) rfl (by decide) (by decide)
  · exact keysBetween_of_eq (ks := [kAtcoords, kAtnums, kAtcharges, kAtffparams, kBonds, kTitle]) rfl (by decide)
      (by decide)

/-- **mol2_guaranteed_load_one**: as `xyz_guaranteed_load_one`, for `mol2.load_one`. -/
theorem mol2_guaranteed_load_one (ls : List Str) (o : RObj) (h : (Rd.Mol2.read ls).res = .ok o) :
    GuaranteedSet fMol2 eLoadOne o :=
  ⟨by decide +kernel, guaranteed_of_keys (mol2_keys ls o h) (by decide +kernel)⟩

/-- **mol2_guaranteed_load_many**: as `xyz_guaranteed_load_many`, for `mol2.load_many`. -/
theorem mol2_guaranteed_load_many (ls : List Str) (o : RObj) (h : (Rd.Mol2.read ls).res = .ok o) :
    loadManyFrames.lookup fMol2 = some true ∧ GuaranteedSet fMol2 eLoadMany o :=
  ⟨by decide +kernel, by decide +kernel, guaranteed_of_keys (mol2_keys ls o h) (by decide +kernel)⟩

/-- **mol2_api_guaranteed**: as `xyz_api_guaranteed`. -/
theorem mol2_api_guaranteed (ls : List Str) (h : apiOutcome (Rd.Mol2.read ls) = .ret) :
    ∃ o, (Rd.Mol2.read ls).res = .ok o ∧ ctorE o = none ∧ GuaranteedSet fMol2 eLoadOne o := by
  obtain ⟨o, ho, hc⟩ := (reader_load_one_ret _).mp h
  exact ⟨o, ho, by simp [ctorE, hc], mol2_guaranteed_load_one ls o ho⟩

/-! ## PDB -/

/-- **pdb_keys**: for every line list, an object returned by the PDB reader has the keys atcoords, atnums,
atffparams, extra, title, and possibly bonds, nothing else. -/
theorem pdb_keys (L : Rd.Pdb.Layout) (ls : List Str) (o : RObj) (h : (Rd.Pdb.read L ls).res = .ok o) :
    KeysBetween o pdbB [kBonds] := by
  obtain ⟨n, x, b, rfl⟩ := pdb_form L ls o h
  cases b
  · exact keysBetween_of_eq (ks := [kAtcoords, kAtnums, kAtffparams, kExtra, kTitle]) rfl (by decide) (by decide)
  · exact keysBetween_of_eq (ks := [kAtcoords, kAtnums, kAtffparams, kBonds, kExtra, kTitle]) rfl (by decide)
      (by decide)

/-- **pdb_guaranteed_load_one**: as `xyz_guaranteed_load_one`, for `pdb.load_one`. -/
theorem pdb_guaranteed_load_one (L : Rd.Pdb.Layout) (ls : List Str) (o : RObj)
    (h : (Rd.Pdb.read L ls).res = .ok o) : GuaranteedSet fPdb eLoadOne o :=
  ⟨by decide +kernel, guaranteed_of_keys (pdb_keys L ls o h) (by decide +kernel)⟩

/-- **pdb_guaranteed_load_many**: as `xyz_guaranteed_load_many`, for `pdb.load_many`. -/
theorem pdb_guaranteed_load_many (L : Rd.Pdb.Layout) (ls : List Str) (o : RObj)
    (h : (Rd.Pdb.read L ls).res = .ok o) :
    loadManyFrames.lookup fPdb = some true ∧ GuaranteedSet fPdb eLoadMany o :=
  ⟨by decide +kernel, by decide +kernel, guaranteed_of_keys (pdb_keys L ls o h) (by decide +kernel)⟩

/-- **pdb_api_guaranteed**: as `xyz_api_guaranteed`. -/
theorem pdb_api_guaranteed (L : Rd.Pdb.Layout) (ls : List Str) (h : apiOutcome (Rd.Pdb.read L ls) = .ret) :
    ∃ o, (Rd.Pdb.read L ls).res = .ok o ∧ ctorE o = none ∧ GuaranteedSet fPdb eLoadOne o := by
  obtain ⟨o, ho, hc⟩ := (reader_load_one_ret _).mp h
  exact ⟨o, ho, by simp [ctorE, hc], pdb_guaranteed_load_one L ls o ho⟩

/-! ## Gaussian cube (no `load_many`) -/

/-- **cube_keys**: for every line list, an object returned by the cube reader has exactly the keys atcoords, atnums,
atcorenums, cellvecs, cube, title. -/
theorem cube_keys (ls : List Str) (o : RObj) (h : (Rd.Cube.read ls).res = .ok o) : KeysBetween o cubeB [] := by
  obtain ⟨n, s, rfl⟩ := cube_form ls o h
  exact keysBetween_of_eq (ks := [kAtcoords, kAtnums, kAtcorenums, kCellvecs, kCube, kTitle]) rfl (by decide)
    (by decide)

/-- **cube_guaranteed_load_one**: as `xyz_guaranteed_load_one`, for `cube.load_one`. -/
theorem cube_guaranteed_load_one (ls : List Str) (o : RObj) (h : (Rd.Cube.read ls).res = .ok o) :
    GuaranteedSet fCube eLoadOne o :=
  ⟨by decide +kernel, guaranteed_of_keys (cube_keys ls o h) (by decide +kernel)⟩

/-- **cube_api_guaranteed**: as `xyz_api_guaranteed`. -/
theorem cube_api_guaranteed (ls : List Str) (h : apiOutcome (Rd.Cube.read ls) = .ret) :
    ∃ o, (Rd.Cube.read ls).res = .ok o ∧ ctorE o = none ∧ GuaranteedSet fCube eLoadOne o := by
  obtain ⟨o, ho, hc⟩ := (reader_load_one_ret _).mp h
  exact ⟨o, ho, by simp [ctorE, hc], cube_guaranteed_load_one ls o ho⟩

/-! ## GROMACS gro -/

/-- **gro_keys**: for every line list, an object returned by the GRO reader has exactly the keys atcoords,
atffparams, cellvecs, extra, title. -/
theorem gro_keys (ls : List Str) (o : RObj) (h : (Rd.Gro.read ls).res = .ok o) : KeysBetween o groB [] := by
  obtain ⟨n, rfl⟩ := gro_form ls o h
  exact keysBetween_of_eq (ks := [kAtcoords, kAtffparams, kCellvecs, kExtra, kTitle]) rfl (by decide) (by decide)

/-- **gro_guaranteed_load_one**: as `xyz_guaranteed_load_one`, for `gromacs.load_one`. -/
theorem gro_guaranteed_load_one (ls : List Str) (o : RObj) (h : (Rd.Gro.read ls).res = .ok o) :
    GuaranteedSet fGro eLoadOne o :=
  ⟨by decide +kernel, guaranteed_of_keys (gro_keys ls o h) (by decide +kernel)⟩

/-- **gro_guaranteed_load_many**: as `xyz_guaranteed_load_many`, for `gromacs.load_many`. -/
theorem gro_guaranteed_load_many (ls : List Str) (o : RObj) (h : (Rd.Gro.read ls).res = .ok o) :
    loadManyFrames.lookup fGro = some true ∧ GuaranteedSet fGro eLoadMany o :=
  ⟨by decide +kernel, by decide +kernel, guaranteed_of_keys (gro_keys ls o h) (by decide +kernel)⟩

/-- **gro_api_guaranteed**: as `xyz_api_guaranteed`. -/
theorem gro_api_guaranteed (ls : List Str) (h : apiOutcome (Rd.Gro.read ls) = .ret) :
    ∃ o, (Rd.Gro.read ls).res = .ok o ∧ ctorE o = none ∧ GuaranteedSet fGro eLoadOne o := by
  obtain ⟨o, ho, hc⟩ := (reader_load_one_ret _).mp h
  exact ⟨o, ho, by simp [ctorE, hc], gro_guaranteed_load_one ls o ho⟩

/-! ## VASP POSCAR, CHGCAR, LOCPOT (no `load_many`) -/

/-- **poscar_keys**: for every line list, an object returned by the POSCAR reader has exactly the keys atcoords,
atnums, cellvecs, title. -/
theorem poscar_keys (T : Tables) (ls : List Str) (o : RObj) (h : (Rd.Vasp.readPoscar T ls).res = .ok o) :
    KeysBetween o poscarB [] := by
  obtain ⟨s, n, k, rfl⟩ := poscar_form T ls o h
  exact keysBetween_of_eq (ks := [kAtcoords, kAtnums, kCellvecs, kTitle]) rfl (by decide) (by decide)

/-- **poscar_guaranteed_load_one**: as `xyz_guaranteed_load_one`, for `poscar.load_one`. -/
theorem poscar_guaranteed_load_one (T : Tables) (ls : List Str) (o : RObj)
    (h : (Rd.Vasp.readPoscar T ls).res = .ok o) : GuaranteedSet fPoscar eLoadOne o :=
  ⟨by decide +kernel, guaranteed_of_keys (poscar_keys T ls o h) (by decide +kernel)⟩

/-- **poscar_api_guaranteed**: as `xyz_api_guaranteed`. -/
theorem poscar_api_guaranteed (T : Tables) (ls : List Str) (h : apiOutcome (Rd.Vasp.readPoscar T ls) = .ret) :
    ∃ o, (Rd.Vasp.readPoscar T ls).res = .ok o ∧ ctorE o = none ∧ GuaranteedSet fPoscar eLoadOne o := by
  obtain ⟨o, ho, hc⟩ := (reader_load_one_ret _).mp h
  exact ⟨o, ho, by simp [ctorE, hc], poscar_guaranteed_load_one T ls o ho⟩

/-- **chgcar_keys**: for every line list, an object returned by the CHGCAR reader has exactly the keys atcoords,
atnums, cellvecs, cube, title. -/
theorem chgcar_keys (T : Tables) (ls : List Str) (o : RObj) (h : (Rd.Vasp.readChgcar T ls).res = .ok o) :
    KeysBetween o vaspGridB [] := by
  obtain ⟨s, c, n, k, rfl⟩ := vasp_grid_form T ls o h
  exact keysBetween_of_eq (ks := [kAtcoords, kAtnums, kCellvecs, kCube, kTitle]) rfl (by decide) (by decide)

/-- **chgcar_guaranteed_load_one**: as `xyz_guaranteed_load_one`, for `chgcar.load_one`. -/
theorem chgcar_guaranteed_load_one (T : Tables) (ls : List Str) (o : RObj)
    (h : (Rd.Vasp.readChgcar T ls).res = .ok o) : GuaranteedSet fChgcar eLoadOne o :=
  ⟨by decide +kernel, guaranteed_of_keys (chgcar_keys T ls o h) (by decide +kernel)⟩

/-- **chgcar_api_guaranteed**: as `xyz_api_guaranteed`. -/
theorem chgcar_api_guaranteed (T : Tables) (ls : List Str) (h : apiOutcome (Rd.Vasp.readChgcar T ls) = .ret) :
    ∃ o, (Rd.Vasp.readChgcar T ls).res = .ok o ∧ ctorE o = none ∧ GuaranteedSet fChgcar eLoadOne o := by
  obtain ⟨o, ho, hc⟩ := (reader_load_one_ret _).mp h
  exact ⟨o, ho, by simp [ctorE, hc], chgcar_guaranteed_load_one T ls o ho⟩

/-- **locpot_keys**: as `chgcar_keys`. -/
theorem locpot_keys (T : Tables) (ls : List Str) (o : RObj) (h : (Rd.Vasp.readLocpot T ls).res = .ok o) :
    KeysBetween o vaspGridB [] := by
  obtain ⟨s, c, n, k, rfl⟩ := vasp_grid_form T ls o h
  exact keysBetween_of_eq (ks := [kAtcoords, kAtnums, kCellvecs, kCube, kTitle]) rfl (by decide) (by decide)

/-- **locpot_guaranteed_load_one**: as `xyz_guaranteed_load_one`, for `locpot.load_one`. -/
theorem locpot_guaranteed_load_one (T : Tables) (ls : List Str) (o : RObj)
    (h : (Rd.Vasp.readLocpot T ls).res = .ok o) : GuaranteedSet fLocpot eLoadOne o :=
  ⟨by decide +kernel, guaranteed_of_keys (locpot_keys T ls o h) (by decide +kernel)⟩

/-- **locpot_api_guaranteed**: as `xyz_api_guaranteed`. -/
theorem locpot_api_guaranteed (T : Tables) (ls : List Str) (h : apiOutcome (Rd.Vasp.readLocpot T ls) = .ret) :
    ∃ o, (Rd.Vasp.readLocpot T ls).res = .ok o ∧ ctorE o = none ∧ GuaranteedSet fLocpot eLoadOne o := by
  obtain ⟨o, ho, hc⟩ := (reader_load_one_ret _).mp h
  exact ⟨o, ho, by simp [ctorE, hc], locpot_guaranteed_load_one T ls o ho⟩

/-! ## CHARMM CRD (module `charmm`, no `load_many`) -/

/-- **crd_keys**: for every line list, an object returned by the CRD reader has exactly the keys atcoords,
atffparams, atmasses, extra, title. -/
theorem crd_keys (ls : List Str) (o : RObj) (h : (Rd.Crd.read ls).res = .ok o) : KeysBetween o crdB [] := by
  obtain ⟨n, rfl⟩ := crd_form ls o h
  exact keysBetween_of_eq (ks := [kAtcoords, kAtffparams, kAtmasses, kExtra, kTitle]) rfl (by decide) (by decide)

/-- **crd_guaranteed_load_one**: as `xyz_guaranteed_load_one`, for `charmm.load_one` (guaranteed: atcoords,
atffparams, atmasses, extra). -/
theorem crd_guaranteed_load_one (ls : List Str) (o : RObj) (h : (Rd.Crd.read ls).res = .ok o) :
    GuaranteedSet fCrd eLoadOne o :=
  ⟨by decide +kernel, guaranteed_of_keys (crd_keys ls o h) (by decide +kernel)⟩

/-- **crd_api_guaranteed**: as `xyz_api_guaranteed`. -/
theorem crd_api_guaranteed (ls : List Str) (h : apiOutcome (Rd.Crd.read ls) = .ret) :
    ∃ o, (Rd.Crd.read ls).res = .ok o ∧ ctorE o = none ∧ GuaranteedSet fCrd eLoadOne o := by
  obtain ⟨o, ho, hc⟩ := (reader_load_one_ret _).mp h
  exact ⟨o, ho, by simp [ctorE, hc], crd_guaranteed_load_one ls o ho⟩

/-! ## non-vacuity: concrete files on which the readers return an object (evaluated by the kernel with the generated
tables and layouts), with its keys, the constructor's acceptance and the guaranteed names exhibited; for MOL2 and PDB
one file with and one without the `sometimes` key `bonds`; for SDF a record without bonds (`bonds` is still a key) -/

open Iodata.Gen.Layouts (tables sdfL pdbL)

example : witnessOk declared (Rd.Xyz.read tables xyzH2) fXyz eLoadOne [kAtcoords, kAtnums, kTitle] = true ∧
    witnessOk declared (Rd.Xyz.read tables xyzH2) fXyz eLoadMany [kAtcoords, kAtnums, kTitle] = true := by
  decide +kernel
example : witnessOk declared (Rd.Sdf.read tables sdfL sdfIon) fSdf eLoadOne [kAtcoords, kAtnums, kBonds, kTitle] = true ∧
    witnessOk declared (Rd.Sdf.read tables sdfL sdfOH) fSdf eLoadMany [kAtcoords, kAtnums, kBonds, kTitle] = true ∧
    (Rd.Sdf.read tables sdfL sdfIon).res
      = .ok { atcoords := some [1, 3], atnums := some [1], bonds := some [0, 3], hasTitle := true } := by
  decide +kernel
example : witnessOk declared (Rd.Mol2.read mol2NoBond) fMol2 eLoadOne
      [kAtcoords, kAtnums, kAtcharges, kAtffparams, kTitle] = true ∧
    witnessOk declared (Rd.Mol2.read mol2Bond) fMol2 eLoadMany
      [kAtcoords, kAtnums, kAtcharges, kAtffparams, kBonds, kTitle] = true := by
  decide +kernel
example : witnessOk declared (Rd.Pdb.read pdbL pdbNoBond) fPdb eLoadOne
      [kAtcoords, kAtnums, kAtffparams, kExtra, kTitle] = true ∧
    witnessOk declared (Rd.Pdb.read pdbL pdbBond) fPdb eLoadMany
      [kAtcoords, kAtnums, kAtffparams, kBonds, kExtra, kTitle] = true := by
  decide +kernel
example : witnessOk declared (Rd.Cube.read cubeH) fCube eLoadOne
      [kAtcoords, kAtnums, kAtcorenums, kCellvecs, kCube, kTitle] = true := by
  decide +kernel
example : witnessOk declared (Rd.Gro.read groSol) fGro eLoadOne [kAtcoords, kAtffparams, kCellvecs, kExtra, kTitle] = true ∧
    witnessOk declared (Rd.Gro.read groSol) fGro eLoadMany [kAtcoords, kAtffparams, kCellvecs, kExtra, kTitle] = true := by
  decide +kernel
example : witnessOk declared (Rd.Vasp.readPoscar tables poscarBN) fPoscar eLoadOne
      [kAtcoords, kAtnums, kCellvecs, kTitle] = true := by
  decide +kernel
example : witnessOk declared (Rd.Vasp.readChgcar tables chgcarO) fChgcar eLoadOne
      [kAtcoords, kAtnums, kCellvecs, kCube, kTitle] = true ∧
    witnessOk declared (Rd.Vasp.readLocpot tables chgcarO) fLocpot eLoadOne
      [kAtcoords, kAtnums, kCellvecs, kCube, kTitle] = true ∧
    apiOutcome (Rd.Vasp.readChgcar tables chgcarO) = .ret := by
  decide +kernel
example : witnessOk declared (Rd.Crd.read crdTwo) fCrd eLoadOne
      [kAtcoords, kAtffparams, kAtmasses, kExtra, kTitle] = true ∧
    apiOutcome (Rd.Crd.read crdTwo) = .ret ∧
    guaranteedOf declared fCrd eLoadOne = some [kAtcoords, kAtffparams, kAtmasses, kExtra] := by
  decide +kernel
/-- the API level is not vacuous either: `load_one` returns the object for the XYZ witness -/
example : apiOutcome (Rd.Xyz.read tables xyzH2) = .ret := by decide +kernel
/-- a name the object does not represent is never "set" (so a guaranteed list containing it cannot be proved) -/
example : hasKeyB {} ['e','n','e','r','g','y'] = false ∧ isSetB {} ['e','n','e','r','g','y'] = false ∧
    isSetB {} kExtra = true ∧ hasKeyB {} kExtra = false := by decide +kernel

end Iodata.Props.C17Readers
