#!/usr/bin/env python3
"""Regenerate MANIFEST.json from the table below (run after adding a property)."""
import json
import os

HERE = os.path.dirname(os.path.abspath(__file__))
ROOT = os.path.dirname(HERE)

BASELINE = ("cd /repo && /venv/bin/python -m pytest -ra -q -p no:cacheprovider --timeout=900 "
            "--continue-on-collection-errors")

COMMON_NOTE = (
    "Trusted: Lean 4.33 kernel; axioms propext/Classical.choice/Quot.sound only (audited each run by #print axioms; "
    "no native_decide/bv_decide/sorry/project axioms); the Python translator that prints lean/Iodata/Gen/*.lean from "
    "/repo's current source; the correspondence harness (generators, canonicalisation, line protocol); CPython/numpy/"
    "attrs semantics of the constructs the hand model transcribes. "
)

# property -> (text, technique, note, design_ref)
CLAIMS = {
    "C10": (
        "Lean theorems over ALL label lists (any element type with decidable equality): success iff the conventions name "
        "the same functions once each; pointwise spec (position + sign product); permutation; reverse = opposite "
        "direction; there-and-back = identity; A->B->C = A->C; basis level = shifted block concatenation; every built-in "
        "table (regenerated from source each run) well-formed and pairwise convertible by kernel evaluation. The model is "
        "tied to convert.py by a line-protocol correspondence (random + all built-in pairs + corruptions) and a direct "
        "search on the real code.",
        "Lean 4 proof (induction / list lemmas / decide +kernel over generated tables) + model-vs-code correspondence",
        "Modelled: str.startswith/lstrip/index/set semantics; numpy fancy indexing.",
        "DESIGN.md §5 C10",
    ),
}

CLAIMS["C09"] = (
    "Lean: (1) the effect summary regenerated from /repo's source on every run (ast may-alias analysis of every iodata "
    "function reachable from dump_one/dump_many/write_input) contains no store, in-place operation or mutating call "
    "rooted at the caller's objects outside a reviewed 3-entry list (decide over Gen/Effects); (2) frame lemma over an "
    "abstract heap for programs of any length. The summary's completeness is cross-checked on every run by deep "
    "snapshots (array bytes, dict contents, derived properties, member identities) around every dump of ~200 corpus and "
    "hand-built objects x 13 formats x allow_changes, dump_many and both input writers, twice in a row; returned-object "
    "identity, announced conversions and numerical equivalence of converted wavefunctions are checked on the real code.",
    "Lean 4 proof over a source-extracted effect summary (translator) + frame lemma; dynamic deep-snapshot search",
    "Trusted-but-cross-checked: completeness of the static alias analysis (harness/vh/effects.py). Equivalence of "
    "converted objects is numerical (search), the algebraic statement is C14's.",
    "DESIGN.md §5 C09",
)
CLAIMS["C16"] = (
    "Lean: (1) the effect summary regenerated from /repo's source on every run contains no store/in-place operation/"
    "mutating call rooted at a module-level table (decide over Gen/Effects; empty allowed list); (2) for every history "
    "(any permutation, repetition or interleaving of atomic calls) of read-only calls the shared state is unchanged and "
    "each call returns what it returns alone (induction over the history), with a witness that the hypothesis is needed. "
    "Cross-check on the real code: a pool of ~120-700 API calls run alone in fresh interpreters vs shuffled/repeated "
    "sequential histories vs 2-16 threads (switch interval 1e-6), plus snapshots of all ~150 module-level tables.",
    "Lean 4 proof over a source-extracted effect summary (translator) + induction over histories; dynamic search",
    "Atomicity of a call w.r.t. shared state is the model's abstraction; warning delivery under threads not covered.",
    "DESIGN.md §5 C16",
)

CLAIMS["C05"] = (
    "PARTIAL. Lean, for EVERY list of repair attempts, shell list and outcome of the norm tests: the cascade returns "
    "attempt j iff j is the first applicable attempt, in the code's order, whose norm test passes (cascade_first); "
    "LoadError iff none passes; every executed test is an applicable attempt. For the cascade of the CURRENT source "
    "(order, guards, tested/stored variables, warnings extracted by an ast walk of _fix_molden_from_buggy_codes on every "
    "run and tied to a reviewed reference by kernel evaluation): a file normalised as read is returned untouched without "
    "warning; a warning is emitted iff a correction is stored, it names exactly the correction that was tested, and what "
    "is stored is what was tested; warnings pairwise distinct. Correction tables (obtained by probing the six _fix_* "
    "functions on every run): closed forms for ORCA / PSI4<=1.0 / Turbomole / CFOUR / PSI4<=1.3.2 (double-factorial "
    "formulas in Molden order), all entries positive, ORCA and PSI4<=1.0 coincide exactly off the pure d-h shells (so an "
    "s,p-only PSI4 file is legitimately 'ORCA'), ORCA conventions differ from Molden's by the listed signs only; both "
    "kinds of fix are one operation, an invertible positive diagonal scaling that preserves the span (any field). "
    "NOT proved (numerical): that for a file of vendor V the first passing attempt is V's. That part is searched: random "
    "complete orthonormal wavefunctions x 8 vendor encodings written by an independent encoder x Molden(AU/Angs)/MKL x "
    "thresholds must load as the true orbitals (L2 distance over the harness's own integrals), orthonormal w.r.t. the "
    "returned basis, with exactly the expected LoadWarning; damaged files that no correction normalises must raise "
    "LoadError; the real norm-test booleans and guards are compared with an independent evaluation; 35 repository "
    "fixtures must keep their branch. Correspondence: recorded real booleans + shell types -> Lean cascade -> executed "
    "tests, branch, warning, stored variant compared with the loader.",
    "Lean 4 proof (induction over the decision list, decide over source-extracted skeleton and probed tables) + "
    "model-vs-code correspondence + randomized search with an independent Gaussian-integral evaluator",
    "Partial: norm tests are oracle booleans in the model; the right-branch-for-vendor claim is only searched. Trusted: "
    "harness/vh/gto.py (own overlap/solid harmonics), the vendor encoders in harness/vh/vendorfiles.py. mo.kind/ncon "
    "pre-checks and text scanning are not modelled.",
    "DESIGN.md §5 C05",
)

NOT_YET = {}


def main():
    props = [json.loads(l) for l in open(os.path.join(ROOT, "properties.jsonl"))]
    checks = []
    na = []
    for p in props:
        pid = p["id"]
        if pid in CLAIMS and os.path.exists(os.path.join(HERE, "vh", "props", pid.lower() + ".py")):
            text, tech, note, ref = CLAIMS[pid]
            checks.append({
                "property_id": pid,
                "quick_cmd": f"bin/check {pid} --tier quick",
                "thorough_cmd": f"bin/check {pid} --tier thorough",
                "evidence_file": f"evidence/{pid}.json",
                "replay_cmd_template": f"bin/check {pid} --replay {{path}}",
                "engine": "lean-iodata",
                "level_claimed": {"category": "proof", "text": text, "design_ref": ref},
                "level_note": COMMON_NOTE + note,
                "technique": tech,
            })
        else:
            na.append({"property_id": pid,
                       "reason": NOT_YET.get(pid, "check not built yet in this round (planned, see DESIGN.md §5/§9); "
                                                  "not claimed until its Lean model, theorems and tie exist")})
    man = {
        "version": 1,
        "setup_cmd": "cd lean && lake build Iodata driver",
        "hooks": {
            "guard": "IODATA_VERIF",
            "enable": "none needed: no source hooks; checks observe /repo through the public API, ast and monkey-patching "
                      "from the harness process",
            "baseline_off_cmd": BASELINE,
            "source_commits": [],
            "add_only": True,
        },
        "engines": [{
            "name": "lean-iodata",
            "path": "lean/ + harness/vh/",
            "serves_properties": [c["property_id"] for c in checks],
            "kind_free_text": "Lean 4 models + theorems (lean/Iodata), a translator that regenerates lean/Iodata/Gen from "
                              "/repo on every run, a compiled line-protocol driver for model-vs-code correspondence, and "
                              "direct failing-input search on the real code",
        }],
        "checks": checks,
        "not_applicable": na,
        "notes": "bin/check Cxx --tier quick|thorough [--replay FILE]; VERIF_SEED selects the PRNG seed; exit 2 = "
                 "infrastructure problem or time-out (never a violation). Fix commits in /repo and known findings are "
                 "listed in known_findings.json and DESIGN.md §6.",
    }
    with open(os.path.join(ROOT, "MANIFEST.json"), "w") as fh:
        json.dump(man, fh, indent=1)
        fh.write("\n")
    print("claimed:", [c["property_id"] for c in checks])
    print("not applicable:", [n["property_id"] for n in na])


if __name__ == "__main__":
    main()
