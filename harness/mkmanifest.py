#!/usr/bin/env python3
"""Regenerate MANIFEST.json from the table below (run after adding a property)."""
import json
import os

HERE = os.path.dirname(os.path.abspath(__file__))
ROOT = os.path.dirname(HERE)

BASELINE = ("cd /repo && /venv/bin/python -m pytest -ra -q -p no:cacheprovider --timeout=900 "
            "--continue-on-collection-errors")

COMMON_NOTE = (
    "Trusted: Lean 4.33 kernel; axioms propext/Classical.choice/Quot.sound only (audited each run by #print axioms; "
    "no native_decide/bv_decide/sorry/project axioms); the Python translator that prints lean/Iodata/Gen/*.lean from "
    "/repo's current source; the correspondence harness (generators, canonicalisation, line protocol); CPython/numpy/"
    "attrs semantics of the constructs the hand model transcribes. "
)

# property -> (text, technique, note, design_ref)
CLAIMS = {
    "C08": (
        "Lean theorems over ALL callee behaviours (what getattr does for each required name, whether prepare_dump exists / "
        "returns / raises which class, whether open fails, how many write calls succeed before which exception, any number "
        "of frames, how the user's iterator ends) and all file systems: dump_one_preflight (PrepareDumpError, file system "
        "unchanged, no open/write event), dump_one_write (DumpError, file holds exactly the completed writes, closed), "
        "select failure before anything is touched, dump_many_empty / _first / _later (by induction over the frame list), "
        "write_input_funnel, only_these_escape for the three entry points. The theorems are about reference IR terms; the "
        "terms extracted from api.py by ast on every run are tied to them by decide (flow_matches_*), the per-format "
        "required lists by decide against the pinned lists. The semantics is tied to the real code by running the real "
        "dump_one/dump_many/write_input against scripted modules with fault injection at every write, and on the cross "
        "product of the 13+4 real dump functions x None-subsets x rejection reasons x allow_changes x target state.",
        "Lean 4 proof (case analysis + induction over frames) over a control-flow IR extracted from api.py + "
        "model-vs-code correspondence with fault injection + direct search",
        "Modelled: Python try/except class matching, with-statement, for-loops over iterators, generators/PEP 479; closing "
        "the file does not fail; format writers consume the frame iterator with a plain loop.",
        "DESIGN.md §5 C08",
    ),
    "C07": (
        "Lean theorems over ALL parser behaviours for the API funnel: load_one_funnel / load_many_funnel (any sequence of "
        "next(lit)/lit.back() calls incl. reading past the end, the parser or IOData(**dict) returning or raising any "
        "class at any point, any number of frames, PEP 479 inside generator parsers, the user exhausting or discarding "
        "after k frames; load_many by induction over the frames): the outcome is an object / LoadError (or a "
        "non-Exception such as KeyboardInterrupt), the file was opened once and the last event is its close, a "
        "funnel-made LoadError carries lineno = #next - #back (lineiterator_lineno for every op sequence); selection "
        "failure before the file is opened; an unstarted load_many opens nothing. The terms extracted from api.py on "
        "every run are tied to the reference terms by decide; the semantics is tied to the real load_one/load_many by "
        "running them against scripted parsers (outcome class, lineno, event trace, fd delta). PARTIAL: termination and "
        "outcome classes of the 25 format parsers on arbitrary content are NOT proved; they are covered by direct search "
        "(truncation at line boundaries and seeded mutations of ~140 corpus files: outcome in {object, LoadError, "
        "FileFormatError}, consistent per-atom shapes, message names the file, lineno = #next - #back, file closed, "
        "per-load time limit) which is exploration, not proof.",
        "Lean 4 proof (induction over line operations and frames) over a control-flow IR extracted from api.py + "
        "model-vs-code correspondence + corpus-mutation search for the unmodelled parsers",
        "Modelled: Python try/except, with, generators (PEP 479, close()). LineIterator counts a failed read at end of "
        "file (lineno = N+1 there).",
        "DESIGN.md §5 C07",
    ),
    "C18": (
        "Lean theorems by kernel evaluation over the terms, signatures and argparse table extracted from __main__.py / "
        "api.py on every run: convert is exactly dump_one(load_one(..)) / dump_many(load_many(..)) (flow_matches_convert), "
        "Python's argument binding applied to the extracted calls and signatures sends infn/infmt to load_*, "
        "outfn/outfmt/allow_changes to dump_* (argument_binding_one/_many, for symbolic values; swapping infmt/outfmt "
        "falsifies it), main = np.seterr; parse_args; convert with the parsed options bound to the parameters of the same "
        "meaning (main_binding, argparse_table), the API names are imported from .api and never re-bound, nothing is "
        "caught (cli_catches_nothing: any API exception = non-zero exit), and with C08 a pre-flight rejection leaves an "
        "existing output untouched (cli_preflight_spares_output). The model of binding/argparse is tied to the real "
        "main() by an in-process correspondence (all option spellings/orders, usage errors); `python -m iodata` as a "
        "subprocess is compared with the API calls on (corpus file, target) pairs: exit status, output bytes, stderr.",
        "Lean 4 kernel evaluation over extracted IR/signatures + C08 composition + in-process and subprocess correspondence",
        "Modelled: argparse for the option kinds used; numpy FP traps never change a returned value; an uncaught "
        "exception ends the interpreter with status 1.",
        "DESIGN.md §5 C18",
    ),
    "C10": (
        "Lean theorems over ALL label lists (any element type with decidable equality): success iff the conventions name "
        "the same functions once each; pointwise spec (position + sign product); permutation; reverse = opposite "
        "direction; there-and-back = identity; A->B->C = A->C; basis level = shifted block concatenation; every built-in "
        "table (regenerated from source each run) well-formed and pairwise convertible by kernel evaluation. The model is "
        "tied to convert.py by a line-protocol correspondence (random + all built-in pairs + corruptions) and a direct "
        "search on the real code.",
        "Lean 4 proof (induction / list lemmas / decide +kernel over generated tables) + model-vs-code correspondence",
        "Modelled: str.startswith/lstrip/index/set semantics; numpy fancy indexing.",
        "DESIGN.md §5 C10",
    ),
}

NOT_YET = {}


def main():
    props = [json.loads(l) for l in open(os.path.join(ROOT, "properties.jsonl"))]
    checks = []
    na = []
    for p in props:
        pid = p["id"]
        if pid in CLAIMS and os.path.exists(os.path.join(HERE, "vh", "props", pid.lower() + ".py")):
            text, tech, note, ref = CLAIMS[pid]
            checks.append({
                "property_id": pid,
                "quick_cmd": f"bin/check {pid} --tier quick",
                "thorough_cmd": f"bin/check {pid} --tier thorough",
                "evidence_file": f"evidence/{pid}.json",
                "replay_cmd_template": f"bin/check {pid} --replay {{path}}",
                "engine": "lean-iodata",
                "level_claimed": {"category": "proof", "text": text, "design_ref": ref},
                "level_note": COMMON_NOTE + note,
                "technique": tech,
            })
        else:
            na.append({"property_id": pid,
                       "reason": NOT_YET.get(pid, "check not built yet in this round (planned, see DESIGN.md §5/§9); "
                                                  "not claimed until its Lean model, theorems and tie exist")})
    man = {
        "version": 1,
        "setup_cmd": "cd lean && lake build Iodata driver",
        "hooks": {
            "guard": "IODATA_VERIF",
            "enable": "none needed: no source hooks; checks observe /repo through the public API, ast and monkey-patching "
                      "from the harness process",
            "baseline_off_cmd": BASELINE,
            "source_commits": [],
            "add_only": True,
        },
        "engines": [{
            "name": "lean-iodata",
            "path": "lean/ + harness/vh/",
            "serves_properties": [c["property_id"] for c in checks],
            "kind_free_text": "Lean 4 models + theorems (lean/Iodata), a translator that regenerates lean/Iodata/Gen from "
                              "/repo on every run, a compiled line-protocol driver for model-vs-code correspondence, and "
                              "direct failing-input search on the real code",
        }],
        "checks": checks,
        "not_applicable": na,
        "notes": "bin/check Cxx --tier quick|thorough [--replay FILE]; VERIF_SEED selects the PRNG seed; exit 2 = "
                 "infrastructure problem or time-out (never a violation). Fix commits in /repo and known findings are "
                 "listed in known_findings.json and DESIGN.md §6.",
    }
    with open(os.path.join(ROOT, "MANIFEST.json"), "w") as fh:
        json.dump(man, fh, indent=1)
        fh.write("\n")
    print("claimed:", [c["property_id"] for c in checks])
    print("not applicable:", [n["property_id"] for n in na])


if __name__ == "__main__":
    main()
