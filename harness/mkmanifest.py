#!/usr/bin/env python3
"""Regenerate MANIFEST.json from the table below (run after adding a property)."""
import json
import os

HERE = os.path.dirname(os.path.abspath(__file__))
ROOT = os.path.dirname(HERE)

BASELINE = ("cd /repo && /venv/bin/python -m pytest -ra -q -p no:cacheprovider --timeout=900 "
            "--continue-on-collection-errors")

COMMON_NOTE = (
    "Trusted: Lean 4.33 kernel; axioms propext/Classical.choice/Quot.sound only (audited each run by #print axioms; "
    "no native_decide/bv_decide/sorry/project axioms); the Python translator that prints lean/Iodata/Gen/*.lean from "
    "/repo's current source; the correspondence harness (generators, canonicalisation, line protocol); CPython/numpy/"
    "attrs semantics of the constructs the hand model transcribes. "
)

# property -> (text, technique, note, design_ref)
CLAIMS = {
    "C10": (
        "Lean theorems over ALL label lists (any element type with decidable equality): success iff the conventions name "
        "the same functions once each; pointwise spec (position + sign product); permutation; reverse = opposite "
        "direction; there-and-back = identity; A->B->C = A->C; basis level = shifted block concatenation; every built-in "
        "table (regenerated from source each run) well-formed and pairwise convertible by kernel evaluation. The model is "
        "tied to convert.py by a line-protocol correspondence (random + all built-in pairs + corruptions) and a direct "
        "search on the real code.",
        "Lean 4 proof (induction / list lemmas / decide +kernel over generated tables) + model-vs-code correspondence",
        "Modelled: str.startswith/lstrip/index/set semantics; numpy fancy indexing.",
        "DESIGN.md §5 C10",
    ),
    "C06": (
        "Lean theorems about the transcribed 1-D kernel (double loop with the parity skip and the (m-1)!! table), for all "
        "n1, n2 and all arguments in any field: it is the binomial double sum against the Gaussian moments, is symmetric "
        "under exchanging the two functions, has K00 = 1 and satisfies the Obara-Saika recurrences in both indices "
        "(a complete algebraic characterisation of the Gaussian overlap integrals); K(n,n) at coincident centres and "
        "the rational and pi parts of the normalisation N^2 * <g|g> = 1; and over the reals (Mathlib) kernel_eq_integral: "
        "for a, b > 0 the integral of (x-A)^n1 (x-B)^n2 exp(-a(x-A)^2 - b(x-B)^2) equals "
        "exp(-ab/(a+b)(A-B)^2) sqrt(pi/(a+b)) kernel n1 n2 (P-A) (P-B) (2(a+b)) for all n1, n2 (Gaussian moments from "
        "Mathlib's Gamma-function integrals). Assembly: exchange of the two shells transposes every Cartesian block "
        "(including screening decisions), only centre differences enter, identical bases give a symmetric matrix, two "
        "bases transpose, conventions act as the C10 signed permutation on rows and columns, non-L2 / missing geometry "
        "are rejected with ValueError / TypeError. The Cartesian->pure tables l<=7 (regenerated from source each run as "
        "exact dyadic rationals) are proved, by rational interval arithmetic in the kernel, to be harmonic, orthonormal "
        "w.r.t. the exact Cartesian Gram matrix, of cos/sin(m phi) symmetry with the documented sign, within 1e-12. "
        "PSD and the size of what the 1e-15 screening drops are NOT proved (checked numerically).",
        "Lean 4 proof (polynomial functional / Finset sums / ring; decide +kernel interval arithmetic over generated tables) "
        "+ exact-rational and error-bounded double correspondence with the real code + independent textbook evaluator",
        "Modelled, not verified: IEEE arithmetic of numpy (comparisons use model-derived forward error bounds); the final-state "
        "form of the block writes; exp/sqrt/pi are abstract in the assembly theorems.",
        "DESIGN.md §5 C06",
    ),
    "C04": (
        "Finite proof by kernel evaluation over tables regenerated from /repo on every run: each of the ten conversion "
        "constants of iodata/utils.py is within 1e-8 of the value derived in Q from CODATA 2018 and CODATA 2022 (typed "
        "independently in Lean); every probed effective unit factor of a reader or writer (token-perturbation probes of "
        "25 formats, ~60 format/quantity lines) equals the constant of the unit the format prescribes (hand-written spec "
        "table with citations) to 1e-9; every spec line is probed; load x dump across formats is the identity. The "
        "rows GAMESS/Q-Chem/QCSchema masses (amu) and Q-Chem dipole/quadrupole (Debye) are excluded from "
        "units_table_partial, witnessed by units_table_violated_* theorems and reported as KNOWN-FINDING.",
        "Lean 4 decide +kernel over generated probe tables + fresh random probes judged by the compiled model + direct search "
        "(independent CODATA numbers, two-format round trips, atomic-mass plausibility)",
        "Trusted: the prober (regex tokenisation, getters) and the hand-written spec/CODATA digits. Linear response of "
        "readers/writers in the probed number is assumed (checked on several tokens).",
        "DESIGN.md §5 C04",
    ),
}

NOT_YET = {}


def main():
    props = [json.loads(l) for l in open(os.path.join(ROOT, "properties.jsonl"))]
    checks = []
    na = []
    for p in props:
        pid = p["id"]
        if pid in CLAIMS and os.path.exists(os.path.join(HERE, "vh", "props", pid.lower() + ".py")):
            text, tech, note, ref = CLAIMS[pid]
            checks.append({
                "property_id": pid,
                "quick_cmd": f"bin/check {pid} --tier quick",
                "thorough_cmd": f"bin/check {pid} --tier thorough",
                "evidence_file": f"evidence/{pid}.json",
                "replay_cmd_template": f"bin/check {pid} --replay {{path}}",
                "engine": "lean-iodata",
                "level_claimed": {"category": "proof", "text": text, "design_ref": ref},
                "level_note": COMMON_NOTE + note,
                "technique": tech,
            })
        else:
            na.append({"property_id": pid,
                       "reason": NOT_YET.get(pid, "check not built yet in this round (planned, see DESIGN.md §5/§9); "
                                                  "not claimed until its Lean model, theorems and tie exist")})
    man = {
        "version": 1,
        "setup_cmd": "cd lean && lake build Iodata driver",
        "hooks": {
            "guard": "IODATA_VERIF",
            "enable": "none needed: no source hooks; checks observe /repo through the public API, ast and monkey-patching "
                      "from the harness process",
            "baseline_off_cmd": BASELINE,
            "source_commits": [],
            "add_only": True,
        },
        "engines": [{
            "name": "lean-iodata",
            "path": "lean/ + harness/vh/",
            "serves_properties": [c["property_id"] for c in checks],
            "kind_free_text": "Lean 4 models + theorems (lean/Iodata), a translator that regenerates lean/Iodata/Gen from "
                              "/repo on every run, a compiled line-protocol driver for model-vs-code correspondence, and "
                              "direct failing-input search on the real code",
        }],
        "checks": checks,
        "not_applicable": na,
        "notes": "bin/check Cxx --tier quick|thorough [--replay FILE]; VERIF_SEED selects the PRNG seed; exit 2 = "
                 "infrastructure problem or time-out (never a violation). Fix commits in /repo and known findings are "
                 "listed in known_findings.json and DESIGN.md §6.",
    }
    with open(os.path.join(ROOT, "MANIFEST.json"), "w") as fh:
        json.dump(man, fh, indent=1)
        fh.write("\n")
    print("claimed:", [c["property_id"] for c in checks])
    print("not applicable:", [n["property_id"] for n in na])


if __name__ == "__main__":
    main()
