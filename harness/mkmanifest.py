#!/usr/bin/env python3
"""Regenerate MANIFEST.json from the table below (run after adding a property)."""
import json
import os

HERE = os.path.dirname(os.path.abspath(__file__))
ROOT = os.path.dirname(HERE)

BASELINE = ("cd /repo && /venv/bin/python -m pytest -ra -q -p no:cacheprovider --timeout=900 "
            "--continue-on-collection-errors")

COMMON_NOTE = (
    "Trusted: Lean 4.33 kernel; axioms propext/Classical.choice/Quot.sound only (audited each run by #print axioms; "
    "no native_decide/bv_decide/sorry/project axioms); the Python translator that prints lean/Iodata/Gen/*.lean from "
    "/repo's current source; the correspondence harness (generators, canonicalisation, line protocol); CPython/numpy/"
    "attrs semantics of the constructs the hand model transcribes. "
)

# claims live in harness/claims/Cxx.json: {"property","text","technique","note","design_ref"}
CLAIMS = {}
_cdir = os.path.join(HERE, "claims")
for _f in sorted(os.listdir(_cdir)) if os.path.isdir(_cdir) else []:
    if _f.endswith(".json"):
        _c = json.load(open(os.path.join(_cdir, _f)))
        CLAIMS[_c["property"]] = (_c["text"], _c["technique"], _c["note"], _c["design_ref"])

NOT_YET = {}


def main():
    props = [json.loads(l) for l in open(os.path.join(ROOT, "properties.jsonl"))]
    checks = []
    na = []
    for p in props:
        pid = p["id"]
        if pid in CLAIMS and os.path.exists(os.path.join(HERE, "vh", "props", pid.lower() + ".py")):
            text, tech, note, ref = CLAIMS[pid]
            checks.append({
                "property_id": pid,
                "quick_cmd": f"bin/check {pid} --tier quick",
                "thorough_cmd": f"bin/check {pid} --tier thorough",
                "evidence_file": f"evidence/{pid}.json",
                "replay_cmd_template": f"bin/check {pid} --replay {{path}}",
                "engine": "lean-iodata",
                "level_claimed": {"category": "proof", "text": text, "design_ref": ref},
                "level_note": COMMON_NOTE + note,
                "technique": tech,
            })
        else:
            na.append({"property_id": pid,
                       "reason": NOT_YET.get(pid, "check not built yet in this round (planned, see DESIGN.md §5/§9); "
                                                  "not claimed until its Lean model, theorems and tie exist")})
    man = {
        "version": 1,
        "setup_cmd": "cd lean && lake build Iodata driver",
        "hooks": {
            "guard": "IODATA_VERIF",
            "enable": "none needed: no source hooks; checks observe /repo through the public API, ast and monkey-patching "
                      "from the harness process",
            "baseline_off_cmd": BASELINE,
            "source_commits": [],
            "add_only": True,
        },
        "engines": [{
            "name": "lean-iodata",
            "path": "lean/ + harness/vh/",
            "serves_properties": [c["property_id"] for c in checks],
            "kind_free_text": "Lean 4 models + theorems (lean/Iodata), a translator that regenerates lean/Iodata/Gen from "
                              "/repo on every run, a compiled line-protocol driver for model-vs-code correspondence, and "
                              "direct failing-input search on the real code",
        }],
        "checks": checks,
        "not_applicable": na,
        "notes": "bin/check Cxx --tier quick|thorough [--replay FILE]; VERIF_SEED selects the PRNG seed; exit 2 = "
                 "infrastructure problem or time-out (never a violation). Fix commits in /repo and known findings are "
                 "listed in known_findings.json and DESIGN.md §6.",
    }
    with open(os.path.join(ROOT, "MANIFEST.json"), "w") as fh:
        json.dump(man, fh, indent=1)
        fh.write("\n")
    print("claimed:", [c["property_id"] for c in checks])
    print("not applicable:", [n["property_id"] for n in na])


if __name__ == "__main__":
    main()
