#!/usr/bin/env python3
"""Regenerate MANIFEST.json from the table below (run after adding a property)."""
import json
import os

HERE = os.path.dirname(os.path.abspath(__file__))
ROOT = os.path.dirname(HERE)

BASELINE = ("cd /repo && /venv/bin/python -m pytest -ra -q -p no:cacheprovider --timeout=900 "
            "--continue-on-collection-errors")

COMMON_NOTE = (
    "Trusted: Lean 4.33 kernel; axioms propext/Classical.choice/Quot.sound only (audited each run by #print axioms; "
    "no native_decide/bv_decide/sorry/project axioms); the Python translator that prints lean/Iodata/Gen/*.lean from "
    "/repo's current source; the correspondence harness (generators, canonicalisation, line protocol); CPython/numpy/"
    "attrs semantics of the constructs the hand model transcribes. "
)

# claims live in harness/claims/Cxx.json: {"property","text","technique","note","design_ref"}
CLAIMS = {}
_cdir = os.path.join(HERE, "claims")
for _f in sorted(os.listdir(_cdir)) if os.path.isdir(_cdir) else []:
    if _f.endswith(".json"):
        _c = json.load(open(os.path.join(_cdir, _f)))
        CLAIMS[_c["property"]] = (_c["text"], _c["technique"], _c["note"], _c["design_ref"])

CLAIMS["C13"] = (
    "Lean theorems over ALL frame lists (induction, per-line record parsing abstract with a print/parse round-trip "
    "hypothesis): dump_many writes concat(map dump_one) and its consumption trace is pull0 check0 open write0 pull1 "
    "check1 write1 ... (lazy, every item pulled exactly once, also when the iterable raises or a later item fails the "
    "check); LineIterator next/back refinement; for XYZ and SDF the prefix-consumption law load_one(dump_one f ++ rest) "
    "= (norm f, rest), hence load_many(dump_many fs) = map norm fs for every non-empty frame list with single-line "
    "titles (separator-looking titles '$$$$', 'END', digits, blank are inside the domain; trailing blank lines "
    "ignored), malformed_reached (any exception of load_one in frame k is raised as LoadError after exactly k frames) "
    "and, for XYZ, truncated_last for every cut point; for PDB the same round trip and malformed_reached as _partial "
    "(single-line titles, >=1 atom per frame) plus 'a file without any atom record is rejected'; for MOL2 _partial: "
    "loop-level theorems (never swallows, no-molecule rejected) and kernel-evaluated round trips / all cut points of "
    "concrete sequences; the api funnel with PEP 479 (nothing but LoadError leaves load_many, nothing is swallowed); "
    "FCHK point/step counter invariants. The except-clauses and peek code of every load_many, of api.load_many and the "
    "use of the iterable in api.dump_many are re-extracted from /repo by ast on every run and tied to the model by "
    "decide. Witnesses (decide) that the loops before the 7 fix commits violated the property, and two domain-boundary "
    "witnesses of the current tree (multi-line XYZ title, atom-less PDB frame). Model tied to the code by "
    "correspondence streams: whole files, every cut point, corrupted counts/fields/separators/blank lines for 6 "
    "formats (frames, titles, bond counts, warning flag, line number of the LoadError), dump_many event traces, "
    "synthetic FCHK trajectories; plus a direct search on the real code.",
    "Lean 4 proof (induction over frame lists, generic block lemma for generator loops, decide over ast-extracted "
    "control-flow skeletons) + model-vs-code correspondence; PDB/MOL2 partial",
    "Modelled: str.strip/split/int on ASCII, newline-terminated lines, numpy negative-dimension errors, PEP 479. Per-"
    "line record parsers are abstract (validity decided by the real single-line parsers in the correspondence). GRO, "
    "extXYZ, FCHK are reader-only (no writer in the library). Not proved: MOL2 round trip in general, multi-line PDB "
    "titles, SDF truncation beyond the header for all cut points (all covered by the every-cut-point correspondence).",
    "DESIGN.md §5 C13",
)
CLAIMS["C01"] = (
    "Lean: an orbital denotes a finitely supported map from primitive keys (centre, exponent, l, kind, unsigned label) to "
    "coefficients; for ALL shell lists (any order/centres), convention dictionaries and contraction lengths (induction over "
    "the shell list): convert_conventions preserves the denotation (from C10's key lemma); the WFN/WFX writer with "
    "target-order scales writes a file denoting the same function and IOData's reader (regrouping + division by an abstract "
    "nowhere-zero scale) returns the same denotation; for the code as it stands (variant read off the writers on every run): "
    "_violated witnesses and _partial theorems for WFN/WFX source-order scales, Molden [GTO] sorting, Molekel $$ separators "
    "and beta irreps, FCHK unconverted densities. Tie: tracer objects written by the real writers, tokenized independently, "
    "normalisation divided out, compared row by row with the model. Search on the real code: dump_one -> load_one on random "
    "objects and every corpus wavefunction file x 5 formats x allow_changes, orbitals compared as functions of space with an "
    "evaluator written from docs/basis.rst, plus occupations, energies, spin labelling, density matrices.",
    "Lean 4 proof (induction over shell lists, list/zip lemmas, decide for witnesses) + structural model-vs-code "
    "correspondence + direct search with an independent evaluator",
    "Modelled over the integers with an abstract scale; text scanning, the Molden/MKL/FCHK round trips of the repaired "
    "variants outside the _partial sub-domains, and the readers' normalisation test are covered by the search only.",
    "DESIGN.md §5 C01",
)

CLAIMS["C05"] = (
    "PARTIAL. Lean, for EVERY list of repair attempts, shell list and outcome of the norm tests: the cascade returns "
    "attempt j iff j is the first applicable attempt, in the code's order, whose norm test passes (cascade_first); "
    "LoadError iff none passes; every executed test is an applicable attempt. For the cascade of the CURRENT source "
    "(order, guards, tested/stored variables, warnings extracted by an ast walk of _fix_molden_from_buggy_codes on every "
    "run and tied to a reviewed reference by kernel evaluation): a file normalised as read is returned untouched without "
    "warning; a warning is emitted iff a correction is stored, it names exactly the correction that was tested, and what "
    "is stored is what was tested; warnings pairwise distinct. Correction tables (obtained by probing the six _fix_* "
    "functions on every run): closed forms for ORCA / PSI4<=1.0 / Turbomole / CFOUR / PSI4<=1.3.2 (double-factorial "
    "formulas in Molden order), all entries positive, ORCA and PSI4<=1.0 coincide exactly off the pure d-h shells (so an "
    "s,p-only PSI4 file is legitimately 'ORCA'), ORCA conventions differ from Molden's by the listed signs only; both "
    "kinds of fix are one operation, an invertible positive diagonal scaling that preserves the span (any field). "
    "NOT proved (numerical): that for a file of vendor V the first passing attempt is V's. That part is searched: random "
    "complete orthonormal wavefunctions x 8 vendor encodings written by an independent encoder x Molden(AU/Angs)/MKL x "
    "thresholds must load as the true orbitals (L2 distance over the harness's own integrals), orthonormal w.r.t. the "
    "returned basis, with exactly the expected LoadWarning; damaged files that no correction normalises must raise "
    "LoadError; the real norm-test booleans and guards are compared with an independent evaluation; 35 repository "
    "fixtures must keep their branch. Correspondence: recorded real booleans + shell types -> Lean cascade -> executed "
    "tests, branch, warning, stored variant compared with the loader.",
    "Lean 4 proof (induction over the decision list, decide over source-extracted skeleton and probed tables) + "
    "model-vs-code correspondence + randomized search with an independent Gaussian-integral evaluator",
    "Partial: norm tests are oracle booleans in the model; the right-branch-for-vendor claim is only searched. Trusted: "
    "harness/vh/gto.py (own overlap/solid harmonics), the vendor encoders in harness/vh/vendorfiles.py. mo.kind/ncon "
    "pre-checks and text scanning are not modelled.",
    "DESIGN.md §5 C05",
)

NOT_YET = {}


def main():
    props = [json.loads(l) for l in open(os.path.join(ROOT, "properties.jsonl"))]
    checks = []
    na = []
    for p in props:
        pid = p["id"]
        if pid in CLAIMS and os.path.exists(os.path.join(HERE, "vh", "props", pid.lower() + ".py")):
            text, tech, note, ref = CLAIMS[pid]
            checks.append({
                "property_id": pid,
                "quick_cmd": f"bin/check {pid} --tier quick",
                "thorough_cmd": f"bin/check {pid} --tier thorough",
                "evidence_file": f"evidence/{pid}.json",
                "replay_cmd_template": f"bin/check {pid} --replay {{path}}",
                "engine": "lean-iodata",
                "level_claimed": {"category": "proof", "text": text, "design_ref": ref},
                "level_note": COMMON_NOTE + note,
                "technique": tech,
            })
        else:
            na.append({"property_id": pid,
                       "reason": NOT_YET.get(pid, "check not built yet in this round (planned, see DESIGN.md §5/§9); "
                                                  "not claimed until its Lean model, theorems and tie exist")})
    man = {
        "version": 1,
        "setup_cmd": "cd lean && lake build Iodata driver",
        "hooks": {
            "guard": "IODATA_VERIF",
            "enable": "none needed: no source hooks; checks observe /repo through the public API, ast and monkey-patching "
                      "from the harness process",
            "baseline_off_cmd": BASELINE,
            "source_commits": [],
            "add_only": True,
        },
        "engines": [{
            "name": "lean-iodata",
            "path": "lean/ + harness/vh/",
            "serves_properties": [c["property_id"] for c in checks],
            "kind_free_text": "Lean 4 models + theorems (lean/Iodata), a translator that regenerates lean/Iodata/Gen from "
                              "/repo on every run, a compiled line-protocol driver for model-vs-code correspondence, and "
                              "direct failing-input search on the real code",
        }],
        "checks": checks,
        "not_applicable": na,
        "notes": "bin/check Cxx --tier quick|thorough [--replay FILE]; VERIF_SEED selects the PRNG seed; exit 2 = "
                 "infrastructure problem or time-out (never a violation). Fix commits in /repo and known findings are "
                 "listed in known_findings.json and DESIGN.md §6.",
    }
    with open(os.path.join(ROOT, "MANIFEST.json"), "w") as fh:
        json.dump(man, fh, indent=1)
        fh.write("\n")
    print("claimed:", [c["property_id"] for c in checks])
    print("not applicable:", [n["property_id"] for n in na])


if __name__ == "__main__":
    main()
