#!/usr/bin/env python3
"""Regenerate MANIFEST.json from the table below (run after adding a property)."""
import json
import os

HERE = os.path.dirname(os.path.abspath(__file__))
ROOT = os.path.dirname(HERE)

BASELINE = ("cd /repo && /venv/bin/python -m pytest -ra -q -p no:cacheprovider --timeout=900 "
            "--continue-on-collection-errors")

COMMON_NOTE = (
    "Trusted: Lean 4.33 kernel; axioms propext/Classical.choice/Quot.sound only (audited each run by #print axioms; "
    "no native_decide/bv_decide/sorry/project axioms); the Python translator that prints lean/Iodata/Gen/*.lean from "
    "/repo's current source; the correspondence harness (generators, canonicalisation, line protocol); CPython/numpy/"
    "attrs semantics of the constructs the hand model transcribes. "
)

# property -> (text, technique, note, design_ref)
CLAIMS = {
    "C10": (
        "Lean theorems over ALL label lists (any element type with decidable equality): success iff the conventions name "
        "the same functions once each; pointwise spec (position + sign product); permutation; reverse = opposite "
        "direction; there-and-back = identity; A->B->C = A->C; basis level = shifted block concatenation; every built-in "
        "table (regenerated from source each run) well-formed and pairwise convertible by kernel evaluation. The model is "
        "tied to convert.py by a line-protocol correspondence (random + all built-in pairs + corruptions) and a direct "
        "search on the real code.",
        "Lean 4 proof (induction / list lemmas / decide +kernel over generated tables) + model-vs-code correspondence",
        "Modelled: str.startswith/lstrip/index/set semantics; numpy fancy indexing.",
        "DESIGN.md §5 C10",
    ),
    "C02": (
        "Byte-level Lean models of writer and reader for XYZ (incl. user-defined fixed-point atom columns), SDF V2000 and PDB, "
        "with field widths/precisions/slices as parameters read from the source each run. Theorems for ALL objects of an explicit "
        "decidable domain and all layouts satisfying the stated side conditions: load (dump o) = ok (norm o) for XYZ (full) and SDF "
        "(full: every object the V2000 columns hold, touching fields included); PDB: the ATOM record for every atom whose fields "
        "fit their columns, and whole files without CONECT records (PARTIAL: the CONECT chunk loop is modelled and executed in the "
        "correspondence but its round trip is not proved); written_not_refused; domains inhabited at the column boundaries; "
        "generated obligations: writer columns = reader slices, writer/reader source shape, all 118 elements round-trip. "
        "Byte-exact correspondence of the real dump_one/load_one with the models. MOL2, Cube, FCIDUMP, POSCAR: direct search only "
        "(load_one(dump_one(x)) vs x attribute by attribute); FCHK/Molden/Molekel/WFN/WFX/QCSchema: not covered by this check.",
        "Lean 4 proof (list induction, decide +kernel over generated layouts) + byte-exact model-vs-code correspondence + direct search",
        "Modelled: str.split/strip/slices, int()/float() on plain decimals, format specs d/f/s. Quantised reals (DESIGN §4.1). "
        "Partial: PDB CONECT loop; search-only formats are not proved.",
        "DESIGN.md §5 C02/C03/C15",
    ),
    "C03": (
        "Independent renderers of the published layouts in Lean: free-format XYZ with arbitrary blank runs and four element "
        "spellings (theorem for every well-formed file), CTfile V2000 column table for SDF (theorem for every model the columns hold), "
        "wwPDB v3.3 ATOM/CONECT column tables (reader slices = spec columns by computation; ATOM record theorem; whole files without "
        "CONECT; CONECT loop not proved = PARTIAL). Spec files rendered by the model are read by the real load_one and compared "
        "with the model and with the Lean reader; an independent Python spec writer cross-checks the renderer byte for byte. "
        "GRO and MOL2: spec-following Python writers -> load_one (direct search only).",
        "Lean 4 proof + decide +kernel over generated slices vs hand-written spec tables + correspondence + direct search",
        "Hand-written spec tables are trusted (cross-checked against an independent Python writer). Log parsers and the other 19 "
        "format modules are not covered by this check.",
        "DESIGN.md §5 C02/C03/C15",
    ),
    "C15": (
        "For XYZ and SDF (full) and PDB without CONECT (partial): norm is idempotent and keeps the domain, hence the object reloaded "
        "after the first save reloads as itself and generation 2 and 3 files coincide (theorems over the same models as C02). "
        "Lock-step correspondence through two generations (bytes and objects). Direct search: three save/reload cycles on the real "
        "code with bit-exact object snapshots and byte comparison for XYZ, SDF, PDB, MOL2, Cube, FCIDUMP, POSCAR, and every corpus "
        "file of iodata/test/data written to each of the 13 read/write formats that accepts it.",
        "Lean 4 proof + two-generation correspondence + direct search (3 cycles, corpus conversions)",
        "Theorems speak about quantised objects; bit-identity of floats is observed on the real code only. Wavefunction formats: "
        "search only.",
        "DESIGN.md §5 C02/C03/C15",
    ),
}

NOT_YET = {}


def main():
    props = [json.loads(l) for l in open(os.path.join(ROOT, "properties.jsonl"))]
    checks = []
    na = []
    for p in props:
        pid = p["id"]
        if pid in CLAIMS and os.path.exists(os.path.join(HERE, "vh", "props", pid.lower() + ".py")):
            text, tech, note, ref = CLAIMS[pid]
            checks.append({
                "property_id": pid,
                "quick_cmd": f"bin/check {pid} --tier quick",
                "thorough_cmd": f"bin/check {pid} --tier thorough",
                "evidence_file": f"evidence/{pid}.json",
                "replay_cmd_template": f"bin/check {pid} --replay {{path}}",
                "engine": "lean-iodata",
                "level_claimed": {"category": "proof", "text": text, "design_ref": ref},
                "level_note": COMMON_NOTE + note,
                "technique": tech,
            })
        else:
            na.append({"property_id": pid,
                       "reason": NOT_YET.get(pid, "check not built yet in this round (planned, see DESIGN.md §5/§9); "
                                                  "not claimed until its Lean model, theorems and tie exist")})
    man = {
        "version": 1,
        "setup_cmd": "cd lean && lake build Iodata driver",
        "hooks": {
            "guard": "IODATA_VERIF",
            "enable": "none needed: no source hooks; checks observe /repo through the public API, ast and monkey-patching "
                      "from the harness process",
            "baseline_off_cmd": BASELINE,
            "source_commits": [],
            "add_only": True,
        },
        "engines": [{
            "name": "lean-iodata",
            "path": "lean/ + harness/vh/",
            "serves_properties": [c["property_id"] for c in checks],
            "kind_free_text": "Lean 4 models + theorems (lean/Iodata), a translator that regenerates lean/Iodata/Gen from "
                              "/repo on every run, a compiled line-protocol driver for model-vs-code correspondence, and "
                              "direct failing-input search on the real code",
        }],
        "checks": checks,
        "not_applicable": na,
        "notes": "bin/check Cxx --tier quick|thorough [--replay FILE]; VERIF_SEED selects the PRNG seed; exit 2 = "
                 "infrastructure problem or time-out (never a violation). Fix commits in /repo and known findings are "
                 "listed in known_findings.json and DESIGN.md §6.",
    }
    with open(os.path.join(ROOT, "MANIFEST.json"), "w") as fh:
        json.dump(man, fh, indent=1)
        fh.write("\n")
    print("claimed:", [c["property_id"] for c in checks])
    print("not applicable:", [n["property_id"] for n in na])


if __name__ == "__main__":
    main()
