#!/usr/bin/env python3
"""Regenerate MANIFEST.json from the table below (run after adding a property)."""
import json
import os

HERE = os.path.dirname(os.path.abspath(__file__))
ROOT = os.path.dirname(HERE)

BASELINE = ("cd /repo && /venv/bin/python -m pytest -ra -q -p no:cacheprovider --timeout=900 "
            "--continue-on-collection-errors")

COMMON_NOTE = (
    "Trusted: Lean 4.33 kernel; axioms propext/Classical.choice/Quot.sound only (audited each run by #print axioms; "
    "no native_decide/bv_decide/sorry/project axioms); the Python translator that prints lean/Iodata/Gen/*.lean from "
    "/repo's current source; the correspondence harness (generators, canonicalisation, line protocol); CPython/numpy/"
    "attrs semantics of the constructs the hand model transcribes. "
)

# property -> (text, technique, note, design_ref)
CLAIMS = {
    "C10": (
        "Lean theorems over ALL label lists (any element type with decidable equality): success iff the conventions name "
        "the same functions once each; pointwise spec (position + sign product); permutation; reverse = opposite "
        "direction; there-and-back = identity; A->B->C = A->C; basis level = shifted block concatenation; every built-in "
        "table (regenerated from source each run) well-formed and pairwise convertible by kernel evaluation. The model is "
        "tied to convert.py by a line-protocol correspondence (random + all built-in pairs + corruptions) and a direct "
        "search on the real code.",
        "Lean 4 proof (induction / list lemmas / decide +kernel over generated tables) + model-vs-code correspondence",
        "Modelled: str.startswith/lstrip/index/set semantics; numpy fancy indexing.",
        "DESIGN.md §5 C10",
    ),
    "C11": (
        "Lean theorems over ALL operation histories (induction over List Op through the invariant Inv: _atcorenums stored "
        "=> _charge not stored, all per-atom arrays of one length): charge = sum(atcorenums) - nelec whenever both are "
        "known (independent and read-after-read forms); successful charge/nelec/spinpol assignments read back exactly; "
        "they never change what atcorenums reads; with orbitals nelec/spinpol are the orbitals' and assigning them is a "
        "TypeError no-op; natom agrees with every array (chain order irrelevant); wrong lengths are rejected; a raising "
        "assignment or construction leaves every observable unchanged; reads are idempotent and never raise. The clause "
        "'core charges default to the atomic numbers until set explicitly' is proved only for histories that do not "
        "re-assign atnums (core_default_partial); its negation is proved at a replayed witness (core_default_violated, "
        "known finding C11-core-default-stale). Model tied to iodata.py by an operation-sequence correspondence "
        "(exhaustive to depth 3/4 + random, all observables after every op), ast-extracted names/orders, and a direct "
        "search of the property predicates on real objects.",
        "Lean 4 proof (invariant + induction over histories, decide +kernel for witnesses and generated name tables) "
        "+ model-vs-code correspondence over operation sequences",
        "Modelled: attrs converter/validator semantics on __init__ and assignment; per-atom arrays by one scalar per atom; "
        "orbitals seen through mo.nelec/mo.spinpol; doubles exact on the dyadic alphabet (the theorems are over Q).",
        "DESIGN.md §5 C11, Appendix A.1",
    ),
    "C12": (
        "Lean theorems over ALL assignment histories on MolecularOrbitals (Reachable = successful construction + any "
        "List Op; invariant Inv: kind/counts fit, every array has norb entries, occs_aminusb only when restricted; "
        "construction accepts exactly Inv): restricted occsa+occsb = occs entry-wise, unrestricted occsa++occsb = occs "
        "with norba/norbb entries; nelec = sum occs = alpha+beta totals; spinpol = |alpha total - beta total| in all "
        "three restricted branches (integer heuristic, fractional, explicit occs_aminusb) and unrestricted; alpha/beta "
        "views of coeffs/energies/irreps are the documented slices of the right lengths; occsa/occsb assignments read "
        "back exactly and leave the other spin unchanged (restricted two-field rewrite, fresh object, unrestricted "
        "in-place block); generalized orbitals refuse every spin-resolved accessor and setter; wrong lengths -> "
        "TypeError, occs_aminusb on non-restricted -> ValueError, object unchanged. Shell: accepted iff coeffs is "
        "(nexp, ncon) and angmoms/kinds have ncon entries (TypeError otherwise), kept by any assignment history; nbasis "
        "= sum of (l+1)(l+2)/2 | 2l+1 (pure, l>=2), any other kind TypeError. Model tied to orbitals.py/basis.py by "
        "operation-sequence correspondences (exhaustive construct x assignment tuples + random; shells random), "
        "ast-extracted field/validator/refusal tables proved equal to the model's, and a direct search on real objects.",
        "Lean 4 proof (invariant + induction over histories, list/sum lemmas, grind for field arithmetic, decide +kernel "
        "for generated tables and witnesses) + model-vs-code correspondence over operation sequences",
        "Modelled: attrs validator order/semantics; numpy 1-D broadcasting, slice assignment, astype(int), clip; coeffs by "
        "one scalar per column; kind/norba/norbb not re-assigned after construction; theorems over Q (doubles exact on "
        "the dyadic alphabet, tolerant comparison in the direct search).",
        "DESIGN.md §5 C12, Appendix A.2",
    ),
    "C14": (
        "Lean theorems for ALL bases (lists of shells with arbitrary generalized contractions) and both keep_sp values: "
        "convert_to_segmented keeps the list of contracted function sets (centre, l, kind, exponents, coefficients) in "
        "order, hence the basis functions, their number and any function of them (overlap matrix); leaves no generalized "
        "contraction (except kept SP shells); is idempotent and returns the very same Shell objects when nothing needs "
        "converting (identity as an explicit flag); well-formedness is kept. For ALL restricted orbitals reachable by "
        "any C12 history: convert_to_unrestricted builds a valid unrestricted object with the same occsa, occsb, "
        "coeffsa/b, energiesa/b, irrepsa/b, hence the same (spin) density data, nelec and spinpol; unrestricted input "
        "is returned as is (idempotent); generalized -> ValueError. prepare_segmented / prepare_unrestricted_aminusb: "
        "complete decision tables (ValueError / same object / PrepareDumpError / exactly one warning + converted "
        "attribute with the preserved quantities). Model tied to convert.py/prepare.py by four correspondence streams "
        "(shell-by-shell incl. `is` identity, orbital observables, outcome classes and warning counts), an "
        "ast-extracted control-flow skeleton proved equal to the model's, and a direct search on the real code incl. "
        "compute_overlap(b) == compute_overlap(segment b).",
        "Lean 4 proof (list induction, C12 invariant and spin lemmas, decide +kernel for the generated skeleton) "
        "+ model-vs-code correspondence + overlap oracle on the real code",
        "Modelled: orbitals as in C12; attrs.evolve keeps all other attributes (for IOData it replays __init__: with a "
        "stale hidden _nelec/_spinpol and orbitals present it raises TypeError - recorded observation, outside C14's "
        "statement); np.concatenate / zip / reshape as transcribed; overlap equality is checked numerically on the "
        "real code, in Lean it is the corollary 'same function list'.",
        "DESIGN.md §5 C14",
    ),
}

NOT_YET = {}


def main():
    props = [json.loads(l) for l in open(os.path.join(ROOT, "properties.jsonl"))]
    checks = []
    na = []
    for p in props:
        pid = p["id"]
        if pid in CLAIMS and os.path.exists(os.path.join(HERE, "vh", "props", pid.lower() + ".py")):
            text, tech, note, ref = CLAIMS[pid]
            checks.append({
                "property_id": pid,
                "quick_cmd": f"bin/check {pid} --tier quick",
                "thorough_cmd": f"bin/check {pid} --tier thorough",
                "evidence_file": f"evidence/{pid}.json",
                "replay_cmd_template": f"bin/check {pid} --replay {{path}}",
                "engine": "lean-iodata",
                "level_claimed": {"category": "proof", "text": text, "design_ref": ref},
                "level_note": COMMON_NOTE + note,
                "technique": tech,
            })
        else:
            na.append({"property_id": pid,
                       "reason": NOT_YET.get(pid, "check not built yet in this round (planned, see DESIGN.md §5/§9); "
                                                  "not claimed until its Lean model, theorems and tie exist")})
    man = {
        "version": 1,
        "setup_cmd": "cd lean && lake build Iodata driver",
        "hooks": {
            "guard": "IODATA_VERIF",
            "enable": "none needed: no source hooks; checks observe /repo through the public API, ast and monkey-patching "
                      "from the harness process",
            "baseline_off_cmd": BASELINE,
            "source_commits": [],
            "add_only": True,
        },
        "engines": [{
            "name": "lean-iodata",
            "path": "lean/ + harness/vh/",
            "serves_properties": [c["property_id"] for c in checks],
            "kind_free_text": "Lean 4 models + theorems (lean/Iodata), a translator that regenerates lean/Iodata/Gen from "
                              "/repo on every run, a compiled line-protocol driver for model-vs-code correspondence, and "
                              "direct failing-input search on the real code",
        }],
        "checks": checks,
        "not_applicable": na,
        "notes": "bin/check Cxx --tier quick|thorough [--replay FILE]; VERIF_SEED selects the PRNG seed; exit 2 = "
                 "infrastructure problem or time-out (never a violation). Fix commits in /repo and known findings are "
                 "listed in known_findings.json and DESIGN.md §6.",
    }
    with open(os.path.join(ROOT, "MANIFEST.json"), "w") as fh:
        json.dump(man, fh, indent=1)
        fh.write("\n")
    print("claimed:", [c["property_id"] for c in checks])
    print("not applicable:", [n["property_id"] for n in na])


if __name__ == "__main__":
    main()
