#!/usr/bin/env python3
"""Rewrite the generated tables of DESIGN.md (between the AUTO markers) from what is on disk:
evidence/*.json, seeded/*/meta.json, known_findings.json, git log of /repo."""
import glob
import json
import os
import re
import subprocess

ROOT = os.path.dirname(os.path.dirname(os.path.abspath(__file__)))


def table_status():
    rows = ["| id | theorems audited | axioms beyond propext/Quot.sound/Classical.choice | quick: evaluations (distinct non-trivial) | streams | known findings printed |",
            "|---|---|---|---|---|---|"]
    known = json.load(open(os.path.join(ROOT, "known_findings.json")))["findings"]
    for f in sorted(glob.glob(os.path.join(ROOT, "evidence", "C*.json"))):
        e = json.load(open(f))
        c = e["coverage"]
        ax = set()
        for t in c.get("theorems", []):
            for a in t.get("axioms") or []:
                if a not in ("propext", "Quot.sound", "Classical.choice"):
                    ax.add(a)
        streams = ", ".join(f"{k} {v}" for k, v in sorted(c.get("streams", {}).items(), key=lambda kv: -kv[1])[:6])
        nk = sum(1 for k in known if k["property"] == e["property_id"] and k["status"] == "known")
        rows.append(f"| {e['property_id']} | {c['discharged']}/{c['obligations']} | {', '.join(sorted(ax)) or 'none'} | "
                    f"{c['evaluations']} ({c['distinct_nontrivial']}) | {streams} | {nk} |")
    return "\n".join(rows)


def table_seeds():
    rows = ["| seed | what the change does | needs to manifest | caught by (first VIOLATION line of `bin/check`) |", "|---|---|---|---|"]
    for d in sorted(glob.glob(os.path.join(ROOT, "seeded", "*"))):
        try:
            m = json.load(open(os.path.join(d, "meta.json")))
        except Exception:
            continue
        v = m.get("verification", {})
        caught = "NOT detected" if not v.get("detected") else (
            (v.get("check_violation_lines") or ["exit 1"])[0].replace("VIOLATION ", "").split(" replay=")[0]
            + (" (no-failing-input-found)" if "no-failing-input-found" in " ".join(v.get("check_violation_lines") or []) else " + replayable input"))
        how = ""
        fr = v.get("first_replay") or {}
        if fr.get("signature"):
            how = f"; signature `{str(fr['signature'])[:60]}`"
        if fr.get("broken_obligations"):
            how += f"; broken obligations: {', '.join(o.split('.')[-1] for o in fr['broken_obligations'][:3])}"
        summ = str(m.get("summary", "")).replace("|", "/").replace("\n", " ")[:260]
        need = str(m.get("what_it_needs_to_manifest", "")).replace("|", "/").replace("\n", " ")[:200]
        rows.append(f"| {os.path.basename(d)} | {summ} | {need} | {caught}{how} |")
    return "\n".join(rows)


def table_fixes():
    log = subprocess.check_output(["git", "-C", "/repo", "log", "--reverse", "--format=%h %s"]).decode().splitlines()
    rows = ["| commit | message |", "|---|---|"]
    for l in log:
        h, s = l.split(" ", 1)
        if s.startswith("fix:"):
            rows.append(f"| {h} | {s} |")
    return "\n".join(rows)


def table_known():
    known = json.load(open(os.path.join(ROOT, "known_findings.json")))["findings"]
    rows = ["| property | id | signature | what |", "|---|---|---|---|"]
    for k in known:
        if k["status"] == "known":
            rows.append(f"| {k['property']} | {k['id']} | `{k.get('signature', '')}` | {str(k['what']).replace('|', '/')[:400]} |")
    return "\n".join(rows)


def main():
    p = os.path.join(ROOT, "DESIGN.md")
    s = open(p).read()
    for name, fn in (("STATUS", table_status), ("SEEDS", table_seeds), ("FIXES", table_fixes), ("KNOWN", table_known)):
        a, b = f"<!-- AUTO:{name} -->", f"<!-- /AUTO:{name} -->"
        if a in s and b in s:
            s = s[: s.index(a) + len(a)] + "\n" + fn() + "\n" + s[s.index(b):]
    open(p, "w").write(s)
    print("DESIGN.md tables refreshed")


if __name__ == "__main__":
    main()
