"""C05 helpers: random true wavefunctions, independent vendor encoders (the *inverse* of what each
correction in iodata/formats/molden.py documents), Molden/MKL text writers, an independent model of the
seven norm predicates, and the comparison of a loaded object with the true wavefunction.

Nothing here imports iodata except ``run_loader`` (which calls the real ``load_one``).
"""

from __future__ import annotations

import math
import os
import random
import tempfile
import warnings

import numpy as np

from . import gto

SYMBOLS = {1: "H", 2: "He", 3: "Li", 4: "Be", 5: "B", 6: "C", 7: "N", 8: "O", 9: "F", 10: "Ne"}
LCHAR = "spdfgh"

VENDORS = ["standard", "orca", "psi4_10", "turbomole", "cfour", "unnorm", "psi4_132", "psi4_132u"]
BRANCHES = ["standard", "orca", "psi4_10", "turbomole", "cfour", "unnorm", "psi4_132"]
WARN_CLASS = {
    "Corrected for typical ORCA errors in Molden/MKL file.": "orca",
    "Corrected for PSI4 < 1.0 errors in Molden/MKL file.": "psi4_10",
    "Corrected for Turbomole errors in Molden/MKL file.": "turbomole",
    "Corrected for CFOUR 2.1 errors in Molden/MKL file.": "cfour",
    "Corrected for unnormalized contractions in Molden/MKL file.": "unnorm",
    "Corrected for PSI4 <= 1.3.2 errors in Molden/MKL file.": "psi4_132",
}

# ---------------------------------------------------------------------------------------------------
# vendor quirks, written down independently of the source (hand-written reference):
#  * ORCA writes contraction coefficients of UN-normalised primitives whose normalisation constant is the
#    one of the Cartesian monomial ORCA_MONO[l] (pure d..h only), and flips the sign of some pure functions
#  * PSI4 <= 1.0: same idea, but the monomial is x^l (pure d, f only)
#  * Turbomole: contraction coefficients of Cartesian d,f,g divided by sqrt((2l-1)!!)
#  * CFOUR 2.1: MO coefficients of Cartesian d,f,g refer to functions normalised without the
#    double-factorial term: C_file = C / sqrt(prod (2n_i-1)!!)
#  * PSI4 <= 1.3.2: MO coefficients of Cartesian d,f,g refer to functions all normalised like x^l:
#    C_file = C * sqrt((2l-1)!! / prod (2n_i-1)!!)
ORCA_MONO = {0: (0, 0, 0), 1: (1, 0, 0), 2: (1, 1, 0), 3: (1, 1, 1), 4: (2, 1, 1), 5: (5, 0, 0)}
ORCA_NEG = {3: ["c3", "s3"], 4: ["c3", "s3", "c4", "s4"], 5: ["c3", "s3", "c4", "s4"]}
PSI4_10_MONO = {0: (0, 0, 0), 1: (1, 0, 0), 2: (2, 0, 0), 3: (3, 0, 0)}


def _mono_of(label):
    return (label.count("x"), label.count("y"), label.count("z"))


def cfour_factor(l, label):
    return 1.0 / math.sqrt(math.prod(gto.dfact(2 * k - 1) for k in _mono_of(label)))


def psi4_132_factor(l, label):
    return math.sqrt(gto.dfact(2 * l - 1)) * cfour_factor(l, label)


def vendor_allows(vendor, l, kind, fmt):
    """Shell types each vendor encoding is defined for."""
    if l == 5 and kind != "p":
        return False  # neither format has a Cartesian h convention in iodata (pure h: Molden [..] and MKL `11 H`)
    if l <= 1:
        return True
    if vendor == "orca":
        return kind == "p"
    if vendor == "psi4_10":
        return kind == "p" and l <= 3
    if vendor in ("cfour", "psi4_132", "psi4_132u", "turbomole"):
        return l <= 4
    return True


def is_quirky(vendor, shells):
    """Does the encoding differ from the standard one for these shell types?"""
    if vendor == "standard":
        return False
    if vendor in ("orca", "psi4_10", "unnorm"):
        return True
    return any(sh["kind"] == "c" and 2 <= sh["l"] <= 4 for sh in shells)


# ---------------------------------------------------------------------------------------------------
def _round_sig(x, n):
    return float(f"{x:.{n - 1}e}")


def gen_true(rng: random.Random, vendor: str, fmt: str, max_l=None):
    """A random true wavefunction; returns None when the draw is too ill-conditioned (caller retries)."""
    natom = rng.choice([1, 1, 2, 2, 3])
    unit = "Angs" if fmt == "mkl" else rng.choice(["AU", "Angs"])
    # coordinates in FILE units with 4 decimals (so the written text is exact)
    bohr = gto.ANGSTROM if unit == "Angs" else 1.0
    coords = []
    for _ in range(200):
        if len(coords) == natom:
            break
        p = [round(rng.uniform(-2.2, 2.2) / bohr, 4) for _ in range(3)]
        if all(math.dist(p, q) * bohr >= 1.3 for q in coords):
            coords.append(p)
    if len(coords) < natom:
        return None
    zs = [rng.randint(1, 10) for _ in range(natom)]
    # pure/Cartesian per angular momentum is global in Molden; per shell in MKL (we keep it global per l)
    kinds = {0: "c", 1: "c"}
    kinds[2] = rng.choice("cp")
    kinds[3] = rng.choice("cp")
    kinds[4] = kinds[5] = rng.choice("cp")
    lmax = max_l if max_l is not None else rng.choice([1, 2, 2, 3, 3, 4, 4, 5])
    shells = []
    for ia in range(natom):
        nsh = rng.randint(1, 4 if natom < 3 else 3)
        for _ in range(nsh):
            for _try in range(50):
                l = rng.randint(0, lmax)
                k = kinds[l]
                if vendor in ("orca", "psi4_10") and l >= 2:
                    k = "p"
                if vendor in ("cfour", "psi4_132", "psi4_132u", "turbomole") and l >= 2 and rng.random() < 0.8:
                    k = "c"
                if vendor_allows(vendor, l, k, fmt) and (k == "p" or l <= 4):
                    break
            else:
                l, k = 0, "c"
            if l >= 2:
                kinds[l] = k
                if l >= 4:
                    kinds[4] = kinds[5] = k
            nprim = rng.choice([1, 1, 2, 3])
            ex = []
            for _ in range(nprim):
                for _t in range(100):
                    e = _round_sig(math.exp(rng.uniform(math.log(0.15), math.log(25.0))), 5)
                    if all(max(e, f) / min(e, f) > 1.6 for f in ex):
                        ex.append(e)
                        break
            if len(ex) >= 2 and rng.random() < 0.3:
                # a tight primitive (core-like): matters for exponent-based screening of shell pairs
                ex[0] = _round_sig(math.exp(rng.uniform(math.log(40.0), math.log(400.0))), 5)
            # the order of the primitives inside a contraction is free in both formats
            order = rng.choice(["desc", "desc", "asc", "shuffled"])
            ex.sort(reverse=(order != "asc"))
            if order == "shuffled":
                rng.shuffle(ex)
            cf = [rng.choice([-1, 1]) * rng.uniform(0.2, 1.0) for _ in ex]
            shells.append({"ic": ia, "l": l, "exps": ex, "coefs": cf})
    # kinds are global per l: apply, and check the vendor still allows everything
    for sh in shells:
        sh["kind"] = "c" if sh["l"] <= 1 else kinds[sh["l"]]
        if not vendor_allows(vendor, sh["l"], sh["kind"], fmt):
            return None
    if sum(gto.nfun(sh["l"], sh["kind"]) for sh in shells) > 60:
        return None
    case = {"fmt": fmt, "unit": unit, "zs": zs, "coords": coords, "shells": shells, "vendor": vendor}
    ps = primset(case)
    M = ps.overlap()
    # normalise the contractions (first function of the shell)
    for sh, off, (c, l, ex) in zip(shells, ps.offsets, ps.shells):
        T1 = gto.basis_matrix(gto.PrimSet([(c, l, ex)]), [sh], gto.molden_labels)
        n2 = float(T1[0] @ gto.PrimSet([(c, l, ex)]).overlap() @ T1[0])
        sh["coefs"] = [x / math.sqrt(n2) for x in sh["coefs"]]
    T = gto.basis_matrix(ps, shells, gto.molden_labels)
    S = T @ M @ T.T
    w = np.linalg.eigvalsh(S)
    if w[0] < 2e-3:
        return None
    nb = S.shape[0]
    nprng = np.random.default_rng(rng.getrandbits(60))
    kind = rng.choice(["restricted", "unrestricted"])

    def _orbitals():
        # complete orthonormal set: Loewdin-orthonormalised random matrix.  A random square matrix can be badly
        # conditioned, so start from a random orthogonal matrix in the S^(-1/2) metric and polish once.
        q, _ = np.linalg.qr(nprng.normal(size=(nb, nb)))
        c = gto.lowdin(S, gto.lowdin(S, np.eye(nb)) @ q)
        return c

    Ca = _orbitals()
    Cb = _orbitals() if kind == "unrestricted" else None
    for C in (Ca, Cb):
        if C is not None and np.abs(C.T @ S @ C - np.eye(nb)).max() > 1e-11:
            return None
    nel = sum(zs)
    if kind == "restricted":
        nocc = rng.randint(0, min(nb, 6))
        occa = [2.0] * nocc + [0.0] * (nb - nocc)
        occb = None
        charge, mult = nel - 2 * nocc, 1
    else:
        na = rng.randint(0, min(nb, 5))
        nbeta = rng.randint(0, na)
        occa = [1.0] * na + [0.0] * (nb - na)
        occb = [1.0] * nbeta + [0.0] * (nb - nbeta)
        charge, mult = nel - na - nbeta, na - nbeta + 1
    case.update(kind=kind, Ca=Ca, Cb=Cb, occa=occa, occb=occb, charge=charge, mult=mult,
                ena=sorted(round(rng.uniform(-3, 2), 6) for _ in range(nb)),
                enb=sorted(round(rng.uniform(-3, 2), 6) for _ in range(nb)) if Cb is not None else None,
                mineig=float(w[0]))
    return case


def primset(case):
    bohr = gto.ANGSTROM if case["unit"] == "Angs" else 1.0
    return gto.PrimSet([(np.array(case["coords"][sh["ic"]]) * bohr, sh["l"], sh["exps"]) for sh in case["shells"]])


# ---------------------------------------------------------------------------------------------------
def row_labels(shells):
    out = []
    for i, sh in enumerate(shells):
        for lab in gto.molden_labels(sh["l"], sh["kind"]):
            out.append((i, sh["l"], sh["kind"], lab))
    return out


def encode(case, vendor, rng: random.Random):
    """File-level data (shell coefficients as written, MO coefficient matrices as written)."""
    shells = [dict(sh, coefs=list(sh["coefs"])) for sh in case["shells"]]
    rows = row_labels(shells)
    scale = np.ones(len(rows))
    for sh in shells:
        l, k = sh["l"], sh["kind"]
        if vendor == "orca":
            sh["coefs"] = [c * gto.prim_norm(a, ORCA_MONO[l]) for c, a in zip(sh["coefs"], sh["exps"])]
        elif vendor == "psi4_10":
            sh["coefs"] = [c * gto.prim_norm(a, PSI4_10_MONO[l]) for c, a in zip(sh["coefs"], sh["exps"])]
        elif vendor == "turbomole" and k == "c" and 2 <= l <= 4:
            sh["coefs"] = [c / math.sqrt(gto.dfact(2 * l - 1)) for c in sh["coefs"]]
        elif vendor in ("unnorm", "psi4_132u"):
            lam = rng.choice([rng.uniform(0.3, 0.85), rng.uniform(1.2, 3.0)])
            sh["coefs"] = [c * lam for c in sh["coefs"]]
    for r, (i, l, k, lab) in enumerate(rows):
        if vendor == "orca" and lab in ORCA_NEG.get(l, []):
            scale[r] = -1.0
        elif vendor == "cfour" and k == "c" and 2 <= l <= 4:
            scale[r] = cfour_factor(l, lab)
        elif vendor in ("psi4_132", "psi4_132u") and k == "c" and 2 <= l <= 4:
            scale[r] = psi4_132_factor(l, lab)
    Ca = case["Ca"] * scale[:, None]
    Cb = None if case["Cb"] is None else case["Cb"] * scale[:, None]
    return {"shells": shells, "Ca": Ca, "Cb": Cb}


def corrupt(case, enc, rng: random.Random):
    """Damage that no vendor pattern describes.  Returns a tag, or None when not applicable."""
    mode = rng.choice(["prim", "prim", "rows", "rows", "double-orca", "alpha-orbital", "alpha-orbital"])
    if mode == "alpha-orbital":
        # one alpha orbital mis-scaled (beta orbitals, if any, intact): no correction of the basis or of the rows repairs it
        j = rng.randrange(enc["Ca"].shape[1])
        enc["Ca"] = enc["Ca"].copy()
        enc["Ca"][:, j] *= rng.choice([rng.uniform(0.4, 0.8), rng.uniform(1.25, 2.5)])
        return "alpha-orbital-scale"
    if mode == "prim":
        multi = [sh for sh in enc["shells"] if len(sh["exps"]) >= 2]
        if not multi:
            mode = "rows"
        else:
            for sh in rng.sample(multi, rng.randint(1, len(multi))):
                f = [rng.choice([rng.uniform(0.4, 0.8), rng.uniform(1.25, 2.5)]) for _ in sh["coefs"]]
                f[rng.randrange(len(f))] = 1.0
                sh["coefs"] = [c * x for c, x in zip(sh["coefs"], f)]
            return "prim-scale"
    if mode == "rows":
        n = enc["Ca"].shape[0]
        f = np.ones(n)
        for r in rng.sample(range(n), rng.randint(1, max(1, n // 2))):
            f[r] = rng.choice([rng.uniform(0.4, 0.8), rng.uniform(1.25, 2.5)])
        enc["Ca"] = enc["Ca"] * f[:, None]
        if enc["Cb"] is not None:
            enc["Cb"] = enc["Cb"] * f[:, None]
        return "row-scale"
    for sh in enc["shells"]:
        mono = ORCA_MONO[sh["l"]]
        sh["coefs"] = [c * gto.prim_norm(a, mono) ** 2 for c, a in zip(sh["coefs"], sh["exps"])]
    return "double-orca"


# ---------------------------------------------------------------------------------------------------
def _f(x, digits):
    return repr(float(x)) if digits >= 17 else f"{x:.{digits - 1}e}"


def write_molden(case, enc, rng: random.Random, digits=17, atom_order=None, skip_empty=False):
    """``atom_order``: order in which the per-atom [GTO] blocks are written (each block starts with its atom's sequence
    number, so any order is well-formed; the rows of the MO section follow the blocks as written, i.e. ``enc['shells']``
    must list the shells in that order); ``skip_empty``: atoms without shells get no block at all."""
    kinds = {sh["l"]: sh["kind"] for sh in case["shells"] if sh["l"] >= 2}
    tags = []
    d, f, g = kinds.get(2, None), kinds.get(3, None), kinds.get(4, kinds.get(5, None))
    # tags for angular momenta that do not occur are free: pick at random
    d = d or rng.choice("cp")
    f = f or rng.choice("cp")
    g = g or rng.choice("cp")
    if d == "p" and f == "p":
        tags.append(rng.choice(["[5D]", "[5D7F]", "[5D10F]\n[7F]"]))
    elif d == "p":
        tags.append("[5D10F]")
    elif f == "p":
        tags.append("[7F]")
    if g == "p":
        tags.append("[9G]")
    tagtxt = "".join(t + "\n" for t in tags)
    tags_first = rng.random() < 0.4
    tags_last = (not tags_first) and rng.random() < 0.4  # the tags may also follow the [MO] section (no blank line before)
    out = ["[Molden Format]\n", "[Title]\n", f" vendor-encoded test file ({case['vendor']})\n", "\n"]
    if tags_first:
        out.append(tagtxt)
    # the unit word as programs spell it: plain, upper case, or in parentheses as in the Molden format description
    u = case["unit"]
    out.append(f"[Atoms] {rng.choice([u, u, u.upper(), '(' + u + ')', '(' + u.upper() + ')'])}\n")
    for i, (z, p) in enumerate(zip(case["zs"], case["coords"])):
        out.append(f"{SYMBOLS[z]:<3s}{i + 1:4d}{z:4d}  {p[0]!r}  {p[1]!r}  {p[2]!r}\n")
    out.append("[GTO]\n")
    for ia in (atom_order if atom_order is not None else range(len(case["zs"]))):
        if skip_empty and not any(sh["ic"] == ia for sh in enc["shells"]):
            continue
        out.append(f"{ia + 1:3d} 0\n")
        for sh in enc["shells"]:
            if sh["ic"] != ia:
                continue
            out.append(f" {LCHAR[sh['l']]} {len(sh['exps']):3d} 1.00\n")
            for a, c in zip(sh["exps"], sh["coefs"]):
                out.append(f"   {a!r}  {_f(c, digits)}\n")
        out.append("\n")
    if not tags_first and not tags_last:
        out.append(tagtxt)
    out.append("[MO]\n")
    for C, occ, en, spin in ((enc["Ca"], case["occa"], case["ena"], "Alpha"), (enc["Cb"], case["occb"], case["enb"], "Beta")):
        if C is None:
            continue
        for j in range(C.shape[1]):
            out.append(f" Sym= {j + 1}a\n Ene= {en[j]!r}\n Spin= {spin}\n Occup= {occ[j]!r}\n")
            for r in range(C.shape[0]):
                out.append(f"{r + 1:4d} {_f(C[r, j], digits)}\n")
    if tags_last:
        out.append(tagtxt)
    return "".join(out)


def write_mkl(case, enc, rng: random.Random, digits=17):
    out = ["$MKL\n", "#\n", "# MKL format file, vendor-encoded test file\n", "#\n", "$CHAR_MULT\n",
           f"  {case['charge']} {case['mult']}\n", "$END\n", "\n", "$COORD\n"]
    for z, p in zip(case["zs"], case["coords"]):
        out.append(f"  {z}  {p[0]!r}  {p[1]!r}  {p[2]!r}\n")
    out += ["$END\n", "\n", "$BASIS\n"]
    last = 0
    for sh in enc["shells"]:
        while sh["ic"] != last:
            out.append("$$\n")
            last += 1
        out.append(f" {gto.nfun(sh['l'], sh['kind'])} {LCHAR[sh['l']].upper()} 1.0\n")
        for a, c in zip(sh["exps"], sh["coefs"]):
            out.append(f"   {a!r}  {_f(c, digits)}\n")
    out += ["\n", "$END\n", "\n"]
    for C, occ, en, name in ((enc["Ca"], case["occa"], case["ena"], "ALPHA"), (enc["Cb"], case["occb"], case["enb"], "BETA")):
        if C is None:
            continue
        out.append(f"$COEFF_{name}\n")
        for j in range(0, C.shape[1], 5):
            cols = range(j, min(j + 5, C.shape[1]))
            out.append(" ".join("a1g" for _ in cols) + "\n")
            out.append(" ".join(repr(en[c]) for c in cols) + "\n")
            for r in range(C.shape[0]):
                out.append(" ".join(_f(C[r, c], digits) for c in cols) + "\n")
        out.append(" $END\n\n")
        out.append(f"$OCC_{name}\n")
        for j in range(0, C.shape[1], 5):
            out.append(" ".join(repr(occ[c]) for c in range(j, min(j + 5, C.shape[1]))) + "\n")
        out.append(" $END\n\n")
    return "".join(out)


# ---------------------------------------------------------------------------------------------------
# independent model of the seven attempts: (basis transform, coefficient transform)
def own_fix(attempt, shells):
    """Return (new shells or None when the fix touches nothing, row divisor or None)."""
    sh2 = [dict(sh, coefs=list(sh["coefs"])) for sh in shells]
    rows = row_labels(shells)
    touched = False
    div = None
    neg = None
    if attempt == "orca":
        touched = True
        neg = np.ones(len(rows))
        for sh in sh2:
            l, k = sh["l"], sh["kind"]
            if l <= 1 or k == "p":
                sh["coefs"] = [c / gto.prim_norm(a, ORCA_MONO[l]) for c, a in zip(sh["coefs"], sh["exps"])]
        for r, (i, l, k, lab) in enumerate(rows):
            if k == "p" and lab in ORCA_NEG.get(l, []):
                neg[r] = -1.0
    elif attempt == "psi4_10":
        for sh in sh2:
            l, k = sh["l"], sh["kind"]
            if l <= 1 or (k == "p" and l <= 3):
                touched = True
                sh["coefs"] = [c / gto.prim_norm(a, PSI4_10_MONO[l]) for c, a in zip(sh["coefs"], sh["exps"])]
    elif attempt == "turbomole":
        for sh in sh2:
            l, k = sh["l"], sh["kind"]
            if k == "c" and 2 <= l <= 4:
                touched = True
                sh["coefs"] = [c * math.sqrt(gto.dfact(2 * l - 1)) for c in sh["coefs"]]
    elif attempt in ("unnorm", "psi4_132"):
        touched = True
        for sh in sh2:
            ps1 = gto.PrimSet([((0.0, 0.0, 0.0), sh["l"], sh["exps"])])
            T1 = gto.basis_matrix(ps1, [sh], gto.molden_labels)
            n2 = float(T1[0] @ ps1.overlap() @ T1[0])
            sh["coefs"] = [c / math.sqrt(n2) for c in sh["coefs"]]
    if attempt in ("cfour", "psi4_132"):
        fac = cfour_factor if attempt == "cfour" else psi4_132_factor
        div = np.ones(len(rows))
        t2 = False
        for r, (i, l, k, lab) in enumerate(rows):
            if k == "c" and 2 <= l <= 4:
                div[r] = fac(l, lab)
                t2 = True
        if not t2:
            return None, None, None
        touched = touched or attempt == "cfour"
    if attempt in ("psi4_10", "turbomole") and not touched:
        return None, None, None
    return sh2, div, neg


def own_predicates(case, enc, M=None):
    """For each attempt: None when the code would skip it (fix returns None) else the maximal norm error."""
    ps = primset(case)
    M = ps.overlap()
    out = {}
    for att in BRANCHES:
        if att == "standard":
            sh2, div, neg = enc["shells"], None, None
        else:
            sh2, div, neg = own_fix(att, enc["shells"])
            if sh2 is None:
                out[att] = None
                continue
        T = gto.basis_matrix(ps, sh2, gto.molden_labels)
        if neg is not None:
            T = T * neg[:, None]
        S = T @ M @ T.T
        err = 0.0
        for C in (enc["Ca"], enc["Cb"]):
            if C is None:
                continue
            C2 = C if div is None else C / div[:, None]
            err = max(err, float(np.max(np.abs(np.einsum("ij,ik,kj->j", C2, S, C2) - 1.0))))
        out[att] = err
    return out


# ---------------------------------------------------------------------------------------------------
def run_loader(text, fmt, thr):
    """Load with the real iodata; record the sequence of norm tests and fix calls."""
    import iodata
    from iodata.formats import molden as mm

    trace = []
    orig = {}
    keep = []  # keep returned objects alive so that id() stays unique
    fixret = {}
    corr = {}
    first = {}
    short = {"_fix_obasis_orca": "orca", "_fix_obasis_psi4": "psi4_10", "_fix_obasis_turbomole": "turbomole",
             "_fix_obasis_normalize_contractions": "unnorm", "_fix_mo_coeffs_psi4": "psi4_132",
             "_fix_mo_coeffs_cfour": "cfour"}

    def wrap_norm(f):
        def g(*a, **k):
            r = f(*a, **k)
            if "basis" not in first:
                first["basis"], first["ca"] = a[0], a[2]
            bname = fixret.get(id(a[0]), "raw" if a[0] is first["basis"] else "unknown")
            if a[2] is first["ca"]:
                cname = "raw"
            else:
                cname = "unknown"
                for nm, c in corr.items():
                    if a[2].shape == first["ca"].shape and np.allclose(a[2] * c[:, None], first["ca"], rtol=1e-12, atol=0):
                        cname = nm
            trace.append(("norm", bool(r), bname, cname))
            return r
        return g

    def wrap_fix(name, f):
        def g(*a, **k):
            r = f(*a, **k)
            trace.append(("fix", short[name], r is not None))
            if r is not None:
                keep.append(r)
                if name.startswith("_fix_obasis"):
                    fixret[id(r)] = short[name]
                else:
                    corr[short[name]] = np.asarray(r, float)
            return r
        return g

    names = ["_fix_obasis_orca", "_fix_obasis_psi4", "_fix_obasis_turbomole", "_fix_obasis_normalize_contractions",
             "_fix_mo_coeffs_psi4", "_fix_mo_coeffs_cfour"]
    orig["_is_normalized_properly"] = mm._is_normalized_properly
    mm._is_normalized_properly = wrap_norm(mm._is_normalized_properly)
    for n in names:
        orig[n] = getattr(mm, n)
        setattr(mm, n, wrap_fix(n, orig[n]))
    fd, path = tempfile.mkstemp(suffix=".molden" if fmt == "molden" else ".mkl", prefix="c05_")
    try:
        with os.fdopen(fd, "w") as fh:
            fh.write(text)
        with warnings.catch_warnings(record=True) as wl:
            warnings.simplefilter("always")
            try:
                kw = {} if thr is None else {"norm_threshold": thr}
                data = iodata.load_one(path, **kw)
                err = None
            except Exception as exc:  # noqa: BLE001
                data = None
                err = type(exc).__name__
        warns = [(type(w.message).__name__, str(w.message).split("\n")[0]) for w in wl]
    finally:
        os.unlink(path)
        for n, f in orig.items():
            setattr(mm, n, f)
    return data, err, warns, trace


def warn_classes(warns):
    out = []
    for cls, msg in warns:
        m = msg
        hit = [v for k, v in WARN_CLASS.items() if k in m]
        out.append((cls, hit[0] if hit else "other:" + m[:60]))
    return out


def compare_loaded(case, data, tol=1e-6):
    """None when the loaded object is the true wavefunction, else (kind, detail)."""
    ps = primset(case)
    M = ps.overlap()
    bohr = gto.ANGSTROM if case["unit"] == "Angs" else 1.0
    if data.atcoords.shape != (len(case["zs"]), 3) or np.abs(data.atcoords - np.array(case["coords"]) * bohr).max() > 1e-7:
        return ("geometry", "atcoords differ")
    if list(map(int, data.atnums)) != list(case["zs"]):
        return ("geometry", "atnums differ")
    sh_l = data.obasis.shells
    if len(sh_l) != len(case["shells"]):
        return ("basis-structure", "number of shells")
    lsh = []
    for a, b in zip(sh_l, case["shells"]):
        if (a.icenter != b["ic"] or list(a.angmoms) != [b["l"]] or list(a.kinds) != [b["kind"]]
                or list(map(float, a.exponents)) != list(b["exps"]) or a.coeffs.shape != (len(b["exps"]), 1)):
            return ("basis-structure", f"shell differs: {a.icenter},{a.angmoms},{a.kinds} vs {b['ic']},{b['l']},{b['kind']}")
        lsh.append({"l": b["l"], "kind": b["kind"], "coefs": [float(x) for x in a.coeffs[:, 0]]})
    conv = data.obasis.conventions
    T_l = gto.basis_matrix(ps, lsh, lambda l, k: conv[(l, k)])
    T_t = gto.basis_matrix(ps, case["shells"], gto.molden_labels)
    S_l = T_l @ M @ T_l.T
    worst = 0.0
    for spin, Ct in (("a", case["Ca"]), ("b", case["Cb"])):
        if Ct is None:
            if spin == "b" and data.mo.kind != "restricted":
                return ("mo-kind", data.mo.kind)
            continue
        if spin == "b" and data.mo.kind != "unrestricted":
            return ("mo-kind", data.mo.kind)
        Cl = data.mo.coeffsa if spin == "a" else data.mo.coeffsb
        if Cl.shape != Ct.shape:
            return ("mo-shape", f"{Cl.shape} vs {Ct.shape}")
        D = Cl.T @ T_l - Ct.T @ T_t  # difference functions over raw primitives
        dist = np.sqrt(np.maximum(np.einsum("ip,pq,iq->i", D, M, D), 0.0))
        worst = max(worst, float(dist.max()))
        if dist.max() > tol:
            return ("orbital-differs", f"L2 distance {dist.max():.3e} (spin {spin}, orbital {int(dist.argmax())})")
        G = Cl.T @ S_l @ Cl
        dev = float(np.abs(G - np.eye(G.shape[0])).max())
        if dev > 10 * tol:
            return ("not-orthonormal", f"max |C^t S C - 1| = {dev:.3e} w.r.t. the returned basis")
    return None


def expected_branch(vendor, shells):
    """The correction a file of this vendor must be announced with: the vendor's own, except where the
    encoding coincides with an earlier/other one on the shell types present (documented coincidences)."""
    cart = any(sh["kind"] == "c" and 2 <= sh["l"] <= 4 for sh in shells)
    if vendor == "standard":
        return "standard"
    if vendor == "orca":
        return "orca"
    if vendor == "psi4_10":
        return "orca" if all(sh["l"] <= 1 for sh in shells) else "psi4_10"
    if vendor in ("turbomole", "cfour", "psi4_132"):
        return vendor if cart else "standard"
    if vendor == "unnorm":
        return "unnorm"
    if vendor == "psi4_132u":
        return "psi4_132" if cart else "unnorm"
    raise ValueError(vendor)
