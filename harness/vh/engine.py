"""Engine shared by all property checks.

One run of ``bin/check Cxx --tier T``:

1. translate  (T1)  -- regenerate lean/Iodata/Gen/*.lean from /repo's working tree
2. prove            -- lake build of the property's modules + axiom audit + forbidden-token scan
3. correspond (T2)  -- run the executable Lean model (compiled driver) and the
                       implementation on the same generated inputs, diff the lines
4. search     (S)   -- evaluate the property's own predicate on the real code
5. decide           -- known findings are printed, anything else is a VIOLATION
6. evidence         -- evidence/Cxx.json

Exit status: 0 held, 1 violation, 2 infrastructure problem / time-out.
"""

from __future__ import annotations

import argparse
import collections
import contextlib
import fcntl
import hashlib
import importlib
import json
import os
import random
import re
import signal
import subprocess
import sys
import time
import traceback
from pathlib import Path

ROOT = Path(__file__).resolve().parent.parent.parent
LEAN = ROOT / "lean"
REPO = Path(os.environ.get("IODATA_REPO", "/repo"))
DRIVER = LEAN / ".lake" / "build" / "bin" / "driver"

ALLOWED_AXIOMS = {"propext", "Classical.choice", "Quot.sound"}
FORBIDDEN = re.compile(
    r"\bsorry\b|\badmit\b|^\s*axiom\s|native_decide|bv_decide|implemented_by|\bunsafe\s|maxHeartbeats\s+0\b"
)

TRUSTED_BASE_COMMON = [
    "Lean 4.33 kernel (thorough tier: also leanchecker on the compiled modules)",
    "axioms allowed in property theorems: propext, Classical.choice, Quot.sound (audited by #print axioms on every run); "
    "no native_decide, bv_decide, sorry or project axioms",
    "the translator harness/vh (Python value -> Lean literal printing, ast walks) for files under lean/Iodata/Gen",
    "the correspondence harness: generators, canonicalisation, the driver's line protocol parsing",
    "CPython 3.12 / numpy / attrs semantics of the constructs the hand model transcribes",
]


class InfraError(Exception):
    """Something in the machinery itself broke (exit 2, never a violation)."""


class Timeout(Exception):
    pass


def _sha(obj) -> str:
    try:
        txt = json.dumps(obj, sort_keys=True, default=str)
    except TypeError:
        txt = repr(obj)
    return hashlib.sha1(txt.encode()).hexdigest()[:16]


def lean_str(s: str) -> str:
    """Python str -> Lean string literal."""
    out = ['"']
    for ch in s:
        if ch == '"':
            out.append('\\"')
        elif ch == "\\":
            out.append("\\\\")
        elif ch == "\n":
            out.append("\\n")
        elif ch == "\t":
            out.append("\\t")
        elif 32 <= ord(ch) < 127:
            out.append(ch)
        else:
            out.append("\\u{%x}" % ord(ch))
    out.append('"')
    return "".join(out)


def lean_list(items, f=str) -> str:
    return "[" + ", ".join(f(i) for i in items) + "]"


def lean_int(i: int) -> str:
    return str(i) if i >= 0 else f"({i})"


def lean_rat(fr) -> str:
    """fractions.Fraction -> Lean Rat expression."""
    n, d = fr.numerator, fr.denominator
    if d == 1:
        return f"({n} : Rat)"
    return f"(({n} : Rat) / {d})"


class Ctx:
    def __init__(self, prop: str, tier: str, seed: int):
        self.prop = prop
        self.tier = tier
        self.seed = seed
        self.rng = random.Random(f"{prop}-{seed}")
        self.t0 = time.time()
        self.obligations: list[dict] = []  # {name, ok, detail}
        self.mismatches: list[dict] = []  # correspondence disagreements
        self.failures: list[dict] = []  # property failures on real code {sig, what, input}
        self.evaluations = 0
        self.distinct: set[str] = set()
        self.hist: collections.Counter = collections.Counter()
        self.samples: list = []
        self.streams: collections.Counter = collections.Counter()
        self.notes: list[str] = []
        self.checker_cmds: list[str] = []
        self.axioms: dict[str, list[str]] = {}
        self.escalated = False
        self.extra_cov: dict = {}

    # ---- budgets -------------------------------------------------------
    @property
    def thorough(self) -> bool:
        return self.tier == "thorough"

    def n(self, quick: int, thorough: int) -> int:
        return thorough if self.thorough else quick

    # ---- T1 ------------------------------------------------------------
    def gen_write(self, name: str, text: str) -> bool:
        """Write lean/Iodata/Gen/<name>.lean if its content changed."""
        path = LEAN / "Iodata" / "Gen" / f"{name}.lean"
        header = "-- GENERATED from /repo by harness/vh (translator); do not edit.\n"
        text = header + text
        if path.exists() and path.read_text() == text:
            return False
        tmp = path.with_suffix(".lean.tmp%d" % os.getpid())
        tmp.write_text(text)
        os.replace(tmp, path)
        return True

    # ---- prove ---------------------------------------------------------
    def obligation(self, name: str, ok: bool, detail: str = ""):
        self.obligations.append({"name": name, "ok": bool(ok), "detail": detail[:2000]})

    def lake_build(self, targets: list[str]) -> tuple[bool, str]:
        cmd = ["lake", "build", *targets]
        self.checker_cmds.append("cd lean && " + " ".join(cmd))
        p = subprocess.run(cmd, cwd=LEAN, capture_output=True, text=True)
        return p.returncode == 0, p.stdout + p.stderr

    def prove(self, modules: list[str], need_driver: bool = True):
        """Build the property modules and audit every theorem in Props files."""
        targets = list(modules) + (["driver"] if need_driver else [])
        ok, log = self.lake_build(targets)
        thms_by_mod: dict[str, list[str]] = {}
        for m in modules:
            src = (LEAN / (m.replace(".", "/") + ".lean")).read_text()
            ns = re.findall(r"^namespace\s+(\S+)", src, re.M)
            prefix = (ns[0] + ".") if ns else ""
            thms_by_mod[m] = [prefix + t for t in re.findall(r"^theorem\s+([^\s:({\[]+)", src, re.M)]
        if not ok:
            # find which modules / theorems failed
            failed_lines = [l for l in log.splitlines() if re.search(r"error", l)]
            bad_mods = set()
            for m in modules:
                rel = m.replace(".", "/") + ".lean"
                if any(rel in l for l in failed_lines) or re.search(r"✖.*" + re.escape(m) + r"\b", log):
                    bad_mods.add(m)
            if not bad_mods:
                # failure in a dependency (Model / Gen / Lemmas): all modules are unproved
                bad_mods = set(modules)
            for m in modules:
                rel = m.replace(".", "/") + ".lean"
                src_lines = (LEAN / rel).read_text().splitlines()
                # theorem spans by line number
                starts = [(i + 1, mm.group(1)) for i, l in enumerate(src_lines)
                          if (mm := re.match(r"theorem\s+([^\s:({\[]+)", l))]
                errs = [int(x) for x in re.findall(r"error: (?:\./)?" + re.escape(rel) + r":(\d+):\d+", log)]
                errs += [int(x) for x in re.findall(re.escape(rel) + r":(\d+):\d+: error", log)]
                hit = set()
                for e in errs:
                    cands = [n for (ln, n) in starts if ln <= e]
                    if cands:
                        hit.add(cands[-1])
                ns = re.findall(r"^namespace\s+(\S+)", "\n".join(src_lines), re.M)
                prefix = (ns[0] + ".") if ns else ""
                for t in thms_by_mod[m]:
                    short = t[len(prefix):] if t.startswith(prefix) else t
                    if m in bad_mods and (short in hit or not hit):
                        self.obligation(t, False, "lake build failed: " + "\n".join(failed_lines[:6]))
                    elif m in bad_mods:
                        # the module did not compile, so this theorem could not be audited in this run,
                        # but its own proof raised no error
                        self.obligation(t, False, "not audited: another theorem of the module failed to build")
                    else:
                        self.obligation(t, True)
            self.notes.append("lake build failed:\n" + log[-3000:])
            if need_driver and not DRIVER.exists():
                raise InfraError("driver not built:\n" + log[-3000:])
            return False
        # audit axioms
        all_thms = [t for m in modules for t in thms_by_mod[m]]
        audit = LEAN / ".lake" / f"audit_{self.prop}_{os.getpid()}.lean"
        audit.write_text(
            "\n".join(f"import {m}" for m in modules)
            + "\n"
            + "\n".join(f"#print axioms {t}" for t in all_thms)
            + "\n"
        )
        cmd = ["lake", "env", "lean", str(audit)]
        self.checker_cmds.append("cd lean && lake env lean <audit file: #print axioms for every theorem>")
        p = subprocess.run(cmd, cwd=LEAN, capture_output=True, text=True)
        audit.unlink(missing_ok=True)
        out = p.stdout + p.stderr
        found: dict[str, list[str]] = {}
        for mm in re.finditer(r"'([^']+)' depends on axioms: \[([^\]]*)\]", out, re.S):
            found[mm.group(1)] = [a.strip() for a in mm.group(2).replace("\n", " ").split(",") if a.strip()]
        for mm in re.finditer(r"'([^']+)' does not depend on any axioms", out):
            found[mm.group(1)] = []
        good = True
        for t in all_thms:
            if t not in found:
                self.obligation(t, False, "axiom audit produced no line for this theorem: " + out[-500:])
                good = False
                continue
            extra = [a for a in found[t] if a not in ALLOWED_AXIOMS]
            self.axioms[t] = found[t]
            if extra:
                self.obligation(t, False, f"depends on non-allowed axioms {extra}")
                good = False
            else:
                self.obligation(t, True)
        # forbidden tokens in the whole project (comments stripped)
        for f in sorted((LEAN / "Iodata").rglob("*.lean")):
            txt = re.sub(r"/-.*?-/", "", f.read_text(), flags=re.S)
            for i, line in enumerate(txt.splitlines(), 1):
                line = line.split("--")[0]
                if FORBIDDEN.search(line):
                    self.obligation(f"no-forbidden-token:{f.name}:{i}", False, line.strip())
                    good = False
        if self.thorough and good:
            cmd = ["lake", "env", "leanchecker", *modules]
            self.checker_cmds.append("cd lean && " + " ".join(cmd))
            p = subprocess.run(cmd, cwd=LEAN, capture_output=True, text=True)
            self.obligation("leanchecker:" + ",".join(modules), p.returncode == 0, (p.stdout + p.stderr)[-800:])
            good = good and p.returncode == 0
        return good

    # ---- T2 ------------------------------------------------------------
    def driver(self, lines: list[str]) -> list[str]:
        if not DRIVER.exists():
            raise InfraError("driver executable missing; run setup (cd lean && lake build)")
        if not lines:
            return []
        inp = "\n".join(lines) + "\n"
        p = subprocess.run([str(DRIVER)], input=inp, capture_output=True, text=True)
        if p.returncode != 0:
            raise InfraError(f"driver crashed rc={p.returncode}: {p.stderr[-500:]}")
        out = p.stdout.splitlines()
        if len(out) != len(lines):
            raise InfraError(f"driver returned {len(out)} lines for {len(lines)} requests")
        return out

    def corr(self, stream: str, requests: list[str], impl_lines: list[str], nontrivial=None, classes=None):
        """Compare implementation output lines with the driver's, record coverage."""
        model_lines = self.driver(requests)
        for i, (rq, a, b) in enumerate(zip(requests, impl_lines, model_lines)):
            self.evaluations += 1
            self.streams[stream] += 1
            if nontrivial is None or nontrivial[i]:
                self.distinct.add(_sha([stream, rq]))
            if classes is not None:
                self.hist[f"{stream}:{classes[i]}"] += 1
            else:
                self.hist[f"{stream}:{a.split(' ')[0:2]}"] += 1
            if a != b:
                self.mismatches.append({"stream": stream, "request": rq, "impl": a, "model": b})
        if requests and len(self.samples) < 12:
            k = self.rng.randrange(len(requests))
            self.samples.append({"stream": stream, "request": requests[k][:400], "response": impl_lines[k][:400]})

    def count(self, stream: str, key, cls: str, nontrivial: bool = True, sample=None):
        """Record one evaluation of a direct (search) predicate."""
        self.evaluations += 1
        self.streams[stream] += 1
        self.hist[f"{stream}:{cls}"] += 1
        if nontrivial:
            self.distinct.add(_sha([stream, key]))
        if sample is not None and len(self.samples) < 16 and self.rng.random() < 0.05:
            self.samples.append({"stream": stream, "case": sample})

    def fail(self, sig: str, what: str, inp):
        """A concrete input on which the property fails on the real code."""
        self.failures.append({"sig": sig, "what": what, "input": inp})

    def time_left(self, budget_s: float) -> float:
        return budget_s - (time.time() - self.t0)


def load_known(prop: str):
    path = ROOT / "known_findings.json"
    if not path.exists():
        return []
    data = json.loads(path.read_text())
    return [e for e in data.get("findings", []) if e.get("property") == prop]


def write_replay(prop: str, obj: dict) -> str:
    d = ROOT / "replays"
    d.mkdir(exist_ok=True)
    name = f"{prop}-{_sha(obj)}.json"
    (d / name).write_text(json.dumps(obj, indent=1, sort_keys=True, default=str))
    return f"replays/{name}"


def write_evidence(ctx: Ctx, violations: int, trusted_extra, assumptions, rule: str):
    n_ob = len(ctx.obligations)
    n_ok = sum(1 for o in ctx.obligations if o["ok"])
    cov = {
        "obligations": n_ob,
        "discharged": n_ok,
        "checker_cmd": " ; ".join(dict.fromkeys(ctx.checker_cmds)) or "none run",
        "trusted_base": TRUSTED_BASE_COMMON + list(trusted_extra),
        "evaluations": ctx.evaluations,
        "distinct_nontrivial": len(ctx.distinct),
        "rule": rule,
        "samples": ctx.samples[:16] or [{"note": "no samples recorded"}],
        "streams": dict(ctx.streams),
        "input_distribution": dict(sorted(ctx.hist.items(), key=lambda kv: -kv[1])[:80]),
        "theorems": [{"name": o["name"], "ok": o["ok"], "axioms": ctx.axioms.get(o["name"])} for o in ctx.obligations],
        "correspondence_mismatches": len(ctx.mismatches),
        "exhaustive": False,
    }
    cov.update(ctx.extra_cov)
    ev = {
        "property_id": ctx.prop,
        "tier": ctx.tier,
        "seed": ctx.seed,
        "level": "proof",
        "coverage": cov,
        "assumptions": list(assumptions),
        "wall_s": round(time.time() - ctx.t0, 2),
        "violations": violations,
    }
    d = ROOT / "evidence"
    d.mkdir(exist_ok=True)
    tmp = d / f".{ctx.prop}.json.tmp{os.getpid()}"
    tmp.write_text(json.dumps(ev, indent=1, default=str))
    os.replace(tmp, d / f"{ctx.prop}.json")


@contextlib.contextmanager
def build_lock():
    (LEAN / ".lake").mkdir(exist_ok=True)
    with open(LEAN / ".lake" / "verif.lock", "w") as fh:
        fcntl.flock(fh, fcntl.LOCK_EX)
        try:
            yield
        finally:
            fcntl.flock(fh, fcntl.LOCK_UN)


def _alarm(signum, frame):
    raise Timeout()


def run_check(prop: str, tier: str, seed: int) -> int:
    mod = importlib.import_module(f"vh.props.{prop.lower()}")
    ctx = Ctx(prop, tier, seed)
    known = load_known(prop)
    known_sigs = {e["signature"]: e for e in known if e.get("status") == "known"}
    limit = getattr(mod, "TIME_LIMIT", {"quick": 900, "thorough": 7200})[tier]
    signal.signal(signal.SIGALRM, _alarm)
    signal.alarm(limit)
    try:
        # 1+2: translate and prove under the build lock
        with build_lock():
            try:
                mod.translate(ctx)
            except InfraError:
                raise
            except Exception as exc:  # the source no longer has the shape the translator reads
                ctx.obligation("translator:" + prop, False, "".join(traceback.format_exception_only(type(exc), exc)))
                ctx.notes.append(traceback.format_exc())
            ctx.prove(mod.MODULES)
        # 3: correspondence
        if hasattr(mod, "correspond"):
            try:
                mod.correspond(ctx)
            except (InfraError, Timeout):
                raise
            except Exception as exc:
                # the implementation behaved in a way the harness does not expect (on the unchanged tree this
                # never happens): the correspondence no longer checks
                ctx.mismatches.append({"stream": "harness-exception:correspond", "request": "-",
                                       "impl": "".join(traceback.format_exception_only(type(exc), exc)).strip(),
                                       "model": traceback.format_exc()[-1500:]})
        broken = [o for o in ctx.obligations if not o["ok"]]
        ctx.escalated = bool(broken or ctx.mismatches)
        # 4: direct search on the real code (bigger budget when something broke)
        if hasattr(mod, "search"):
            try:
                mod.search(ctx)
            except (InfraError, Timeout):
                raise
            except Exception as exc:
                ctx.mismatches.append({"stream": "harness-exception:search", "request": "-",
                                       "impl": "".join(traceback.format_exception_only(type(exc), exc)).strip(),
                                       "model": traceback.format_exc()[-1500:]})
    except Timeout:
        print(f"TIMEOUT property={prop} after {limit}s", flush=True)
        return 2
    except InfraError as exc:
        print(f"INFRA-ERROR property={prop}: {exc}", flush=True)
        return 2
    finally:
        signal.alarm(0)

    # 5: decide
    broken = [o for o in ctx.obligations if not o["ok"]]
    new_fail: dict[str, dict] = {}
    seen_known: dict[str, dict] = {}
    for f in ctx.failures:
        if f["sig"] in known_sigs:
            seen_known.setdefault(f["sig"], f)
        else:
            new_fail.setdefault(f["sig"], f)
    for sig, f in seen_known.items():
        print(f"KNOWN-FINDING: property={prop} {known_sigs[sig]['what']}", flush=True)
    lines = []
    for sig, f in list(new_fail.items())[:8]:
        rp = write_replay(
            prop,
            {"property": prop, "kind": "failing-input", "signature": sig, "what": f["what"], "input": f["input"],
             "seed": seed, "tier": tier,
             "broken_obligations": [o["name"] for o in broken][:20],
             "correspondence_mismatches": ctx.mismatches[:5]},
        )
        lines.append(f"VIOLATION property={prop} replay={rp}")
    if not new_fail and (broken or ctx.mismatches):
        rp = write_replay(
            prop,
            {"property": prop, "kind": "broken-obligation", "seed": seed, "tier": tier,
             "theorems": [{"name": o["name"], "detail": o["detail"]} for o in broken][:40],
             "correspondence": ctx.mismatches[:20],
             "note": "the proof obligation / correspondence named here no longer checks against /repo's current "
                     "source; the direct search found no concrete failing input"},
        )
        lines.append(f"VIOLATION property={prop} replay={rp} no-failing-input-found")
    for l in lines:
        print(l, flush=True)
    if broken:
        broken = sorted(broken, key=lambda o: o["detail"].startswith("not audited"))
        for o in broken[:10]:
            print(f"  broken obligation: {o['name']}: {o['detail'][:300]}", flush=True)
    for m in ctx.mismatches[:5]:
        print(f"  correspondence mismatch [{m['stream']}] {m['request'][:200]}\n    impl : {m['impl'][:300]}\n    model: {m['model'][:300]}", flush=True)
    write_evidence(ctx, len(lines), getattr(mod, "TRUSTED", []), getattr(mod, "ASSUMPTIONS", []), getattr(mod, "RULE", ""))
    n_ok = sum(1 for o in ctx.obligations if o["ok"])
    print(f"{prop} tier={tier} seed={seed}: obligations {n_ok}/{len(ctx.obligations)} discharged, "
          f"{ctx.evaluations} evaluations ({len(ctx.distinct)} distinct non-trivial), "
          f"{len(ctx.mismatches)} correspondence mismatches, {len(seen_known)} known findings, "
          f"{len(lines)} violations, {time.time()-ctx.t0:.1f}s", flush=True)
    return 1 if lines else 0


def run_replay(prop: str, path: str) -> int:
    mod = importlib.import_module(f"vh.props.{prop.lower()}")
    obj = json.loads(Path(path).read_text())
    ctx = Ctx(prop, "quick", int(obj.get("seed", 0)))
    if obj.get("kind") == "broken-obligation":
        with build_lock():
            try:
                mod.translate(ctx)
            except Exception as exc:
                ctx.obligation("translator:" + prop, False, repr(exc))
            ctx.prove(mod.MODULES)
        if hasattr(mod, "correspond"):
            mod.correspond(ctx)
        bad = [o for o in ctx.obligations if not o["ok"]]
        for o in bad[:10]:
            print("still broken:", o["name"], o["detail"][:300])
        for m in ctx.mismatches[:5]:
            print("still mismatching:", m)
        return 1 if (bad or ctx.mismatches) else 0
    still = mod.replay(ctx, obj)
    print(("STILL FAILS: " if still else "no longer fails: ") + obj.get("what", ""))
    return 1 if still else 0


def main(argv=None):
    ap = argparse.ArgumentParser()
    ap.add_argument("prop")
    ap.add_argument("--tier", default=os.environ.get("VERIF_TIER", "quick"), choices=["quick", "thorough"])
    ap.add_argument("--replay")
    a = ap.parse_args(argv)
    seed = int(os.environ.get("VERIF_SEED", "0") or 0)
    os.environ.setdefault("OMP_NUM_THREADS", "1")
    os.environ.setdefault("OPENBLAS_NUM_THREADS", "1")
    os.environ["PYTHONDONTWRITEBYTECODE"] = "1"
    if os.environ.get("IODATA_REPO"):
        # scratch copy of the repository (mutation testing): import iodata from there
        sys.path.insert(0, os.environ["IODATA_REPO"])
    import iodata  # noqa: F401

    if not str(Path(iodata.__file__).resolve()).startswith(str(REPO.resolve())):
        print(f"INFRA-ERROR iodata imported from {iodata.__file__}, expected under {REPO}")
        sys.exit(2)
    try:
        if a.replay:
            rc = run_replay(a.prop.upper(), a.replay)
        else:
            rc = run_check(a.prop.upper(), a.tier, seed)
    except Exception:  # a crash of the machinery itself is never a violation
        traceback.print_exc()
        print(f"INFRA-ERROR property={a.prop.upper()}: unexpected exception in the check machinery", flush=True)
        rc = 2
    sys.exit(rc)
