"""Access to the repository's test corpus and the format registry."""

from __future__ import annotations

import copy
import warnings
from pathlib import Path

from .engine import REPO

DATA = REPO / "iodata" / "test" / "data"
_cache: dict = {}

DUMP_ONE = ["xyz", "pdb", "mol2", "sdf", "poscar", "cube", "fcidump", "json_qcschema", "fchk", "molden", "molekel",
            "wfn", "wfx"]
DUMP_MANY = ["xyz", "pdb", "mol2", "sdf"]
EXT = {"json_qcschema": "json", "molekel": "mkl", "poscar": "poscar", "fcidump": "fcidump"}


def select_fmt(path: Path, attr="load_one"):
    from iodata.api import _select_format_module

    if path.suffix == ".json":
        return "json_qcschema"
    try:
        return _select_format_module(str(path), attr).__name__.split(".")[-1]
    except Exception:
        return None


def files(max_size=250_000, exts=None):
    out = []
    for p in sorted(DATA.iterdir()):
        if not p.is_file() or p.stat().st_size > max_size:
            continue
        if exts is not None and p.suffix not in exts:
            continue
        out.append(p)
    return out


def load(path: Path, fmt=None):
    """Loaded object (deep copy of a per-process cache) or None when the file does not load."""
    from iodata import load_one

    key = (str(path), fmt)
    if key not in _cache:
        try:
            with warnings.catch_warnings():
                warnings.simplefilter("ignore")
                f = fmt or select_fmt(path)
                _cache[key] = load_one(str(path), fmt=f) if f else None
        except Exception:
            _cache[key] = None
    return copy.deepcopy(_cache[key])
