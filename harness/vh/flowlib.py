"""Shared machinery of C08 / C07 / C18: the T1 translator of iodata/api.py (+ __main__.py) into the
control-flow IR of lean/Iodata/Model/Flow.lean, the registry table, and helpers of the line protocol."""

from __future__ import annotations

import ast

from . import engine
from .engine import lean_list, lean_str

EXC = {
    "FileFormatError": "fileFormat",
    "LoadError": "load",
    "DumpError": "dump",
    "PrepareDumpError": "prepareDump",
    "WriteInputError": "writeInput",
    "StopIteration": "stopIter",
    "RuntimeError": "runtime",
    "OSError": "osErr",
    "GeneratorExit": "genExit",
}
API_FUNCS = ("load_one", "load_many", "dump_one", "dump_many", "write_input")


class Untranslatable(Exception):
    """The source no longer has a shape the IR can express."""


def _args(call: ast.Call) -> list[str]:
    out = [ast.unparse(a) for a in call.args]
    for k in call.keywords:
        out.append("**" + ast.unparse(k.value) if k.arg is None else f"{k.arg}={ast.unparse(k.value)}")
    return out


def _seq(stmts: list[str]) -> str:
    stmts = [s for s in stmts if s is not None]
    if not stmts:
        return ".skip"
    if len(stmts) == 1:
        return stmts[0]
    return f"(.seq {stmts[0]}\n {_seq(stmts[1:])})"


def _ls(items) -> str:
    return lean_list(items, lean_str)


class FnTranslator:
    """Translate the body of one function of api.py / __main__.py."""

    def __init__(self, module_funcs: dict[str, ast.FunctionDef], inline: dict[str, str], yield_to="user"):
        self.funcs = module_funcs
        self.inline = inline  # name of an api.py-local function -> Lean constant holding its body
        self.local_gens: dict[str, ast.FunctionDef] = {}
        self.yield_to = yield_to
        self.in_try = 0

    # ---- expressions ------------------------------------------------------
    def callee(self, call: ast.Call):
        f = call.func
        if isinstance(f, ast.Name):
            n = f.id
            if n == "_select_format_module":
                if len(call.args) < 2 or not isinstance(call.args[1], ast.Constant):
                    raise Untranslatable("_select_format_module without a literal attribute name")
                return f"(.select {lean_str(call.args[1].value)})"
            if n == "_select_input_module":
                return ".selectInput"
            if n == "iter":
                return ".iterOf"
            if n == "next":
                return ".nextFrame"
            if n == "IOData":
                return ".ctor"
            if n in API_FUNCS or n == "convert":
                return f"(.api {lean_str(n)})"
            if n in ("parse_args",):
                return f"(.pure {lean_str(n)})"
            raise Untranslatable(f"call of unknown function {n}")
        if isinstance(f, ast.Attribute) and isinstance(f.value, ast.Name):
            obj, attr = f.value.id, f.attr
            if obj in ("format_module", "input_module"):
                if attr == "prepare_dump":
                    return ".prepare"
                if attr in ("dump_one", "dump_many", "write_input"):
                    return f"(.writer {lean_str(attr)})"
                if attr in ("load_one", "load_many"):
                    return f"(.parse {lean_str(attr)})"
            if obj == "np" and attr == "seterr":
                return f"(.pure {lean_str('np.seterr')})"
        raise Untranslatable("call of unknown callee " + ast.unparse(f))

    def calls_in(self, expr: ast.AST, tgt: str = "") -> list[str]:
        """Statements for every call inside ``expr`` in evaluation order (post-order)."""
        out: list[str] = []
        if isinstance(expr, ast.Call):
            f = expr.func
            if isinstance(f, ast.Name) and f.id in self.local_gens:
                raise Untranslatable("local generator used outside a writer call")
            subs = list(expr.args) + [k.value for k in expr.keywords]
            gens = [a for a in subs if isinstance(a, ast.Call) and isinstance(a.func, ast.Name) and a.func.id in self.local_gens]
            for a in subs:
                if a not in gens:
                    out += self.calls_in(a)
            if isinstance(f, ast.Name) and f.id in self.inline:
                out.append(f"(.inl {lean_str(f.id)} {_ls(_args(expr))} {self.inline[f.id]})")
            elif gens:
                if len(gens) != 1:
                    raise Untranslatable("several generators in one call")
                g = self.local_gens[gens[0].func.id]
                sub = FnTranslator(self.funcs, self.inline, yield_to="writer")
                sub.no_try = True
                body = sub.block(g.body)
                out.append(f"(.consume {self.callee(expr)} {_ls(_args(expr))}\n {body})")
            else:
                out.append(f"(.call {self.callee(expr)} {_ls(_args(expr))} {lean_str(tgt)})")
            return out
        if isinstance(expr, (ast.Name, ast.Constant, ast.Attribute)):
            return out
        if isinstance(expr, ast.Starred):
            return self.calls_in(expr.value)
        if isinstance(expr, ast.IfExp):
            t = expr.test
            if (isinstance(t, ast.Call) and isinstance(t.func, ast.Name) and t.func.id == "hasattr"
                    and isinstance(t.args[1], ast.Constant)):
                return [f"(.ifHasattr {lean_str(ast.unparse(t.args[0]))} {lean_str(t.args[1].value)} "
                        f"{_seq(self.calls_in(expr.body))} {_seq(self.calls_in(expr.orelse))})"]
        raise Untranslatable("expression not supported: " + ast.unparse(expr))

    # ---- statements -------------------------------------------------------
    def pat(self, t) -> str:
        def one(n):
            if not isinstance(n, ast.Name):
                raise Untranslatable("exception pattern " + ast.unparse(n))
            if n.id not in EXC:
                raise Untranslatable("exception class not modelled: " + n.id)
            return "." + EXC[n.id]

        if t is None:
            raise Untranslatable("bare except")
        if isinstance(t, ast.Name) and t.id == "Exception":
            return ".anyException"
        if isinstance(t, ast.Tuple):
            return "(.cls " + lean_list([one(e) for e in t.elts]) + ")"
        return "(.cls [" + one(t) + "])"

    def stmt(self, s: ast.stmt):
        if isinstance(s, ast.Expr) and isinstance(s.value, ast.Constant) and isinstance(s.value.value, str):
            return None  # docstring
        if isinstance(s, ast.Expr) and isinstance(s.value, ast.Yield):
            v = s.value.value
            pre = self.calls_in(v) if v is not None else []
            return _seq([*pre, f"(.yield_ .{self.yield_to} {lean_str(ast.unparse(v) if v is not None else '')})"])
        if isinstance(s, ast.Expr):
            return _seq(self.calls_in(s.value))
        if isinstance(s, ast.Assign):
            if len(s.targets) != 1 or not isinstance(s.targets[0], ast.Name):
                raise Untranslatable("assignment target " + ast.unparse(s))
            tgt = s.targets[0].id
            cs = self.calls_in(s.value, tgt)
            if not cs:
                raise Untranslatable("assignment without a call: " + ast.unparse(s))
            return _seq(cs)
        if isinstance(s, ast.Return):
            pre = self.calls_in(s.value) if s.value is not None else []
            return _seq([*pre, f"(.ret {lean_str(ast.unparse(s.value) if s.value is not None else '')})"])
        if isinstance(s, ast.Raise):
            if s.exc is None:
                return ".reraise"
            if not (isinstance(s.exc, ast.Call) and isinstance(s.exc.func, ast.Name) and s.exc.func.id in EXC):
                raise Untranslatable("raise " + ast.unparse(s))
            args = _args(s.exc)[1:]  # the message text is irrelevant
            if s.cause is not None:
                args.append("from " + ast.unparse(s.cause))
            return f"(.raise_ .{EXC[s.exc.func.id]} {_ls(args)})"
        if isinstance(s, ast.Try):
            if getattr(self, "no_try", False):
                raise Untranslatable("try inside a local generator")
            if s.orelse or s.finalbody:
                raise Untranslatable("try with else/finally")
            hs = ".nil"
            for h in reversed(s.handlers):
                hs = f"(.cons {self.pat(h.type)} {self.block(h.body)}\n {hs})"
            return f"(.try_ {self.block(s.body)}\n {hs})"
        if isinstance(s, ast.With):
            if getattr(self, "no_try", False):
                raise Untranslatable("with inside a local generator")
            if len(s.items) != 1:
                raise Untranslatable("with several items")
            it = s.items[0]
            c = it.context_expr
            var = ast.unparse(it.optional_vars) if it.optional_vars is not None else ""
            if isinstance(c, ast.Call) and isinstance(c.func, ast.Name) and c.func.id == "open":
                a = _args(c)
                if len(a) != 2 or a[1] not in ("'w'", '"w"'):
                    raise Untranslatable("open with other arguments: " + ast.unparse(c))
                return f"(.withOpen .w {lean_str(a[0])} {lean_str(var)}\n {self.block(s.body)})"
            if isinstance(c, ast.Call) and isinstance(c.func, ast.Name) and c.func.id == "LineIterator":
                a = _args(c)
                if len(a) != 1:
                    raise Untranslatable("LineIterator with other arguments")
                return f"(.withOpen .r {lean_str(a[0])} {lean_str(var)}\n {self.block(s.body)})"
            raise Untranslatable("with " + ast.unparse(c))
        if isinstance(s, ast.For):
            if s.orelse or not isinstance(s.target, ast.Name):
                raise Untranslatable("for/else or tuple target")
            it = s.iter
            pre = []
            if isinstance(it, ast.Attribute) and it.attr == "required":
                src = ".required"
            elif isinstance(it, ast.Name) and it.id == "iter_data":
                src = ".iterData"
            elif (isinstance(it, ast.Call) and isinstance(it.func, ast.Attribute) and it.func.attr == "load_many"
                  and ast.unparse(it.func.value) == "format_module"):
                src = ".fmtMany"
            else:
                raise Untranslatable("for over " + ast.unparse(it))
            return _seq([*pre, f"(.forEach {src} {lean_str(ast.unparse(it) + ' -> ' + s.target.id)}\n {self.block(s.body)})"])
        if isinstance(s, ast.If):
            t = s.test
            if (isinstance(t, ast.Call) and isinstance(t.func, ast.Name) and t.func.id == "hasattr"
                    and len(t.args) == 2 and isinstance(t.args[1], ast.Constant)):
                return (f"(.ifHasattr {lean_str(ast.unparse(t.args[0]))} {lean_str(t.args[1].value)} "
                        f"{self.block(s.body)} {self.block(s.orelse)})")
            if (isinstance(t, ast.Compare) and len(t.ops) == 1 and isinstance(t.ops[0], ast.Is)
                    and isinstance(t.comparators[0], ast.Constant) and t.comparators[0].value is None
                    and isinstance(t.left, ast.Call) and isinstance(t.left.func, ast.Name) and t.left.func.id == "getattr"):
                if s.orelse:
                    raise Untranslatable("if-None with else")
                return f"(.ifNone {lean_str(ast.unparse(t.left))} {self.block(s.body)})"
            if isinstance(t, ast.Name):
                return f"(.ifVar {lean_str(t.id)} {self.block(s.body)} {self.block(s.orelse)})"
            raise Untranslatable("if " + ast.unparse(t))
        if isinstance(s, ast.FunctionDef):
            if not any(isinstance(n, (ast.Yield, ast.YieldFrom)) for n in ast.walk(s)):
                raise Untranslatable("local function that is not a generator")
            if s.args.args or s.args.kwonlyargs or s.decorator_list:
                raise Untranslatable("local generator with parameters")
            self.local_gens[s.name] = s
            return None
        if isinstance(s, ast.Pass):
            return ".skip"
        raise Untranslatable(f"statement {type(s).__name__}: " + ast.unparse(s)[:80])

    def block(self, body) -> str:
        return _seq([self.stmt(s) for s in body])


def _signature(fn: ast.FunctionDef) -> list[str]:
    a = fn.args
    out = []
    pos = a.posonlyargs + a.args
    defaults = [None] * (len(pos) - len(a.defaults)) + list(a.defaults)
    for p, d in zip(pos, defaults):
        out.append(p.arg if d is None else f"{p.arg}={ast.unparse(d)}")
    if a.vararg:
        out.append("*" + a.vararg.arg)
    elif a.kwonlyargs:
        out.append("*")
    for p, d in zip(a.kwonlyargs, a.kw_defaults):
        out.append(p.arg if d is None else f"{p.arg}={ast.unparse(d)}")
    if a.kwarg:
        out.append("**" + a.kwarg.arg)
    return out


def parse_functions(path) -> dict[str, ast.FunctionDef]:
    tree = ast.parse(path.read_text())
    return {n.name: n for n in tree.body if isinstance(n, ast.FunctionDef)}


LEAN_NAMES = {"_check_required": "checkRequired", "dump_one": "dumpOne", "dump_many": "dumpMany",
              "write_input": "writeInput", "load_one": "loadOne", "load_many": "loadMany",
              "convert": "convert", "main": "main"}


def _argparse_table(fn: ast.FunctionDef) -> list[list[str]]:
    """Every ``parser.add_argument(...)`` of parse_args: [flags..., '|', sorted 'key=value' of default/action/dest]."""
    rows = []
    for n in ast.walk(fn):
        if isinstance(n, ast.Call) and isinstance(n.func, ast.Attribute) and n.func.attr == "add_argument":
            flags = [a.value for a in n.args if isinstance(a, ast.Constant)]
            kws = sorted(f"{k.arg}={ast.unparse(k.value)}" for k in n.keywords if k.arg in ("default", "action", "dest", "nargs", "type", "choices", "required", "const"))
            rows.append((n.lineno, flags + ["|"] + kws))
    return [r for _, r in sorted(rows)]


def translate_apiflow(ctx) -> None:
    """T1: regenerate Gen/ApiFlow.lean from iodata/api.py and iodata/__main__.py."""
    api = parse_functions(engine.REPO / "iodata" / "api.py")
    cli = parse_functions(engine.REPO / "iodata" / "__main__.py")
    out = ["import Iodata.Model.Flow", "namespace Iodata.Gen.ApiFlow", "open Iodata.Flow", ""]
    sigs, decos = [], []

    def emit(src: dict, name: str, inline: dict[str, str]):
        fn = src[name]
        tr = FnTranslator(src, inline)
        body = tr.block(fn.body)
        out.append(f"/-- `{name}` -/\ndef {LEAN_NAMES[name]} : Stmt :=\n {body}\n")
        sigs.append((name, _signature(fn)))
        decos.append((name, [ast.unparse(d) for d in fn.decorator_list]))

    emit(api, "_check_required", {})
    for name in ("dump_one", "dump_many", "write_input", "load_one", "load_many"):
        emit(api, name, {"_check_required": "checkRequired"})
    emit(cli, "convert", {})
    emit(cli, "main", {})
    out.append("def signatures : List (String × List String) :=\n  ["
               + ",\n   ".join(f"({lean_str(n)}, {_ls(s)})" for n, s in sigs) + "]\n")
    out.append("def decorators : List (String × List String) :=\n  ["
               + ",\n   ".join(f"({lean_str(n)}, {_ls(s)})" for n, s in decos) + "]\n")
    out.append("def argparseTable : List (List String) :=\n  ["
               + ",\n   ".join(_ls(r) for r in _argparse_table(cli["parse_args"])) + "]\n")
    # what the CLI imports under the API names (a re-binding would silently change the meaning of `convert`)
    tree = ast.parse((engine.REPO / "iodata" / "__main__.py").read_text())
    imports = []
    for n in tree.body:
        if isinstance(n, ast.ImportFrom):
            for a in n.names:
                if (a.asname or a.name) in API_FUNCS:
                    imports.append(f"{'.' * n.level}{n.module or ''}:{a.name}:{a.asname or a.name}")
    rebound = sorted({t.id for n in ast.walk(tree) for t in (n.targets if isinstance(n, ast.Assign) else [])
                      if isinstance(t, ast.Name) and t.id in API_FUNCS}
                     | {n.name for n in tree.body if isinstance(n, ast.FunctionDef) and n.name in API_FUNCS})
    # the decorator around every API function, statement by statement (docstrings dropped)
    import copy

    wrapper = copy.deepcopy(api["_reissue_warnings"])
    for node in ast.walk(wrapper):
        if isinstance(node, (ast.FunctionDef, ast.AsyncFunctionDef)) and node.body and isinstance(node.body[0], ast.Expr) \
                and isinstance(getattr(node.body[0], "value", None), ast.Constant) and isinstance(node.body[0].value.value, str):
            node.body = node.body[1:] or [ast.Pass()]
    out.append(f"def reissueBody : List String := {_ls(ast.unparse(wrapper).splitlines())}\n")
    out.append(f"def cliImports : List String := {_ls(sorted(imports))}\n")
    out.append(f"def cliRebound : List String := {_ls(rebound)}\n")
    out.append("end Iodata.Gen.ApiFlow\n")
    ctx.gen_write("ApiFlow", "\n".join(out))


def translate_registry(ctx) -> None:
    """T1: Gen/ApiRegistry.lean — entry points of every format module and the decorator lists."""
    from iodata.api import FORMAT_MODULES, INPUT_MODULES

    def row(kind, name, mod):
        ents = []
        for fn in ("load_one", "load_many", "dump_one", "dump_many", "write_input"):
            f = getattr(mod, fn, None)
            if f is None:
                continue
            lists = []
            for key in ("required", "optional", "guaranteed", "ifpresent"):
                v = getattr(f, key, None)
                if v is not None:
                    lists.append(f"({lean_str(key)}, {_ls(list(v))})")
            ents.append(f"({lean_str(fn)}, [{', '.join(lists)}])")
        return (f"  {{ kind := {lean_str(kind)}, name := {lean_str(name)}, hasPrepare := {'true' if hasattr(mod, 'prepare_dump') else 'false'},\n"
                f"    fns := [{', '.join(ents)}] }}")

    rows = [row("format", n, m) for n, m in FORMAT_MODULES.items()] + [row("input", n, m) for n, m in INPUT_MODULES.items()]
    txt = ["namespace Iodata.Gen.ApiRegistry", "",
           "structure Entry where", "  kind : String", "  name : String", "  hasPrepare : Bool",
           "  fns : List (String × List (String × List String))", "  deriving Repr, DecidableEq", "",
           "def registry : List Entry := [", ",\n".join(rows), "]", "", "end Iodata.Gen.ApiRegistry", ""]
    ctx.gen_write("ApiRegistry", "\n".join(txt))


def _always_raises(stmts) -> bool:
    """Every path through the statement list ends in `raise` (conservative: unknown shapes count as False)."""
    if not stmts:
        return False
    last = stmts[-1]
    if isinstance(last, ast.Raise):
        return True
    if isinstance(last, ast.If):
        return bool(last.orelse) and _always_raises(last.body) and _always_raises(last.orelse)
    if isinstance(last, (ast.With, ast.AsyncWith)):
        return _always_raises(last.body)
    if isinstance(last, ast.Try):
        return (_always_raises(last.finalbody) or
                (_always_raises(last.body) and all(_always_raises(h.body) for h in last.handlers)))
    return False


def translate_handlers(ctx) -> None:
    """T1: Gen/Handlers.lean — every exception handler (`except`, `contextlib.suppress`) and every local change of
    numpy's error mode (`np.errstate`, `np.seterr`) in the package outside the tests."""
    rows = []
    for p in sorted((engine.REPO / "iodata").rglob("*.py")):
        rel = p.relative_to(engine.REPO).with_suffix("")
        if "test" in rel.parts:
            continue
        mod = ".".join(rel.parts)
        tree = ast.parse(p.read_text())
        owner = {}
        for fn in ast.walk(tree):
            if isinstance(fn, (ast.FunctionDef, ast.AsyncFunctionDef)):
                for n in ast.walk(fn):
                    owner.setdefault(id(n), fn.name) if n is not fn else None
        for node in ast.walk(tree):
            if isinstance(node, ast.ExceptHandler):
                if node.type is None:
                    caught = [""]
                elif isinstance(node.type, ast.Tuple):
                    caught = [ast.unparse(e).split(".")[-1] for e in node.type.elts]
                else:
                    caught = [ast.unparse(node.type).split(".")[-1]]
                rows.append((mod, owner.get(id(node), "<module>"), "except", caught, _always_raises(node.body)))
            elif isinstance(node, ast.Call):
                name = ast.unparse(node.func).split(".")[-1]
                if name == "suppress":
                    rows.append((mod, owner.get(id(node), "<module>"), "suppress",
                                 [ast.unparse(a).split(".")[-1] for a in node.args], False))
                elif name in ("errstate", "seterr"):
                    rows.append((mod, owner.get(id(node), "<module>"), name,
                                 [f"{k.arg}={ast.unparse(k.value)}" for k in node.keywords], False))
    body = ",\n".join(
        f"  {{ module := {lean_str(m)}, func := {lean_str(f)}, kind := {lean_str(k)}, caught := {_ls(c)}, "
        f"reraises := {'true' if r else 'false'} }}" for m, f, k, c, r in rows)
    txt = ["namespace Iodata.Gen.Handlers", "",
           "structure Handler where", "  module : String", "  func : String", "  kind : String",
           "  caught : List String", "  reraises : Bool", "  deriving Repr, DecidableEq", "",
           "def handlers : List Handler := [", body, "]", "", "end Iodata.Gen.Handlers", ""]
    ctx.gen_write("Handlers", "\n".join(txt))


# =====================================================================================================
# T2 "controlled behaviours": run the REAL api functions against a scripted format module, a scripted
# data object, a traced `open` and a traced LineIterator, and print the same line as the Lean driver.
# =====================================================================================================
import builtins
import os
import types

EXC_NAMES = ["FileFormatError", "LoadError", "DumpError", "PrepareDumpError", "WriteInputError",
             "StopIteration", "RuntimeError", "Other", "OSError", "Base", "GeneratorExit"]


class Boom(Exception):
    """Stands for any Exception subclass that is not one of the named ones (ValueError, TypeError, ...)."""


class Interrupt(BaseException):
    """Stands for KeyboardInterrupt / SystemExit."""


def exc_class(name):
    import iodata.utils as u

    return {"FileFormatError": u.FileFormatError, "LoadError": u.LoadError, "DumpError": u.DumpError,
            "PrepareDumpError": u.PrepareDumpError, "WriteInputError": u.WriteInputError,
            "StopIteration": StopIteration, "RuntimeError": RuntimeError, "Other": Boom, "OSError": OSError,
            "Base": Interrupt, "GeneratorExit": GeneratorExit}[name]


def make_exc(name, where="scripted"):
    cls = exc_class(name)
    if name in ("FileFormatError", "LoadError", "DumpError", "PrepareDumpError", "WriteInputError"):
        return cls("scripted " + where, "scripted-file")
    return cls("scripted " + where)


def classify(exc) -> str:
    import iodata.utils as u

    t = type(exc)
    for name in ("FileFormatError", "LoadError", "DumpError", "PrepareDumpError", "WriteInputError"):
        if t is getattr(u, name):
            return name
    if t is Boom:
        return "Other"
    if t is Interrupt:
        return "Base"
    if t in (StopIteration, RuntimeError, OSError, GeneratorExit):
        return t.__name__
    if isinstance(exc, OSError):
        return "OSError"
    return "Other:" + t.__name__


FUNNEL_LOAD_MSGS = ("Uncaught exception while loading file.", "File ended before all data was read.")


def show_exc(exc) -> str:
    name = classify(exc)
    if name == "LoadError" and exc.args and exc.args[0] in FUNNEL_LOAD_MSGS and exc.lineno is not None:
        return f"raise:{name}:{exc.lineno}"
    return "raise:" + name


class Tracer:
    def __init__(self):
        self.ev: list[str] = []
        self.nw = 0  # completed write calls
        self.inject: dict[int, str] = {}  # write-call index -> exception name raised instead of writing
        self.open_fail = None
        self.files = []


class TracedFile:
    """Wrapper around a real file object: logs write/close, can raise at the k-th write call."""

    def __init__(self, fh, tr: Tracer, reading=False):
        self._fh, self._tr, self._reading = fh, tr, reading
        self.name = fh.name

    def write(self, s):
        k = self._tr.nw
        if k in self._tr.inject:
            raise make_exc(self._tr.inject[k], "write fault")
        self._tr.nw += 1
        self._tr.ev.append("w")
        return self._fh.write(s)

    def __enter__(self):
        return self

    def __exit__(self, *a):
        self.close()

    def close(self):
        if not self._fh.closed:
            self._tr.ev.append("c")
        self._fh.close()

    def __iter__(self):
        return self

    def __next__(self):
        return next(self._fh)

    def __getattr__(self, name):
        return getattr(self._fh, name)


class patched_io:
    """Context manager: route `open` of iodata.api / iodata.utils and the LineIterator methods through a Tracer."""

    def __init__(self, tr: Tracer):
        self.tr = tr

    def __enter__(self):
        import iodata.api as api
        import iodata.utils as utils

        tr = self.tr

        def open_w(filename, mode="r", *a, **k):
            if tr.open_fail is not None:
                raise make_exc(tr.open_fail, "open")
            fh = builtins.open(filename, mode, *a, **k)
            tr.ev.append("O" if "w" in mode else "R")
            f = TracedFile(fh, tr)
            tr.files.append(f)
            return f

        self.saved = (api.__dict__.get("open"), utils.__dict__.get("open"),
                      utils.LineIterator.__next__, utils.LineIterator.back)
        api.open = open_w
        utils.open = open_w
        orig_next, orig_back = utils.LineIterator.__next__, utils.LineIterator.back

        def traced_next(self_):
            tr.ev.append("n")
            return orig_next(self_)

        def traced_back(self_, line):
            tr.ev.append("b")
            return orig_back(self_, line)

        utils.LineIterator.__next__ = traced_next
        utils.LineIterator.back = traced_back
        return self

    def __exit__(self, *a):
        import iodata.api as api
        import iodata.utils as utils

        for mod, old in ((api, self.saved[0]), (utils, self.saved[1])):
            if old is None:
                mod.__dict__.pop("open", None)
            else:
                mod.open = old
        utils.LineIterator.__next__ = self.saved[2]
        utils.LineIterator.back = self.saved[3]


def fd_count() -> int:
    return len(os.listdir("/proc/self/fd"))


class FakeData:
    """Object handed to dump_*: every required name has a scripted `getattr` behaviour."""

    def __init__(self, tr, names, attrs, prep, w):
        self.__dict__["_s"] = (tr, dict(zip(names, attrs)), prep, w)

    def __getattr__(self, name):
        tr, beh, _, _ = self.__dict__["_s"]
        if name.startswith("__"):
            raise AttributeError(name)
        if name not in beh:
            raise AttributeError(name)  # a name of the wrong function's list: not scripted
        tr.ev.append("g")
        kind = beh[name]
        if kind == "v":
            return 1
        if kind == "n":
            return None
        raise make_exc(kind[2:], "getattr")


def _do_writes(f, tr, w, rng_inject):
    """n successful write calls, then the scripted failure (raised by the writer itself, or injected
    at the next write call of the file object)."""
    n, fail = w
    for _ in range(n):
        f.write(f"{tr.nw};")
    if fail is not None:
        if rng_inject:
            tr.inject[tr.nw] = fail
            f.write("never;")
            raise AssertionError("injection did not fire")
        raise make_exc(fail, "writer")


def parse_frame(s):
    a, p, w = s.split("/")
    n, fail = w.split(":")
    return ([] if a == "@" else a.split(","), None if p == "-" else p, (int(n), None if fail == "-" else fail))


def parse_item(s):
    o, r, c = s.split("/")
    return ("" if o == "@" else o, None if r == "-" else r, None if c == "-" else c)


def make_fake_module(tr, kv, inject_mode, names_one, names_many):
    """A format module scripted by the behaviour vector ``kv`` (same keys as the driver request)."""
    mod = types.ModuleType("iodata.formats.zzfake")
    mod.PATTERNS = ["*.zzfake"]
    pre = parse_frame("@/-/" + kv.get("pre", "0:-"))[2]
    post = parse_frame("@/-/" + kv.get("post", "0:-"))[2]

    def dump_one(f, data, **kwargs):
        _do_writes(f, tr, data.__dict__["_s"][3], inject_mode)

    def dump_many(f, datas, **kwargs):
        _do_writes(f, tr, pre, inject_mode)
        for data in datas:
            _do_writes(f, tr, data.__dict__["_s"][3], inject_mode)
        _do_writes(f, tr, post, inject_mode)

    def write_input(fh, data, template, atom_line, **kwargs):
        _do_writes(fh, tr, data.__dict__["_s"][3], inject_mode)

    def prepare_dump(data, allow_changes, filename):
        tr.ev.append("p")
        prep = data.__dict__["_s"][2]
        if prep is not None:
            raise make_exc(prep, "prepare_dump")
        return data

    items = [parse_item(s) for s in kv.get("items", "@").split(";")] if kv.get("items", "@") != "@" else []
    iend = None if kv.get("iend", "-") == "-" else kv["iend"]

    def run_item(lit, item):
        ops, res, _ = item
        kept = []
        for op in ops:
            if op == "n":
                kept.append(next(lit))
            else:
                lit.back(kept.pop() if kept else "pushed\n")
        if res is not None:
            raise make_exc(res, "parser")
        return {"_ctor": item[2]}

    def load_one(lit, **kwargs):
        return run_item(lit, items[0] if items else ("", None, None))

    if kv.get("gen", "1") == "1":
        def load_many(lit, **kwargs):
            for item in items:
                yield run_item(lit, item)
            if iend is not None:
                raise make_exc(iend, "parser end")
    else:
        class _It:
            def __init__(self, lit):
                self.lit, self.k = lit, 0

            def __iter__(self):
                return self

            def __next__(self):
                if self.k < len(items):
                    self.k += 1
                    return run_item(self.lit, items[self.k - 1])
                if iend is not None:
                    raise make_exc(iend, "parser end")
                raise StopIteration

        def load_many(lit, **kwargs):
            return _It(lit)

    dump_one.required, dump_one.fmt = list(names_one), "ZZFAKE"
    dump_many.required, dump_many.fmt = list(names_many), "ZZFAKE"
    mod.dump_one, mod.dump_many, mod.load_one, mod.load_many = dump_one, dump_many, load_one, load_many
    mod.write_input = write_input
    if kv.get("hp", "1") == "1":
        mod.prepare_dump = prepare_dump
    return mod


class FakeIOData:
    """Stands for `IOData(**dict)` in load_one / load_many: the scripted constructor outcome."""

    def __init__(self, tr):
        self.tr = tr

    def __call__(self, **kw):
        self.tr.ev.append("k")
        if kw.get("_ctor") is not None:
            raise make_exc(kw["_ctor"], "IOData()")
        return ("IOData", kw)


def _fs_write(path, spec):
    if os.path.exists(path):
        os.unlink(path)
    if spec != "absent":
        with builtins.open(path, "w") as fh:
            fh.write("" if spec == "e" else "".join(t + ";" for t in spec.split(".")))


def _fs_show(path):
    if not os.path.exists(path):
        return "absent"
    txt = builtins.open(path).read()
    if txt == "":
        return "e"
    if not txt.endswith(";") or not all(t.isdigit() for t in txt[:-1].split(";")):
        return "garbage:" + txt[:40].encode().hex()
    return ".".join(txt[:-1].split(";"))


def run_controlled(entry: str, kv: dict, workdir: str, inject_mode: bool):
    """Run the real API function `entry` under the scripted behaviours; return (response line, fd delta, open files)."""
    import iodata.api as api

    tr = Tracer()
    tr.open_fail = None if kv.get("open", "-") == "-" else kv["open"]
    frames_s = [] if kv.get("frames", "@") == "@" else kv["frames"].split(";")
    frames = [parse_frame(s) for s in frames_s]
    nmax = max([len(f[0]) for f in frames] + [0])
    names_one = [f"a{i}" for i in range(nmax)]
    names_many = [f"m{i}" for i in range(nmax)]
    names = names_many if entry == "dump_many" else names_one
    datas = [FakeData(tr, names[: len(a)], a, p, w) for a, p, w in frames]
    mod = make_fake_module(tr, kv, inject_mode, names_one, names_many)
    # the required list is per frame in the model; the scripted module declares the longest one and
    # every frame scripts all of them (shorter frames are padded by the generator, see c08.py)
    path = os.path.join(workdir, "target.zzfake")
    sel_fail = kv.get("sel", "-") != "-"
    fmt = "zz-no-such-format" if sel_fail else "zzfake"
    if entry in ("load_one", "load_many"):
        with builtins.open(path, "w") as fh:
            fh.write("".join(f"line {i}\n" for i in range(int(kv.get("nlines", "0")))))
    else:
        _fs_write(path, kv.get("fs", "absent"))
    api.FORMAT_MODULES["zzfake"] = mod
    api.INPUT_MODULES["zzfake"] = mod
    saved_iodata = api.IOData
    api.IOData = FakeIOData(tr)
    fd0 = fd_count()
    out = None
    try:
        with patched_io(tr):
            try:
                if entry == "dump_one":
                    api.dump_one(datas[0] if datas else FakeData(tr, [], [], None, (0, None)), path, fmt=fmt)
                    out = "ret"
                elif entry == "write_input":
                    api.write_input(datas[0] if datas else FakeData(tr, [], [], None, (0, None)), path, fmt)
                    out = "ok"
                elif entry == "dump_many":
                    end = None if kv.get("end", "-") == "-" else kv["end"]

                    class UserIter:
                        def __init__(self):
                            self.k = 0

                        def __iter__(self):
                            return self

                        def __next__(self):
                            if self.k < len(datas):
                                self.k += 1
                                return datas[self.k - 1]
                            if end is not None:
                                raise make_exc(end, "user iterator")
                            raise StopIteration

                    api.dump_many(UserIter(), path, fmt=fmt)
                    out = "ok"
                elif entry == "load_one":
                    api.load_one(path, fmt=fmt)
                    out = "ret"
                elif entry == "load_many":
                    quota = None if kv.get("quota", "-") == "-" else int(kv["quota"])
                    gen = api.load_many(path, fmt=fmt)
                    got = 0
                    if quota is None:
                        for _ in gen:
                            tr.ev.append("y")
                    else:
                        while got < quota:
                            try:
                                next(gen)
                            except StopIteration:
                                break
                            tr.ev.append("y")
                            got += 1
                        gen.close()
                    del gen
                    out = "ok"
            except BaseException as exc:  # noqa: BLE001 - the class is the observation
                out = show_exc(exc)
    finally:
        api.FORMAT_MODULES.pop("zzfake", None)
        api.INPUT_MODULES.pop("zzfake", None)
        api.IOData = saved_iodata
    still_open = sum(1 for f in tr.files if not f._fh.closed)
    fd1 = fd_count()
    fs = "absent" if entry in ("load_one", "load_many") else _fs_show(path)
    if os.path.exists(path):
        os.unlink(path)
    return f"{out} fs={fs} tr={''.join(tr.ev)}", fd1 - fd0, still_open


def request_line(entry: str, kv: dict) -> str:
    return "flow " + entry + "".join(f" {k}={v}" for k, v in kv.items())
