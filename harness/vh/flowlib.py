"""Shared machinery of C08 / C07 / C18: the T1 translator of iodata/api.py (+ __main__.py) into the
control-flow IR of lean/Iodata/Model/Flow.lean, the registry table, and helpers of the line protocol."""

from __future__ import annotations

import ast

from . import engine
from .engine import lean_list, lean_str

EXC = {
    "FileFormatError": "fileFormat",
    "LoadError": "load",
    "DumpError": "dump",
    "PrepareDumpError": "prepareDump",
    "WriteInputError": "writeInput",
    "StopIteration": "stopIter",
    "RuntimeError": "runtime",
    "OSError": "osErr",
    "GeneratorExit": "genExit",
}
API_FUNCS = ("load_one", "load_many", "dump_one", "dump_many", "write_input")


class Untranslatable(Exception):
    """The source no longer has a shape the IR can express."""


def _args(call: ast.Call) -> list[str]:
    out = [ast.unparse(a) for a in call.args]
    for k in call.keywords:
        out.append("**" + ast.unparse(k.value) if k.arg is None else f"{k.arg}={ast.unparse(k.value)}")
    return out


def _seq(stmts: list[str]) -> str:
    stmts = [s for s in stmts if s is not None]
    if not stmts:
        return ".skip"
    if len(stmts) == 1:
        return stmts[0]
    return f"(.seq {stmts[0]}\n {_seq(stmts[1:])})"


def _ls(items) -> str:
    return lean_list(items, lean_str)


class FnTranslator:
    """Translate the body of one function of api.py / __main__.py."""

    def __init__(self, module_funcs: dict[str, ast.FunctionDef], inline: dict[str, str], yield_to="user"):
        self.funcs = module_funcs
        self.inline = inline  # name of an api.py-local function -> Lean constant holding its body
        self.local_gens: dict[str, ast.FunctionDef] = {}
        self.yield_to = yield_to
        self.in_try = 0

    # ---- expressions ------------------------------------------------------
    def callee(self, call: ast.Call):
        f = call.func
        if isinstance(f, ast.Name):
            n = f.id
            if n == "_select_format_module":
                if len(call.args) < 2 or not isinstance(call.args[1], ast.Constant):
                    raise Untranslatable("_select_format_module without a literal attribute name")
                return f"(.select {lean_str(call.args[1].value)})"
            if n == "_select_input_module":
                return ".selectInput"
            if n == "iter":
                return ".iterOf"
            if n == "next":
                return ".nextFrame"
            if n == "IOData":
                return ".ctor"
            if n in API_FUNCS or n == "convert":
                return f"(.api {lean_str(n)})"
            if n in ("parse_args",):
                return f"(.pure {lean_str(n)})"
            raise Untranslatable(f"call of unknown function {n}")
        if isinstance(f, ast.Attribute) and isinstance(f.value, ast.Name):
            obj, attr = f.value.id, f.attr
            if obj in ("format_module", "input_module"):
                if attr == "prepare_dump":
                    return ".prepare"
                if attr in ("dump_one", "dump_many", "write_input"):
                    return f"(.writer {lean_str(attr)})"
                if attr in ("load_one", "load_many"):
                    return f"(.parse {lean_str(attr)})"
            if obj == "np" and attr == "seterr":
                return f"(.pure {lean_str('np.seterr')})"
        raise Untranslatable("call of unknown callee " + ast.unparse(f))

    def calls_in(self, expr: ast.AST, tgt: str = "") -> list[str]:
        """Statements for every call inside ``expr`` in evaluation order (post-order)."""
        out: list[str] = []
        if isinstance(expr, ast.Call):
            f = expr.func
            if isinstance(f, ast.Name) and f.id in self.local_gens:
                raise Untranslatable("local generator used outside a writer call")
            subs = list(expr.args) + [k.value for k in expr.keywords]
            gens = [a for a in subs if isinstance(a, ast.Call) and isinstance(a.func, ast.Name) and a.func.id in self.local_gens]
            for a in subs:
                if a not in gens:
                    out += self.calls_in(a)
            if isinstance(f, ast.Name) and f.id in self.inline:
                out.append(f"(.inl {lean_str(f.id)} {_ls(_args(expr))} {self.inline[f.id]})")
            elif gens:
                if len(gens) != 1:
                    raise Untranslatable("several generators in one call")
                g = self.local_gens[gens[0].func.id]
                sub = FnTranslator(self.funcs, self.inline, yield_to="writer")
                sub.no_try = True
                body = sub.block(g.body)
                out.append(f"(.consume {self.callee(expr)} {_ls(_args(expr))}\n {body})")
            else:
                out.append(f"(.call {self.callee(expr)} {_ls(_args(expr))} {lean_str(tgt)})")
            return out
        if isinstance(expr, (ast.Name, ast.Constant, ast.Attribute)):
            return out
        if isinstance(expr, ast.Starred):
            return self.calls_in(expr.value)
        if isinstance(expr, ast.IfExp):
            t = expr.test
            if (isinstance(t, ast.Call) and isinstance(t.func, ast.Name) and t.func.id == "hasattr"
                    and isinstance(t.args[1], ast.Constant)):
                return [f"(.ifHasattr {lean_str(ast.unparse(t.args[0]))} {lean_str(t.args[1].value)} "
                        f"{_seq(self.calls_in(expr.body))} {_seq(self.calls_in(expr.orelse))})"]
        raise Untranslatable("expression not supported: " + ast.unparse(expr))

    # ---- statements -------------------------------------------------------
    def pat(self, t) -> str:
        def one(n):
            if not isinstance(n, ast.Name):
                raise Untranslatable("exception pattern " + ast.unparse(n))
            if n.id not in EXC:
                raise Untranslatable("exception class not modelled: " + n.id)
            return "." + EXC[n.id]

        if t is None:
            raise Untranslatable("bare except")
        if isinstance(t, ast.Name) and t.id == "Exception":
            return ".anyException"
        if isinstance(t, ast.Tuple):
            return "(.cls " + lean_list([one(e) for e in t.elts]) + ")"
        return "(.cls [" + one(t) + "])"

    def stmt(self, s: ast.stmt):
        if isinstance(s, ast.Expr) and isinstance(s.value, ast.Constant) and isinstance(s.value.value, str):
            return None  # docstring
        if isinstance(s, ast.Expr) and isinstance(s.value, ast.Yield):
            v = s.value.value
            pre = self.calls_in(v) if v is not None else []
            return _seq([*pre, f"(.yield_ .{self.yield_to} {lean_str(ast.unparse(v) if v is not None else '')})"])
        if isinstance(s, ast.Expr):
            return _seq(self.calls_in(s.value))
        if isinstance(s, ast.Assign):
            if len(s.targets) != 1 or not isinstance(s.targets[0], ast.Name):
                raise Untranslatable("assignment target " + ast.unparse(s))
            tgt = s.targets[0].id
            cs = self.calls_in(s.value, tgt)
            if not cs:
                raise Untranslatable("assignment without a call: " + ast.unparse(s))
            return _seq(cs)
        if isinstance(s, ast.Return):
            pre = self.calls_in(s.value) if s.value is not None else []
            return _seq([*pre, f"(.ret {lean_str(ast.unparse(s.value) if s.value is not None else '')})"])
        if isinstance(s, ast.Raise):
            if s.exc is None:
                return ".reraise"
            if not (isinstance(s.exc, ast.Call) and isinstance(s.exc.func, ast.Name) and s.exc.func.id in EXC):
                raise Untranslatable("raise " + ast.unparse(s))
            args = _args(s.exc)[1:]  # the message text is irrelevant
            if s.cause is not None:
                args.append("from " + ast.unparse(s.cause))
            return f"(.raise_ .{EXC[s.exc.func.id]} {_ls(args)})"
        if isinstance(s, ast.Try):
            if getattr(self, "no_try", False):
                raise Untranslatable("try inside a local generator")
            if s.orelse or s.finalbody:
                raise Untranslatable("try with else/finally")
            hs = ".nil"
            for h in reversed(s.handlers):
                hs = f"(.cons {self.pat(h.type)} {self.block(h.body)}\n {hs})"
            return f"(.try_ {self.block(s.body)}\n {hs})"
        if isinstance(s, ast.With):
            if getattr(self, "no_try", False):
                raise Untranslatable("with inside a local generator")
            if len(s.items) != 1:
                raise Untranslatable("with several items")
            it = s.items[0]
            c = it.context_expr
            var = ast.unparse(it.optional_vars) if it.optional_vars is not None else ""
            if isinstance(c, ast.Call) and isinstance(c.func, ast.Name) and c.func.id == "open":
                a = _args(c)
                if len(a) != 2 or a[1] not in ("'w'", '"w"'):
                    raise Untranslatable("open with other arguments: " + ast.unparse(c))
                return f"(.withOpen .w {lean_str(a[0])} {lean_str(var)}\n {self.block(s.body)})"
            if isinstance(c, ast.Call) and isinstance(c.func, ast.Name) and c.func.id == "LineIterator":
                a = _args(c)
                if len(a) != 1:
                    raise Untranslatable("LineIterator with other arguments")
                return f"(.withOpen .r {lean_str(a[0])} {lean_str(var)}\n {self.block(s.body)})"
            raise Untranslatable("with " + ast.unparse(c))
        if isinstance(s, ast.For):
            if s.orelse or not isinstance(s.target, ast.Name):
                raise Untranslatable("for/else or tuple target")
            it = s.iter
            pre = []
            if isinstance(it, ast.Attribute) and it.attr == "required":
                src = ".required"
            elif isinstance(it, ast.Name) and it.id == "iter_data":
                src = ".iterData"
            elif (isinstance(it, ast.Call) and isinstance(it.func, ast.Attribute) and it.func.attr == "load_many"
                  and ast.unparse(it.func.value) == "format_module"):
                src = ".fmtMany"
            else:
                raise Untranslatable("for over " + ast.unparse(it))
            return _seq([*pre, f"(.forEach {src} {lean_str(ast.unparse(it) + ' -> ' + s.target.id)}\n {self.block(s.body)})"])
        if isinstance(s, ast.If):
            t = s.test
            if (isinstance(t, ast.Call) and isinstance(t.func, ast.Name) and t.func.id == "hasattr"
                    and len(t.args) == 2 and isinstance(t.args[1], ast.Constant)):
                return (f"(.ifHasattr {lean_str(ast.unparse(t.args[0]))} {lean_str(t.args[1].value)} "
                        f"{self.block(s.body)} {self.block(s.orelse)})")
            if (isinstance(t, ast.Compare) and len(t.ops) == 1 and isinstance(t.ops[0], ast.Is)
                    and isinstance(t.comparators[0], ast.Constant) and t.comparators[0].value is None
                    and isinstance(t.left, ast.Call) and isinstance(t.left.func, ast.Name) and t.left.func.id == "getattr"):
                if s.orelse:
                    raise Untranslatable("if-None with else")
                return f"(.ifNone {lean_str(ast.unparse(t.left))} {self.block(s.body)})"
            if isinstance(t, ast.Name):
                return f"(.ifVar {lean_str(t.id)} {self.block(s.body)} {self.block(s.orelse)})"
            raise Untranslatable("if " + ast.unparse(t))
        if isinstance(s, ast.FunctionDef):
            if not any(isinstance(n, (ast.Yield, ast.YieldFrom)) for n in ast.walk(s)):
                raise Untranslatable("local function that is not a generator")
            if s.args.args or s.args.kwonlyargs or s.decorator_list:
                raise Untranslatable("local generator with parameters")
            self.local_gens[s.name] = s
            return None
        if isinstance(s, ast.Pass):
            return ".skip"
        raise Untranslatable(f"statement {type(s).__name__}: " + ast.unparse(s)[:80])

    def block(self, body) -> str:
        return _seq([self.stmt(s) for s in body])


def _signature(fn: ast.FunctionDef) -> list[str]:
    a = fn.args
    out = []
    pos = a.posonlyargs + a.args
    defaults = [None] * (len(pos) - len(a.defaults)) + list(a.defaults)
    for p, d in zip(pos, defaults):
        out.append(p.arg if d is None else f"{p.arg}={ast.unparse(d)}")
    if a.vararg:
        out.append("*" + a.vararg.arg)
    elif a.kwonlyargs:
        out.append("*")
    for p, d in zip(a.kwonlyargs, a.kw_defaults):
        out.append(p.arg if d is None else f"{p.arg}={ast.unparse(d)}")
    if a.kwarg:
        out.append("**" + a.kwarg.arg)
    return out


def parse_functions(path) -> dict[str, ast.FunctionDef]:
    tree = ast.parse(path.read_text())
    return {n.name: n for n in tree.body if isinstance(n, ast.FunctionDef)}


LEAN_NAMES = {"_check_required": "checkRequired", "dump_one": "dumpOne", "dump_many": "dumpMany",
              "write_input": "writeInput", "load_one": "loadOne", "load_many": "loadMany",
              "convert": "convert", "main": "main"}


def _argparse_table(fn: ast.FunctionDef) -> list[list[str]]:
    """Every ``parser.add_argument(...)`` of parse_args: [flags..., '|', sorted 'key=value' of default/action/dest]."""
    rows = []
    for n in ast.walk(fn):
        if isinstance(n, ast.Call) and isinstance(n.func, ast.Attribute) and n.func.attr == "add_argument":
            flags = [a.value for a in n.args if isinstance(a, ast.Constant)]
            kws = sorted(f"{k.arg}={ast.unparse(k.value)}" for k in n.keywords if k.arg in ("default", "action", "dest", "nargs", "type", "choices", "required"))
            rows.append((n.lineno, flags + ["|"] + kws))
    return [r for _, r in sorted(rows)]


def translate_apiflow(ctx) -> None:
    """T1: regenerate Gen/ApiFlow.lean from iodata/api.py and iodata/__main__.py."""
    api = parse_functions(engine.REPO / "iodata" / "api.py")
    cli = parse_functions(engine.REPO / "iodata" / "__main__.py")
    out = ["import Iodata.Model.Flow", "namespace Iodata.Gen.ApiFlow", "open Iodata.Flow", ""]
    sigs, decos = [], []

    def emit(src: dict, name: str, inline: dict[str, str]):
        fn = src[name]
        tr = FnTranslator(src, inline)
        body = tr.block(fn.body)
        out.append(f"/-- `{name}` -/\ndef {LEAN_NAMES[name]} : Stmt :=\n {body}\n")
        sigs.append((name, _signature(fn)))
        decos.append((name, [ast.unparse(d) for d in fn.decorator_list]))

    emit(api, "_check_required", {})
    for name in ("dump_one", "dump_many", "write_input", "load_one", "load_many"):
        emit(api, name, {"_check_required": "checkRequired"})
    emit(cli, "convert", {})
    emit(cli, "main", {})
    out.append("def signatures : List (String × List String) :=\n  ["
               + ",\n   ".join(f"({lean_str(n)}, {_ls(s)})" for n, s in sigs) + "]\n")
    out.append("def decorators : List (String × List String) :=\n  ["
               + ",\n   ".join(f"({lean_str(n)}, {_ls(s)})" for n, s in decos) + "]\n")
    out.append("def argparseTable : List (List String) :=\n  ["
               + ",\n   ".join(_ls(r) for r in _argparse_table(cli["parse_args"])) + "]\n")
    # what the CLI imports under the API names (a re-binding would silently change the meaning of `convert`)
    tree = ast.parse((engine.REPO / "iodata" / "__main__.py").read_text())
    imports = []
    for n in tree.body:
        if isinstance(n, ast.ImportFrom):
            for a in n.names:
                if (a.asname or a.name) in API_FUNCS:
                    imports.append(f"{'.' * n.level}{n.module or ''}:{a.name}:{a.asname or a.name}")
    rebound = sorted({t.id for n in ast.walk(tree) for t in (n.targets if isinstance(n, ast.Assign) else [])
                      if isinstance(t, ast.Name) and t.id in API_FUNCS}
                     | {n.name for n in tree.body if isinstance(n, ast.FunctionDef) and n.name in API_FUNCS})
    out.append(f"def cliImports : List String := {_ls(sorted(imports))}\n")
    out.append(f"def cliRebound : List String := {_ls(rebound)}\n")
    out.append("end Iodata.Gen.ApiFlow\n")
    ctx.gen_write("ApiFlow", "\n".join(out))


def translate_registry(ctx) -> None:
    """T1: Gen/ApiRegistry.lean — entry points of every format module and the decorator lists."""
    from iodata.api import FORMAT_MODULES, INPUT_MODULES

    def row(kind, name, mod):
        ents = []
        for fn in ("load_one", "load_many", "dump_one", "dump_many", "write_input"):
            f = getattr(mod, fn, None)
            if f is None:
                continue
            lists = []
            for key in ("required", "optional", "guaranteed", "ifpresent"):
                v = getattr(f, key, None)
                if v is not None:
                    lists.append(f"({lean_str(key)}, {_ls(list(v))})")
            ents.append(f"({lean_str(fn)}, [{', '.join(lists)}])")
        return (f"  {{ kind := {lean_str(kind)}, name := {lean_str(name)}, hasPrepare := {'true' if hasattr(mod, 'prepare_dump') else 'false'},\n"
                f"    fns := [{', '.join(ents)}] }}")

    rows = [row("format", n, m) for n, m in FORMAT_MODULES.items()] + [row("input", n, m) for n, m in INPUT_MODULES.items()]
    txt = ["namespace Iodata.Gen.ApiRegistry", "",
           "structure Entry where", "  kind : String", "  name : String", "  hasPrepare : Bool",
           "  fns : List (String × List (String × List String))", "  deriving Repr, DecidableEq", "",
           "def registry : List Entry := [", ",\n".join(rows), "]", "", "end Iodata.Gen.ApiRegistry", ""]
    ctx.gen_write("ApiRegistry", "\n".join(txt))
