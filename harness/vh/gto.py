"""Own Gaussian-basis evaluator used by the C05 check.  Shares no code with iodata.

Everything is expressed over *raw primitive monomials*  x^a y^b z^c exp(-alpha r_A^2)  (no normalisation):
``prim_overlap`` gives their overlap matrix M (Gauss-Hermite quadrature, exact for these integrands) and
``basis_matrix`` the linear map T from basis functions (normalised Cartesian / real solid harmonic
contractions in a given label order) to raw primitive monomials.  Then  S = T M T^t,  the L2 distance of
two orbitals o1, o2 (rows over raw primitives) is sqrt((o1-o2) M (o1-o2)^t), etc.
"""

from __future__ import annotations

import math
from fractions import Fraction
from functools import lru_cache

import numpy as np

ANGSTROM = 1.8897261246257702  # bohr per angstrom (CODATA 2018), literal on purpose

_GH_T, _GH_W = np.polynomial.hermite.hermgauss(10)  # exact up to degree 19


@lru_cache(None)
def monomials(l: int):
    return tuple((a, b, l - a - b) for a in range(l, -1, -1) for b in range(l - a, -1, -1))


def dfact(n: int) -> int:
    """n!! with (-1)!! = 1."""
    r = 1
    while n > 1:
        r *= n
        n -= 2
    return r


# ---------------------------------------------------------------- real solid harmonics (own derivation)
def _pmul(p, q):
    out = {}
    for (a, b, c), u in p.items():
        for (d, e, f), v in q.items():
            k = (a + d, b + e, c + f)
            out[k] = out.get(k, 0) + u * v
    return {k: v for k, v in out.items() if v != 0}


def _ppow(p, n):
    out = {(0, 0, 0): Fraction(1)}
    for _ in range(n):
        out = _pmul(out, p)
    return out


@lru_cache(None)
def solid_harmonic(l: int, m: int, kind: str):
    """Polynomial (dict monomial -> Fraction) of the real solid harmonic C_lm (kind 'c') or S_lm ('s'),
    un-normalised, standard sign (positive coefficient of z^(l-m) * Re/Im (x+iy)^m)."""
    # (x + i y)^m
    re, im = {(0, 0, 0): Fraction(1)}, {}
    for _ in range(m):
        nre = {}
        nim = {}
        for (a, b, c), v in re.items():
            nre[(a + 1, b, c)] = nre.get((a + 1, b, c), 0) + v
            nim[(a, b + 1, c)] = nim.get((a, b + 1, c), 0) + v
        for (a, b, c), v in im.items():
            nim[(a + 1, b, c)] = nim.get((a + 1, b, c), 0) + v
            nre[(a, b + 1, c)] = nre.get((a, b + 1, c), 0) - v
        re, im = nre, nim
    ang = re if kind == "c" else im
    r2 = {(2, 0, 0): Fraction(1), (0, 2, 0): Fraction(1), (0, 0, 2): Fraction(1)}
    zpart = {}
    for k in range((l - m) // 2 + 1):
        coef = Fraction((-1) ** k * math.comb(l, k) * math.comb(2 * l - 2 * k, l) * math.factorial(l - 2 * k),
                        2 ** l * math.factorial(l - 2 * k - m))
        term = _pmul(_ppow(r2, k), {(0, 0, l - 2 * k - m): coef})
        for kk, v in term.items():
            zpart[kk] = zpart.get(kk, 0) + v
    return _pmul(zpart, ang)


@lru_cache(None)
def solid_vec(l: int, m: int, kind: str):
    p = solid_harmonic(l, m, kind)
    return np.array([float(p.get(n, 0)) for n in monomials(l)])


# ---------------------------------------------------------------- labels
MOLDEN_CART = {
    0: ["1"],
    1: ["x", "y", "z"],
    2: ["xx", "yy", "zz", "xy", "xz", "yz"],
    3: ["xxx", "yyy", "zzz", "xyy", "xxy", "xxz", "xzz", "yzz", "yyz", "xyz"],
    4: ["xxxx", "yyyy", "zzzz", "xxxy", "xxxz", "xyyy", "yyyz", "xzzz", "yzzz", "xxyy", "xxzz", "yyzz", "xxyz",
        "xyyz", "xyzz"],
}


def molden_labels(l: int, kind: str):
    """The standard Molden order (written from the format description, not read from iodata)."""
    if kind == "c":
        return list(MOLDEN_CART[l])
    out = ["c0"]
    for m in range(1, l + 1):
        out += [f"c{m}", f"s{m}"]
    return out


def nfun(l, kind):
    return (l + 1) * (l + 2) // 2 if kind == "c" else 2 * l + 1


def label_vec(l: int, label: str):
    """(sign, vector over monomials(l)) of one labelled function, before normalisation."""
    sign = 1.0
    if label.startswith("-"):
        sign, label = -1.0, label[1:]
    if label == "1":
        return sign, np.array([1.0])
    if label[0] in "cs" and label[1:].isdigit():
        return sign, solid_vec(l, int(label[1:]), label[0])
    n = (label.count("x"), label.count("y"), label.count("z"))
    assert sum(n) == l == len(label), (l, label)
    v = np.zeros(len(monomials(l)))
    v[monomials(l).index(n)] = 1.0
    return sign, v


# ---------------------------------------------------------------- integrals over raw primitives
class PrimSet:
    """Raw primitive monomials of a list of shells [(center xyz (bohr), l, exponents)]."""

    def __init__(self, shells):
        self.shells = [(np.asarray(c, float), int(l), [float(e) for e in ex]) for c, l, ex in shells]
        self.offsets = []
        off = 0
        self.blocks = []  # (center, alpha, l, offset)
        for c, l, ex in self.shells:
            self.offsets.append(off)
            for a in ex:
                self.blocks.append((c, a, l, off))
                off += len(monomials(l))
        self.n = off
        self._M = None

    @staticmethod
    def _pair1d(A, a, l1, B, b, l2):
        p = a + b
        P = (a * A + b * B) / p
        x = P[:, None] + _GH_T[None, :] / math.sqrt(p)  # (3, nodes)
        pa = (x - A[:, None])[None, :, :] ** np.arange(l1 + 1)[:, None, None]  # (l1+1,3,nodes)
        pb = (x - B[:, None])[None, :, :] ** np.arange(l2 + 1)[:, None, None]
        tab = np.einsum("idk,jdk,k->ijd", pa, pb, _GH_W) / math.sqrt(p)
        pref = math.exp(-a * b / p * float(np.dot(A - B, A - B)))
        return tab, pref

    def overlap(self):
        if self._M is not None:
            return self._M
        M = np.zeros((self.n, self.n))
        for i, (A, a, l1, o1) in enumerate(self.blocks):
            m1 = monomials(l1)
            for B, b, l2, o2 in self.blocks[: i + 1]:
                m2 = monomials(l2)
                tab, pref = self._pair1d(A, a, l1, B, b, l2)
                blk = np.empty((len(m1), len(m2)))
                for u, n1 in enumerate(m1):
                    for v, n2 in enumerate(m2):
                        blk[u, v] = tab[n1[0], n2[0], 0] * tab[n1[1], n2[1], 1] * tab[n1[2], n2[2], 2]
                blk *= pref
                M[o1 : o1 + len(m1), o2 : o2 + len(m2)] = blk
                M[o2 : o2 + len(m2), o1 : o1 + len(m1)] = blk.T
        self._M = M
        return M

    def values(self, pts):
        """Values of every raw primitive at the points (n, npts)."""
        pts = np.asarray(pts, float)
        V = np.zeros((self.n, len(pts)))
        for A, a, l, o in self.blocks:
            d = pts - A[None, :]
            g = np.exp(-a * np.sum(d * d, axis=1))
            for u, n in enumerate(monomials(l)):
                V[o + u] = d[:, 0] ** n[0] * d[:, 1] ** n[1] * d[:, 2] ** n[2] * g
        return V


def prim_norm(alpha: float, n) -> float:
    """L2 normalisation constant of x^a y^b z^c exp(-alpha r^2), from the closed 1-D Gaussian moments
    int x^(2k) exp(-2 alpha x^2) dx = (2k-1)!!/(4 alpha)^k sqrt(pi/(2 alpha))."""
    s = 1.0
    for k in n:
        s *= dfact(2 * k - 1) / (4.0 * alpha) ** k * math.sqrt(math.pi / (2.0 * alpha))
    return 1.0 / math.sqrt(s)


def basis_matrix(ps: PrimSet, shells, labels_of):
    """T (nbasis x nprim).  shells: [{'l','kind','coefs'}] aligned with ps.shells;
    labels_of(l, kind) -> label list.  Coefficients multiply L2-normalised primitives."""
    M = ps.overlap()
    rows = []
    for (c, l, ex), off, sh in zip(ps.shells, ps.offsets, shells):
        nm = len(monomials(l))
        for lab in labels_of(l, sh["kind"]):
            sign, v = label_vec(l, lab)
            row = np.zeros(ps.n)
            for k, ck in enumerate(sh["coefs"]):
                o = off + k * nm
                nrm = 1.0 / math.sqrt(float(v @ M[o : o + nm, o : o + nm] @ v))
                row[o : o + nm] = sign * ck * nrm * v
            rows.append(row)
    return np.array(rows)


def lowdin(S, R):
    """Columns of R orthonormalised w.r.t. the metric S (symmetric orthonormalisation)."""
    G = R.T @ S @ R
    w, U = np.linalg.eigh(G)
    return R @ (U @ np.diag(w ** -0.5) @ U.T)
