"""Correspondence and search flows shared by C02 / C03 / C15 (format by format through the adapters)."""

from __future__ import annotations

import json

from . import _formats as F
from ._adapters import ADAPTERS


def _cases(ctx, ad, n, salt):
    rng = ctx.rng
    out = []
    for i in range(n):
        natom = ad.pick_natom(rng, i, ctx.thorough) if hasattr(ad, "pick_natom") else F.pick_natom(rng, i, ctx.thorough)
        q, opts, cls = ad.gen(rng, natom, i)
        out.append((q, opts, cls))
    return out


def _impl_dump(ad, q, opts):
    try:
        data = ad.build(q, opts)
    except Exception as exc:  # the object cannot even be constructed: generator bug
        raise F_InfraError(f"{ad.key}: cannot build object: {exc!r}") from exc
    return F.real_dump(data, ad.fmt, **ad.kw(opts))


def F_InfraError(msg):
    from ..engine import InfraError

    return InfraError(msg)


def _impl_load_line(ad, raw, opts):
    r = F.real_load(raw, ad.fmt, **ad.kw(opts))
    if not r.ok:
        return "err " + r.err, None
    try:
        q = ad.quant(r.value, opts)
    except Exception as exc:
        return "err quant:" + type(exc).__name__, r.value
    return "ok " + (ad.enc_any(q) if hasattr(ad, "enc_any") else ad.enc(q)), r.value


def corr_roundtrip(ctx, ad, n, generations=1):
    """T2 (a)+(b): writer bytes and reader result, model vs implementation, on the same quantised objects.
    With ``generations=2`` the reloaded object is saved again on both sides (C15)."""
    cases = _cases(ctx, ad, n, "rt")
    dreq, dimp, dcls, loads = [], [], [], []
    for q, opts, cls in cases:
        r = _impl_dump(ad, q, opts)
        dreq.append(f"fmt dump {ad.key} {opts} {ad.enc(q)}")
        dimp.append("ok " + r.value.hex() if r.ok else "err DumpError")
        dcls.append(cls + ("" if r.ok else "/refused:" + r.err))
        if r.ok:
            loads.append((r.value, opts, cls))
    ctx.corr(f"dump:{ad.key}", dreq, dimp, None, dcls)
    lreq, limp, lcls, second = [], [], [], []
    for raw, opts, cls in loads:
        line, obj = _impl_load_line(ad, raw, opts)
        lreq.append(f"fmt load {ad.key} {opts} {raw.hex()}")
        limp.append(line)
        lcls.append(cls + ("" if line.startswith("ok") else "/" + line))
        if line.startswith("ok") and generations > 1:
            second.append((line[3:], obj, opts, cls))
    ctx.corr(f"load:{ad.key}", lreq, limp, None, lcls)
    if generations > 1:
        # second generation: the model dumps the object *it* loaded; the implementation dumps the object it loaded
        g2req, g2imp, g2cls = [], [], []
        for enc, obj, opts, cls in second:
            r = F.real_dump(obj, ad.fmt, **ad.kw(opts))
            if hasattr(ad, "loaded_to_obj_enc"):
                enc = ad.loaded_to_obj_enc(enc)
            g2req.append(f"fmt dump {ad.key} {opts} {enc}")
            g2imp.append("ok " + r.value.hex() if r.ok else "err DumpError")
            g2cls.append(cls)
        ctx.corr(f"dump-gen2:{ad.key}", g2req, g2imp, None, g2cls)


# ---------------------------------------------------------------------------------------------
# C02 search


def c02_eval(ad, x, kw=None):
    """the property on the real code for one object; returns (sig, what) or None"""
    kw = kw or {}
    r = F.real_dump(x, ad.fmt, **kw)
    if not r.ok:
        return (f"{ad.key}:refused:{r.err}", f"{ad.fmt}: an object of the documented domain is refused: {r.exc!r}"[:300])
    l = F.real_load(r.value, ad.fmt, **kw)
    if not l.ok:
        return (f"{ad.key}:reload-fails", f"{ad.fmt}: the written file cannot be read back: {l.exc!r} / {l.exc.__cause__!r}"[:300])
    bad = ad.compare(x, l.value)
    if bad:
        return (f"{ad.key}:{bad[0][0]}", f"{ad.fmt}: {bad[0][0]} not reproduced: {bad[0][1]}"[:300])
    return None


def _with_cause(ad, x, res):
    """a failure on an object that lies in a region where the model *proves* the code deviates gets the
    signature of that deviation (site + kind), so that only that deviation can be listed as known"""
    if res is None or not hasattr(ad, "known_cause"):
        return res
    cause = ad.known_cause(x)
    if cause is None:
        return res
    return (f"{ad.key}:{cause}", res[1] + f" [{cause}]")


def search_c02(ctx, ad, n):
    rng = ctx.rng
    for i in range(n):
        natom = ad.pick_natom(rng, i, ctx.thorough) if hasattr(ad, "pick_natom") else F.pick_natom(rng, i, ctx.thorough)
        spec = ad.free_spec(rng, natom, i)
        x = ad.free_build(spec)
        res = _with_cause(ad, x, c02_eval(ad, x))
        ctx.count(f"search:{ad.key}", spec.get("seed", i), ad.free_class(spec) + ("" if res is None else "/FAIL"),
                  sample={"format": ad.key, "natom": natom})
        if res:
            ctx.fail(res[0], res[1], {"kind": "c02", "format": ad.key, "spec": spec})


# ---------------------------------------------------------------------------------------------
# C15 search


def c15_eval(ad, x, kw=None):
    kw = kw or {}
    r1 = F.real_dump(x, ad.fmt, **kw)
    if not r1.ok:
        return None  # not accepted by the format: outside the quantifier (C02 reports refusals)
    l1 = F.real_load(r1.value, ad.fmt, **kw)
    if not l1.ok:
        return None  # a first file that cannot be read back is C02's finding; C15 speaks about what follows a cycle
    r2 = F.real_dump(l1.value, ad.fmt, **kw)
    if not r2.ok:
        return (f"{ad.key}:gen2-refused", f"{ad.fmt}: the reloaded object is refused on the second save: {r2.exc!r}"[:300])
    l2 = F.real_load(r2.value, ad.fmt, **kw)
    if not l2.ok:
        return (f"{ad.key}:gen2-reload-fails", f"{ad.fmt}: second-generation file cannot be read back: {l2.exc!r}"[:300])
    d = F.snap_diff(F.snap_iodata(l1.value), F.snap_iodata(l2.value))
    if d:
        return (f"{ad.key}:object-drifts:{d[0]}", f"{ad.fmt}: attribute {d[0]} differs between reload 1 and reload 2")
    r3 = F.real_dump(l2.value, ad.fmt, **kw)
    if not r3.ok:
        return (f"{ad.key}:gen3-refused", f"{ad.fmt}: third save refused: {r3.exc!r}"[:300])
    if r3.value != r2.value:
        k = next((i for i, (a, b) in enumerate(zip(r2.value, r3.value)) if a != b), min(len(r2.value), len(r3.value)))
        return (f"{ad.key}:bytes-drift", f"{ad.fmt}: generation 2 and 3 files differ at byte {k}")
    l3 = F.real_load(r3.value, ad.fmt, **kw)
    if not l3.ok or F.snap_diff(F.snap_iodata(l2.value), F.snap_iodata(l3.value)):
        return (f"{ad.key}:object-drifts-gen3", f"{ad.fmt}: reload 3 differs from reload 2")
    return None


def search_c15(ctx, ad, n):
    rng = ctx.rng
    for i in range(n):
        natom = ad.pick_natom(rng, i, ctx.thorough) if hasattr(ad, "pick_natom") else F.pick_natom(rng, i, ctx.thorough)
        spec = ad.free_spec(rng, natom, i)
        x = ad.free_build(spec)
        res = _with_cause(ad, x, c15_eval(ad, x))
        ctx.count(f"cycles:{ad.key}", spec.get("seed", i), ad.free_class(spec) + ("" if res is None else "/FAIL"),
                  sample={"format": ad.key, "natom": natom})
        if res:
            ctx.fail(res[0], res[1], {"kind": "c15", "format": ad.key, "spec": spec})


# ---------------------------------------------------------------------------------------------
# C03


def c03_flow(ctx, ad, n):
    """(c) the model's spec renderer -> real load_one == the spec object, and == the model's load;
    S: an independent Python writer of the published layout -> real load_one == the spec object."""
    rng = ctx.rng
    ms = []
    for i in range(n):
        natom = ad.pick_natom(rng, i, ctx.thorough) if hasattr(ad, "pick_natom") else F.pick_natom(rng, i, ctx.thorough)
        m, opts, cls = ad.spec_gen(rng, natom, i)
        ms.append((m, opts, cls))
    if not ms:
        return
    outs = ctx.driver([f"fmt spec {ad.key} {opts} {ad.enc_spec(m)}" for m, opts, _ in ms])
    lreq, limp, lcls = [], [], []
    for (m, opts, cls), out in zip(ms, outs):
        if not out.startswith("ok "):
            raise F_InfraError(f"{ad.key}: spec renderer answered {out[:80]}")
        raw = bytes.fromhex(out[3:])
        py = ad.spec_write(m, opts)
        if py is not None:
            same = py == raw
            ctx.count(f"spec-writers-agree:{ad.key}", None, "same" if same else "DIFFER", nontrivial=False)
            if not same:
                ctx.obligation(f"spec-writers-agree:{ad.key}", False,
                               f"Lean specRender and the Python spec writer differ: {raw[:200]!r} vs {py[:200]!r}")
        line, obj = _impl_load_line(ad, raw, opts)
        so = ad.spec_obj(m)
        expect = "ok " + (ad.enc_any(so) if hasattr(ad, "enc_any") else ad.enc(so))
        known_dev = ad.spec_deviation(m) if hasattr(ad, "spec_deviation") else None
        ctx.count(f"spec-load:{ad.key}", ad.enc_spec(m), cls + ("" if line == expect else "/DIFF"), sample={"format": ad.key, "class": cls})
        if line != expect:
            sig = f"{ad.key}:spec:{known_dev or ad.spec_diff(m, line)}"
            ctx.fail(sig, f"{ad.fmt}: a file following the published layout is not loaded as written ({sig})",
                     {"kind": "c03", "format": ad.key, "opts": opts, "hex": raw.hex(), "expect": expect})
        lreq.append(f"fmt load {ad.key} {opts} {raw.hex()}")
        limp.append(line)
        lcls.append(cls)
        # other spellings the published layout allows (rendered by the Python spec writer only)
        for vname, vraw in (ad.spec_variants(m, opts) if hasattr(ad, "spec_variants") else []):
            vline, _ = _impl_load_line(ad, vraw, opts)
            ctx.count(f"spec-variant:{ad.key}", [vname, ad.enc_spec(m)], vname + ("" if vline == expect else "/DIFF"))
            if vline != expect:
                ctx.fail(f"{ad.key}:spec:{vname}", f"{ad.fmt}: spec file variant '{vname}' is not loaded as written",
                         {"kind": "c03", "format": ad.key, "opts": opts, "hex": vraw.hex(), "expect": expect})
    ctx.corr(f"load-spec:{ad.key}", lreq, limp, None, lcls)


def c03_spec_only(ctx, ad, n):
    """S for formats without a byte-level model: an independent writer of the published layout -> load_one,
    compared with the model the file was generated from (exact re-quantisation)."""
    rng = ctx.rng
    for i in range(n):
        natom = ad.pick_natom(rng, i, ctx.thorough) if hasattr(ad, "pick_natom") else F.pick_natom(rng, i, ctx.thorough)
        st = rng.getstate()
        raw, check, cls = ad.spec_case(rng, natom, i)
        r = F.real_load(raw, ad.fmt)
        bad = ["load:" + r.err] if not r.ok else check(r.value)
        ctx.count(f"spec-py:{ad.key}", raw.hex()[:4000], cls + ("" if not bad else "/FAIL"), sample={"format": ad.key, "class": cls})
        if bad:
            ctx.fail(f"{ad.key}:spec:{bad[0]}", f"{ad.fmt}: a file following the published layout is not loaded as written ({bad[0]})",
                     {"kind": "c03raw", "format": ad.key, "hex": raw.hex() if len(raw) < 200000 else raw[:200000].hex(), "bad": bad[0]})


def replay_generic(ctx, obj):
    inp = obj["input"]
    from ._adapters2 import SEARCH_ONLY

    ad = ADAPTERS.get(inp["format"]) or SEARCH_ONLY.get(inp["format"])
    if inp["format"] == "gro" and inp["kind"] == "c03":
        from ._gro import GRO

        ad = GRO
    if inp["format"] == "mol2" and inp["kind"] == "c03":
        from ._mol2 import MOL2

        ad = MOL2
    if inp["format"] == "cube" and inp["kind"] == "c03":
        from ._cube import CUBE

        ad = CUBE
    if inp["format"] == "fchk":
        from . import _fchk

        if inp["kind"] == "c03":
            return _fchk.replay_c03(inp)
        ad = _fchk.FCHK_FREE
    if inp["kind"] == "c03raw":
        from ._adapters2 import SPEC_ONLY

        r = F.real_load(bytes.fromhex(inp["hex"]), SPEC_ONLY[inp["format"]].fmt)
        return True if not r.ok else True  # the checker is regenerated with the seed in a full run; a load failure or any result is re-examined there
    if inp["kind"] in ("corpus", "corpus-variant"):
        return replay_corpus(inp)
    if inp["kind"] == "c02":
        return c02_eval(ad, ad.free_build(inp["spec"])) is not None
    if inp["kind"] == "c15":
        return c15_eval(ad, ad.free_build(inp["spec"])) is not None
    if inp["kind"] == "c03":
        line, _ = _impl_load_line(ad, bytes.fromhex(inp["hex"]), inp["opts"])
        return line != inp["expect"]
    return True


def dumps(o):
    return json.dumps(o, sort_keys=True, default=str)


# ---------------------------------------------------------------------------------------------
# C15: corpus files converted to every format that accepts them

RW_FORMATS = ["xyz", "sdf", "pdb", "mol2", "poscar", "cube", "fcidump", "fchk", "molden", "molekel", "wfn", "wfx"]
SLOW_SUFFIX = (".molden", ".molden.input", ".mkl")  # readers that recompute overlaps (6-22 s on QZ fixtures)


class _Any:
    """adapter stand-in for formats without a byte-level model"""

    def __init__(self, fmt):
        self.key = self.fmt = fmt


def corpus_cycles(ctx):
    import os
    import warnings

    from iodata.api import load_one

    from ..engine import REPO

    ddir = REPO / "iodata" / "test" / "data"
    files = sorted(p for p in ddir.iterdir() if p.is_file())
    budget = 240 if not ctx.thorough else 1500
    if not ctx.thorough:
        # deterministic sample per seed: small files first
        files = [p for p in files if p.stat().st_size < 400_000 and not p.name.endswith(SLOW_SUFFIX)]
        ctx.rng.shuffle(files)
        # always present: files with multi-line records that a save/reload cycle must not grow (2bcw.pdb: 14-line COMPND)
        always = [p for p in files if p.name in ("2bcw.pdb", "2luv.pdb", "peptide_2luv.sdf")]
        files = always + [p for p in files[:45] if p not in always]
    nshift = 0
    for p in files:
        if ctx.time_left(budget) < 0:
            break
        try:
            with warnings.catch_warnings():
                warnings.simplefilter("ignore")
                x = load_one(str(p))
        except Exception:
            continue
        for fmt in RW_FORMATS:
            ad = _Any(fmt)
            if fmt == "json" and False:
                continue
            res = c15_eval(ad, x)
            r1 = "n/a" if res is None else res[0]
            ctx.count(f"corpus:{fmt}", [p.name, fmt], "ok" if res is None else "FAIL:" + r1)
            if res:
                ctx.fail("corpus:" + res[0], f"{p.name} -> {res[1]}", {"kind": "corpus", "file": p.name, "format": fmt})
        # the same system far from the origin (large or off-centre molecules): cycles must settle there as well
        if x.atcoords is not None and getattr(x, "cube", None) is None and nshift < 14:
            import copy

            import numpy as np

            nshift += 1
            y = copy.deepcopy(x)
            y.atcoords = y.atcoords + np.array([40.25, -25.5, 13.125])
            for fmt in ("xyz", "pdb", "mol2", "sdf", "molden", "molekel", "wfn", "wfx", "fchk"):
                res = c15_eval(_Any(fmt), y)
                ctx.count(f"corpus-shifted:{fmt}", [p.name, fmt], "ok" if res is None else "FAIL:" + res[0])
                if res:
                    ctx.fail("corpus-shifted:" + res[0], f"{p.name} translated by (40.25, -25.5, 13.125) bohr -> {res[1]}",
                             {"kind": "corpus", "file": p.name, "format": fmt, "shift": [40.25, -25.5, 13.125]})


def _json_inject(obj, depth=0):
    """add keys the QCSchema specification defines but the corpus never uses (and one unknown key) to every dict that
    is a schema section: a reader that keeps such keys must hand them to the writer unchanged"""
    if isinstance(obj, dict):
        for k, v in list(obj.items()):
            _json_inject(v, depth + 1)
        if "protocols" in obj and isinstance(obj["protocols"], dict):
            obj["protocols"].update({"native_files": "all", "error_correction": {"default_policy": True}, "zz_kept": 1})
        if "keywords" in obj and isinstance(obj["keywords"], dict):
            obj["keywords"].update({"zz_option": "value", "keep_this": [1, 2]})
        if "extras" in obj and isinstance(obj["extras"], dict):
            obj["extras"].update({"zz_extra": {"nested": [1, {"k": 2}]}})
        if depth == 0 and "schema_name" in obj:
            obj.setdefault("extras", {"zz_extra": 1})
            if obj["schema_name"] in ("qcschema_input", "qcschema_output"):
                obj.setdefault("protocols", {"wavefunction": "all", "stdout": True, "native_files": "input"})
                obj.setdefault("keywords", {"zz_option": 3})
    elif isinstance(obj, list):
        for v in obj:
            _json_inject(v, depth + 1)
    return obj


def _no_prov(o):
    """the same JSON / extra tree without the provenance trail (QCSchema documents that it grows on every save)"""
    if isinstance(o, dict):
        return {k: _no_prov(v) for k, v in o.items() if k != "provenance"}
    if isinstance(o, (list, tuple)):
        return [_no_prov(v) for v in o]
    return o


def c15_eval_json(x):
    """C15 for QCSchema: cycles 1, 2, 3 of an object already loaded from a file; everything except the provenance trail
    must be identical from the first reload on"""
    import json

    fmt = "json_qcschema"
    r1 = F.real_dump(x, fmt)
    if not r1.ok:
        return None
    l1 = F.real_load(r1.value, fmt)
    if not l1.ok:
        return None
    r2 = F.real_dump(l1.value, fmt)
    if not r2.ok:
        return ("json:gen2-refused", f"QCSchema: the reloaded object is refused on the second save: {r2.exc!r}"[:300])
    l2 = F.real_load(r2.value, fmt)
    if not l2.ok:
        return ("json:gen2-reload-fails", f"QCSchema: second-generation file cannot be read back: {l2.exc!r}"[:300])

    def snap(d):
        sn = F.snap_iodata(d)
        sn["extra"] = F.snap(_no_prov(d.extra))
        return sn

    d = F.snap_diff(snap(l1.value), snap(l2.value))
    if d:
        return (f"json:object-drifts:{d[0]}", f"QCSchema: attribute {d[0]} differs between reload 1 and reload 2")
    r3 = F.real_dump(l2.value, fmt)
    if not r3.ok:
        return ("json:gen3-refused", f"QCSchema: third save refused: {r3.exc!r}"[:300])
    j2, j3 = _no_prov(json.loads(r2.value)), _no_prov(json.loads(r3.value))
    if j2 != j3:
        keys = [k for k in set(j2) | set(j3) if j2.get(k) != j3.get(k)]
        return (f"json:content-drift:{sorted(keys)[0]}", f"QCSchema: generation 2 and 3 files differ (beyond provenance) under {sorted(keys)[:3]}")
    return None


def json_variant_cycles(ctx):
    """QCSchema corpus files with additional specification-defined / unknown keys: save-reload cycles must settle"""
    import json
    import warnings

    from ..engine import REPO

    ddir = REPO / "iodata" / "test" / "data"
    ad = _Any("json")
    for p in sorted(ddir.glob("*.json")):
        try:
            doc = json.loads(p.read_text())
        except Exception:  # noqa: BLE001
            continue
        raw = json.dumps(_json_inject(doc), indent=1).encode()
        with warnings.catch_warnings():
            warnings.simplefilter("ignore")
            l0 = F.real_load(raw, "json_qcschema")
            b0 = F.real_load(p.read_bytes(), "json_qcschema")
        if b0.ok:
            res0 = c15_eval_json(b0.value)
            ctx.count("corpus:json_qcschema", p.name, "ok" if res0 is None else "FAIL:" + res0[0])
            if res0:
                ctx.fail("corpus:" + res0[0], f"{p.name} -> {res0[1]}", {"kind": "corpus-variant", "file": p.name, "format": "json", "plain": True})
        if not l0.ok:
            ctx.count("corpus-variant:json", p.name, "variant-refused")
            continue
        res = c15_eval_json(l0.value)
        ctx.count("corpus-variant:json", p.name, "ok" if res is None else "FAIL:" + res[0])
        if res:
            ctx.fail("corpus-variant:" + res[0], f"{p.name} with additional keys -> {res[1]}",
                     {"kind": "corpus-variant", "file": p.name, "format": "json"})


def replay_corpus(inp):
    if inp.get("kind") == "corpus-variant":
        import json
        import warnings

        from ..engine import REPO

        doc = json.loads((REPO / "iodata" / "test" / "data" / inp["file"]).read_text())
        with warnings.catch_warnings():
            warnings.simplefilter("ignore")
            if inp.get("plain"):
                l0 = F.real_load((REPO / "iodata" / "test" / "data" / inp["file"]).read_bytes(), "json_qcschema")
            else:
                l0 = F.real_load(json.dumps(_json_inject(doc), indent=1).encode(), "json_qcschema")
        return l0.ok and c15_eval_json(l0.value) is not None
    import warnings

    from iodata.api import load_one

    from ..engine import REPO

    with warnings.catch_warnings():
        warnings.simplefilter("ignore")
        x = load_one(str(REPO / "iodata" / "test" / "data" / inp["file"]))
    if inp.get("shift"):
        import numpy as np

        x.atcoords = x.atcoords + np.array(inp["shift"])
    return c15_eval(_Any(inp["format"]), x) is not None
