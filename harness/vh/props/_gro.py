"""GRO adapter (reader model, C03): spec objects, independent Python writer of the published layout, re-quantisation."""

from __future__ import annotations

import numpy as np

from . import _formats as F
from ._adapters import Adapter, dec_text

RESNAMES = ["SOL", "A", "LYSH", "NA+", "WATER"]
ATNAMES = ["OW", "HW1", "C", "CA12", "N1234"]


def _single_precision() -> bool:
    """the reader stores positions in float32 arrays (about seven significant digits)"""
    from .. import engine

    return "np.float32" in (engine.REPO / "iodata" / "formats" / "gromacs.py").read_text()


def _optional_velocities() -> bool:
    from . import _layouts

    return "true⟩" in _layouts.LAYOUT_BUILDERS["gromacs"](_layouts.extract("gromacs"))


class GroM(Adapter):
    key = "gro"
    fmt = "gromacs"

    def pick_natom(self, rng, i, thorough):
        classes = [*F.SIZE_CLASSES_QUICK, *([99999, 100000, 100001] if thorough else [])]
        return classes[i] if i < len(classes) else rng.randint(1, 40)

    def spec_gen(self, rng, natom, i):
        single = _single_precision()
        d = 3 if single or i % 3 else rng.choice([1, 2, 4, 5, 6])
        # integer digits: the column holds d+5 characters; float32 storage keeps seven significant digits only
        dig = rng.choice([1, 2, 3]) if single else rng.choice([1, 2, 3, 4])
        vel = rng.random() < 0.7 or not _optional_velocities()
        atoms = []
        for k in range(natom):
            resnum = rng.choice([1, 9, 10, 99, 100, 999, 1000, 9999, 10000, 99999, (k // 3 + 1) % 100000])
            pos = [F.rand_fx(rng, d, dig, min(dig, 3)) for _ in range(3)]
            v = [F.rand_fx(rng, d + 1, rng.choice([1, 2]), 1 if single else 2) for _ in range(3)] if vel else None
            atoms.append((resnum, rng.choice(RESNAMES), rng.choice(ATNAMES), (k + 1) % 100000, pos, v))
        nine = rng.random() < 0.5
        bd = 1 if single else 3  # integer digits of the box numbers (%10.5f holds 9999.99999)
        box = [(False, F.rand_fx(rng, 5, bd, 0)[1]) if k < 3 else F.rand_fx(rng, 5, bd, 1) for k in range(9 if nine else 3)]
        title = (F.rand_title(rng, allow_empty=False).replace("t=", "t-")) if rng.random() < 0.9 else ""
        m = {"title": title, "d": d, "atoms": atoms, "box": box}
        cls = f"natom={natom if natom in F.SIZE_CLASSES_THOROUGH or natom >= 99999 else 'rand'}/d={d}/digits={dig}/vel={int(vel)}/box={9 if nine else 3}"
        return m, "-", cls

    def enc_spec(self, m):
        def atom(a):
            vel = ["-"] if a[5] is None else [F.enc_fx(v) for v in a[5]]
            return ":".join([str(a[0]), F.enc_str(a[1]), F.enc_str(a[2]), str(a[3]), *(F.enc_fx(p) for p in a[4]), *vel])

        return ";".join([F.enc_str(m["title"]), str(m["d"]), F.enc_list(m["atoms"], atom), F.enc_list(m["box"], F.enc_fx, "/")])

    def spec_obj(self, m):
        z = (False, 0)
        b = m["box"]
        cell = [b[0], b[3], b[4], b[5], b[1], b[6], b[7], b[8], b[2]] if len(b) == 9 else [b[0], z, z, z, b[1], z, z, z, b[2]]
        return {"title": m["title"], "d": m["d"],
                "atoms": [(a[0], a[1], a[2], a[4], a[5] if a[5] is not None else [z, z, z]) for a in m["atoms"]], "cell": cell}

    def enc(self, q):
        def atom(a):
            return ":".join([str(a[0]), F.enc_str(a[1]), F.enc_str(a[2]), *(F.enc_fx(p) for p in a[3]), *(F.enc_fx(v) for v in a[4])])

        return ";".join([F.enc_str(q["title"]), F.enc_list(q["atoms"], atom), F.enc_list(q["cell"], F.enc_fx, "/")])

    enc_any = enc
    _d = 3

    def spec_write(self, m, opts):
        """independent writer: `%5d%-5s%5s%5d` + 3 x `%(d+5).(d)f` + 3 x `%(d+5).(d+1)f`; box `%10.5f`"""
        d = m["d"]
        GroM._d = d
        L = [m["title"], str(len(m["atoms"])).rjust(5)]
        for rn, rname, aname, ser, pos, vel in m["atoms"]:
            L.append(str(rn).rjust(5) + rname.ljust(5) + aname.rjust(5) + str(ser).rjust(5)
                     + "".join(dec_text(p, d).rjust(d + 5) for p in pos)
                     + ("" if vel is None else "".join(dec_text(v, d + 1).rjust(d + 5) for v in vel)))
        L.append("".join(dec_text(b, 5).rjust(10) for b in m["box"]))
        return ("\n".join(L) + "\n").encode("latin-1")

    def quant(self, x, opts="-"):
        from iodata.utils import nanometer, picosecond

        d = GroM._d

        def nz(v):  # the model has no signed zero for absent velocities / cell entries
            return v

        atoms = []
        for k in range(x.natom):
            atoms.append((int(x.atffparams["resnums"][k]), str(x.atffparams["resnames"][k]), str(x.atffparams["attypes"][k]),
                          [F.fx_quant(x.atcoords[k, j], d, nanometer) for j in range(3)],
                          [nz(F.fx_quant(x.extra["velocities"][k, j], d + 1, nanometer / picosecond)) for j in range(3)]))
        cell = [F.fx_quant(v, 5, nanometer) for v in np.asarray(x.cellvecs).ravel()]
        return {"title": x.title, "atoms": atoms, "cell": cell}

    def spec_diff(self, m, line):
        return "mismatch" if line.startswith("ok") else line.replace(" ", "-")


GRO = GroM()
