"""Per-format adapters: quantised model object <-> IOData, generators, comparison (C02 / C03 / C15)."""

from __future__ import annotations

import numpy as np

from . import _formats as F


def _units():
    from iodata.utils import angstrom

    return angstrom


def _symbols():
    from iodata.periodic import num2sym

    return num2sym


class Adapter:
    key = ""  # protocol word
    fmt = ""  # iodata format module name
    readonly = False

    def kw(self, opts):
        return {}


# ---------------------------------------------------------------------------------------------
class Xyz(Adapter):
    key = fmt = "xyz"
    D = 10
    # documented user columns: charges "{:10.5f}", negated forces "{:15.10f}"
    EXTRA = [("atcharges", "mulliken", 1, 10, 5, False), ("atgradient", None, 3, 15, 10, True)]

    def opts_cols(self, opts):
        if opts == "-":
            return [(15, 10, False)] * 3
        return [tuple(int(x) for x in c.split(".")) for c in opts.split(",")]

    def kw(self, opts):
        if opts == "-":
            return {}
        from iodata.formats.xyz import DEFAULT_ATOM_COLUMNS

        cols = list(DEFAULT_ATOM_COLUMNS)
        for attr, key, n, w, d, neg in self.EXTRA:
            spec = "{:%d.%df}" % (w, d)
            if neg:
                cols.append((attr, key, (n,), float, (lambda word: -float(word)), (lambda value, s=spec: s.format(-value))))
            else:
                cols.append((attr, key, () if n == 1 else (n,), float, float, spec.format))
        return {"atom_columns": cols}

    def gen(self, rng, natom, i):
        ang_digits = rng.choice([1, 2, 4, 5])
        user = rng.random() < 0.25
        title = F.rand_title(rng)
        atoms = []
        for k in range(natom):
            z = (i * 7 + k) % 118 + 1 if rng.random() < 0.7 else rng.randint(1, 118)
            vals = [F.rand_fx(rng, 10, ang_digits, max(ang_digits - 1, 1), allow_wide=True) for _ in range(3)]
            if user:
                vals.append(F.rand_fx(rng, 5, 4, 3, allow_wide=True))
                vals += [F.rand_fx(rng, 10, 4, 3, allow_wide=True) for _ in range(3)]
            atoms.append((z, vals))
        opts = "15.10.0,15.10.0,15.10.0,10.5.0,15.10.1,15.10.1,15.10.1" if user else "-"
        cls = f"natom={natom if natom in F.SIZE_CLASSES_THOROUGH else 'rand'}/user={int(user)}/title={'empty' if not title else 'set'}"
        return {"title": title, "atoms": atoms}, opts, cls

    def enc(self, q):
        return F.enc_str(q["title"]) + ";" + F.enc_list(q["atoms"], lambda a: ":".join([str(a[0]), *map(F.enc_fx, a[1])]))

    def dec(self, s):
        t, ats = s.split(";")

        def atom(x):
            p = x.split(":")
            return (int(p[0]), [F.dec_fx(v) for v in p[1:]])

        return {"title": F.dec_str(t), "atoms": F.dec_list(ats, atom)}

    def build(self, q, opts="-"):
        from iodata import IOData

        ang = _units()
        cols = self.opts_cols(opts)
        n = len(q["atoms"])
        vals = np.array([[F.fx_float(v, c[1]) for v, c in zip(a[1], cols)] for a in q["atoms"]], float).reshape(n, len(cols))
        kw = {
            "atnums": np.array([a[0] for a in q["atoms"]], int),
            "atcoords": vals[:, :3] * ang,
            "title": q["title"] or None,
        }
        if len(cols) > 3:
            kw["atcharges"] = {"mulliken": vals[:, 3].copy()}
            kw["atgradient"] = vals[:, 4:7].copy()
        return IOData(**kw)

    def quant(self, d, opts="-"):
        ang = _units()
        cols = self.opts_cols(opts)
        atoms = []
        for k in range(d.natom):
            vals = [F.fx_quant(d.atcoords[k, j], cols[j][1], ang) for j in range(3)]
            if len(cols) > 3:
                vals.append(F.fx_quant(d.atcharges["mulliken"][k], cols[3][1]))
                vals += [F.fx_quant(d.atgradient[k, j], cols[4 + j][1]) for j in range(3)]
            atoms.append((int(d.atnums[k]), vals))
        return {"title": d.title if d.title is not None else "", "atoms": atoms}

    # ---- S: unquantised objects and attribute comparison --------------------------------
    def free_spec(self, rng, natom, i):
        return {"seed": rng.getrandbits(48), "natom": natom, "scale": rng.choice([0.5, 5.0, 50.0, 900.0, 9000.0, 90000.0])}

    def free_class(self, spec):
        return f"natom={spec['natom'] if spec['natom'] in F.SIZE_CLASSES_THOROUGH else 'rand'}/scale={spec['scale']}"

    def free_build(self, spec):
        import random

        from iodata import IOData

        rng = random.Random(spec["seed"])
        natom, scale = spec["natom"], spec["scale"]
        return IOData(
            atnums=np.array([rng.randint(1, 118) for _ in range(natom)]),
            atcoords=np.array([[rng.uniform(-scale, scale) for _ in range(3)] for _ in range(natom)]) * _units(),
            title=F.rand_title(rng) or None,
        )

    # ---- C03: the published (free) layout --------------------------------------------------
    BLANKS = [" ", "  ", "\t", "   ", " \t ", "      "]

    def spec_gen(self, rng, natom, i):
        def b(empty_ok=False):
            return "" if empty_ok and rng.random() < 0.5 else rng.choice(self.BLANKS)

        digits = rng.choice([1, 2, 4, 5])
        atoms = []
        for k in range(natom):
            z = (i * 5 + k) % 118 + 1
            atoms.append({"z": z, "variant": rng.randint(0, 3), "lead": b(True), "trail": b(True),
                          "vals": [(b(), F.rand_fx(rng, 10, digits, digits, allow_wide=True)) for _ in range(3)]})
        m = {"natomLead": b(True), "natomTrail": b(True), "titleLead": b(True), "title": F.rand_title(rng),
             "titleTrail": b(True), "atoms": atoms}
        return m, "-", f"natom={natom if natom in F.SIZE_CLASSES_THOROUGH else 'rand'}/digits={digits}"

    def enc_spec(self, m):
        def atom(a):
            parts = [str(a["z"]), str(a["variant"]), F.enc_str(a["lead"]), F.enc_str(a["trail"])]
            for p, v in a["vals"]:
                parts += [F.enc_str(p), F.enc_fx(v)]
            return ":".join(parts)

        return ";".join([F.enc_str(m["natomLead"]), F.enc_str(m["natomTrail"]), F.enc_str(m["titleLead"]),
                         F.enc_str(m["title"]), F.enc_str(m["titleTrail"]), F.enc_list(m["atoms"], atom)])

    def spec_obj(self, m):
        return {"title": m["title"], "atoms": [(a["z"], [v for _, v in a["vals"]]) for a in m["atoms"]]}

    def spec_write(self, m, opts):
        """independent writer of the free XYZ layout (decimal text from integers, no float formatting)"""
        sym = _symbols()
        out = [m["natomLead"] + str(len(m["atoms"])) + m["natomTrail"], m["titleLead"] + m["title"] + m["titleTrail"]]
        for a in m["atoms"]:
            s = sym[a["z"]]
            el = [s, s.upper(), s.lower(), str(a["z"])][a["variant"]]
            out.append(a["lead"] + el + "".join(p + dec_text(v, 10) for p, v in a["vals"]) + a["trail"])
        return ("\n".join(out) + "\n").encode("latin-1")

    def spec_diff(self, m, line):
        return "mismatch" if line.startswith("ok") else line.replace(" ", "-")

    def compare(self, x, y):
        """attribute by attribute; returns list of (attr, detail)"""
        ang = _units()
        bad = []
        if not np.array_equal(x.atnums, y.atnums):
            bad.append(("atnums", "atomic numbers differ"))
        bad += cmp_real("atcoords", x.atcoords, y.atcoords, 10, ang)
        if (x.title or "Created with IOData") != y.title:
            bad.append(("title", f"{x.title!r} -> {y.title!r}"))
        return bad


# ---------------------------------------------------------------------------------------------
def rand_bonds(rng, natom, nbond, types=(1, 2, 3, 4, 5, 6, 7, 8), hi_bias=0.5):
    """nbond bonds (i < j or i > j, never i == j), atom indices biased towards the highest ones"""
    out = []
    if natom < 2:
        return out
    for k in range(nbond):
        if rng.random() < hi_bias:
            i = natom - 1 - rng.randint(0, min(natom - 1, 12))
        else:
            i = rng.randrange(natom)
        j = rng.randrange(natom - 1)
        if j >= i:
            j += 1
        out.append((i, j, types[k % len(types)] if rng.random() < 0.7 else rng.choice(types)))
    return out


def pick_nbond(rng, natom, i):
    if natom < 2:
        return 0
    return rng.choice([0, 0, 1, 2, natom - 1, natom, 2 * natom, 9, 10, 99, 100, 101, rng.randint(0, 30)])


class Sdf(Adapter):
    key = fmt = "sdf"
    D = 4
    W = 10

    def touching(self, q):
        """which records of the file have a field (not the first of its record) that fills its column"""
        out = []
        if len(q["bonds"]) >= 100:
            out.append("counts")
        if any(len(dec_text(v, 4)) >= 10 for a in q["atoms"] for v in a[1:3]):
            out.append("atom")
        if any(j + 1 >= 100 or t >= 100 for _, j, t in q["bonds"]):
            out.append("bond")
        return out

    def gen(self, rng, natom, i, spec=False):
        natom = min(natom, 999)  # the 3-column count: more atoms are not a V2000 file
        title = F.rand_title(rng)
        digits = rng.choice([1, 2, 3, 4, 5])
        atoms = []
        for k in range(natom):
            z = (i * 7 + k) % 118 + 1
            x, y, zz = (F.rand_fx(rng, 4, digits, min(digits, 4)) for _ in range(3))
            atoms.append((x, y, zz, z))
        nbond = min(pick_nbond(rng, natom, i), 999)
        bonds = rand_bonds(rng, natom, nbond)
        q = {"title": title, "atoms": atoms, "bonds": bonds}
        t = self.touching(q)
        cls = f"natom={natom if natom in F.SIZE_CLASSES_THOROUGH else 'rand'}/nbond={'0' if not nbond else '<100' if nbond < 100 else '>=100'}/touching={'+'.join(t) or 'no'}"
        return q, "-", cls

    def enc(self, q):
        return ";".join([
            F.enc_str(q["title"]),
            F.enc_list(q["atoms"], lambda a: ":".join([F.enc_fx(a[0]), F.enc_fx(a[1]), F.enc_fx(a[2]), str(a[3])])),
            F.enc_list(q["bonds"], lambda b: f"{b[0]}:{b[1]}:{b[2]}"),
        ])

    def build(self, q, opts="-"):
        from iodata import IOData

        ang = _units()
        n = len(q["atoms"])
        co = np.array([[F.fx_float(v, 4) for v in a[:3]] for a in q["atoms"]], float).reshape(n, 3)
        kw = {"atnums": np.array([a[3] for a in q["atoms"]], int), "atcoords": co * ang, "title": q["title"] or None}
        if q["bonds"]:
            kw["bonds"] = np.array(q["bonds"], int)
        return IOData(**kw)

    def quant(self, d, opts="-"):
        ang = _units()
        atoms = [(*(F.fx_quant(d.atcoords[k, j], 4, ang) for j in range(3)), int(d.atnums[k])) for k in range(d.natom)]
        bonds = [] if d.bonds is None else [tuple(int(v) for v in b) for b in d.bonds]
        return {"title": d.title if d.title is not None else "", "atoms": atoms, "bonds": bonds}

    # ---- S ---------------------------------------------------------------------------------
    def free_spec(self, rng, natom, i):
        natom = min(natom, 999)
        return {"seed": rng.getrandbits(48), "natom": natom, "scale": rng.choice([0.5, 5.0, 50.0, 900.0, 9000.0]),
                "nbond": min(pick_nbond(rng, natom, i), 999)}

    def free_class(self, spec):
        return f"natom={spec['natom'] if spec['natom'] in F.SIZE_CLASSES_THOROUGH else 'rand'}/nbond={spec['nbond'] if spec['nbond'] in (0, 99, 100, 101) else 'n'}/scale={spec['scale']}"

    def free_build(self, spec):
        import random

        from iodata import IOData

        rng = random.Random(spec["seed"])
        natom, scale = spec["natom"], spec["scale"]
        kw = {
            "atnums": np.array([rng.randint(1, 118) for _ in range(natom)]),
            "atcoords": np.array([[rng.uniform(-scale, scale) for _ in range(3)] for _ in range(natom)]) * _units(),
            "title": F.rand_title(rng) or None,
        }
        b = rand_bonds(rng, natom, spec["nbond"])
        if b:
            kw["bonds"] = np.array(b, int)
        return IOData(**kw)

    def free_touching(self, x):
        """classification of an unquantised object (same predicate as `touching`)"""
        ang = _units()
        q = {"atoms": [tuple(F.fx_quant(v, 4, ang) for v in row) + (0,) for row in x.atcoords],
             "bonds": [] if x.bonds is None else [tuple(int(v) for v in b) for b in x.bonds]}
        return self.touching(q)

    def compare(self, x, y):
        bad = []
        if not np.array_equal(x.atnums, y.atnums):
            bad.append(("atnums", "atomic numbers differ"))
        bad += cmp_real("atcoords", x.atcoords, y.atcoords, 4, _units())
        xb = np.zeros((0, 3), int) if x.bonds is None else x.bonds
        yb = np.zeros((0, 3), int) if y.bonds is None else y.bonds
        if not np.array_equal(xb, yb):
            bad.append(("bonds", f"{xb[:3].tolist()} -> {yb[:3].tolist()}"))
        if (x.title or "Created with IOData") != y.title:
            bad.append(("title", f"{x.title!r} -> {y.title!r}"))
        return bad

    # ---- C03 -------------------------------------------------------------------------------
    def spec_gen(self, rng, natom, i):
        q, opts, cls = self.gen(rng, natom, i)
        if not q["title"]:
            q["title"] = "spec"
        return q, opts, cls

    def enc_spec(self, m):
        return self.enc(m)

    def spec_obj(self, m):
        return m

    def spec_write(self, m, opts):
        """independent writer from the CTfile V2000 column table"""
        sym = _symbols()
        L = [m["title"], "", ""]
        L.append(str(len(m["atoms"])).rjust(3) + str(len(m["bonds"])).rjust(3) + "  0     0  0  0  0  0  0999 V2000")
        for x, y, z, zn in m["atoms"]:
            L.append(dec_text(x, 4).rjust(10) + dec_text(y, 4).rjust(10) + dec_text(z, 4).rjust(10) + " " + sym[zn].ljust(3)
                     + " 0" + "  0" * 11)
        for a, b, t in m["bonds"]:
            L.append(str(a + 1).rjust(3) + str(b + 1).rjust(3) + str(t).rjust(3) + "  0" * 4)
        L += ["M  END", "$$$$"]
        return ("\n".join(L) + "\n").encode("latin-1")

    def spec_diff(self, m, line):
        return "mismatch" if line.startswith("ok") else line.replace(" ", "-")


# ---------------------------------------------------------------------------------------------
NAME_CHARS = "ABCDEFGHIJKLMNOPQRSTUVWXYZabcdefghijklmnopqrstuvwxyz0123456789'*+-_."


class Pdb(Adapter):
    key = fmt = "pdb"
    _rule = None
    _conect_shifted = None

    # the writer's invented atom name when `attypes` is absent: probed once on the real code
    def default_name(self, sym, i):
        if Pdb._rule is None:
            from iodata import IOData

            r = F.real_dump(IOData(atnums=np.ones(1000, int), atcoords=np.zeros((1000, 3))), "pdb")
            line = r.value.decode().splitlines()[1000]
            Pdb._rule = "long" if line[12:17] == "H1000" else "fallback"
        name = sym + str(i + 1)
        if len(name) > 4 and Pdb._rule == "fallback":
            return sym
        return name

    def conect_shifted(self):
        if Pdb._conect_shifted is None:
            from . import _layouts

            sl = [(a, b) for fn, t, a, b, i in _layouts.extract("pdb").slices if fn == "_parse_pdb_conect_line"]
            Pdb._conect_shifted = sl[0] != (6, 11)
        return Pdb._conect_shifted

    def pick_natom(self, rng, i, thorough):
        extra = [] if not thorough else [12000, 99999]
        classes = [*F.SIZE_CLASSES_QUICK, *extra]
        return classes[i] if i < len(classes) else rng.randint(1, 40)

    def _rand_name(self, rng, w):
        n = rng.randint(1, w)
        return "".join(rng.choice(NAME_CHARS) for _ in range(n))

    def gen(self, rng, natom, i, spec=False):
        sym = _symbols()
        defaults = rng.random() < 0.3
        title = F.rand_title(rng)
        if natom > 2000:
            title = title[:20]
        atoms = []
        cd = rng.choice([1, 2, 3, 4])
        chains = rng.random() < 0.5
        for k in range(natom):
            z = (i * 7 + k) % 118 + 1
            x, y, zz = (F.rand_fx(rng, 3, cd, min(cd, 3)) for _ in range(3))
            if defaults:
                atoms.append((z, self.default_name(sym[z], k), "XXX", " ", -1, x, y, zz, (False, 100), (False, 0)))
            else:
                rn = rng.choice([-999, -1, 0, 1, 9, 10, 99, 100, 999, 1000, 9999, rng.randint(-999, 9999)])
                atoms.append((z, self._rand_name(rng, 4), self._rand_name(rng, 3), rng.choice("ABCXYZ ab19") if chains else " ",
                              rn, x, y, zz, F.rand_fx(rng, 2, 3, 2), F.rand_fx(rng, 2, 3, 2)))
        nb = pick_nbond(rng, natom, i) if natom <= 1001 else rng.choice([0, 3, 40])
        bonds = [(a, b) for a, b, _ in rand_bonds(rng, natom, nb)]
        # multi-line TITLE / COMPND records (continuation numbers 2..9, 10, 11, ...; empty lines inside)
        nl = [0, 0, 2, 0, 9, 10, 0, 11, 12, 30, 0, 101][i % 12]
        compound = None
        if nl:
            def line():
                return "" if rng.random() < 0.1 else (F.rand_title(rng, allow_empty=False)[:60].strip() or "t")

            title = "\n".join(line() for _ in range(nl)) or "t"
            if title.startswith("\n") and nl == 1:
                title = "t"
            compound = "\n".join(line() for _ in range(nl + 1))
        elif rng.random() < 0.15:
            compound = F.rand_title(rng)[:60].strip()
        cls = (f"natom={natom if natom in (*F.SIZE_CLASSES_THOROUGH, 99999) else 'rand'}/defaults={int(defaults)}"
               f"/bonds={'0' if not bonds else 'some'}/maxserial={'>=10000' if any(max(b) >= 9999 for b in bonds) else '<10000'}"
               f"/title-lines={'1' if nl < 2 else '<10' if nl < 10 else '>=10'}/compound={int(compound is not None)}")
        return {"title": title, "atoms": atoms, "bonds": bonds, "defaults": defaults, "compound": compound}, "-", cls

    def enc_atom(self, a):
        return ":".join([str(a[0]), F.enc_str(a[1]), F.enc_str(a[2]), str(ord(a[3])), str(a[4]), *map(F.enc_fx, a[5:10])])

    def enc(self, q):
        c = q.get("compound")
        return ";".join([F.enc_str(q["title"]), F.enc_list(q["atoms"], self.enc_atom), F.enc_list(q["bonds"], lambda b: f"{b[0]}:{b[1]}"),
                         "-" if c is None else F.enc_str(c)])

    def enc_loaded(self, q):
        return ";".join([F.enc_str(q["title"]), F.enc_str(q["compound"]) if q["compound"] is not None else "-",
                         "1" if q["chainids"] else "0", F.enc_list(q["atoms"], self.enc_atom),
                         F.enc_list(q["bonds"], lambda b: f"{b[0]}:{b[1]}")])

    def build(self, q, opts="-"):
        from iodata import IOData

        ang = _units()
        at = q["atoms"]
        n = len(at)
        kw = {
            "atnums": np.array([a[0] for a in at], int),
            "atcoords": np.array([[F.fx_float(v, 3) for v in a[5:8]] for a in at], float).reshape(n, 3) * ang,
            "title": q["title"] or None,
        }
        if not q.get("defaults"):
            kw["atffparams"] = {"attypes": np.array([a[1] for a in at]), "restypes": np.array([a[2] for a in at]),
                                "resnums": np.array([a[4] for a in at], int)}
            kw["extra"] = {"occupancies": np.array([F.fx_float(a[8], 2) for a in at]),
                           "bfactors": np.array([F.fx_float(a[9], 2) for a in at])}
            if any(a[3] != " " for a in at):
                kw["extra"]["chainids"] = np.array([a[3] for a in at])
        if q["bonds"]:
            kw["bonds"] = np.array([[a, b, 1 + (a + b) % 8] for a, b in q["bonds"]], int)
        if q.get("compound") is not None:
            kw.setdefault("extra", {})["compound"] = q["compound"]
        return IOData(**kw)

    def quant(self, d, opts="-"):
        ang = _units()
        ch = d.extra.get("chainids")
        atoms = []
        for k in range(d.natom):
            atoms.append((int(d.atnums[k]), str(d.atffparams["attypes"][k]), str(d.atffparams["restypes"][k]),
                          str(ch[k]) if ch is not None else " ", int(d.atffparams["resnums"][k]),
                          *(F.fx_quant(d.atcoords[k, j], 3, ang) for j in range(3)),
                          F.fx_quant(d.extra["occupancies"][k], 2), F.fx_quant(d.extra["bfactors"][k], 2)))
        bonds = [] if d.bonds is None else [(int(b[0]), int(b[1])) for b in d.bonds]
        return {"title": d.title, "compound": d.extra.get("compound"), "chainids": ch is not None, "atoms": atoms, "bonds": bonds}

    def loaded_to_obj_enc(self, enc):
        """`Loaded.obj` of the model: title, atoms, bonds"""
        t, c, _ch, ats, bs = enc.split(";")
        return ";".join([t, ats, bs, c])

    # the loaded object has its own encoding
    def enc_any(self, q):
        return self.enc_loaded(q) if "chainids" in q else self.enc(q)

    # ---- S ---------------------------------------------------------------------------------
    def free_spec(self, rng, natom, i):
        return {"seed": rng.getrandbits(48), "natom": natom, "scale": rng.choice([0.5, 5.0, 50.0, 900.0]),
                "nbond": pick_nbond(rng, natom, i) if natom <= 1001 else 5, "optional": rng.random() < 0.6,
                # multi-line TITLE / COMPND records with continuation numbers 2..9, 10, 11, ... (first case always)
                "multiline": [0, 12, 2, 9, 10, 11, 30, 101][i % 8] if i % 3 == 0 else 0}

    def free_class(self, spec):
        n = spec["natom"]
        ml = spec.get("multiline", 0)
        return (f"natom={n if n in (*F.SIZE_CLASSES_THOROUGH, 99999) else 'rand'}/optional={int(spec['optional'])}"
                f"/nbond={'0' if not spec['nbond'] else 'n'}/title-lines={'1' if not ml else '<10' if ml < 10 else '>=10'}")

    def free_build(self, spec):
        import random

        from iodata import IOData

        rng = random.Random(spec["seed"])
        natom, scale = spec["natom"], spec["scale"]
        kw = {
            "atnums": np.array([rng.randint(1, 118) for _ in range(natom)]),
            "atcoords": np.array([[rng.uniform(-scale, scale) for _ in range(3)] for _ in range(natom)]) * _units(),
            "title": F.rand_title(rng) or None,
        }
        if spec["optional"]:
            kw["atffparams"] = {"attypes": np.array([self._rand_name(rng, 4) for _ in range(natom)]),
                                "restypes": np.array([self._rand_name(rng, 3) for _ in range(natom)]),
                                "resnums": np.array([rng.randint(-999, 9999) for _ in range(natom)])}
            kw["extra"] = {"occupancies": np.array([rng.uniform(0, 1) for _ in range(natom)]),
                           "bfactors": np.array([rng.uniform(-99, 999) for _ in range(natom)]),
                           "chainids": np.array([rng.choice("ABCD") for _ in range(natom)])}
        b = rand_bonds(rng, natom, spec["nbond"])
        if b:
            kw["bonds"] = np.array(b, int)
        ml = spec.get("multiline", 0)
        if ml:
            kw["title"] = "\n".join(F.rand_title(rng, allow_empty=False)[:60].strip() or "t" for _ in range(ml))
            kw.setdefault("extra", {})["compound"] = "\n".join(
                F.rand_title(rng, allow_empty=False)[:60].strip() or "c" for _ in range(ml + 1))
        return IOData(**kw)

    def compare(self, x, y):
        from iodata.periodic import bond2num

        sym = _symbols()
        bad = []
        if not np.array_equal(x.atnums, y.atnums):
            bad.append(("atnums", "atomic numbers differ"))
        bad += cmp_real("atcoords", x.atcoords, y.atcoords, 3, _units())
        n = x.natom
        exp = {
            "attypes": x.atffparams.get("attypes", None),
            "restypes": x.atffparams.get("restypes", ["XXX"] * n),
            "resnums": x.atffparams.get("resnums", [-1] * n),
        }
        for k, v in exp.items():
            if v is None:
                # invented names: must at least start with the element symbol
                if not all(str(t).startswith(sym[int(z)]) for t, z in zip(y.atffparams[k], x.atnums)):
                    bad.append((k, "invented atom names do not start with the element symbol"))
            elif [str(a) for a in v] != [str(a) for a in y.atffparams[k]]:
                bad.append((k, f"{list(v)[:3]} -> {list(y.atffparams[k])[:3]}"))
        bad += cmp_real("occupancies", x.extra.get("occupancies", np.ones(n)), y.extra["occupancies"], 2)
        bad += cmp_real("bfactors", x.extra.get("bfactors", np.zeros(n)), y.extra["bfactors"], 2)
        if "chainids" in x.extra and [str(c) for c in x.extra["chainids"]] != [str(c) for c in y.extra.get("chainids", [" "] * n)]:
            bad.append(("chainids", "chain ids differ"))
        xb = sorted(tuple(sorted((int(b[0]), int(b[1])))) for b in (x.bonds if x.bonds is not None else []))
        yb = sorted(tuple(sorted((int(b[0]), int(b[1])))) for b in (y.bonds if y.bonds is not None else []))
        if xb != yb:
            bad.append(("bonds", f"{xb[:3]} -> {yb[:3]}"))
        if y.bonds is not None and not (y.bonds[:, 2] == bond2num["un"]).all():
            bad.append(("bondtypes", "reloaded bond type is not 'un'"))
        if (x.title or "Created with IOData") != y.title:
            bad.append(("title", f"{x.title!r} -> {y.title!r}"))
        if x.extra.get("compound") != y.extra.get("compound"):
            bad.append(("compound", f"{x.extra.get('compound')!r} -> {y.extra.get('compound')!r}"[:200]))
        return bad

    def known_cause(self, x):
        sym = _symbols()
        if "attypes" not in x.atffparams and self.default_name("H", 999) == "H1000" and any(
            len(sym[int(z)] + str(i + 1)) > 4 for i, z in enumerate(x.atnums)
        ):
            return "default-atom-name"
        if x.bonds is not None and len(x.bonds) and self.conect_shifted() and int(x.bonds[:, :2].max()) + 1 >= 10000:
            return "conect-columns"
        return None

    # ---- C03 -------------------------------------------------------------------------------
    def spec_gen(self, rng, natom, i):
        q, opts, cls = self.gen(rng, natom, i)
        if q["defaults"]:
            # explicit fields in a spec file; keep names within four columns
            q["defaults"] = False
            q["atoms"] = [(a[0], a[1][:4], *a[2:]) for a in q["atoms"]]
        if not q["title"]:
            q["title"] = "spec"
        return q, opts, cls

    def enc_spec(self, m):
        return self.enc(m)

    def spec_obj(self, m):
        n = len(m["atoms"])
        conn = [[] for _ in range(n)]
        for a, b in m["bonds"]:
            conn[a].append(b)
            conn[b].append(a)
        bonds = [(a, b) for a in range(n) for b in conn[a] if b > a]
        return {"title": m["title"], "compound": m.get("compound"), "chainids": any(a[3] != " " for a in m["atoms"]), "atoms": m["atoms"], "bonds": bonds}

    def spec_variants(self, m, opts):
        if len(m["atoms"]) <= 200:
            yield "upper-case-element", self.spec_write(m, opts, upper=True)

    def spec_write(self, m, opts, upper=False):
        """independent writer from the wwPDB v3.3 column tables (ATOM, CONECT)"""
        sym = _symbols()
        if upper:
            sym = {k: v.upper() for k, v in sym.items()}
        # wwPDB v3.3: record name in columns 1-6, continuation number right-justified in columns 9-10, text from column 11
        def multi(key, value):
            out = []
            for k, line in enumerate(value.split("\n")):
                out.append(key.ljust(10) + line if k == 0 else key.ljust(6) + str(k + 1).rjust(4) + " " + line)
            return out

        L = multi("TITLE", m["title"])
        if m.get("compound") is not None:
            L += multi("COMPND", m["compound"])
        for k, a in enumerate(m["atoms"]):
            rec = [" "] * 78
            rec[0:6] = "ATOM  "
            rec[6:11] = str(k + 1).rjust(5)
            rec[12:16] = a[1].ljust(4)
            rec[17:20] = a[2].ljust(3)
            rec[21] = a[3]
            rec[22:26] = str(a[4]).rjust(4)
            rec[30:38] = dec_text(a[5], 3).rjust(8)
            rec[38:46] = dec_text(a[6], 3).rjust(8)
            rec[46:54] = dec_text(a[7], 3).rjust(8)
            rec[54:60] = dec_text(a[8], 2).rjust(6)
            rec[60:66] = dec_text(a[9], 2).rjust(6)
            rec[76:78] = sym[a[0]].rjust(2)
            L.append("".join(rec))
        n = len(m["atoms"])
        conn = [[] for _ in range(n)]
        for a, b in m["bonds"]:
            conn[a].append(b)
            conn[b].append(a)
        for a, cs in enumerate(conn):
            if cs:
                for c in range(len(cs) // 4 + 1):
                    L.append("CONECT" + str(a + 1).rjust(5) + "".join(str(b + 1).rjust(5) for b in cs[4 * c : 4 * c + 4]))
        L.append("END")
        return ("\n".join(L) + "\n").encode("latin-1")

    def spec_deviation(self, m):
        if self.conect_shifted() and any(max(b) + 1 >= 10000 for b in m["bonds"]):
            return "conect-columns"
        return None

    def spec_diff(self, m, line):
        return "mismatch" if line.startswith("ok") else line.replace(" ", "-")


def dec_text(fx, d):
    """decimal text of a quantised number, from integer arithmetic only"""
    neg, mag = fx
    ip, fp = divmod(mag, 10**d)
    return ("-" if neg else "") + str(ip) + ("." + str(fp).rjust(d, "0") if d else "")


def cmp_real(name, a, b, d, unit=1.0):
    """|a-b| within half a unit of the last printed digit (plus the double-rounding slack 4 ulp)"""
    a, b = np.asarray(a, float), np.asarray(b, float)
    if a.shape != b.shape:
        return [(name, f"shape {a.shape} -> {b.shape}")]
    tol = 0.5 * 10.0**-d * unit * (1 + 1e-9) + 4 * np.abs(a) * 2.0**-52
    bad = np.abs(a - b) > tol
    if bad.any():
        k = int(np.argmax(bad.ravel()))
        return [(name, f"element {k}: {a.ravel()[k]!r} -> {b.ravel()[k]!r}")]
    return []


ADAPTERS = {a.key: a for a in [Xyz(), Sdf(), Pdb()]}
