"""C08, per-format `prepare_dump` decision logic (hooked from c08.py).

T1  translate : statement skeleton of the six `prepare_dump` bodies, of the two helpers of prepare.py and of the
               QCSchema writer's dispatch -> lean/Iodata/Gen/PrepareSkeleton.lean (tied to the hand-written
               reference skeletons of Model/Prepare.lean by `decide`, Props/C08Prepare.lean).
T2  correspond: stream `prep` - the REAL `format_module.prepare_dump` on real IOData objects built from a summary
               (orbitals x basis x schema_name x post-SCF density x lot) x 6 formats x allow_changes against
               `Prep.prepareDump`: exception class and raise site / identity of the returned object / number of
               PrepareDumpWarnings / the converted orbitals and shells.
S   search    : objects derived from a real wavefunction, one family per documented rejection reason and per
               accepted look-alike, through the real `dump_one` onto absent and pre-existing targets.  The expected
               verdict of every object is fixed by its construction (not by the model).
"""

from __future__ import annotations

import ast
import builtins
import importlib
import os
import shutil
import tempfile
import warnings
from fractions import Fraction as Fr

import numpy as np

from .. import engine
from ..engine import lean_list, lean_str
from . import c12, c14

FORMATS = ["fchk", "molden", "molekel", "wfn", "wfx", "json_qcschema"]
LEAN_NAME = {"json_qcschema": "qcschema"}
HELPERS = ("prepare_dump", "prepare_unrestricted_aminusb", "prepare_segmented")

RULE = (
    " | prep: seeded random object summaries (orbitals: none / restricted with closed-shell, open-shell, [1,2,0]-like, "
    "fractional (integer and fractional electron totals), negative occupations, with occs_aminusb absent / all zero / summing to zero / high spin / random; "
    "unrestricted with aufbau, holed, fractional spin channels; generalized; orbitals without occupations - basis: none / "
    "0-5 shells with 1-5 contractions incl. SP, PS, (s,s), (p,p), mixed kinds, pure - schema_name absent / four "
    "schema names / unknown - post-SCF density x lot) x 6 formats x allow_changes; non-trivial = anything but the "
    "same object without warning. search-prepare: per format one object per documented rejection reason and per "
    "accepted look-alike, derived from water_sto3g_hf_g03.fchk, x allow_changes x target {absent, pre-existing}, "
    "through the real dump_one"
)
TRUSTED = [
    "the ast walk of harness/vh/props/_prepare.py that renders a prepare_dump body as a statement skeleton "
    "(guards and calls by ast.unparse, raise statements by class name, messages dropped)",
]
ASSUMPTIONS = [
    "prepare_dump reads only data.mo, data.obasis, data.extra['schema_name'], the keys of data.one_rdms and data.lot "
    "(checked by the skeleton obligation: any other expression changes the generated skeleton)",
    "level-of-theory strings are ASCII (str.upper modelled by ASCII upper-casing); occupations are dyadic rationals "
    "small enough for np.sum to be exact; np.round = round half to even; Python slice clamping as transcribed",
    "attrs.evolve(data, mo=.../obasis=...) on a fresh IOData object keeps every other attribute (C11/C14)",
]


# ----------------------------------------------------------------------------------------------------
# T1
# ----------------------------------------------------------------------------------------------------
def _fmt_path(fmt):
    return engine.REPO / "iodata" / "formats" / f"{fmt}.py"


_TREES: dict = {}


def _func(path, name):
    key = str(path)
    if key not in _TREES:
        _TREES[key] = ast.parse(path.read_text())
    tree = _TREES[key]
    for n in tree.body:
        if isinstance(n, ast.FunctionDef) and n.name == name:
            return n
    return None


def _raise_name(node: ast.Raise) -> str:
    if node.exc is None:
        return "reraise"
    e = node.exc
    if isinstance(e, ast.Call):
        e = e.func
    return ast.unparse(e)


class _SortLiteralSets(ast.NodeTransformer):
    """`x (not) in (<string constants>)` -> the same test against the sorted set literal (order/bracket-insensitive)."""

    def visit_Compare(self, node):
        self.generic_visit(node)
        if len(node.ops) == 1 and isinstance(node.ops[0], (ast.In, ast.NotIn)):
            c = node.comparators[0]
            if isinstance(c, (ast.Tuple, ast.List, ast.Set)) and c.elts and all(
                    isinstance(e, ast.Constant) and isinstance(e.value, str) for e in c.elts):
                node.comparators = [ast.Set(elts=[ast.Constant(v) for v in sorted({e.value for e in c.elts})])]
        return node


def _test(node) -> str:
    import copy

    return ast.unparse(ast.fix_missing_locations(_SortLiteralSets().visit(copy.deepcopy(node))))


def qcschema_strict() -> bool:
    """does json_qcschema.prepare_dump refuse schema names outside a literal collection?"""
    fn = _func(_fmt_path("json_qcschema"), "prepare_dump")
    return fn is not None and any(
        isinstance(s, ast.If) and isinstance(s.test, ast.Compare) and isinstance(s.test.ops[0], ast.NotIn)
        and isinstance(s.test.comparators[0], (ast.Tuple, ast.List, ast.Set)) and isinstance(s.body[-1], ast.Raise)
        for s in fn.body)


def skeleton(fn: ast.FunctionDef) -> list[str]:
    """Statement skeleton: `<depth>|<statement>`; docstrings dropped, raise statements reduced to the class."""
    out: list[str] = []

    def walk(stmts, depth):
        for s in stmts:
            if isinstance(s, ast.Expr) and isinstance(s.value, ast.Constant) and isinstance(s.value.value, str):
                continue
            if isinstance(s, ast.If):
                out.append(f"{depth}|if {_test(s.test)}:")
                walk(s.body, depth + 1)
                if s.orelse:
                    out.append(f"{depth}|else:")
                    walk(s.orelse, depth + 1)
            elif isinstance(s, ast.For):
                out.append(f"{depth}|for {ast.unparse(s.target)} in {ast.unparse(s.iter)}:")
                walk(s.body, depth + 1)
                if s.orelse:
                    out.append(f"{depth}|else:")
                    walk(s.orelse, depth + 1)
            elif isinstance(s, ast.Raise):
                out.append(f"{depth}|raise {_raise_name(s)}")
            elif isinstance(s, (ast.While, ast.Try, ast.With, ast.Match, ast.FunctionDef)):
                # constructs the model does not transcribe: shown in full so that the obligation breaks
                out.append(f"{depth}|{type(s).__name__}: {ast.unparse(s)}")
            else:
                out.append(f"{depth}|{ast.unparse(s)}")

    walk(fn.body, 0)
    return out


def _writer_dispatch(fn: ast.FunctionDef) -> list[str]:
    """The if/elif chain on `schema_name` of json_qcschema.dump_one."""
    out = []
    node = next((s for s in fn.body if isinstance(s, ast.If)), None)
    while node is not None:
        last = node.body[-1]
        act = type(last).__name__ + (" " + _raise_name(last) if isinstance(last, ast.Raise) else "")
        out.append(f"{ast.unparse(node.test)} -> {act}")
        if len(node.orelse) == 1 and isinstance(node.orelse[0], ast.If):
            node = node.orelse[0]
        else:
            if node.orelse:
                last = node.orelse[-1]
                out.append("else -> " + type(last).__name__ + (" " + _raise_name(last) if isinstance(last, ast.Raise) else ""))
            node = None
    return out


def translate(ctx):
    body = ["namespace Iodata.Gen.PrepareSkeleton"]
    have = []
    for p in sorted((engine.REPO / "iodata" / "formats").glob("*.py")):
        if _func(p, "prepare_dump") is not None:
            have.append(p.stem)
    body.append(f"def hasPrepare : List String := {lean_list(have, lean_str)}")
    body.append(f"def qcschemaStrict : Bool := {'true' if qcschema_strict() else 'false'}")
    for fmt in FORMATS:
        fn = _func(_fmt_path(fmt), "prepare_dump") if _fmt_path(fmt).exists() else None
        name = LEAN_NAME.get(fmt, fmt)
        sk = skeleton(fn) if fn is not None else ["<no prepare_dump>"]
        params = [a.arg for a in fn.args.args] if fn is not None else []
        body.append(f"def {name} : List String := {lean_list(sk, lean_str)}")
        body.append(f"def {name}_params : List String := {lean_list(params, lean_str)}")
    w = _func(_fmt_path("json_qcschema"), "dump_one")
    body.append(f"def qcschemaWriter : List String := {lean_list(_writer_dispatch(w) if w is not None else [], lean_str)}")
    ex = c14.extract()  # the helpers of prepare.py / convert.py (same extraction as C14, regenerated by this run)
    for k in ("seg_keep", "prepseg_guards", "prepseg_actions", "prepseg_warns", "prepseg_ret",
              "prepu_guards", "prepu_actions", "prepu_warns", "prepu_ret"):
        v = ex[k]
        if isinstance(v, list):
            body.append(f"def {k} : List String := {lean_list(v, lean_str)}")
        elif isinstance(v, int):
            body.append(f"def {k} : Nat := {v}")
        else:
            body.append(f"def {k} : String := {lean_str(v)}")
    body += ["end Iodata.Gen.PrepareSkeleton", ""]
    ctx.gen_write("PrepareSkeleton", "\n".join(body))


# ----------------------------------------------------------------------------------------------------
# object summaries
# ----------------------------------------------------------------------------------------------------
H, Q = Fr(1, 2), Fr(1, 4)
LOTS = [None, None, "hf", "rhf", "b3lyp", "ccsd", "CCSD(T)", "mp2", "MP3", "ci", "CISD", "rmp2-fc", "cc", "m06", "NA", "pbe0",
        "casscf", "mp4", "cc2"]
SCHEMAS = [None, None, "qcschema_molecule", "qcschema_input", "qcschema_output", "qcschema_basis", "foo", "qc_schema_input"]


def _aufbau(n, k):
    return [Fr(1)] * k + [Fr(0)] * (n - k)


def _spin_pattern(rng, n):
    """occupations of one spin channel"""
    r = rng.random()
    k = rng.randint(0, n)
    if r < 0.45:
        return _aufbau(n, k)
    if r < 0.65:
        o = _aufbau(n, k)
        rng.shuffle(o)
        return o
    if r < 0.8:
        o = _aufbau(n, k)
        if n:
            o[rng.randrange(n)] = rng.choice([H, Q, Fr(3, 4), Fr(3, 2), Fr(-1), Fr(2)])
        return o
    return [rng.choice(c12.ELEMS) for _ in range(n)]


def _restricted_occs(rng, n):
    r = rng.random()
    if r < 0.3:
        k = rng.randint(0, n)
        return [Fr(2)] * k + [Fr(0)] * (n - k)
    if r < 0.5:  # open shell, aufbau
        k = rng.randint(0, n)
        s = rng.randint(0, n - k)
        return [Fr(2)] * k + [Fr(1)] * s + [Fr(0)] * (n - k - s)
    if r < 0.7:  # a singly occupied orbital below a doubly occupied one, holes
        o = [rng.choice([Fr(0), Fr(1), Fr(2)]) for _ in range(n)]
        return o
    if r < 0.85:
        k = rng.randint(0, n)
        o = [Fr(2)] * k + [Fr(0)] * (n - k)
        if n:
            o[rng.randrange(n)] = rng.choice([H, Fr(3, 2), Q, Fr(-1), Fr(3), Fr(5, 2)])
        return o
    return [rng.choice(c12.ELEMS) for _ in range(n)]


def _aminusb(rng, occs):
    n = len(occs)
    r = rng.random()
    if r < 0.25:
        return [Fr(0)] * n
    if r < 0.45:  # sums to zero, not all zero when possible
        d = [Fr(0)] * n
        if n >= 2:
            i, j = rng.sample(range(n), 2)
            d[i], d[j] = Fr(1), Fr(-1)
        return d
    if r < 0.75:  # high spin: every singly occupied orbital is alpha
        return [Fr(1) if o == 1 else Fr(0) for o in occs]
    return [rng.choice([Fr(0), Fr(1), Fr(-1), H, -H, Fr(2)]) for _ in range(n)]


def _extras(rng, n):
    d = {}
    if rng.random() < 0.3:
        d["coeffs"] = tuple(rng.choice(c12.ELEMS) for _ in range(n))
    if rng.random() < 0.3:
        d["energies"] = tuple(rng.choice(c12.ELEMS) for _ in range(n))
    if rng.random() < 0.15:
        d["irreps"] = tuple(rng.choice(c12.ELEMS) for _ in range(n))
    return d


def rand_mo(rng):
    """constructor arguments of a valid MolecularOrbitals object (c12 conventions), or None"""
    r = rng.random()
    if r < 0.08:
        return None
    if r < 0.16:
        n = rng.randint(0, 3)
        d = {}
        if rng.random() < 0.8:
            d["occs"] = tuple(rng.choice(c12.ELEMS) for _ in range(n))
        if rng.random() < 0.5:
            d["coeffs"] = tuple(rng.choice(c12.ELEMS) for _ in range(n))
        return c12.mk("g", None, None, **d)[1]
    if r < 0.62:
        n = rng.randint(0, 5)
        d = _extras(rng, n)
        if rng.random() < 0.94:
            occs = _restricted_occs(rng, n)
            d["occs"] = tuple(occs)
            if rng.random() < 0.45:
                d["aminusb"] = tuple(_aminusb(rng, occs))
        elif rng.random() < 0.5:
            d["aminusb"] = tuple([Fr(0)] * n)
        return c12.mk("r", n, n, **d)[1]
    na, nb = rng.randint(0, 4), rng.randint(0, 4)
    d = _extras(rng, na + nb)
    if rng.random() < 0.94:
        d["occs"] = tuple(_spin_pattern(rng, na) + _spin_pattern(rng, nb))
    return c12.mk("u", na, nb, **d)[1]


def rand_shell(rng, ncenter):
    r = rng.random()
    nexp = rng.randint(1, 2)
    if r < 0.35:
        ls = [rng.randint(0, 3)]
    elif r < 0.55:
        ls = [0, 1]
    elif r < 0.63:
        ls = [1, 0]
    elif r < 0.71:
        ls = [0, 0]
    elif r < 0.77:
        ls = [1, 1]
    elif r < 0.82:
        ls = [0, 1, 2]
    else:
        ls = [rng.randint(0, 3) for _ in range(rng.randint(2, 4))]
    ks = ["p" if (l >= 2 and rng.random() < 0.35) else "c" for l in ls]
    es = [rng.choice(c14.EXPS) for _ in range(nexp)]
    cols = [[rng.choice(c14.VALS) for _ in range(nexp)] for _ in ls]
    return (rng.randrange(ncenter), ls, ks, es, cols)


def rand_basis(rng):
    r = rng.random()
    if r < 0.1:
        return None
    nc = rng.randint(1, 2)
    if r < 0.3:  # nothing to convert for any format
        return [(rng.randrange(nc), [rng.randint(0, 2)], ["c"], [Fr(1)], [[Fr(1)]]) for _ in range(rng.randint(0, 3))]
    return [rand_shell(rng, nc) for _ in range(rng.choice([0, 1, 1, 2, 2, 3, 4]))]


def rand_summary(rng):
    return {"mo": rand_mo(rng), "ob": rand_basis(rng), "schema": rng.choice(SCHEMAS),
            "post": rng.choice([None, None, None, "post_scf_ao", "post_scf_spin_ao"]), "lot": rng.choice(LOTS)}


def fixed_summaries():
    F = Fr
    s1 = (0, [0], ["c"], [F(1)], [[F(1)]])
    sp = (0, [0, 1], ["c", "c"], [F(1), H], [[F(1), Q], [H, F(2)]])
    ss = (0, [0, 0], ["c", "c"], [F(1)], [[F(1)], [H]])
    ps = (0, [1, 0], ["c", "c"], [F(1)], [[F(1)], [H]])
    pp = (0, [1, 1], ["c", "c"], [F(1)], [[F(1)], [H]])
    dp = (0, [2], ["p"], [F(1)], [[F(1)]])
    cp = (0, [1, 2], ["c", "p"], [F(1)], [[F(1)], [H]])
    sd = (0, [0, 2], ["c", "c"], [F(1)], [[F(1)], [H]])
    mos = [None, c12.mk("r", 3, 3, occs=(F(1), F(2), F(0)))[1], c12.mk("r", 3, 3, occs=(F(2), F(1), F(0)))[1],
           c12.mk("r", 2, 2, occs=(F(2), F(0)), aminusb=(F(0), F(0)))[1],
           c12.mk("r", 2, 2, occs=(F(1), F(1)), aminusb=(F(1), F(-1)))[1],
           c12.mk("r", 3, 3, occs=(F(2), F(1), F(1)), aminusb=(F(0), F(-1), F(1)))[1],
           c12.mk("r", 2, 2, occs=(F(2), F(1)), aminusb=(F(0), H))[1],
           c12.mk("r", 2, 2)[1], c12.mk("u", 2, 1)[1], c12.mk("u", 2, 2, occs=(F(1), F(0), F(1), F(0)))[1],
           c12.mk("u", 2, 2, occs=(F(1), F(0), F(0), F(1)))[1], c12.mk("u", 2, 2, occs=(F(0), F(1), F(1), F(0)))[1],
           c12.mk("g", None, None, occs=(F(1), F(0)))[1], c12.mk("r", 1, 1, occs=(F(-1),))[1],
           c12.mk("r", 3, 3, occs=(F(1), F(1), H))[1], c12.mk("r", 0, 0, occs=())[1],
           c12.mk("u", 3, 3, occs=(F(1), F(1), F(0), F(1), Q, F(0)))[1], c12.mk("u", 3, 3, occs=(F(1), Q, F(0), F(1), F(1), F(0)))[1],
           c12.mk("u", 3, 2, occs=(F(1), F(1), F(1), F(1), H))[1], c12.mk("r", 3, 3, occs=(F(2), H, F(0)))[1],
           # fractional electron counts (Molekel refuses them, also with allow_changes) and integer totals of fractions
           c12.mk("r", 3, 3, occs=(F(1), F(1), H))[1], c12.mk("r", 3, 3, occs=(F(2), F(2), F(5, 4)), aminusb=(F(0), F(0), F(3, 4)))[1],
           c12.mk("r", 2, 2, occs=(F(3, 2), H))[1], c12.mk("r", 2, 2, occs=(F(3, 2), H), aminusb=(H, H))[1],
           c12.mk("u", 2, 1, occs=(F(1), Q, F(1)))[1], c12.mk("u", 2, 2, occs=(F(1), H, H, F(0)))[1],
           c12.mk("r", 1, 1, occs=(F(5, 2),))[1], c12.mk("r", 1, 1, occs=(F(7, 2),))[1], c12.mk("r", 2, 2, occs=(F(-1), H))[1]]
    bases = [None, [], [s1], [sp], [ss], [ps], [pp], [dp], [cp], [sd], [s1, sp, dp], [sp, ss]]
    out = []
    for m in mos:
        for b in bases:
            out.append({"mo": m, "ob": b, "schema": None, "post": None, "lot": None})
    for sch in SCHEMAS[1:]:
        out.append({"mo": None, "ob": None, "schema": sch, "post": None, "lot": None})
    for lot in LOTS[1:]:
        for post in ("post_scf_ao", "post_scf_spin_ao"):
            out.append({"mo": mos[2], "ob": [s1], "schema": None, "post": post, "lot": lot})
    return out


def request(fmt, allow, s):
    mo = "none" if s["mo"] is None else c14.mo_args_word(s["mo"])
    ob = "none" if s["ob"] is None else " ".join(c14.enc_shell(x) for x in s["ob"])
    if fmt == "json_qcschema" and qcschema_strict():
        fmt = "json_qcschema:strict"
    return (f"prep {fmt} {int(allow)} {1 if s['post'] else 0} {s['lot'] or '-'} {s['schema'] or '-'} {mo} {ob}").rstrip()


def build_object(s):
    """a fresh real IOData object for the summary (None when the orbitals are not constructible)"""
    from iodata import IOData

    kw = {}
    if s["mo"] is not None:
        kw["mo"] = c12.make_mo(s["mo"])
    if s["ob"] is not None:
        kw["obasis"] = c14.make_basis(s["ob"])
    if s["schema"] is not None:
        kw["extra"] = {"schema_name": s["schema"]}
    if s["post"]:
        kw["one_rdms"] = {s["post"]: np.eye(1)}
    if s["lot"] is not None:
        kw["lot"] = s["lot"]
    return IOData(**kw)


# ---- raise sites -------------------------------------------------------------------------------------
_SITES: dict = {}


def _site_index(filename):
    if filename not in _SITES:
        tree = ast.parse(open(filename).read())
        idx = {}
        for fn in tree.body:
            if isinstance(fn, ast.FunctionDef) and fn.name in HELPERS:
                raises = sorted((n for n in ast.walk(fn) if isinstance(n, ast.Raise)), key=lambda n: n.lineno)
                stmts = [n for n in ast.walk(fn) if isinstance(n, ast.stmt) and n is not fn]
                idx[fn.name] = (raises, stmts)
        _SITES[filename] = idx
    return _SITES[filename]


def site_of(exc) -> str:
    """`<function>#<k>` (k-th raise statement of the function, source order) or `<function>:<assigned name>`."""
    tb, best = exc.__traceback__, None
    while tb is not None:
        co = tb.tb_frame.f_code
        if co.co_name in HELPERS and os.sep + "iodata" + os.sep in co.co_filename:
            best = (co.co_filename, co.co_name, tb.tb_lineno)
        tb = tb.tb_next
    if best is None:
        return "?"
    raises, stmts = _site_index(best[0]).get(best[1], ([], []))
    for k, r in enumerate(raises):
        if r.lineno <= best[2] <= r.end_lineno:
            return f"{best[1]}#{k}"
    inner = [s for s in stmts if s.lineno <= best[2] <= s.end_lineno and not isinstance(s, (ast.If, ast.For))]
    if inner:
        s = min(inner, key=lambda n: n.end_lineno - n.lineno)
        if isinstance(s, ast.Assign) and isinstance(s.targets[0], ast.Name):
            return f"{best[1]}:{s.targets[0].id}"
        if isinstance(s, ast.Return):
            return f"{best[1]}:return"
    return f"{best[1]}:stmt"


def exc_class(exc):
    n = type(exc).__name__
    return n if n in ("TypeError", "ValueError", "PrepareDumpError") else "Other:" + n


def show_obj(d):
    mo = "none" if d.mo is None else f"kind={c14.KSHORT.get(d.mo.kind, 'x')};" + c12.observe(d.mo)
    if d.obasis is None:
        ob = "none"
    else:
        ob = "|".join(c14.show_shell(sh) for sh in d.obasis.shells) if d.obasis.shells else "@"
    return f"mo={mo} ob={ob}"


def impl_prep(fmt, allow, s):
    from iodata.utils import PrepareDumpWarning

    try:
        data = build_object(s)
    except Exception:  # noqa: BLE001
        return None
    mod = importlib.import_module(f"iodata.formats.{fmt}")
    with warnings.catch_warnings(record=True) as w:
        warnings.simplefilter("always")
        try:
            res = mod.prepare_dump(data, allow, "file")
        except Exception as exc:  # noqa: BLE001
            return f"err:{exc_class(exc)}@{site_of(exc)}"
    nw = sum(1 for x in w if issubclass(x.category, PrepareDumpWarning))
    if res is data:
        return f"ret same=1 warns={nw}"
    return f"ret same=0 warns={nw} " + show_obj(res)


def correspond(ctx):
    rng = ctx.rng
    sums = fixed_summaries() + [rand_summary(rng) for _ in range(ctx.n(1200, 8000))]
    reqs, outs, nontriv, classes = [], [], [], []
    for s in sums:
        for fmt in FORMATS:
            for allow in (False, True):
                o = impl_prep(fmt, allow, s)
                if o is None:
                    continue
                reqs.append(request(fmt, allow, s))
                outs.append(o)
                nontriv.append(not o.startswith("ret same=1 warns=0"))
                head = o.split(" ")
                classes.append(f"{fmt}/allow={int(allow)}/" + (head[0] if head[0].startswith("err") else " ".join(head[1:3])))
    ctx.corr("prep", reqs, outs, nontriv, classes)


# ----------------------------------------------------------------------------------------------------
# S: real objects through the real dump_one
# ----------------------------------------------------------------------------------------------------
_BASE: dict = {}


def _water():
    """water / STO-3G / RHF from the test data: 7 orbitals (5 doubly occupied), shells s, SP, s, s."""
    from iodata import load_one

    if "w" not in _BASE:
        with warnings.catch_warnings():
            warnings.simplefilter("ignore")
            _BASE["w"] = load_one(str(engine.REPO / "iodata" / "test" / "data" / "water_sto3g_hf_g03.fchk"))
    return _BASE["w"]


def _qcschema_base():
    from iodata import load_one

    if "q" not in _BASE:
        with warnings.catch_warnings():
            warnings.simplefilter("ignore")
            _BASE["q"] = load_one(str(engine.REPO / "iodata" / "test" / "data" / "LiCl_STO4G_Gaussian_output.json"),
                                  fmt="json_qcschema")
    return _BASE["q"]


def _mk_iodata(base, **changes):
    import attrs
    from iodata import IOData

    kw = {a.name.lstrip("_"): getattr(base, a.name) for a in attrs.fields(IOData)}
    kw.update(changes)
    return IOData(**kw)


def _with_shells(base, shells, mo=None):
    """the object with another shell list; the coefficient rows are padded / cut to the new function count"""
    import attrs
    from iodata.basis import MolecularBasis

    ob = MolecularBasis(list(shells), base.obasis.conventions, base.obasis.primitive_normalization)
    mo = base.mo if mo is None else mo
    if mo is not None and mo.coeffs is not None:
        c = np.zeros((ob.nbasis * (2 if mo.kind == "generalized" else 1), mo.coeffs.shape[1]))
        k = min(c.shape[0], mo.coeffs.shape[0])
        c[:k] = mo.coeffs[:k]
        mo = attrs.evolve(mo, coeffs=c)
    changes = {"obasis": ob, "mo": mo}
    if base.one_rdms:
        changes["one_rdms"] = {k: np.eye(ob.nbasis) for k in base.one_rdms}
    return _mk_iodata(base, **changes)


def _gshell(sh, ls, kinds=None):
    """a generalized shell on the centre/exponents of `sh` with the given angular momenta"""
    from iodata.basis import Shell

    kinds = kinds or ["c"] * len(ls)
    col = sh.coeffs[:, 0]
    return Shell(sh.icenter, np.array(ls), list(kinds), sh.exponents, np.stack([col * (1 + 0.25 * i) for i in range(len(ls))], 1))


def prepare_variants(fmt):
    """(label, object, verdict(allow) in {'reject', 'accept'}, conversions(allow)) - verdicts fixed by construction,
    from the documented reasons in the property text (not from the model)."""
    import attrs
    from iodata.convert import convert_to_segmented, convert_to_unrestricted
    from iodata.orbitals import MolecularOrbitals

    w = _water()
    out = []
    if fmt == "json_qcschema":
        base = _qcschema_base()
        acc, rej = (lambda a: "accept"), (lambda a: "reject")
        out.append(("schema:" + str(base.extra["schema_name"]), base, acc, 0))
        out.append(("schema:missing", _mk_iodata(base, extra={k: v for k, v in base.extra.items() if k != "schema_name"}), rej, 0))
        out.append(("schema:basis", _mk_iodata(base, extra={**base.extra, "schema_name": "qcschema_basis"}), rej, 0))
        out.append(("schema:unknown", _mk_iodata(base, extra={**base.extra, "schema_name": "qcschema_foo"}), rej, 0))
        return out
    seg = fmt != "fchk"
    base = w if not seg else _mk_iodata(w, obasis=convert_to_segmented(w.obasis, False))
    mo, shells = base.mo, list(base.obasis.shells)
    n = mo.norb
    always_rej, never_rej, unless_allowed = (lambda a: "reject"), (lambda a: "accept"), (lambda a: "accept" if a else "reject")

    def occs(o, d=None):
        return attrs.evolve(mo, occs=np.array(o, dtype=float), occs_aminusb=None if d is None else np.array(d, dtype=float))

    def pad(head):
        return list(head) + [0.0] * (n - len(head))

    out.append(("intact", base, never_rej, 0))
    # --- orbitals ---------------------------------------------------------------------------------
    gen = MolecularOrbitals("generalized", None, None, np.ones(n), np.zeros((2 * mo.nbasis, n)), np.zeros(n))
    out.append(("generalized-mo", _mk_iodata(base, mo=gen), always_rej, 0))
    umo = convert_to_unrestricted(mo)
    out.append(("unrestricted", _mk_iodata(base, mo=umo), never_rej, 0))
    ab_variants = [("aminusb-zero", pad([2, 2, 2, 2, 2]), pad([])),
                   ("aminusb-sums-to-zero", pad([2, 2, 2, 1, 1]), pad([0, 0, 0, 1, -1])),
                   ("aminusb-high-spin", pad([2, 2, 2, 1, 1]), pad([0, 0, 0, 1, 1]))]
    for label, o, d in ab_variants:
        if seg:
            out.append((label, _mk_iodata(base, mo=occs(o, d)), unless_allowed, 1))
        elif label != "aminusb-sums-to-zero":
            out.append((label, _mk_iodata(base, mo=occs(o, d)), never_rej, 0))  # FCHK keeps occs_aminusb
    if seg:
        frac = always_rej if fmt == "molekel" else never_rej
        out.append(("fractional-nelec", _mk_iodata(base, mo=occs(pad([2, 2, 1.5]))), frac, 0))
        out.append(("fractional-nelec-unrestricted",
                    _mk_iodata(base, mo=attrs.evolve(umo, occs=np.array(pad([1, 1, 0.5]) + pad([1, 1]), dtype=float))), frac, 0))
        out.append(("fractional-nelec-aminusb", _mk_iodata(base, mo=occs(pad([2, 2, 1.3]), pad([0, 0, 0.7]))),
                    always_rej if fmt == "molekel" else unless_allowed, 1))
        out.append(("fractional-occs-integer-nelec", _mk_iodata(base, mo=occs(pad([2, 1.5, 0.5]))), never_rej, 0))
    if fmt == "fchk":
        rej = [("non-aufbau-beta-only", pad([1, 2]), None), ("non-aufbau-reversed", pad([])[: n - 5] + [2.0] * 5, None),
               ("non-aufbau-alpha-only", pad([2, 1, 1]), pad([0, -1, 1])),
               ("non-aufbau-both-via-aminusb", pad([2, 2, 2, 1, 1]), pad([0, 0, 0, 1, -1])),
               ("fractional-closed", pad([2, 2, 1.5]), None), ("fractional-spin", pad([2, 1]), pad([0, 0.5])),
               ("negative", pad([2, -1]), None), ("hole", pad([2, 0, 2]), None)]
        for label, o, d in rej:
            out.append((label, _mk_iodata(base, mo=occs(o, d)), always_rej, 0))
        out.append(("open-shell-aufbau", _mk_iodata(base, mo=occs(pad([2, 2, 2, 1, 1]))), never_rej, 0))

        def uocc(a, b):
            return attrs.evolve(umo, occs=np.array(pad(a) + pad(b), dtype=float))

        out.append(("u-aufbau", _mk_iodata(base, mo=uocc([1, 1, 1, 1, 1], [1, 1, 1])), never_rej, 0))
        out.append(("u-alpha-hole", _mk_iodata(base, mo=uocc([1, 0, 1], [1, 1])), always_rej, 0))
        out.append(("u-beta-hole", _mk_iodata(base, mo=uocc([1, 1, 1], [0, 1])), always_rej, 0))
        out.append(("u-beta-fractional", _mk_iodata(base, mo=uocc([1, 1, 1], [1, 0.5])), always_rej, 0))
        # beta fractional below the ALPHA electron count (beta: one electron, then 1/4)
        out.append(("u-beta-fractional-low", _mk_iodata(base, mo=uocc([1, 1, 1], [1, 0.25])), always_rej, 0))
        out.append(("u-alpha-fractional-low", _mk_iodata(base, mo=uocc([1, 0.25], [1, 1, 1])), always_rej, 0))
        out.append(("u-alpha-double", _mk_iodata(base, mo=uocc([2, 0], [1, 1])), always_rej, 0))
        nb = base.obasis.nbasis
        for key in ("post_scf_ao", "post_scf_spin_ao"):
            for lot, verdict in (("hf", always_rej), (None, always_rej), ("b3lyp", always_rej), ("ccsd", never_rej),
                                 ("MP2", never_rej), ("cisd", never_rej), ("mp3", never_rej)):
                out.append((f"{key}:lot={lot}", _mk_iodata(base, one_rdms={**base.one_rdms, key: np.eye(nb)}, lot=lot), verdict, 0))
        out.append(("no-mo", _mk_iodata(base, mo=None, nelec=float(base.nelec)), never_rej, 0))
    # --- basis ------------------------------------------------------------------------------------
    s0 = shells[0]
    gens = [("sp", [0, 1]), ("ss", [0, 0]), ("ps", [1, 0]), ("pp", [1, 1]), ("sd", [0, 2]), ("dp", [2, 1]),
            ("spd", [0, 1, 2]), ("sss", [0, 0, 0])]
    for label, ls in gens:
        obj = _with_shells(base, [_gshell(s0, ls), *shells[1:]])
        if label == "sp" and fmt == "fchk":
            out.append(("shell-sp-kept", obj, never_rej, 0))
        else:
            out.append((f"shell-{label}", obj, unless_allowed, 1))
    if fmt == "fchk":
        # the kept SP shell next to a shell that must be split
        out.append(("shell-sp+ss", _with_shells(base, [_gshell(s0, [0, 0]), *shells[1:]]), unless_allowed, 1))
    pure = _with_shells(base, [*shells, _gshell(s0, [2], ["p"])])
    out.append(("pure-d", pure, always_rej if fmt in ("wfn", "wfx") else never_rej, 0))
    pure_gen = _with_shells(base, [*shells, _gshell(s0, [2, 2], ["p", "p"])])
    out.append(("pure-in-generalized", pure_gen, always_rej if fmt in ("wfn", "wfx") else unless_allowed, 1))
    mixed = _with_shells(base, [*shells, _gshell(s0, [1, 2], ["c", "p"])])  # first contraction Cartesian, second pure
    out.append(("cart+pure-in-generalized", mixed, always_rej if fmt in ("wfn", "wfx") else unless_allowed, 1))
    if seg:
        both = _with_shells(base, [_gshell(s0, [0, 1]), *shells[1:]], mo=occs(pad([2, 2, 2, 1, 1]), pad([0, 0, 0, 1, 1])))
        out.append(("aminusb+shell-sp", both, unless_allowed, 2))
    return out


def _run_real(fmt, obj, allow, fs_spec, work):
    """the real dump_one on a real path: (exception class | None, returned object, #PrepareDumpWarnings, bytes after)"""
    from iodata import api
    from iodata.utils import PrepareDumpWarning

    path = os.path.join(work, "prepare-target.out")
    if os.path.exists(path):
        os.unlink(path)
    if fs_spec is not None:
        with builtins.open(path, "w") as fh:
            fh.write(fs_spec)
    ret, cls = None, None
    with warnings.catch_warnings(record=True) as w:
        warnings.simplefilter("always")
        try:
            ret = api.dump_one(obj, path, fmt=fmt, allow_changes=allow)
        except BaseException as exc:  # noqa: BLE001
            cls = type(exc).__name__
    nw = sum(1 for x in w if issubclass(x.category, PrepareDumpWarning))
    content = builtins.open(path).read() if os.path.exists(path) else None
    if os.path.exists(path):
        os.unlink(path)
    return cls, ret, nw, content


def check_variant(fmt, label, obj, verdict, nconv, allow, fs_spec, work):
    """None or (sig, what)"""
    cls, ret, nw, content = _run_real(fmt, obj, allow, fs_spec, work)
    where = f"{fmt}.dump_one"
    v = verdict(allow)
    if v == "reject":
        if cls != "PrepareDumpError":
            return (f"prepare-reject-class:{fmt}:{label}",
                    f"{where}: {label} (allow_changes={allow}) must be refused with PrepareDumpError, got {cls or 'no exception'}"
                    + ("" if content == fs_spec else f"; the target changed from {fs_spec!r} to {(content or '')[:30]!r}"))
        if content != fs_spec:
            return (f"prepare-reject-clobber:{fmt}:{label}",
                    f"{where}: {label}: PrepareDumpError but the target changed from {fs_spec!r} to {(content or '')[:30]!r}")
        return None
    # accept
    if cls == "PrepareDumpError":
        return (f"prepare-spurious-reject:{fmt}:{label}", f"{where}: {label} (allow_changes={allow}) is compatible but was refused")
    if cls is not None:
        if cls != "DumpError":
            return (f"escape:{where}:{cls}", f"{where}: {cls} escaped ({label})")
        return ("writer-fails", f"{where}: {label}: the writer failed on an accepted object (DumpError)")
    want = nconv if allow else 0
    if nw != want:
        return (f"prepare-warnings:{fmt}:{label}", f"{where}: {label} (allow_changes={allow}): {nw} PrepareDumpWarnings for {want} conversions")
    if (ret is obj) != (want == 0):
        return (f"prepare-identity:{fmt}:{label}",
                f"{where}: {label} (allow_changes={allow}): returned {'the same' if ret is obj else 'another'} object for {want} conversions")
    if not content:
        return (f"prepare-empty-output:{fmt}:{label}", f"{where}: {label}: returned normally but wrote nothing")
    return None


def search_cases():
    for fmt in FORMATS:
        for label, obj, verdict, nconv in prepare_variants(fmt):
            for allow in (False, True):
                for fs_spec in (None, "OLD CONTENT\n"):
                    yield fmt, label, obj, verdict, nconv, allow, fs_spec


def search(ctx):
    work = tempfile.mkdtemp(prefix="vh-c08prep-")
    try:
        for fmt, label, obj, verdict, nconv, allow, fs_spec in search_cases():
            r = check_variant(fmt, label, obj, verdict, nconv, allow, fs_spec, work)
            key = {"kind": "prepare", "fmt": fmt, "label": label, "allow": allow, "fs": fs_spec}
            soft = r is not None and r[0] == "writer-fails"
            ctx.count("search-prepare", key, "ok" if r is None else r[0].split(":")[0], nontrivial=label != "intact", sample=key)
            if r and not soft:
                ctx.fail(r[0], r[1], key)
    finally:
        shutil.rmtree(work, ignore_errors=True)


def replay(ctx, inp):
    work = tempfile.mkdtemp(prefix="vh-c08prep-")
    try:
        for fmt, label, obj, verdict, nconv, allow, fs_spec in search_cases():
            if {"kind": "prepare", "fmt": fmt, "label": label, "allow": allow, "fs": fs_spec} == inp:
                r = check_variant(fmt, label, obj, verdict, nconv, allow, fs_spec, work)
                return r is not None and r[0] != "writer-fails"
        return False
    finally:
        shutil.rmtree(work, ignore_errors=True)
