"""T1 translator, second part (FCIDUMP full file, POSCAR text, FCHK object mapping, WFN/WFX sections, QCSchema keys):
``lean/Iodata/Gen/LayoutsW.lean``.  Runs the first part (``_layouts.translate``) as well, so that C02/C15 regenerate both files.

Everything is read from the source text under ``engine.REPO`` with ``ast`` (or, where stated, by probing the imported module
with tracer values).  Lean re-checks by ``decide`` that the extracted data has the shape the hand models assume.
"""

from __future__ import annotations

import ast

from .. import engine
from . import _layouts as L0
from ._layouts import chars, lb  # noqa: F401


def _src(fmt: str) -> tuple[str, ast.Module]:
    src = (engine.REPO / "iodata" / "formats" / f"{fmt}.py").read_text()
    return src, ast.parse(src)


def _func(tree: ast.Module, name: str) -> ast.FunctionDef:
    for node in ast.walk(tree):
        if isinstance(node, ast.FunctionDef) and node.name == name:
            return node
    raise LookupError(f"no function {name}")


def walk(node):
    """ast.walk in source order"""
    return sorted((n for n in ast.walk(node) if hasattr(n, "lineno")), key=lambda n: (n.lineno, n.col_offset))


def strs(items) -> str:
    return "[" + ", ".join(chars(s) for s in items) + "]"


SECTIONS = []  # functions returning Lean text


def section(fn):
    SECTIONS.append(fn)
    return fn


# ---------------------------------------------------------------------------------------------
# FCIDUMP


def _has_print(stmts) -> bool:
    return any(isinstance(s, ast.Expr) and isinstance(s.value, ast.Call) and isinstance(s.value.func, ast.Name)
               and s.value.func.id == "print" for s in stmts)


@section
def fcidump_section() -> str:
    _, tree = _src("fcidump")
    x = L0.extract("fcidump")
    d = _func(tree, "dump_one")
    l = _func(tree, "load_one")
    conv = []
    for st in d.body:
        if isinstance(st, ast.Assign) and len(st.targets) == 1 and isinstance(st.targets[0], ast.Name) and st.targets[0].id in (
                "nactive", "nelec", "spinpol"):
            conv.append((st.targets[0].id, ast.unparse(st.value)))
    reads = [ast.unparse(n.value) for n in walk(d) if isinstance(n, ast.Assign) and len(n.targets) == 1
             and isinstance(n.targets[0], ast.Name) and n.targets[0].id == "value"]
    if len(reads) != 2:
        raise LookupError(f"FCIDUMP: expected two `value = …` in dump_one, found {reads}")
    guards = [ast.unparse(n.test) for n in walk(d) if isinstance(n, ast.If) and _has_print(n.body)]
    conds = [ast.unparse(n.test) for n in walk(d) if isinstance(n, ast.If) and not _has_print(n.body)]
    if len(conds) != 1:
        raise LookupError(f"FCIDUMP: loop condition not found ({conds})")
    start = [n.args[0].value for n in walk(l) if isinstance(n, ast.Call) and isinstance(n.func, ast.Attribute)
             and n.func.attr == "startswith" and n.args and isinstance(n.args[0], ast.Constant)]
    keys = [n.slice.value for n in walk(l) if isinstance(n, ast.Subscript) and isinstance(n.value, ast.Name)
            and n.value.id == "header_info" and isinstance(n.slice, ast.Constant) and isinstance(n.ctx, ast.Load)]
    ends = [n.comparators[0].value for n in walk(l) if isinstance(n, ast.Compare) and isinstance(n.ops[0], ast.Eq)
            and isinstance(n.comparators[0], ast.Constant) and isinstance(n.comparators[0].value, str)
            and ast.unparse(n.left) == "words[0]"]
    cuts = [a for fn, t, a, b, i in x.slices if fn == "load_one" and b is None]
    fills = [ast.unparse(n) for n in walk(l) if isinstance(n, ast.Call) and isinstance(n.func, ast.Name)
             and n.func.id == "set_four_index_element"]
    onesets = [ast.unparse(n) for n in walk(l) if isinstance(n, ast.Assign) and isinstance(n.targets[0], ast.Subscript)
               and isinstance(n.targets[0].value, ast.Name) and n.targets[0].value.id == "one_mo"]
    if len(start) != 1 or len(cuts) != 1 or len(fills) != 1:
        raise LookupError(f"FCIDUMP reader: start {start}, cuts {cuts}, fills {fills}")
    sci = next(f for fn, fs in x.writes for f in fs if f[0] == "sci")
    iw = next(f for fn, fs in x.writes for f in fs if f[0] == "int" and f[2] > 0)
    words = ", ".join(f"({chars(t)}, {engine.lean_int(i)})" for fn, t, i in x.words if fn == "load_one")
    return (
        f"def fcidumpL : FcidumpW.Layout := ⟨{sci[4]}, {sci[5]}, {iw[2]}⟩\n\n"
        "def fcidumpSource : FcidumpW.Source :=\n"
        f"  {{ conv := [{', '.join(f'({chars(a)}, {chars(b)})' for a, b in conv)}],\n"
        f"    twoRead := {chars(reads[0])},\n    oneRead := {chars(reads[1])},\n    loopCond := {chars(conds[0])},\n"
        f"    skipZero := {strs(guards)},\n    start := {chars(start[0])},\n    cut := {cuts[0]},\n    keys := {strs(keys)},\n"
        f"    ends := {strs(ends)},\n    readerWords := [{words}],\n    fill := {chars(fills[0])},\n    oneSet := {strs(onesets)} }}\n"
    )


# ---------------------------------------------------------------------------------------------
# POSCAR


def _assigned(fn: ast.FunctionDef, name: str) -> str:
    vals = [ast.unparse(n.value) for n in walk(fn) if isinstance(n, ast.Assign) and len(n.targets) == 1
            and isinstance(n.targets[0], ast.Name) and n.targets[0].id == name]
    if not vals:
        raise LookupError(f"no assignment to {name} in {fn.name}")
    return vals[-1]


@section
def poscar_section() -> str:
    _, tree = _src("poscar")
    _, ctree = _src("chgcar")
    x = L0.extract("poscar")
    ws = [f for fn, f in x.writes if fn == "dump_one"]
    if len(ws) != 8:
        raise LookupError(f"POSCAR: expected 8 prints in dump_one, found {len(ws)}")
    title, scale, cell, elem, cnt, sel, direct, atom = ws
    fx = next(f for f in cell if f[0] == "fix")
    sym = next(f for f in elem if f[0] == "str")
    ci = next(f for f in cnt if f[0] == "int")
    lit = lambda fs: [f[1] for f in fs if f[0] == "lit" and f[1] != "\n"]  # noqa: E731
    scale_lit = lit(scale)[0]
    if "." not in scale_lit:
        raise LookupError("POSCAR: scaling literal has no decimal point")
    alits = lit(atom)
    d = _func(tree, "dump_one")
    h = _func(ctree, "_load_vasp_header")
    letters = [[e.value for e in n.comparators[0].elts] for n in walk(h) if isinstance(n, ast.Compare) and isinstance(n.ops[0], ast.In)
               and ast.unparse(n.left) == "line[0].lower()" and isinstance(n.comparators[0], ast.List)]
    if len(letters) != 2:
        raise LookupError(f"POSCAR reader: expected two `line[0].lower() in [...]`, found {letters}")
    takes = [ast.unparse(n) for n in walk(h) if isinstance(n, ast.Subscript) and isinstance(n.slice, ast.Slice)
             and ast.unparse(n.value) == "line.split()"]
    aug = [ast.unparse(n.value) for n in walk(h) if isinstance(n, ast.AugAssign) and ast.unparse(n.target) == "cellvecs"]
    dots = [ast.unparse(n.value) for n in walk(h) if isinstance(n, ast.Assign) and ast.unparse(n.targets[0]) == "atcoords"
            and isinstance(n.value, ast.Call) and ast.unparse(n.value.func) == "np.dot"]
    if len(takes) != 1 or len(aug) != 1 or len(dots) != 1:
        raise LookupError(f"POSCAR reader: takes {takes}, aug {aug}, dots {dots}")
    return (
        f"def poscarL : PoscarW.Layout :=\n  ⟨{fx[3]}, {fx[4]}, {sym[2]}, {ci[2]}, {chars(scale_lit)}, {len(scale_lit.split('.')[1])}, "
        f"{chars(lit(sel)[0])}, {chars(lit(direct)[0])}, {chars(alits[0])}, {chars(alits[-1])}, {chars(L0._default_title(title[0][1]))}⟩\n\n"
        "def poscarSource : PoscarW.Source :=\n"
        f"  {{ cellExpr := {chars(_assigned(d, 'r'))},\n    order := {chars(_assigned(d, 'uatnums'))},\n"
        f"    gvecs := {chars(_assigned(d, 'gvecs'))},\n    rowExpr := {chars(_assigned(d, 'row'))},\n"
        f"    indexes := {chars(_assigned(d, 'indexes'))},\n    selLetters := {strs(letters[0])},\n    cartLetters := {strs(letters[1])},\n"
        f"    take := {chars(takes[0])},\n    cellIn := {chars(aug[0])},\n    directIn := {chars(dots[0])} }}\n"
    )


# ---------------------------------------------------------------------------------------------
# FCHK object mapping (by probing, see _fchkprobe.py)


def _tr_lean(tr) -> str:
    if tr[0] == "pick":
        return f"(.pick {tr[1]})"
    return "." + tr[0]


def _rows_lean(rows) -> str:
    return "[" + ",\n   ".join(f"⟨{chars(a)}, {chars(lab)}, {_tr_lean(tr)}, {engine.lean_int(u)}⟩" for a, lab, tr, u in rows) + "]"


@section
def fchk_section() -> str:
    from . import _fchkprobe as P

    w = P.writer_rows()
    r = P.reader_rows(w)
    return f"def fchkW : List FchkO.Row :=\n  {_rows_lean(w)}\n\ndef fchkR : List FchkO.Row :=\n  {_rows_lean(r)}\n"


# ---------------------------------------------------------------------------------------------
# WFN sections


def _fmt_fields(fmt: str):
    """fields of a `str.format` template with positional names"""
    import re as _re

    out, pos = [], 0
    for m in _re.finditer(r"\{(\w*)(?::([^}]*))?\}", fmt):
        if m.start() > pos:
            out.append(("lit", fmt[pos : m.start()]))
        pos = m.end()
        out.append(L0._spec_field(m.group(1), m.group(2) or ""))
    if pos < len(fmt):
        out.append(("lit", fmt[pos:]))
    return out


def _const_str(node):
    return node.value if isinstance(node, ast.Constant) and isinstance(node.value, str) else None


@section
def wfn_section() -> str:
    src, tree = _src("wfn")
    consts = {}
    secs = []
    for st in tree.body:
        if isinstance(st, ast.Assign) and len(st.targets) == 1:
            t = st.targets[0]
            if isinstance(t, ast.Name) and _const_str(st.value) is not None:
                consts[t.id] = st.value.value
            if (isinstance(t, ast.Tuple) and isinstance(st.value, ast.Call) and isinstance(st.value.func, ast.Name)
                    and st.value.func.id == "_format_helper_section"):
                a = st.value.args
                secs.append((t.elts[0].id, a[0].value, a[1].value, a[2].value, a[3].value))
    fmts = [(k, _fmt_fields(consts[k])) for k in ("FMT_NUM", "FMT_ATM", "FMT_MOS", "FMT_ENERGY")]
    d = _func(tree, "dump_one")
    dumps = []
    for n in walk(d):
        if isinstance(n, ast.Call) and isinstance(n.func, ast.Name) and n.func.id == "_dump_helper_section":
            a = n.args
            dumps.append((ast.unparse(a[1]), ast.unparse(a[2]), a[3].value, a[5].value))
    loads = []
    for n in walk(tree):
        if isinstance(n, ast.Call) and isinstance(n.func, ast.Name) and n.func.id == "_load_helper_section":
            a = n.args
            loads.append((a[2].value, a[3].value, a[4].value, ast.unparse(a[5])))
    x = L0.extract("wfn")
    helpers = ("_load_helper_num", "_load_helper_atoms", "_load_helper_mo", "_load_helper_energy")
    slices = [(fn, a, b) for fn, t, a, b, i in x.slices if fn in helpers]
    # string constants: startswith arguments, `"…" in line` keys, printed literals, default title
    cs = []
    for name in helpers + ("_load_helper_multiwfn",):
        fn = _func(tree, name)
        for n in walk(fn):
            if isinstance(n, ast.Call) and isinstance(n.func, ast.Attribute) and n.func.attr == "startswith" and _const_str(n.args[0]) is not None:
                cs.append(n.args[0].value)
            if isinstance(n, ast.Compare) and isinstance(n.ops[0], ast.In | ast.NotIn) and _const_str(n.left) is not None:
                cs.append(n.left.value)
    for n in walk(d):
        if isinstance(n, ast.Call) and isinstance(n.func, ast.Name) and n.func.id == "print" and n.args and _const_str(n.args[0]) is not None:
            cs.append(n.args[0].value)
    cs.append(consts["DEFAULT_WFN_TTL"])
    by = {k: fs for k, fs in fmts}
    I = lambda k, j: [f for f in by[k] if f[0] in ("int", "fix", "str")][j]  # noqa: E731, E741
    sec = {s[0]: s for s in secs}
    import re as _re

    def spec_wd(spec):
        m = _re.match(r"\{:(\d+)(?:\.(\d+))?([dE])\}$", spec)
        if not m:
            raise LookupError("WFN: unexpected section spec " + spec)
        return int(m.group(1)), int(m.group(2) or 0)

    sl = {}
    for fn, a, b in slices:
        sl.setdefault(fn, []).append((a, b))
    pr = lambda p: f"({p[0]}, {p[1]})"  # noqa: E731
    num, atm, mo, en = (sl[h] for h in helpers)
    lay = [I("FMT_NUM", 0)[2], I("FMT_NUM", 1)[2], I("FMT_NUM", 2)[2], I("FMT_ATM", 0)[2], I("FMT_ATM", 1)[2], I("FMT_ATM", 3)[3],
           I("FMT_ATM", 3)[4], I("FMT_ATM", 6)[3], I("FMT_ATM", 6)[4], sec["FMT_CNTR"][2], spec_wd(sec["FMT_CNTR"][3])[0], sec["FMT_CNTR"][4],
           sec["FMT_EXPN"][2], *spec_wd(sec["FMT_EXPN"][3]), sec["FMT_EXPN"][4], *spec_wd(sec["FMT_COEF"][3]), sec["FMT_COEF"][4],
           spec_wd(sec["FMT_SPIN"][3])[0], sec["FMT_SPIN"][4], I("FMT_MOS", 0)[2], I("FMT_MOS", 1)[3], I("FMT_MOS", 1)[4],
           I("FMT_MOS", 2)[3], I("FMT_MOS", 2)[4], I("FMT_MOS", 3)[3], I("FMT_MOS", 3)[4], I("FMT_ENERGY", 0)[3], I("FMT_ENERGY", 0)[4],
           I("FMT_ENERGY", 1)[3], I("FMT_ENERGY", 1)[4]]
    layout = (", ".join(str(v) for v in lay) + ",\n   " + ", ".join(pr(p) for p in num) + f", {atm[0][1]}, " + ", ".join(pr(p) for p in atm[1:])
              + ", " + ", ".join(pr(p) for p in mo) + ", " + ", ".join(pr(p) for p in en) + f",\n   {chars(consts['DEFAULT_WFN_TTL'])}")
    fmts_l = ",\n      ".join(f"({chars(k)}, [{', '.join(L0._field_lean(f) for f in fs)}])" for k, fs in fmts)
    secs_l = ", ".join(f"⟨{chars(a)}, {chars(b)}, {c}, {chars(e)}, {g}⟩" for a, b, c, e, g in secs)
    dumps_l = ", ".join(f"({chars(a)}, {chars(b)}, {c}, {e})" for a, b, c, e in dumps)
    loads_l = ", ".join(f"({chars(a)}, {b}, {c}, {chars(e)})" for a, b, c, e in loads)
    sl_l = ", ".join(f"({chars(fn)}, {a}, {'none' if b is None else f'some {b}'})" for fn, a, b in slices)
    return (
        f"def wfnL : WfnS.Layout :=\n  ⟨{layout}⟩\n\n"
        f"def wfnSource : WfnS.Source :=\n  {{ fmts := [{fmts_l}],\n    secs := [{secs_l}],\n    dumps := [{dumps_l}],\n"
        f"    loads := [{loads_l}],\n    slices := [{sl_l}],\n    consts := {strs(cs)} }}\n"
    )


# ---------------------------------------------------------------------------------------------
# WFX sections


def wfx_layout():
    """(decimals, integers per line, reals per line, coordinates per line) of the WFX writer"""
    import re as _re

    src, tree = _src("wfx")
    x = L0.extract("wfx")
    precs = set(_re.findall(r": ,\.(\d+)E\}", src))
    if len(precs) != 1:
        raise LookupError(f"WFX: real format specs with different precisions {precs}")
    d = _func(tree, "dump_one")
    steps = {}
    for n in walk(d):
        if isinstance(n, ast.For) and isinstance(n.iter, ast.Call) and ast.unparse(n.iter.func) == "range" and len(n.iter.args) == 3:
            steps.setdefault(ast.unparse(n.iter.args[1]), n.iter.args[2].value)
    per_i = {v for k, v in steps.items() if "prim_centers" in k or "prim_types" in k}
    per_r = {v for k, v in steps.items() if "exponents" in k or "nbasis" in k}
    if len(per_i) != 1 or len(per_r) != 1:
        raise LookupError(f"WFX: items per line {steps}")
    coords = next(fs for fn, fs in x.writes if fn == "dump_one" and any(f[0] == "other" and "item[0]" in f[1] for f in fs))
    per_c = sum(1 for f in coords if f[0] == "other")
    return int(precs.pop()), per_i.pop(), per_r.pop(), per_c


@section
def wfx_section() -> str:
    _, tree = _src("wfx")
    x = L0.extract("wfx")
    prec, per_i, per_r, per_c = wfx_layout()
    p = _func(tree, "parse_wfx")
    consts = [n.value for n in walk(p) if isinstance(n, ast.Constant) and isinstance(n.value, str)
              and not (isinstance(getattr(n, "_parent", None), ast.JoinedStr))]
    # drop the docstring and the pieces of f-string error messages
    doc = ast.get_docstring(p, clean=False)
    fparts = {id(v) for n in walk(p) if isinstance(n, ast.JoinedStr) for v in n.values}
    consts = [n.value for n in walk(p) if isinstance(n, ast.Constant) and isinstance(n.value, str) and id(n) not in fparts and n.value != doc]
    ws = ",\n   ".join(f"({chars(fn)}, [{', '.join(L0._field_lean(f) for f in fields)}])" for fn, fields in x.writes)
    return (f"def wfxL : WfxS.Layout := ⟨{prec}, {per_i}, {per_r}, {per_c}⟩\n\n"
            f"def wfx_writes : List Write :=\n  [{ws}]\n\ndef wfx_parse_consts : List (List Char) := {strs(consts)}\n")


# ---------------------------------------------------------------------------------------------
# QCSchema molecule core: the key mapping of both directions

QCS_EXCLUDED = {"masses", "mass_numbers", "fragments"}  # sub-keys of extra["molecule"] outside the modelled domain


def _mol_key(node):
    """the constant k of a `mol["k"]` inside node, if there is exactly one"""
    ks = [n.slice.value for n in ast.walk(node) if isinstance(n, ast.Subscript) and isinstance(n.value, ast.Name) and n.value.id == "mol"
          and isinstance(n.slice, ast.Constant)]
    return ks[0] if len(set(ks)) == 1 else None


@section
def qcs_section() -> str:
    _, tree = _src("json_qcschema")
    d = _func(tree, "_dump_qcschema_molecule")
    r = _func(tree, "_parse_topology_keys")
    # writer: molecule_dict["key"] = expr
    wassign = [(n.targets[0].slice.value, n.value) for n in walk(d) if isinstance(n, ast.Assign) and isinstance(n.targets[0], ast.Subscript)
               and ast.unparse(n.targets[0].value) == "molecule_dict" and isinstance(n.targets[0].slice, ast.Constant)]
    core_src = {"symbols": "data.atnums", "geometry": "data.atcoords", "charge": "data.charge", "mult": "data.spinpol", "name": "data.title",
                "real": "data.atcorenums", "masses": "data.atmasses", "connectivity": "data.bonds", "fixSymmetry": "data.g_rot",
                "provenance": "_dump_provenance"}
    wk, exprs = {}, []
    for field, needle in core_src.items():
        hits = [(k, ast.unparse(v)) for k, v in wassign if needle in ast.unparse(v)]
        if len(hits) != 1:
            raise LookupError(f"QCSchema writer: {field}: {hits}")
        wk[field] = hits[0][0]
        exprs.append(("w:" + field, hits[0][1]))
    wpass = []
    for k, v in wassign:
        src = ast.unparse(v)
        for suf in ("", ".tolist()"):
            if src.startswith("data.extra['molecule']['") and src.endswith("']" + suf) and src.count("[") == 2:
                sub = src[len("data.extra['molecule']['"):-len("']" + suf)]
                if sub not in QCS_EXCLUDED and sub != "unparsed":
                    wpass.append((sub, k))
    # reader
    rk = {}
    stmts = list(walk(r))
    def find(pred, what):
        hits = [n for n in stmts if pred(n)]
        if len(hits) < 1:
            raise LookupError("QCSchema reader: " + what)
        return hits[0]
    a = find(lambda n: isinstance(n, ast.Assign) and ast.unparse(n.targets[0]) == "atnums", "atnums")
    rk["symbols"] = _mol_key(a.value)
    exprs.append(("r:symbols", ast.unparse(a.value)))
    a = find(lambda n: isinstance(n, ast.Assign) and ast.unparse(n.targets[0]) == "topology_dict['atcoords']", "atcoords")
    rk["geometry"] = _mol_key(a.value)
    exprs.append(("r:geometry", ast.unparse(a.value)))
    a = find(lambda n: isinstance(n, ast.Assign) and ast.unparse(n.targets[0]) == "formal_charge" and _mol_key(n.value), "charge")
    rk["charge"] = _mol_key(a.value)
    a = find(lambda n: isinstance(n, ast.Assign) and ast.unparse(n.targets[0]) == "mult", "mult")
    rk["mult"] = _mol_key(a.value)
    a = find(lambda n: isinstance(n, ast.Assign) and ast.unparse(n.targets[0]) == "topology_dict['spinpol']" and "mult" in ast.unparse(n.value), "spinpol")
    exprs.append(("r:mult", ast.unparse(a.value)))
    for field, attr in (("name", "title"), ("masses", "atmasses"), ("connectivity", "bonds"), ("fixSymmetry", "g_rot")):
        a = find(lambda n, attr=attr: isinstance(n, ast.Assign) and ast.unparse(n.targets[0]) == f"topology_dict['{attr}']" and _mol_key(n.value), attr)
        rk[field] = _mol_key(a.value)
    a = find(lambda n: isinstance(n, ast.Assign) and ast.unparse(n.targets[0]).startswith("atcorenums[") and _mol_key(n.targets[0]), "real")
    rk["real"] = _mol_key(a.targets[0])
    exprs.append(("r:real", ast.unparse(a)))
    a = find(lambda n: isinstance(n, ast.Assign) and ast.unparse(n.targets[0]) == "topology_dict['nelec']", "nelec")
    exprs.append(("r:nelec", ast.unparse(a.value)))
    a = find(lambda n: isinstance(n, ast.Assign) and ast.unparse(n.targets[0]) == "extra_dict['provenance']", "provenance")
    rk["provenance"] = _mol_key(a.value)
    exprs.append(("r:provenance", ast.unparse(a.value)))
    rpass = []
    for n in stmts:
        if (isinstance(n, ast.Assign) and isinstance(n.targets[0], ast.Subscript) and ast.unparse(n.targets[0].value) == "extra_dict"
                and isinstance(n.targets[0].slice, ast.Constant)):
            sub = n.targets[0].slice.value
            src = ast.unparse(n.value)
            k = _mol_key(n.value)
            if k and src in (f"mol['{k}']", f"np.array(mol['{k}'])") and sub not in QCS_EXCLUDED and sub != "provenance":
                rpass.append((sub, k))
    a = find(lambda n: isinstance(n, ast.Assign) and ast.unparse(n.targets[0]) == "topology_dict['bonds']", "bonds")
    bonds_expr = ast.unparse(a.value)
    known = next(n.value for n in stmts if isinstance(n, ast.Assign) and ast.unparse(n.targets[0]) == "molecule_keys")
    known = [e.value for e in known.elts]
    order = ["symbols", "geometry", "charge", "mult", "name", "real", "masses", "connectivity", "fixSymmetry", "provenance"]

    def keys(name, k, p):
        return (f"def {name} : Qcs.Keys :=\n  ⟨" + ", ".join(chars(k[f]) for f in order) + ",\n   ["
                + ", ".join(f"({chars(a)}, {chars(b)})" for a, b in p) + "]⟩\n")

    # the reader lists the pass-through keys in its own order: the model compares the tables as written by the writer
    rpass_sorted = [x for x in wpass if x in rpass] + [x for x in rpass if x not in wpass]
    return (keys("qcsW", wk, wpass) + "\n" + keys("qcsR", rk, rpass_sorted) + "\n"
            + f"def qcsKnown : List (List Char) := {strs(known)}\n\n"
            + f"def qcsBondsExpr : List Char := {chars(bonds_expr)}\n\ndef qcsReshapes : Bool := {lb('.reshape(-1, 3)' in bonds_expr)}\n\n"
            + "def qcsExprs : List (List Char × List Char) :=\n  [" + ",\n   ".join(f"({chars(a)}, {chars(b)})" for a, b in exprs) + "]\n")


def build_gen() -> str:
    out = ["import Iodata.Gen.Layouts", "import Iodata.Model.Fmt.AllW", "namespace Iodata.Gen.LayoutsW", "open Iodata.Fmt", ""]
    for fn in SECTIONS:
        out.append(fn())
    out.append("end Iodata.Gen.LayoutsW\n")
    return "\n".join(out)


def translate(ctx):
    L0.translate(ctx)
    ctx.gen_write("LayoutsW", build_gen())
