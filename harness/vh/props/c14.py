"""C14 — convert_to_segmented / convert_to_unrestricted / prepare_* preserve the physics."""

from __future__ import annotations

import ast
import itertools
import warnings
from fractions import Fraction as Fr

import numpy as np

from .. import engine
from ..engine import lean_list, lean_str
from . import c12

MODULES = ["Iodata.Props.C14"]
RULE = (
    "seg: bases of 0-5 shells, each with 1-5 contractions (l 0-4, kinds c/p, SP and non-SP pairs), 1-3 primitives, "
    "dyadic exponents/coefficients, x keep_sp: the shell list of convert_to_segmented is compared shell by shell "
    "(identity flag via `is`, centre, angmoms, kinds, exponents, coefficient columns) and the function counts; "
    "tou: every C12 construct + random restricted/unrestricted/generalized orbital sets (integer open-shell, "
    "fractional, explicit occs_aminusb, missing optional arrays): identity flag, kind and all observables of the "
    "result; prepseg/prepu: outcome class (same object / ValueError / PrepareDumpError / converted with the number of "
    "PrepareDumpWarnings) and the converted attribute, over the same inputs x keep_sp x allow_changes x missing "
    "attribute. non-trivial = a conversion took place or was refused; distinct = distinct request line"
)
TRUSTED = [
    "the ast walk of convert.py/prepare.py that extracts the keep-condition of both loops and the order of the "
    "guards in prepare_*",
    "iodata.overlap.compute_overlap as the independent integral oracle of the direct search (same code on both bases)",
]
ASSUMPTIONS = [
    "orbitals are the C12 model (its assumptions apply); coeffs is one scalar per column, so `concatenate(axis=1)` "
    "is list append",
    "attrs.evolve(obasis/data, …) keeps every other attribute (conventions, primitive normalisation, all IOData "
    "fields); for IOData it replays __init__ (see C11) - the harness uses fresh IOData objects without stale hidden "
    "fields",
    "np.concatenate, zip (stops at the shortest), ndarray.T/reshape as transcribed",
]
TIME_LIMIT = {"quick": 900, "thorough": 3600}

CONV = engine.REPO / "iodata" / "convert.py"
PREP = engine.REPO / "iodata" / "prepare.py"

# --------------------------------------------------------------------------------------
# T1


def _func(path, name):
    tree = ast.parse(path.read_text())
    return next(n for n in tree.body if isinstance(n, ast.FunctionDef) and n.name == name)


def _norm(node):
    return ast.unparse(node).replace("data.obasis.shells", "SHELLS").replace("obasis.shells", "SHELLS")


def extract():
    out = {}
    f = _func(CONV, "convert_to_segmented")
    loop = next(n for n in f.body if isinstance(n, ast.For))
    cond = loop.body[0]
    out["seg_keep"] = _norm(cond.test)
    inner = cond.orelse[0]
    out["seg_zip"] = _norm(inner.iter)
    out["seg_new"] = _norm(inner.body[0].value.args[0])
    out["seg_ret"] = _norm(f.body[-1].value)
    f = _func(PREP, "prepare_segmented")
    ifs = [n for n in f.body if isinstance(n, ast.If)]
    out["prepseg_guards"] = [_norm(i.test) for i in ifs]
    out["prepseg_actions"] = [type(i.body[-1]).__name__ for i in ifs]
    out["prepseg_warns"] = sum(1 for n in ast.walk(f) if isinstance(n, ast.Call) and getattr(n.func, "id", "") == "warn")
    out["prepseg_ret"] = _norm(f.body[-1].value)
    f = _func(PREP, "prepare_unrestricted_aminusb")
    ifs = [n for n in f.body if isinstance(n, ast.If)]
    out["prepu_guards"] = [_norm(i.test) for i in ifs]
    out["prepu_actions"] = [type(i.body[-1]).__name__ for i in ifs]
    out["prepu_warns"] = sum(1 for n in ast.walk(f) if isinstance(n, ast.Call) and getattr(n.func, "id", "") == "warn")
    out["prepu_ret"] = _norm(f.body[-1].value)
    f = _func(CONV, "convert_to_unrestricted")
    ifs = [n for n in f.body if isinstance(n, ast.If)]
    out["tou_guards"] = [_norm(i.test) + " -> " + type(i.body[-1]).__name__ for i in ifs]
    out["tou_ret"] = [_norm(a) for a in f.body[-1].value.args]
    return out


def translate(ctx):
    ex = extract()
    body = ["namespace Iodata.Gen.ConvertSkeleton"]
    for k, v in ex.items():
        if isinstance(v, list):
            body.append(f"def {k} : List String := {lean_list(v, lean_str)}")
        elif isinstance(v, int):
            body.append(f"def {k} : Nat := {v}")
        else:
            body.append(f"def {k} : String := {lean_str(v)}")
    body += ["end Iodata.Gen.ConvertSkeleton", ""]
    ctx.gen_write("ConvertSkeleton", "\n".join(body))


# --------------------------------------------------------------------------------------
# bases: a shell spec is (icenter, angmoms, kinds, exps, cols) with Fractions

H, Q = Fr(1, 2), Fr(1, 4)
VALS = [Fr(1), H, Q, Fr(2), Fr(3, 2), Fr(-1), Fr(3, 4), Fr(0)]
EXPS = [Fr(1), H, Fr(2), Fr(3, 2), Q, Fr(4)]


def s_list(xs):
    return ",".join(str(x) for x in xs) if len(xs) else "@"


def enc_shell(sp):
    ic, ls, ks, es, cols = sp
    c = ":".join(s_list(col) for col in cols) if cols else "@"
    return f"{ic};{s_list(ls)};{s_list(ks)};{s_list(es)};{c}"


def make_shell(sp):
    from iodata.basis import Shell

    ic, ls, ks, es, cols = sp
    coeffs = np.array([[float(x) for x in col] for col in cols], dtype=float).T.reshape(len(es), len(cols))
    return Shell(ic, np.array(ls, dtype=int), np.array(list(ks), dtype=str), np.array([float(e) for e in es]), coeffs)


def make_basis(specs):
    from iodata.basis import MolecularBasis
    from iodata.convert import HORTON2_CONVENTIONS

    return MolecularBasis([make_shell(s) for s in specs], HORTON2_CONVENTIONS, "L2")


def show_shell(sh):
    cols = [[Fr(float(x)) for x in col] for col in sh.coeffs.T]
    return enc_shell((int(sh.icenter), [int(x) for x in sh.angmoms], [str(k) for k in sh.kinds],
                      [Fr(float(e)) for e in sh.exponents], cols))


def rand_shell(rng, ncenter):
    r = rng.random()
    nexp = rng.randint(1, 3)
    if r < 0.3:
        ls = [rng.randint(0, 4)]
    elif r < 0.5:
        ls = [0, 1]
    elif r < 0.6:
        ls = [1, 0]
    else:
        ls = [rng.randint(0, 4) for _ in range(rng.randint(2, 5))]
    ks = ["p" if (l >= 2 and rng.random() < 0.5) else "c" for l in ls]
    es = [rng.choice(EXPS) for _ in range(nexp)]
    cols = [[rng.choice(VALS) for _ in range(nexp)] for _ in ls]
    return (rng.randrange(ncenter), ls, ks, es, cols)


def rand_basis(rng):
    nc = rng.randint(1, 3)
    return [rand_shell(rng, nc) for _ in range(rng.choice([0, 1, 1, 2, 2, 3, 3, 4, 5]))]


def _nfn(l, k):
    return (l + 1) * (l + 2) // 2 if k == "c" else 2 * l + 1


def impl_seg(specs, keep):
    from iodata.convert import convert_to_segmented

    b = make_basis(specs)
    orig = list(b.shells)
    new = convert_to_segmented(b, keep)
    parts = []
    for sh in new.shells:
        same = any(sh is o for o in orig)
        parts.append(("T" if same else "F") + show_shell(sh))
    n0 = sum(_nfn(l, k) for sp in specs for l, k in zip(sp[1], sp[2]))
    return "ok " + " ".join(parts) + f" # nbasis={new.nbasis}/{n0}" if parts else f"ok  # nbasis={new.nbasis}/{n0}"


def _catch(fn):
    """run fn under a warning recorder: (result | exception, number of PrepareDumpWarnings)"""
    from iodata.utils import PrepareDumpWarning

    with warnings.catch_warnings(record=True) as w:
        warnings.simplefilter("always")
        try:
            res = fn()
        except Exception as exc:
            return exc, 0
    return res, sum(1 for x in w if issubclass(x.category, PrepareDumpWarning))


def exc_class(exc):
    n = type(exc).__name__
    return n if n in ("TypeError", "ValueError", "PrepareDumpError") else "Other:" + n


def impl_prepseg(specs, keep, allow):
    from iodata import IOData
    from iodata.prepare import prepare_segmented

    data = IOData(obasis=None if specs is None else make_basis(specs))
    res, nw = _catch(lambda: prepare_segmented(data, keep, allow, "file", "FMT"))
    if isinstance(res, Exception):
        return "err:" + exc_class(res)
    if res is data:
        return "same" if nw == 0 else f"same-but-warned:{nw}"
    tail = " ".join(show_shell(s) for s in res.obasis.shells)
    return f"converted:{nw} " + tail


KSHORT = {"restricted": "r", "unrestricted": "u", "generalized": "g"}


def mo_args_word(a):
    return c12.enc_op(("new", a))[4:]


def impl_tou(a):
    from iodata.convert import convert_to_unrestricted

    try:
        m = c12.make_mo(a)
    except Exception:
        return None  # not constructible: outside this stream
    try:
        r = convert_to_unrestricted(m)
    except Exception as exc:
        return "err:" + exc_class(exc)
    return f"same={1 if r is m else 0};kind={KSHORT.get(r.kind, 'x')};" + c12.observe(r)


def impl_prepu(a, allow):
    from iodata import IOData
    from iodata.prepare import prepare_unrestricted_aminusb

    if a is None:
        data = IOData()
    else:
        try:
            data = IOData(mo=c12.make_mo(a))
        except Exception:
            return None
    res, nw = _catch(lambda: prepare_unrestricted_aminusb(data, allow, "file", "FMT"))
    if isinstance(res, Exception):
        return "err:" + exc_class(res)
    if res is data:
        return "same" if nw == 0 else f"same-but-warned:{nw}"
    return f"converted:{nw};kind={KSHORT.get(res.mo.kind, 'x')};" + c12.observe(res.mo)


def rand_mo_args(rng):
    while True:
        op = c12.rand_construct(rng)
        if c12._valid_args(op[1]) or rng.random() < 0.1:
            return op[1]


# --------------------------------------------------------------------------------------
# T2


def fixed_bases():
    F = Fr
    sp = (0, [0, 1], ["c", "c"], [F(1), H], [[F(1), Q], [H, F(2)]])
    ps = (0, [1, 0], ["c", "c"], [F(1)], [[F(1)], [H]])
    gen = (1, [2, 2, 0], ["p", "c", "c"], [F(3, 2)], [[F(1)], [H], [F(2)]])
    one = (0, [1], ["c"], [F(2)], [[F(1)]])
    dd = (1, [2, 3], ["p", "p"], [F(1), F(2)], [[F(1), H], [Q, F(1)]])
    ss = (0, [0, 0, 0, 0, 0], ["c"] * 5, [F(1), F(2), F(4)], [[F(1), H, Q]] * 5)
    shells = [sp, ps, gen, one, dd, ss]
    out = [[]]
    for n in (1, 2):
        out += [list(t) for t in itertools.product(shells, repeat=n)]
    out.append(shells)
    return out


def correspond(ctx):
    rng = ctx.rng
    bases = fixed_bases() + [rand_basis(rng) for _ in range(ctx.n(3000, 30000))]
    reqs, outs, nontriv, classes = [], [], [], []
    for b in bases:
        for keep in (False, True):
            reqs.append(f"seg {int(keep)} " + " ".join(enc_shell(s) for s in b))
            o = impl_seg(b, keep)
            outs.append(o)
            nsplit = o.count(" F")
            nontriv.append(nsplit > 0)
            classes.append(f"keep={int(keep)}/shells={min(len(b), 4)}/split={'yes' if nsplit else 'no'}")
    ctx.corr("seg", reqs, outs, nontriv, classes)
    # prepare_segmented
    reqs, outs, nontriv, classes = [], [], [], []
    for b in [None] + bases[: ctx.n(1500, 20000)]:
        for keep in (False, True):
            for allow in (False, True):
                reqs.append(f"prepseg {int(keep)} {int(allow)} " + ("none" if b is None else " ".join(enc_shell(s) for s in b)))
                o = impl_prepseg(b, keep, allow)
                outs.append(o)
                nontriv.append(o != "same")
                classes.append(o.split(" ")[0].split(";")[0])
    ctx.corr("prepseg", reqs, outs, nontriv, classes)
    # orbitals
    mos = [op[1] for op in c12.constructs()] + [rand_mo_args(rng) for _ in range(ctx.n(4000, 60000))]
    reqs, outs, nontriv, classes = [], [], [], []
    for a in mos:
        o = impl_tou(a)
        if o is None:
            continue
        reqs.append("tou " + mo_args_word(a))
        outs.append(o)
        nontriv.append(not o.startswith("same=1"))
        classes.append(f"kind={a['kind']}/" + o.split(";")[0] + ("/aminusb" if a.get("aminusb") is not None else "")
                       + ("/no-occs" if a.get("occs") is None else ""))
    ctx.corr("tou", reqs, outs, nontriv, classes)
    reqs, outs, nontriv, classes = [], [], [], []
    for a in [None] + mos:
        for allow in (False, True):
            o = impl_prepu(a, allow)
            if o is None:
                continue
            reqs.append(f"prepu {int(allow)} " + ("none" if a is None else mo_args_word(a)))
            outs.append(o)
            nontriv.append(o != "same")
            classes.append(o.split(";")[0])
    ctx.corr("prepu", reqs, outs, nontriv, classes)


# --------------------------------------------------------------------------------------
# S: the property on the real code only


def _fn_list(basis):
    """one descriptor per basis function, in order"""
    out = []
    for sh in basis.shells:
        for l, k, col in zip(sh.angmoms, sh.kinds, sh.coeffs.T):
            for i in range(_nfn(int(l), str(k))):
                out.append((int(sh.icenter), int(l), str(k), sh.exponents.tobytes(), col.tobytes(), i))
    return out


def check_basis(specs, keep):
    from iodata import IOData
    from iodata.convert import convert_to_segmented
    from iodata.overlap import compute_overlap
    from iodata.prepare import prepare_segmented
    from iodata.utils import PrepareDumpError

    bad = []
    b = make_basis(specs)
    s = convert_to_segmented(b, keep)
    if _fn_list(s) != _fn_list(b) or s.nbasis != b.nbasis:
        bad.append(("segment-changes-functions", "function list (centre, l, kind, exponents, coefficients, component) differs"))
    if s.conventions is not b.conventions or s.primitive_normalization != b.primitive_normalization:
        bad.append(("segment-changes-conventions", "conventions / normalisation not carried over"))
    ok = lambda sh: sh.ncon == 1 or (keep and sh.ncon == 2 and list(sh.angmoms) == [0, 1])  # noqa: E731
    if not all(ok(sh) for sh in s.shells):
        bad.append(("segment-leaves-generalized", "a generalized contraction is left"))
    for sh, o in zip(s.shells, b.shells) if all(ok(x) for x in b.shells) else []:
        if sh is not o:
            bad.append(("segment-copies-unchanged-shell", "a shell that needs no conversion was replaced"))
    s2 = convert_to_segmented(s, keep)
    if len(s2.shells) != len(s.shells) or any(x is not y for x, y in zip(s2.shells, s.shells)):
        bad.append(("segment-not-idempotent", "second conversion changes the shells"))
    if b.nbasis and b.nbasis <= 45:
        ncen = 1 + max(sp[0] for sp in specs)
        xyz = np.array([[0.0, 0.25 * i, 0.75 * i] for i in range(ncen)])
        o1, o2 = compute_overlap(b, xyz), compute_overlap(s, xyz)
        if o1.shape != o2.shape or not np.allclose(o1, o2, rtol=1e-13, atol=1e-13 * max(1.0, np.abs(o1).max())):
            bad.append(("segment-changes-overlap", f"overlap differs by {np.abs(o1 - o2).max() if o1.shape == o2.shape else 'shape'}"))
    # prepare_segmented
    need = not all(ok(sh) for sh in b.shells)
    data = IOData(obasis=b)
    for allow in (False, True):
        res, nw = _catch(lambda: prepare_segmented(data, keep, allow, "file", "FMT"))
        if not need:
            if res is not data or nw:
                bad.append(("prepare-segmented-no-identity", "nothing to convert but not the same object / warned"))
        elif not allow:
            if not isinstance(res, PrepareDumpError):
                bad.append(("prepare-segmented-no-error", "conversion needed, not allowed, no PrepareDumpError"))
        else:
            if isinstance(res, Exception) or res is data or nw != 1:
                bad.append(("prepare-segmented-convert", f"conversion allowed: result {type(res).__name__}, {nw} warnings"))
            elif _fn_list(res.obasis) != _fn_list(b) or data.obasis is not b:
                bad.append(("prepare-segmented-changes-functions", "converted object has other functions / input altered"))
    return bad


def _arr_same(a, b):
    if a is None or b is None:
        return a is None and b is None
    return a.shape == b.shape and np.array_equal(a, b)


def check_mo(a):
    from iodata import IOData
    from iodata.convert import convert_to_unrestricted
    from iodata.prepare import prepare_unrestricted_aminusb
    from iodata.utils import PrepareDumpError

    bad = []
    try:
        m = c12.make_mo(a)
    except Exception:
        return bad
    try:
        u = convert_to_unrestricted(m)
    except ValueError:
        if m.kind != "generalized":
            bad.append(("tou-rejects", "non-generalized orbitals rejected"))
        u = None
    except Exception as exc:
        bad.append(("tou-wrong-exception", type(exc).__name__))
        u = None
    if m.kind == "generalized":
        if u is not None:
            bad.append(("tou-accepts-generalized", "generalized orbitals converted"))
    elif u is not None:
        if m.kind == "unrestricted" and u is not m:
            bad.append(("tou-copies-unrestricted", "unrestricted input not returned as is"))
        if u.kind != "unrestricted":
            bad.append(("tou-kind", u.kind))
        for nm in ("occsa", "occsb", "coeffsa", "coeffsb", "energiesa", "energiesb", "irrepsa", "irrepsb"):
            if not _arr_same(getattr(m, nm), getattr(u, nm)):
                bad.append(("tou-changes:" + nm, f"{getattr(m, nm)} -> {getattr(u, nm)}"))
        ne0, ne1, sp0, sp1 = m.nelec, u.nelec, m.spinpol, u.spinpol
        sc = 0.0 if m.occs is None else float(np.abs(m.occs).sum())
        for nm, x, y in (("nelec", ne0, ne1), ("spinpol", sp0, sp1)):
            if (x is None) != (y is None) or (x is not None and abs(x - y) > 8 * 2.0 ** -52 * (sc + 1)):
                bad.append(("tou-changes:" + nm, f"{x} -> {y}"))
        if m.coeffs is not None and m.occs is not None:
            # density and spin density as matrices in the (2-row) AO space
            def dens(x, sign):
                return (x.coeffsa * x.occsa) @ x.coeffsa.T + sign * (x.coeffsb * x.occsb) @ x.coeffsb.T

            if not np.array_equal(dens(m, 1), dens(u, 1)) or not np.array_equal(dens(m, -1), dens(u, -1)):
                bad.append(("tou-changes:density", "density or spin density matrix differs"))
        if convert_to_unrestricted(u) is not u:
            bad.append(("tou-not-idempotent", "second conversion is not the identity on the object"))
    # prepare_unrestricted_aminusb
    data = IOData(mo=m)
    for allow in (False, True):
        res, nw = _catch(lambda: prepare_unrestricted_aminusb(data, allow, "file", "FMT"))
        if m.kind == "generalized":
            if not isinstance(res, ValueError):
                bad.append(("prepare-u-generalized", "generalized orbitals not refused with ValueError"))
        elif m.kind == "unrestricted" or m.occs_aminusb is None:
            if res is not data or nw:
                bad.append(("prepare-u-no-identity", "nothing to convert but not the same object / warned"))
        elif not allow:
            if not isinstance(res, PrepareDumpError):
                bad.append(("prepare-u-no-error", "conversion needed, not allowed, no PrepareDumpError"))
        else:
            if isinstance(res, Exception) or res is data or nw != 1 or res.mo.kind != "unrestricted" or data.mo is not m:
                bad.append(("prepare-u-convert", f"conversion allowed: {type(res).__name__}, {nw} warnings"))
    return bad


def _js_basis(b):
    return [[sp[0], list(sp[1]), list(sp[2]), [str(x) for x in sp[3]], [[str(x) for x in c] for c in sp[4]]] for sp in b]


def _unjs_basis(j):
    return [(sp[0], sp[1], sp[2], [Fr(x) for x in sp[3]], [[Fr(x) for x in c] for c in sp[4]]) for sp in j]


def _js_mo(a):
    return {k: ([str(x) for x in v] if isinstance(v, tuple) else v) for k, v in a.items()}


def _unjs_mo(j):
    return {k: (tuple(Fr(x) for x in v) if isinstance(v, list) else v) for k, v in j.items()}


def _basis_work(item):
    b, keep = item
    try:
        return check_basis(b, keep)
    except Exception as exc:
        return [("predicate-raised:" + type(exc).__name__, str(exc)[:200])]


def _mo_work(a):
    try:
        return check_mo(a)
    except Exception as exc:
        return [("predicate-raised:" + type(exc).__name__, str(exc)[:200])]


def search(ctx):
    import multiprocessing as mp

    rng = ctx.rng
    mult = 4 if ctx.escalated else 1
    bases = fixed_bases() + [rand_basis(rng) for _ in range(ctx.n(1200, 8000) * mult)]
    items = [(b, keep) for b in bases for keep in (False, True)]
    mos = [op[1] for op in c12.constructs()] + [rand_mo_args(rng) for _ in range(ctx.n(6000, 80000) * mult)]
    # almost-integer occupations (as read from a text file): the integer/fractional heuristic must take the same
    # branch for alpha and beta
    near = []
    for a in mos:
        if a.get("kind") == "r" and a.get("occs") and a.get("aminusb") is None and len(near) < ctx.n(1500, 20000):
            eps = rng.choice([1e-7, -1e-7, 3e-8, -1e-9, 1e-6, -1e-6])
            b = dict(a)
            b["occs"] = tuple(float(x) + (eps if float(x) == int(float(x)) and rng.random() < 0.7 else 0.0) for x in a["occs"])
            near.append(b)
    mos += near
    with mp.get_context("fork").Pool(min(14, mp.cpu_count())) as pool:
        res_b = pool.map(_basis_work, items, chunksize=20)
        res_m = pool.map(_mo_work, mos, chunksize=500)
    for (b, keep), bad in zip(items, res_b):
        ctx.count("basis", [_js_basis(b), keep], "ok" if not bad else "+".join(sorted({x[0] for x in bad})),
                  nontrivial=any(len(sp[1]) > 1 for sp in b), sample={"nshell": len(b), "keep": keep})
        for sig, what in {x[0]: x for x in bad}.values():
            ctx.fail(sig, what, {"kind": "basis", "basis": _js_basis(b), "keep": keep})
    for a, bad in zip(mos, res_m):
        ctx.count("orbitals", _js_mo(a), "ok" if not bad else "+".join(sorted({x[0] for x in bad})),
                  nontrivial=a["kind"] == "r", sample=_js_mo(a))
        for sig, what in {x[0]: x for x in bad}.values():
            ctx.fail(sig, what, {"kind": "mo", "mo": _js_mo(a)})


def replay(ctx, obj):
    inp = obj["input"]
    try:
        if inp["kind"] == "basis":
            bad = check_basis(_unjs_basis(inp["basis"]), inp["keep"])
        else:
            bad = check_mo(_unjs_mo(inp["mo"]))
    except Exception as exc:
        bad = [("predicate-raised:" + type(exc).__name__, str(exc))]
    sig = obj.get("signature")
    return any(b[0] == sig for b in bad) if sig else bool(bad)
