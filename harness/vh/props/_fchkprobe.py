"""T1 for the FCHK object mapping: the writer table and the reader table of ``iodata/formats/fchk.py`` obtained by PROBING.

Writer: an object with every optional attribute set to distinct tracer numbers is dumped (once per level of theory that
changes a label); every number of the file is traced back to the attribute element it came from, which gives, per label,
the attribute, the index shuffle (as is / lower triangle / an index vector / rounded integers) and the unit factor.
Reader: the same file with every real number replaced by a distinct tracer is loaded; every element of every attribute is
traced back to the label and position it came from.  Labels that belong to the basis-set / orbital block (and the counters
derived from it) become pass-through rows ``=<label>``.
"""

from __future__ import annotations

import os
import tempfile
import warnings

import numpy as np

NAT = 3
ATNUMS = [8, 6, 1]
CHARGE_KEYS = ["mulliken", "esp", "npa", "mbs", "hirshfeld", "cm5"]
RDM_KEYS = ["scf", "scf_spin", "post_scf_ao", "post_scf_spin_ao"]
LEVEL_LOTS = {"MP2": "mp2", "MP3": "mp3", "CC": "ccsd", "CI": "cisd"}


class Tracer:
    def __init__(self, start):
        self.next = start
        self.where = {}

    def vec(self, attr, n):
        out = []
        for k in range(n):
            self.where[float(self.next)] = (attr, k)
            out.append(float(self.next))
            self.next += 1
        return np.array(out)

    def scaled(self, attr, n, offset, factor):
        """values (tracer + offset) * factor: the quarter tells rounded integer weights from the real ones"""
        out = []
        for k in range(n):
            v = (self.next + offset) * factor
            self.where[float(v)] = (attr, k)
            out.append(float(v))
            self.next += 1
        return np.array(out)

    def sym(self, attr, n):
        m = np.zeros((n, n))
        k = 0
        for i in range(n):
            for j in range(i + 1):
                self.where[float(self.next)] = (attr, k)
                m[i, j] = m[j, i] = float(self.next)
                self.next += 1
                k += 1
        return m


def tracer_object(lot):
    from iodata import IOData
    from iodata.basis import MolecularBasis, Shell
    from iodata.formats.fchk import CONVENTIONS
    from iodata.orbitals import MolecularOrbitals
    from iodata.utils import amu

    t = Tracer(100001)
    kw = {
        "title": "probe", "run_type": "energy", "lot": lot, "obasis_name": "sto-3g",
        "atnums": np.array(ATNUMS), "atcorenums": t.vec("atcorenums", NAT), "atcoords": t.vec("atcoords", 3 * NAT).reshape(NAT, 3),
        "obasis": MolecularBasis([Shell(0, [0], ["c"], np.array([0.5]), np.array([[0.25]]))], CONVENTIONS, "L2"),
        "mo": MolecularOrbitals("restricted", 1, 1, np.array([2.0]), np.array([[0.75]]), np.array([-0.125])),
        "atmasses": t.scaled("atmasses", NAT, 0.25, amu),
        "energy": float(t.vec("energy", 1)[0]),
        "atcharges": {k: t.vec("atcharges." + k, NAT) for k in CHARGE_KEYS},
        "atgradient": t.vec("atgradient", 3 * NAT).reshape(NAT, 3),
        "athessian": t.sym("athessian", 3 * NAT),
        "moments": {(1, "c"): t.vec("moments.1c", 3), (2, "c"): t.vec("moments.2c", 6)},
        "extra": {"polarizability_tensor": t.sym("extra.polarizability_tensor", 3)},
        "one_rdms": {k: t.sym("one_rdms." + k, 1) for k in RDM_KEYS},
    }
    return IOData(**kw), t


def _dump(data) -> str:
    from iodata.api import dump_one

    fd, path = tempfile.mkstemp(suffix=".fchk")
    os.close(fd)
    try:
        with warnings.catch_warnings():
            warnings.simplefilter("ignore")
            dump_one(data, path, fmt="fchk")
        with open(path) as fh:
            return fh.read()
    finally:
        os.unlink(path)


def _load(text: str):
    from iodata.api import load_one

    fd, path = tempfile.mkstemp(suffix=".fchk")
    os.close(fd)
    try:
        with open(path, "w") as fh:
            fh.write(text)
        with warnings.catch_warnings():
            warnings.simplefilter("ignore")
            return load_one(path, fmt="fchk")
    finally:
        os.unlink(path)


def parse_fields(text: str):
    """own reader of the field layer: [(label, 'i'|'r'|'I'|'R', values)] in file order"""
    lines = text.split("\n")
    out = []
    k = 2
    while k < len(lines):
        line = lines[k]
        k += 1
        if not line.strip():
            continue
        label, rest = line[:40].strip(), line[40:].split()
        ty = rest[0]
        conv = int if ty == "I" else float
        if len(rest) == 2:
            out.append((label, ty.lower(), [conv(rest[1])]))
        else:
            n = int(rest[2])
            vals = []
            while len(vals) < n:
                vals += [conv(w) for w in lines[k].split()]
                k += 1
            out.append((label, ty, vals))
    return out


def _tril_order(n):
    return list(range(n * (n + 1) // 2))


def _classify(idx, nsrc):
    if idx == list(range(len(idx))) and len(idx) == nsrc:
        return ("flat",)
    if sorted(idx) == list(range(nsrc)) and len(idx) == nsrc:
        return ("pick", idx)
    raise LookupError(f"unrecognised index map {idx}")


SYM_ATTRS = {"athessian", "extra.polarizability_tensor", *("one_rdms." + k for k in RDM_KEYS)}


def writer_rows():
    from iodata.utils import amu

    rows = None
    per_level = {}
    for level, lot in LEVEL_LOTS.items():
        data, t = tracer_object(lot)
        sizes = {}
        for a, k in t.where.values():
            sizes[a] = max(sizes.get(a, 0), k + 1)
        cur = []
        for label, ty, vals in parse_fields(_dump(data)):
            src = None
            unit = 0
            if ty in ("r", "R"):
                for u, f in ((0, 1.0), (-1, amu), (1, 1.0 / amu)):
                    # attribute value = printed value * f  (unit -1: the writer divided by amu)
                    hits = [t.where.get(_near(t.where, v * f)) for v in vals]
                    if all(h is not None for h in hits):
                        src, unit = hits, u
                        break
            elif ty == "I":
                done = False
                for u, f in ((0, 1.0), (-1, amu), (1, 1.0 / amu)):
                    hits = [t.where.get(_near_round(t.where, v, f)) for v in vals]
                    if all(h is not None for h in hits) and len({h[0] for h in hits}) == 1 and [h[1] for h in hits] == list(range(len(hits))):
                        cur.append((hits[0][0], label, ("round",), u))
                        done = True
                        break
                if done:
                    continue
                if label == "Atomic numbers" and vals == ATNUMS:
                    cur.append(("atnums", label, ("flat",), 0))
                    continue
            if src is None:
                cur.append(("=" + label, label, ("flat",), 0))
                continue
            attrs = {h[0] for h in src}
            if len(attrs) != 1:
                raise LookupError(f"label {label!r} mixes attributes {attrs}")
            attr = attrs.pop()
            idx = [h[1] for h in src]
            if attr in SYM_ATTRS:
                if idx != _tril_order(int(round(((8 * len(idx) + 1) ** 0.5 - 1) / 2))):
                    raise LookupError(f"{label}: not the lower triangle in row-major order: {idx}")
                tr = ("tri",)
            else:
                try:
                    tr = _classify(idx, sizes[attr])
                except LookupError:
                    # a partial view of an attribute (the shell centres repeat atomic coordinates): derived data of the
                    # basis-set block, carried as an opaque field
                    cur.append(("=" + label, label, ("flat",), 0))
                    continue
            cur.append((attr, label, tr, unit))
        per_level[level] = cur
    # the four runs must agree up to the level name inside a label
    base = per_level["MP2"]
    rows = []
    for k, (attr, label, tr, unit) in enumerate(base):
        variants = {lv: per_level[lv][k] for lv in per_level}
        if all(v == (attr, label, tr, unit) for v in variants.values()):
            rows.append((attr, label, tr, unit))
            continue
        templ = label.replace("MP2", "{level}")
        for lv, v in variants.items():
            if v != (attr, templ.replace("{level}", lv), tr, unit):
                raise LookupError(f"label {label!r} varies with the level of theory in an unexpected way: {v}")
        rows.append((attr, templ, tr, unit))
    return rows


def _near(where, x):
    """key of `where` equal to x up to the rounding of one multiplication/division and of the 9 printed digits"""
    for k in where:
        if abs(k - x) <= 2e-8 * max(1.0, abs(x)):
            return k
    return None


def _near_round(where, v, f):
    """the key `a` of `where` with round(a / f) == v, if there is exactly one"""
    ks = [k for k in where if abs(k / f - v) < 0.5]
    return ks[0] if len(ks) == 1 else None


def reader_rows(wrows):
    """load a file whose real numbers are all distinct tracers; trace every attribute element back to its label"""
    from iodata.utils import amu

    rows = {}
    order = []
    for level, lot in LEVEL_LOTS.items():
        data, _ = tracer_object(lot)
        text = _dump(data)
        fields = parse_fields(text)
        # replace the numbers of the real fields that are not part of the basis/orbital block by tracers
        passthrough = {lab for a, lab, _, _ in wrows if a.startswith("=")}
        where = {}
        nxt = 300001
        lines = []
        lines += text.split("\n")[:2]
        for label, ty, vals in fields:
            if ty in ("r", "R") and label not in passthrough:
                new = []
                for k in range(len(vals)):
                    where[float(nxt)] = (label, k)
                    new.append(float(nxt))
                    nxt += 1
                vals = new
            if ty == "i":
                lines.append(f"{label:40}   I     {vals[0]:12d}")
            elif ty == "r":
                lines.append(f"{label:40}   R     {vals[0]: 16.8E}")
            else:
                lines.append(f"{label:40}   {ty}   N={len(vals):12d}")
                per = 6 if ty == "I" else 5
                for b in range(0, len(vals), per):
                    lines.append("".join(f"{v:12d}" if ty == "I" else f"{v: 16.8E}" for v in vals[b : b + per]))
        x = _load("\n".join(lines) + "\n")
        got = {"atnums": x.atnums, "atcorenums": x.atcorenums, "atcoords": x.atcoords, "atmasses": x.atmasses,
               "energy": x.energy, "atgradient": x.atgradient, "athessian": x.athessian}
        for k, v in (x.atcharges or {}).items():
            got["atcharges." + k] = v
        for k, v in (x.moments or {}).items():
            got[f"moments.{k[0]}{k[1]}"] = v
        for k, v in (x.extra or {}).items():
            got["extra." + k] = v
        for k, v in (x.one_rdms or {}).items():
            got["one_rdms." + k] = v
        for attr, v in got.items():
            if v is None:
                continue
            if attr == "atnums":
                if [int(z) for z in v] != ATNUMS:
                    raise LookupError("atnums not read from 'Atomic numbers'")
                row = ("atnums", "Atomic numbers", ("flat",), 0)
            else:
                arr = np.atleast_1d(np.asarray(v, float))
                src, unit = None, 0
                for u, f in ((0, 1.0), (1, 1.0 / amu), (-1, amu)):
                    # file value = attribute value * f  (unit +1: the reader multiplied by amu)
                    hits = [where.get(_near(where, e * f)) for e in arr.ravel()]
                    if all(h is not None for h in hits):
                        src, unit = hits, u
                        break
                if src is None:
                    raise LookupError(f"attribute {attr}: values do not come from the tracer file")
                labels = {h[0] for h in src}
                if len(labels) != 1:
                    raise LookupError(f"attribute {attr} is read from several labels {labels}")
                label = labels.pop()
                idx = [h[1] for h in src]
                if arr.ndim == 2 and arr.shape[0] == arr.shape[1] and attr in SYM_ATTRS:
                    n = arr.shape[0]
                    want = [max(i, j) * (max(i, j) + 1) // 2 + min(i, j) for i in range(n) for j in range(n)]
                    if idx != want:
                        raise LookupError(f"{attr}: not the dense form of a row-major lower triangle: {idx}")
                    tr = ("tri",)
                else:
                    tr = _classify(idx, len(idx))
                row = (attr, label, tr, unit)
            if row[1] not in rows:
                rows[row[1]] = row
                order.append(row[1])
            elif rows[row[1]] != row:
                raise LookupError(f"label {row[1]} read inconsistently: {rows[row[1]]} / {row}")
    out = [rows[lab] for lab in order]
    out += [(a, lab, tr, u) for a, lab, tr, u in wrows if a.startswith("=")]
    return out
