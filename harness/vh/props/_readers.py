"""C03 for the reader-only and log formats (Gaussian log matrices, VASP CHGCAR/LOCPOT, CHARMM CRD, extended XYZ)
and the token-perturbation oracle for the log parsers without a published column layout.

Hooked into ``c03.py`` by one line (``install``): adds the module ``Iodata.Props.C03Readers``, a translator writing
``lean/Iodata/Gen/LayoutsR.lean``, correspondence streams ``fmtr …`` and direct searches.
"""

from __future__ import annotations

import ast
import math
import random
from fractions import Fraction

from .. import engine
from . import _formats as F
from ._layouts import chars, lb

MODULE = "Iodata.Props.C03Readers"

RULE = (
    " || readers (C03Readers): per reader-only format a random model crossing the layout boundaries (Gaussian log: "
    "matrix sizes 1..12 incl. multiples of 5 and 5k±1, any subset/order of the four sections, 'D' exponents, negative and "
    "zero entries; VASP: grids 1..7 per axis incl. unequal counts, non-orthogonal cells, Direct/Cartesian, selective "
    "dynamics, values per line 1..10 with ragged last lines; CRD: fixed and extended records; extXYZ: Lattice, Properties "
    "column typing, quoted values, T/F) is rendered by the Lean spec renderer of the published layout and by an independent "
    "Python writer (spec-writers-agree:<fmt>), then loaded by iodata.api.load_one: spec-load:<fmt> compares the exactly "
    "re-quantised result with the model, load-spec:<fmt> with the Lean reader. token-perturbation (exploration, not proof): "
    "for each log-parser fixture every numeric token is perturbed in turn and the set of changed attribute elements and the new "
    "value (times the documented unit) are compared with the recorded token->attribute map; non-trivial = distinct file/token"
)
TRUSTED = [
    "harness/vh/props/_readers.py: ast extraction of the reader constants/statements, the Python spec writers (cross-checked "
    "byte for byte against the Lean spec renderers), the recorded token->attribute maps in harness/vh/props/_tokenmaps.json",
    "lean/Iodata/Drv/FmtR.lean: hex and object (de)coding",
]
ASSUMPTIONS = [
    "printed numbers carry at most 15 significant digits, so that repr(float(text)) identifies the printed decimal "
    "(IEEE-754 double, DBL_DIG = 15); values scaled by a unit are re-quantised exactly with fractions.Fraction and must be "
    "within 2^-40 relative of the printed decimal times the unit",
    "token-perturbation oracle: exploration support only (which tokens reach which attribute elements), not a proof",
]


# ---------------------------------------------------------------------------------------------
# T1: translator

def _src(fmt):
    return (engine.REPO / "iodata" / "formats" / f"{fmt}.py").read_text()


def _func(tree, name):
    for n in ast.walk(tree):
        if isinstance(n, ast.FunctionDef) and n.name == name:
            return n
    raise LookupError(f"function {name} not found")


def _first(it):
    for x in it:
        return x
    raise LookupError("the source no longer has the statement the translator reads")


def _body(fn):
    """statements without the docstring"""
    b = fn.body
    if b and isinstance(b[0], ast.Expr) and isinstance(b[0].value, ast.Constant) and isinstance(b[0].value.value, str):
        b = b[1:]
    return b


def _head(st):
    """one-line text of a statement (compound statements: the header only)"""
    if isinstance(st, ast.For):
        return f"for {ast.unparse(st.target)} in {ast.unparse(st.iter)}:"
    if isinstance(st, ast.While):
        return f"while {ast.unparse(st.test)}:"
    if isinstance(st, ast.If):
        return f"if {ast.unparse(st.test)}:"
    if isinstance(st, ast.Try):
        return "try:"
    if isinstance(st, ast.ExceptHandler):
        return f"except {ast.unparse(st.type) if st.type else ''}:"
    return ast.unparse(st)


def _flat(stmts):
    """statement heads, nested bodies inlined with a `>` per level"""
    out = []

    def go(sts, lvl):
        for st in sts:
            out.append(">" * lvl + _head(st))
            for attr in ("body", "handlers", "orelse"):
                sub = getattr(st, attr, None)
                if sub and isinstance(st, ast.For | ast.While | ast.If | ast.Try | ast.ExceptHandler):
                    if attr == "orelse":
                        out.append(">" * lvl + "else:")
                    go(sub, lvl + (0 if attr == "handlers" else 1))

    go(stmts, 0)
    return out


def _slices_of(node, var="line"):
    """all `var[a:b]` with constant bounds below ``node`` in source order: (a, b|None)"""
    out = []
    for n in ast.walk(node):
        if isinstance(n, ast.Subscript) and isinstance(n.value, ast.Name) and n.value.id == var and isinstance(n.slice, ast.Slice):
            lo = n.slice.lower.value if n.slice.lower is not None else 0
            hi = n.slice.upper.value if n.slice.upper is not None else None
            out.append((n.lineno, n.col_offset, lo, hi))
    return [(a, b) for _, _, a, b in sorted(out)]


def lstrs(xs):
    return "[" + ", ".join(chars(x) for x in xs) + "]"


def _glog_gen():
    tree = ast.parse(_src("gaussianlog"))
    lo = _func(tree, "load_one")
    two = _func(tree, "_load_twoindex_g09")
    four = _func(tree, "_load_fourindex_g09")
    # the NBasis scan
    scan = _first(st for st in _body(lo) if isinstance(st, ast.For))
    sif = scan.body[0]
    nb_prefix = sif.test.args[0].value
    (nb_sl,) = _slices_of(sif)
    # the marker chain
    loop = _first(st for st in _body(lo) if isinstance(st, ast.While))
    markers = []
    for st in loop.body:
        cur = st
        while isinstance(cur, ast.If):
            t = cur.test
            if not (isinstance(t, ast.Call) and isinstance(t.func, ast.Attribute) and t.func.attr == "startswith"):
                raise LookupError("marker test is not a startswith call")
            markers.append((t.args[0].value, "; ".join(_head(x) for x in cur.body)))
            cur = cur.orelse[0] if len(cur.orelse) == 1 else None
    by_action = {a: m for m, a in markers}
    def marker(action):
        if action not in by_action:
            raise LookupError(f"no marker with action {action!r}")
        return by_action[action]
    # two-index loader
    w = _first(st for st in _body(two) if isinstance(st, ast.While))
    step = _first(st for st in w.body if isinstance(st, ast.AugAssign))
    if not (isinstance(step.op, ast.Add) and isinstance(step.value, ast.Constant)):
        raise LookupError("block step is not `+= const`")
    rows = _first(st for st in w.body if isinstance(st, ast.For))
    wa = rows.body[0]
    if not (isinstance(wa.value, ast.Subscript) and isinstance(wa.value.slice, ast.Slice) and wa.value.slice.upper is None):
        raise LookupError("row words are not `…split()[k:]`")
    skip_words = wa.value.slice.lower.value
    # four-index loader
    fb = _body(four)
    skipfor = _first(st for st in fb if isinstance(st, ast.For) and isinstance(st.iter, ast.Call) and ast.unparse(st.iter.func) == "range")
    four_skip = skipfor.iter.args[0].value
    lines = _first(st for st in fb if isinstance(st, ast.For) and ast.unparse(st.iter) == "lit")
    fpre = lines.body[0].test.operand.args[0].value
    sl = _slices_of(lines)
    call = _first(n for n in ast.walk(lines) if isinstance(n, ast.Call) and ast.unparse(n.func) == "set_four_index_element")
    order = [ast.unparse(a) for a in call.args[1:5]]
    names = ["i0", "i1", "i2", "i3"]
    perm = [names.index(o) for o in order]
    pr = lambda p: f"({p[0]}, {p[1]})"  # noqa: E731
    acts = [f"{d}['{k}'] = {fn}(lit, nbasis)" for d, k, fn in (
        ("one_ints", "olp", "_load_twoindex_g09"), ("one_ints", "kin_ao", "_load_twoindex_g09"),
        ("one_ints", "na_ao", "_load_twoindex_g09"), ("two_ints", "er_ao", "_load_fourindex_g09"))]
    layout = (
        f"def glogL : GLog.Layout :=\n  ⟨{chars(nb_prefix)}, {pr(nb_sl)}, {chars(marker('break'))},\n   "
        + ",\n   ".join(chars(marker(a)) for a in acts)
        + f",\n   {step.value.value}, {skip_words}, {four_skip}, {chars(fpre)}, {pr(sl[0])}, {pr(sl[1])}, {pr(sl[2])}, {pr(sl[3])}, "
        f"{sl[4][0]}, [{', '.join(map(str, perm))}]⟩\n"
    )
    skel = (
        "def glogSkel : GLog.Skel :=\n  ⟨"
        + lstrs(_flat([scan])) + ",\n   ["
        + ", ".join(f"({chars(m)}, {chars(a)})" for m, a in markers) + "],\n   "
        + chars(ast.unparse(w.test)) + ",\n   "
        + lstrs([_head(st) for st in w.body]) + ",\n   "
        + lstrs(_flat(rows.body)) + ",\n   "
        + lstrs(_flat([st for st in fb if st is not lines]) + [_head(lines)]) + ",\n   "
        + lstrs(_flat(lines.body)) + "⟩\n"
    )
    return layout + "\n" + skel


def lean_rat(fr: Fraction) -> str:
    return f"(({fr.numerator} : Rat) / {fr.denominator})"


def _in_consts(node):
    """the constant lists of `x in [...]` tests below ``node`` in source order"""
    out = []
    for n in ast.walk(node):
        if isinstance(n, ast.Compare) and len(n.ops) == 1 and isinstance(n.ops[0], ast.In) and isinstance(n.comparators[0], ast.List):
            out.append((n.lineno, n.col_offset, [e.value for e in n.comparators[0].elts]))
    return [c for _, _, c in sorted(out)]


def _vasp_gen():
    from iodata.utils import angstrom, electronvolt

    tree = ast.parse(_src("chgcar"))
    hdr = _func(tree, "_load_vasp_header")
    grid = _func(tree, "_load_vasp_grid")
    lo = _func(tree, "load_one")
    lp = _func(ast.parse(_src("locpot")), "load_one")
    ins = _in_consts(hdr)
    if len(ins) != 2:
        raise LookupError("expected two `in [...]` tests in _load_vasp_header")
    cw = _first(n for n in ast.walk(hdr) if isinstance(n, ast.Subscript) and isinstance(n.slice, ast.Slice)
                and isinstance(n.value, ast.Call) and ast.unparse(n.value) == "line.split()")
    if cw.slice.lower is not None or not isinstance(cw.slice.upper, ast.Constant):
        raise LookupError("coordinate words are not `line.split()[:k]`")
    cl = lambda cs: "[" + ", ".join(chars(c)[1:-1] for c in cs) + "]"  # noqa: E731
    return (
        f"def vaspL : Vasp.Layout := ⟨{cl(ins[0])}, {cl(ins[1])}, {cw.slice.upper.value}⟩\n\n"
        "def vaspSkel : Vasp.Skel :=\n  ⟨" + lstrs(_flat(_body(hdr))) + ",\n   " + lstrs(_flat(_body(grid))) + ",\n   "
        + lstrs(_flat(_body(lo))) + ",\n   " + lstrs(_flat(_body(lp))) + "⟩\n\n"
        f"def vaspU : Vasp.Units := ⟨{lean_rat(Fraction(angstrom))}, {lean_rat(Fraction(electronvolt))}⟩\n"
    )


def _crd_gen():
    from iodata.utils import amu, angstrom

    tree = ast.parse(_src("charmm"))
    lo = _flat(_body(_func(tree, "load_one")))
    helper = _func(tree, "_helper_read_crd")
    cut = lo.index("data = _helper_read_crd(lit)") + 1
    loop = _first(st for st in _body(helper) if isinstance(st, ast.For))
    idx = {}
    for st in loop.body:
        for n in ast.walk(st):
            if isinstance(n, ast.Subscript) and isinstance(n.value, ast.Name) and n.value.id == "words" and isinstance(n.slice, ast.Constant):
                idx[_head(st).split("words")[0]] = n.slice.value
    want = ["resnums.append(int(", "resnames.append(", "attypes.append(", "pos[i, 0] = float(", "pos[i, 1] = float(",
            "pos[i, 2] = float(", "segid.append(", "resid.append(int(", "atmasses.append(float("]
    missing = [w for w in want if w not in idx]
    if missing:
        raise LookupError(f"CRD record fields not found: {missing}")
    return (
        "def crdL : Crd.Layout := ⟨" + ", ".join(str(idx[w]) for w in want) + "⟩\n\n"
        "def crdSkel : Crd.Skel :=\n  ⟨" + lstrs(lo[:cut]) + ",\n   " + lstrs(_flat(_body(helper))) + "⟩\n\n"
        "def crdReturn : List (List Char) :=\n  " + lstrs(lo[cut:]) + "\n\n"
        f"def crdU : Crd.Units := ⟨{lean_rat(Fraction(angstrom))}, {lean_rat(Fraction(amu))}⟩\n"
    )


def _extxyz_gen():
    from iodata.utils import STRTOBOOL

    tree = ast.parse(_src("extxyz"))
    parts = [lstrs(_flat(_body(_func(tree, fn)))) for fn in ("_convert_title_value", "_parse_properties", "_parse_title", "load_one")]
    tb = ", ".join(f"({chars(k)}, {lb(v)})" for k, v in STRTOBOOL.items())
    return ("def strtoboolT : List (List Char × Bool) :=\n  [" + tb + "]\n\n"
            "def extxyzSkel : List (List (List Char)) :=\n  [" + ",\n   ".join(parts) + "]\n")


GEN_BUILDERS = [_glog_gen, _vasp_gen, _crd_gen, _extxyz_gen]


def build_gen() -> str:
    out = ["import Iodata.Model.FmtR.All", "namespace Iodata.Gen.LayoutsR", "open Iodata.FmtR", ""]
    for b in GEN_BUILDERS:
        out.append(b())
    out.append("end Iodata.Gen.LayoutsR\n")
    return "\n".join(out)


def translate(ctx):
    ctx.gen_write("LayoutsR", build_gen())
    from .c10 import translate as conventions  # Gen/Conventions.lean: wfn_type_codes_published reads the wfn / wfx tables

    conventions(ctx)


# ---------------------------------------------------------------------------------------------
# exact decimals `(neg, man, exp)` = ±man·10^exp

def num_norm(x):
    neg, man, exp = x
    if man == 0:
        return (neg, 0, 0)
    while man % 10 == 0:
        man //= 10
        exp += 1
    return (neg, man, exp)


def enc_num(x):
    return ("-" if x[0] else "") + f"{x[1]}e{x[2]}"


def num_frac(x):
    v = Fraction(x[1]) * Fraction(10) ** x[2]
    return -v if x[0] else v


def num_of_float(v):
    """the shortest decimal that identifies the double (repr); exact for printed decimals of <= 15 digits"""
    from decimal import Decimal

    v = float(v)
    if math.isnan(v) or math.isinf(v):
        return (False, -1, 0)
    t = Decimal(repr(v)).as_tuple()
    man = int("".join(map(str, t.digits)))
    return num_norm((bool(t.sign), man, int(t.exponent)))


def num_scaled(v, unit: Fraction, exp: int):
    """integer mantissa `m` with v ≈ ±m·10^exp·unit (exact rational arithmetic); None if v is not within
    2^-40 (relative) of such a value"""
    v = float(v)
    if math.isnan(v) or math.isinf(v):
        return None
    q = Fraction(v) / unit / Fraction(10) ** exp
    m = round(abs(q))
    if abs(abs(q) - m) > max(Fraction(m), Fraction(1)) * Fraction(1, 2**40):
        return None
    return (math.copysign(1.0, v) < 0) != (unit < 0), m


def fortran_e(x, d, w, ch="E", lead0=True):
    """Fortran `Ew.d` / `Dw.d` text of ±man·10^exp with man < 10^d (mantissa 0.ddd)"""
    neg, man, exp = x
    assert 0 <= man < 10**d
    e = exp + d
    s = ("-" if neg else "") + ("0." if lead0 else ".") + str(man).zfill(d) + ch + ("-" if e < 0 else "+") + f"{abs(e):02d}"
    return s.rjust(w)


def rand_enum(rng, d, emax=99, neg_p=0.4):
    """a `0.ddd E±xx` number: classes for mantissa and printed exponent"""
    r = rng.random()
    if r < 0.12:
        man = 0
    elif r < 0.2:
        man = 10**d - 1
    elif r < 0.28:
        man = 10 ** (d - 1)
    elif r < 0.34:
        man = 1
    else:
        man = rng.randrange(10 ** (d - 1), 10**d)
    r = rng.random()
    if man == 0:
        e = 0
    elif r < 0.5:
        e = rng.choice([0, 1, -1, 2, -2, 3])
    elif r < 0.6:
        e = rng.choice([emax, -emax])
    else:
        e = rng.randint(-min(emax, 30), min(emax, 30))
    return (rng.random() < neg_p, man, e - d)


def _driver_ok(ctx, lines, what):
    outs = ctx.driver(lines)
    for o in outs:
        if not o.startswith("ok "):
            raise engine.InfraError(f"{what}: driver answered {o[:120]}")
    return [bytes.fromhex(o[3:]) for o in outs]


# ---------------------------------------------------------------------------------------------
# Gaussian log

GLOG_MARK = [" *** Overlap *** ", " *** Kinetic Energy *** ", " ***** Potential Energy ***** "]
GLOG_MARK_LEAN = [" *** Overlap ***", " *** Kinetic Energy ***", " ***** Potential Energy *****"]
GLOG_KEYS = ["olp", "kin_ao", "na_ao"]
GLOG_JUNK = [
    " Entering Link 1 = /opt/g03/l1.exe PID=     12345.", " ******************************************", "",
    " #P HF/STO-3G scf(conventional) iop(3/33=5) extralinks=l316 iop(3/27=999)", " I= 9 is not an integral line?"[:0] + " Leave Link  302 at Tue Mar  6 13:48:04 2012",
    "    NAtoms=    3 NActive=    3 NUniq=    2 SFac= 1.69D+00", " One-electron integrals computed using PRISM.", " 1 2 3",
    "                1             2", " IntCnt=         0 ITotal=       206", " Normal  termination? no", "  *** Overlap (not a marker: two blanks)",
]
GLOG_SIZES = [1, 2, 3, 4, 5, 6, 7, 9, 10, 11, 12, 8]


def glog_unique_quads(n):
    out = []
    for i in range(n):
        for j in range(i + 1):
            for k in range(i + 1):
                for l in range(k + 1):
                    if i * (i + 1) // 2 + j >= k * (k + 1) // 2 + l:
                        out.append((i, j, k, l))
    return out


def glog_gen(rng, i, thorough):
    n = GLOG_SIZES[i % len(GLOG_SIZES)] if i < 3 * len(GLOG_SIZES) else rng.randint(1, 12)
    kinds = [0, 1, 2, "E"]
    rng.shuffle(kinds)
    r = rng.random()
    kinds = kinds[: (4 if r < 0.45 else rng.randint(0, 4))]
    if n > (6 if thorough else 5):
        kinds = [k for k in kinds if k != "E"]
    junk = lambda: [rng.choice(GLOG_JUNK) for _ in range(rng.choice([0, 0, 1, 2]))]  # noqa: E731
    secs = []
    for k in kinds:
        secs += [("J", j) for j in junk()]
        if k == "E":
            quads = glog_unique_quads(n)
            rng.shuffle(quads)
            quads = quads[: rng.choice([0, 1, len(quads), max(1, len(quads) // 2)])]
            es = [(q, rand_enum(rng, 12)) for q in quads]
            pre = ["", "", "", " ISMode= 1 Mode= 2 IBase=         1 IBasD=         1    131073",
                   " DBase=     65537 DBasD=     65537    196609 IReset=         1         1",
                   f" IntCnt=         0 ITotal=  {len(es):8d} NWIIB=    131072 ISym2E=0"]
            secs.append(("E", pre, es, rng.choice([" Leave Link  316 at Tue Mar  6 13:48:04 2012, MaxMem=    6291456 cpu:       0.0", "", " end"])))
        else:
            secs.append(("T", k, [rand_enum(rng, 6) for _ in range(n * (n + 1) // 2)]))
    secs += [("J", j) for j in junk()]
    pre = [rng.choice(GLOG_JUNK) for _ in range(rng.randint(0, 3))]
    post = [rng.choice(GLOG_JUNK) for _ in range(rng.randint(0, 2))]
    m = {"n": n, "pre": pre, "secs": secs, "post": post}
    cls = f"n={n}/" + "".join(str(k) for k in kinds) + ("/junk" if any(s[0] == "J" for s in secs) else "")
    return m, cls


def glog_enc(m):
    def sec(s):
        if s[0] == "J":
            return "J:" + F.enc_str(s[1] + "\n")
        if s[0] == "T":
            return f"T{s[1]}:" + F.enc_list(s[2], enc_num)
        return "E:" + F.enc_list(s[1], lambda l: F.enc_str(l + "\n")) + ":" + F.enc_list(
            s[2], lambda e: ".".join(map(str, e[0])) + "." + enc_num(e[1])) + ":" + F.enc_str(s[3] + "\n")
    return ";".join([str(m["n"]), F.enc_list(m["pre"], lambda l: F.enc_str(l + "\n")), F.enc_list(m["secs"], sec, "|"),
                     F.enc_list(m["post"], lambda l: F.enc_str(l + "\n"))])


def glog_write(m):
    """independent writer of the Gaussian layout: 5-column lower-triangular blocks, D14.6; I=/J=/K=/L=/Int= lines"""
    n = m["n"]
    L = list(m["pre"])
    L.append(f"    NBasis ={n:4d}  MinDer = 0  MaxDer = 0")
    for s in m["secs"]:
        if s[0] == "J":
            L.append(s[1])
        elif s[0] == "T":
            L.append(GLOG_MARK_LEAN[s[1]])
            tri = s[2]
            for b in range(0, n, 5):
                cols = range(b, min(b + 5, n))
                L.append("   " + "".join(f"{c + 1:14d}" for c in cols))
                for r in range(b, n):
                    L.append(f"{r + 1:7d}" + "".join(fortran_e(tri[r * (r + 1) // 2 + c], 6, 14, "D") for c in cols if c <= r))
        else:
            L.append(" *** Dumping Two-Electron integrals ***")
            L += s[1]
            for (i, j, k, l), v in s[2]:
                L.append(f" I={i + 1:3d} J={j + 1:3d} K={k + 1:3d} L={l + 1:3d} Int={fortran_e(v, 12, 20, 'D')}")
            L.append(s[3])
    L.append(" Normal termination of Gaussian 03")
    L += m["post"]
    return ("\n".join(L) + "\n").encode()


def glog_expect(m):
    """the arrays the file denotes (last section of a kind wins), as canonical text"""
    n = m["n"]
    res = {0: None, 1: None, 2: None, "E": None}
    for s in m["secs"]:
        if s[0] == "T":
            tri = s[2]
            res[s[1]] = [num_norm(tri[max(r, c) * (max(r, c) + 1) // 2 + min(r, c)]) for r in range(n) for c in range(n)]
        elif s[0] == "E":
            arr = {}
            for (i, j, k, l), v in s[2]:
                for a, b, c, d in ((i, j, k, l), (j, i, k, l), (i, j, l, k), (j, i, l, k), (k, l, i, j), (l, k, i, j), (k, l, j, i), (l, k, j, i)):
                    arr[(a, c, b, d)] = num_norm(v)  # (ab|cd) = <ac|bd>
            res["E"] = [arr.get((a, b, c, d), (False, 0, 0)) for a in range(n) for b in range(n) for c in range(n) for d in range(n)]
    return "ok " + ";".join("-" if res[k] is None else F.enc_list(res[k], enc_num) for k in (0, 1, 2, "E"))


def glog_impl_line(raw):
    r = F.real_load(raw, "gaussianlog")
    if not r.ok:
        return "err " + r.err
    d = r.value
    parts = []
    one = d.one_ints or {}
    for k in GLOG_KEYS:
        a = one.get(k)
        parts.append("-" if a is None else F.enc_list([num_of_float(v) for v in a.ravel()], enc_num))
    a = (d.two_ints or {}).get("er_ao")
    parts.append("-" if a is None else F.enc_list([num_of_float(v) for v in a.ravel()], enc_num))
    return "ok " + ";".join(parts)


# ---------------------------------------------------------------------------------------------
# exact rationals `n/d` (Lean `Rat`) and snapping of loaded doubles onto them

def enc_rat(fr: Fraction) -> str:
    return f"{fr.numerator}/{fr.denominator}"


def dec_rat(s: str) -> Fraction:
    n, d = s.split("/")
    return Fraction(int(n), int(d))


REL = Fraction(1, 2**40)


def snap_list(vals, ref_tokens, floor=Fraction(0)):
    """replace each loaded double by the reference token when it is within 2^-40 (relative; `floor` is the absolute
    allowance for sums with cancellation) of the exact reference value; anything else is printed as `!<repr>`"""
    vals = [float(v) for v in vals]
    if len(vals) != len(ref_tokens):
        return f"!shape{len(vals)}"
    out = []
    for v, tok in zip(vals, ref_tokens):
        ref = dec_rat(tok)
        ok = not (math.isnan(v) or math.isinf(v)) and abs(Fraction(v) - ref) <= REL * abs(ref) + floor
        out.append(tok if ok else "!" + repr(v))
    return ",".join(out) if out else "@"


def fixed_text(x, d, w):
    """`%w.df` text of the exact decimal ±man·10^-d"""
    neg, man, exp = x
    assert exp == -d
    digits = str(man).zfill(d + 1)
    return (("-" if neg else "") + digits[:-d] + "." + digits[-d:]).rjust(w)


def rand_fixed(rng, d, int_digits, int_digits_neg=None):
    """a `%w.df` number with at most ``int_digits`` integer digits (``int_digits_neg`` when negative: the sign takes a column)"""
    neg, mag = F.rand_fx(rng, d, int_digits, int_digits_neg)
    return (neg, mag, -d)


# ---------------------------------------------------------------------------------------------
# VASP CHGCAR / LOCPOT

VASP_DIMS = [(1, 1, 1), (2, 3, 4), (7, 1, 2), (3, 5, 2), (1, 6, 3), (4, 4, 4), (5, 2, 7), (2, 7, 1), (6, 3, 5), (3, 1, 1), (1, 1, 5), (7, 7, 2)]
VASP_SCALES = [100000000000000, 50000000000000, 357000000000000, 1000000000000000, 99999999999999, 250000000000000]


def vasp_gen(rng, i, thorough):
    sym_z = [1, 5, 6, 7, 8, 14, 26, 29, 78, 92, 118, 2]
    shape = VASP_DIMS[i % len(VASP_DIMS)] if i < 2 * len(VASP_DIMS) else tuple(rng.randint(1, 7) for _ in range(3))
    ortho = rng.random() < 0.25
    cell = []
    for r in range(3):
        row = []
        for c in range(3):
            if r == c:
                row.append((False, rng.randint(2_000_000, 15_000_000), -6))
            elif ortho:
                row.append((False, 0, -6))
            else:
                row.append((rng.random() < 0.5, rng.randint(0, 900_000), -6))
        cell.append(row)
    nel = rng.randint(1, 3)
    zs = rng.sample(sym_z, nel)
    elems = [(z, rng.randint(1, 3)) for z in zs]
    natom = sum(c for _, c in elems)
    cart = rng.random() < 0.5
    coords = [[rand_fixed(rng, 6, *((2, 1) if cart else (1, 1))) for _ in range(3)] for _ in range(natom)]
    sel = rng.random() < 0.4
    vals = [rand_enum(rng, 11, emax=60) for _ in range(shape[0] * shape[1] * shape[2])]
    per = rng.choice([5, 5, 5, 10, 1, 2, 3, 4, 6, 7])
    chunks = [vals[k:k + per] for k in range(0, len(vals), per)]
    kind = "chgcar" if i % 2 == 0 else "locpot"
    tail = []
    if kind == "chgcar" and rng.random() < 0.5:
        tail = ["augmentation occupancies   1  15", "  0.2743786E+00 -0.3307158E-01  0.0000000E+00  0.0000000E+00  0.0000000E+00"]
    m = {"kind": kind, "title": F.rand_title(rng, allow_empty=False), "scaling": (False, rng.choice(VASP_SCALES), -14), "cell": cell,
         "elems": elems, "sel": sel, "cart": cart, "coords": coords, "flags": [rng.choice("TF") for _ in range(3)], "shape": shape,
         "chunks": chunks, "tail": tail}
    cls = f"{kind}/{'x'.join(map(str, shape))}/{'ortho' if ortho else 'tric'}/{'cart' if cart else 'direct'}/sel={int(sel)}/per={per}"
    return m, cls


def vasp_enc(m):
    flat = lambda rows: F.enc_list([x for r in rows for x in r], enc_num)  # noqa: E731
    return ";".join([
        F.enc_str(m["title"]), enc_num(m["scaling"]), flat(m["cell"]), F.enc_list(m["elems"], lambda e: f"{e[0]}:{e[1]}"),
        str(int(m["sel"])), str(int(m["cart"])), flat(m["coords"]), F.enc_list(m["flags"], F.enc_str),
        ".".join(map(str, m["shape"])), F.enc_list(m["chunks"], lambda c: F.enc_list(c, enc_num), "|"),
        F.enc_list(m["tail"], lambda l: F.enc_str(l + "\n"))])


def vasp_write(m):
    """independent writer of the VASP 5 CHGCAR/LOCPOT layout"""
    from iodata.periodic import num2sym

    L = [m["title"], fixed_text(m["scaling"], 14, 19)]
    for row in m["cell"]:
        L.append("".join(fixed_text(x, 6, 13) for x in row))
    L.append("".join(f"{num2sym[z]:>5s}" for z, _ in m["elems"]))
    L.append("".join(f"{c:6d}" for _, c in m["elems"]))
    if m["sel"]:
        L.append("Selective dynamics")
    L.append("Cartesian" if m["cart"] else "Direct")
    for row in m["coords"]:
        L.append("".join(fixed_text(x, 6, 10) for x in row) + ("".join(f"   {f}" for f in m["flags"]) if m["sel"] else ""))
    L.append("")
    L.append("".join(f"{n:5d}" for n in m["shape"]))
    for c in m["chunks"]:
        L.append("".join(fortran_e(x, 11, 18, "E", lead0=not x[0]) for x in c))
    return ("\n".join(L) + "\n").encode() + "".join(l + "\n" for l in m["tail"]).encode()


def _vasp_units():
    from iodata.utils import angstrom, electronvolt

    return Fraction(angstrom), Fraction(electronvolt)


def vasp_expect(m):
    """what the file denotes, exactly (rationals), in the driver's encoding"""
    ang, ev = _vasp_units()
    sc = num_frac(m["scaling"])
    cellv = [[num_frac(x) * (ang * sc) for x in row] for row in m["cell"]]
    if m["cart"]:
        coords = [[num_frac(x) * ang * sc for x in row] for row in m["coords"]]
    else:
        coords = [[sum(num_frac(row[i]) * cellv[i][j] for i in range(3)) for j in range(3)] for row in m["coords"]]
    nx, ny, nz = m["shape"]
    axes = [[cellv[i][j] / m["shape"][i] for j in range(3)] for i in range(3)]
    (a, b, c), (d, e, f), (g, h, k) = cellv
    det = a * (e * k - f * h) - b * (d * k - f * g) + c * (d * h - e * g)
    fac = 1 / abs(det) if m["kind"] == "chgcar" else ev
    vals = [x for ch in m["chunks"] for x in ch]
    data = [num_frac(vals[i + nx * (j + ny * l)]) * fac for i in range(nx) for j in range(ny) for l in range(nz)]
    atnums = [z for z, c in m["elems"] for _ in range(c)]
    flat = lambda rows: F.enc_list([x for r in rows for x in r], enc_rat)  # noqa: E731
    return "ok " + ";".join([F.enc_str(m["title"]), F.enc_list(atnums, str), flat(cellv), flat(coords), f"{nx}.{ny}.{nz}",
                             flat(axes), F.enc_list(data, enc_rat)])


def vasp_impl(raw, ref, kind):
    """load with the real code and snap every number onto the reference line ``ref`` (exact rationals)"""
    r = F.real_load(raw, kind)
    if not r.ok:
        return "err " + r.err
    if not ref.startswith("ok "):
        return "ok <loaded>"
    d = r.value
    rf = ref[3:].split(";")
    if len(rf) != 7:
        return "ok <reference malformed>"
    toks = lambda s: [] if s == "@" else s.split(",")  # noqa: E731
    cell_ref = [abs(dec_rat(t)) for t in toks(rf[2])]
    floor = REL * max(cell_ref, default=Fraction(0)) * 512
    cube = d.cube
    return "ok " + ";".join([
        F.enc_str(d.title), F.enc_list([int(z) for z in d.atnums], str),
        snap_list(d.cellvecs.ravel(), toks(rf[2])), snap_list(d.atcoords.ravel(), toks(rf[3]), floor),
        ".".join(str(int(n)) for n in cube.data.shape), snap_list(cube.axes.ravel(), toks(rf[5])),
        snap_list(cube.data.ravel(), toks(rf[6]))])


# ---------------------------------------------------------------------------------------------
# CHARMM CRD

CRD_NAMES = ["ALA", "THR", "TIP3", "HSD", "G", "CYS1", "X"]
CRD_TYPES = ["N", "CA", "HT1", "OH2", "OT2X", "C", "H5''"[:4], "O1P"]
CRD_SEG = ["MAIN", "W", "PROA", "S1"]
CRD_SIZES = [1, 2, 3, 9, 10, 11, 99, 100, 101, 0]


def crd_gen(rng, i, thorough):
    n = CRD_SIZES[i % len(CRD_SIZES)] if i < 2 * len(CRD_SIZES) else rng.randint(1, 40)
    if thorough and i % 40 == 39:
        n = rng.choice([999, 1000, 1001])
    tl = []
    for _ in range(rng.choice([0, 1, 2, 4])):
        t = F.rand_title(rng, allow_empty=False)
        tl.append(rng.choice(["", " ", "  "]) + t)
    atoms = []
    for k in range(n):
        atoms.append({"resnum": rng.choice([1, 9, 10, 99, 100, 999, 1000, 9999, rng.randint(1, 9999)]), "resname": rng.choice(CRD_NAMES),
                      "attype": rng.choice(CRD_TYPES), "xyz": [rand_fixed(rng, 5, 3, 2) for _ in range(3)], "segid": rng.choice(CRD_SEG),
                      "resid": rng.choice([1, 46, 999, 9999, rng.randint(0, 9999)]), "mass": (False, F.rand_mag(rng, 5, 3), -5)})
    touching = bool(atoms) and i % 10 == 7
    if touching:
        # a coordinate that fills its ten columns: valid card format, no blank in front of it
        atoms[rng.randrange(len(atoms))]["xyz"][rng.randint(0, 2)] = rng.choice([(True, rng.randint(10_000_000, 99_999_999), -5),
                                                                            (False, rng.randint(100_000_000, 999_999_999), -5)])
    m = {"title": tl, "atoms": atoms}
    return m, f"natom={n if n in CRD_SIZES or n > 900 else 'rand'}/title={len(tl)}" + ("/touching" if touching else "")


def crd_cause(m):
    """the region where the reader provably deviates from the card format (Props: crd_touching_fields_violated)"""
    if any(len(_dec_text(x)) >= 10 for a in m["atoms"] for x in [*a["xyz"], a["mass"]]):
        return "touching-fields"
    return None


def crd_enc(m):
    def at(a):
        return ":".join([str(a["resnum"]), F.enc_str(a["resname"]), F.enc_str(a["attype"]), *(enc_num(x) for x in a["xyz"]),
                         F.enc_str(a["segid"]), str(a["resid"]), enc_num(a["mass"])])
    return F.enc_list(m["title"], F.enc_str) + ";" + F.enc_list(m["atoms"], at)


def crd_write(m):
    """independent writer of the CHARMM card format (I5,I5,1X,A4,1X,A4,3F10.5,1X,A4,1X,A4,F10.5)"""
    L = ["*" + t for t in m["title"]] + ["*", f"{len(m['atoms']):5d}"]
    for k, a in enumerate(m["atoms"]):
        L.append(f"{k + 1:5d}{a['resnum']:5d} {a['resname']:<4s} {a['attype']:<4s}" + "".join(fixed_text(x, 5, 10) for x in a["xyz"])
                 + f" {a['segid']:<4s} {str(a['resid']):<4s}" + fixed_text(a["mass"], 5, 10))
    return ("\n".join(L) + "\n").encode()


def _crd_units():
    from iodata.utils import amu, angstrom

    return Fraction(angstrom), Fraction(amu)


def crd_expect(m):
    ang, amu = _crd_units()
    title = "".join(t + "\n" for t in m["title"])
    at = lambda a: f"{a['resnum']}:{F.enc_str(a['resname'])}:{F.enc_str(a['attype'])}:{F.enc_str(a['segid'])}:{a['resid']}"  # noqa: E731
    return "ok " + ";".join([F.enc_str(title), F.enc_list(m["atoms"], at),
                             F.enc_list([num_frac(x) * ang for a in m["atoms"] for x in a["xyz"]], enc_rat),
                             F.enc_list([num_frac(a["mass"]) * amu for a in m["atoms"]], enc_rat)])


def crd_impl(raw, ref):
    r = F.real_load(raw, "charmm")
    if not r.ok:
        return "err " + r.err
    if not ref.startswith("ok "):
        return "ok <loaded>"
    d = r.value
    rf = ref[3:].split(";")
    toks = lambda s: [] if s == "@" else s.split(",")  # noqa: E731
    ff, ex = d.atffparams, d.extra
    n = len(d.atmasses)
    ats = [f"{int(ff['resnums'][k])}:{F.enc_str(str(ff['resnames'][k]))}:{F.enc_str(str(ff['attypes'][k]))}:"
           f"{F.enc_str(str(ex['segid'][k]))}:{int(ex['resid'][k])}" for k in range(n)]
    return "ok " + ";".join([F.enc_str(d.title), F.enc_list(ats, str), snap_list(d.atcoords.ravel(), toks(rf[2])),
                             snap_list(d.atmasses, toks(rf[3]))])


# ---------------------------------------------------------------------------------------------
# extended XYZ

EXT_WORDS = ["abc", "Water", "run_7", "x-y", "a.b", "PBE0", "tag"]
EXT_SIZES = [1, 2, 3, 9, 10, 11, 0, 4]


def _dec_text(x):
    """plain decimal text of ±man·10^exp (exp <= 0)"""
    neg, man, exp = x
    d = -exp
    if d == 0:
        return ("-" if neg else "") + str(man)
    digits = str(man).zfill(d + 1)
    return ("-" if neg else "") + digits[:-d] + "." + digits[-d:]


def _ext_val(rng, dtype):
    if dtype == "R":
        return rand_fixed(rng, rng.choice([1, 4, 8]), 2)
    if dtype == "I":
        return rng.choice([0, 1, 7, 42, 1000, -3, -12])
    if dtype == "L":
        return rng.choice(["T", "F", "True", "false", "1", "0", "yes", "N"])
    return rng.choice(EXT_WORDS + ["averyveryverylongatomlabel_25c", "averyveryverylongatomlabel_26ch"])


def extxyz_gen(rng, i, thorough):
    from iodata.periodic import num2sym

    n = EXT_SIZES[i % len(EXT_SIZES)] if i < 2 * len(EXT_SIZES) else rng.randint(1, 30)
    zmode = rng.choice(["species", "species", "Z", "both"])
    props = [("pos", "R", 3)]
    props.insert(rng.randint(0, 1), ("species", "S", 1) if zmode != "Z" else ("Z", "I", 1))
    if zmode == "both":
        props.insert(rng.randint(0, len(props)), ("Z", "I", 1))
    if rng.random() < 0.4:
        props.insert(rng.randint(0, len(props)), ("masses", "R", 1))
    if rng.random() < 0.4:
        props.insert(rng.randint(0, len(props)), ("force", "R", 3))
    for k in range(rng.choice([0, 0, 1, 2])):
        props.insert(rng.randint(0, len(props)), (f"{rng.choice(['tags', 'q', 'lab', 'mom'])}{k}", rng.choice("SRIL"), rng.randint(1, 3)))
    atoms = []
    for _ in range(n):
        z = rng.randint(1, 118)
        cells = []
        for name, dt, nc in props:
            if name == "Z" and zmode != "species":
                cells.append([("Z", z, str(z))])
            elif name == "species" and zmode == "species":
                sym = num2sym[z]
                cells.append([("Z", z, rng.choice([sym, sym.upper(), sym.lower(), str(z)]))])
            elif name == "species":
                cells.append([("S", num2sym[z])])
            elif name in ("pos", "force", "masses"):
                cells.append([("R", rand_fixed(rng, rng.choice([4, 8, 10]), 3)) for _ in range(nc if name != "masses" else 1)])
            else:
                cells.append([(dt, _ext_val(rng, dt)) for _ in range(nc)])
        atoms.append(cells)
    pairs = [("Properties", ":".join(f"{a}:{b}:{c}" for a, b, c in props), "bare")]
    m = {"n": n, "props": props, "zmode": zmode, "atoms": atoms, "lattice": None, "energy": None, "charge": None, "extra": []}
    if rng.random() < 0.7:
        m["lattice"] = [rand_fixed(rng, rng.choice([1, 6, 8]), 2) for _ in range(9)]
        pairs.append(("Lattice", " ".join(_dec_text(x) for x in m["lattice"]), "dq"))
    if rng.random() < 0.5:
        m["energy"] = rand_fixed(rng, 9, 3)
        pairs.append(("energy", _dec_text(m["energy"]), "bare"))
    if rng.random() < 0.3:
        q = rng.choice([0, 1, 2])
        m["charge"] = (q != 0 and rng.random() < 0.5, q, 0)  # the charge is re-derived from nelec: the sign of a zero is not kept
        pairs.append(("charge", _dec_text(m["charge"]), "bare"))
    if rng.random() < 0.5:
        b = [rng.random() < 0.5 for _ in range(3)]
        m["extra"].append(("pbc", "Tb", b))
        pairs.append(("pbc", " ".join("T" if x else "F" for x in b), rng.choice(["dq", "sq"])))
    for k in range(rng.choice([0, 1, 2, 3])):
        key = f"k{k}_{rng.choice(EXT_WORDS)}"
        kind = rng.choice(["i", "f", "b", "s", "Ti", "Tf", "Ts", "flag", "s2"])
        if kind == "i":
            v = rng.choice([0, 5, 12345]); m["extra"].append((key, "i", v)); pairs.append((key, str(v), "bare"))
        elif kind == "f":
            v = rand_fixed(rng, 3, 2); m["extra"].append((key, "f", v)); pairs.append((key, _dec_text(v), rng.choice(["bare", "dq"])))
        elif kind == "b":
            v = rng.random() < 0.5; m["extra"].append((key, "b", v)); pairs.append((key, rng.choice(["T", "true"]) if v else rng.choice(["F", "no"]), "bare"))
        elif kind == "s":
            v = rng.choice(EXT_WORDS); m["extra"].append((key, "s", v)); pairs.append((key, v, rng.choice(["bare", "dq", "sq"])))
        elif kind == "Ti":
            v = [rng.randint(-5, 50) for _ in range(rng.randint(2, 4))]; m["extra"].append((key, "Ti", v)); pairs.append((key, " ".join(map(str, v)), "dq"))
        elif kind == "Tf":
            v = [rand_fixed(rng, 2, 2) for _ in range(rng.randint(2, 4))]; m["extra"].append((key, "Tf", v)); pairs.append((key, " ".join(map(_dec_text, v)), "dq"))
        elif kind == "Ts":
            v = [rng.choice(EXT_WORDS) for _ in range(rng.randint(2, 3))]; m["extra"].append((key, "Ts", v)); pairs.append((key, " ".join(v), rng.choice(["dq", "sq"])))
        elif kind == "s2":
            v = 'say "hi"'; m["extra"].append((key, "Ts", ["say", '"hi"'])); pairs.append((key, v, "esc"))
        else:
            m["extra"].append((key, "b", True)); pairs.append((key, None, "flag"))
    rng.shuffle(pairs)
    m["pairs"] = pairs
    m["sep"] = rng.choice([" ", "  ", "\t"])
    cls = f"n={n if n in EXT_SIZES else 'rand'}/{zmode}/lat={int(m['lattice'] is not None)}/props={len(props)}/extra={len(m['extra'])}"
    return m, cls


def extxyz_write(m):
    """independent writer of the ASE extended XYZ layout"""
    def pair(k, v, q):
        if q == "flag":
            return k
        if q == "dq":
            return f'{k}="{v}"'
        if q == "sq":
            return f"{k}='{v}'"
        if q == "esc":
            return k + '="' + v.replace('"', '\\"') + '"'
        return f"{k}={v}"
    L = [str(m["n"]), " ".join(pair(*p) for p in m["pairs"])]
    for cells in m["atoms"]:
        words = []
        for col in cells:
            for c in col:
                if c[0] == "Z":
                    words.append(c[2])
                elif c[0] == "R":
                    words.append(_dec_text(c[1]))
                else:
                    words.append(str(c[1]))
        L.append(m["sep"].join(words))
    return ("\n".join(L) + "\n").encode()


def _ext_bool(w):
    return w.lower() in ("t", "true", "1", "yes", "y", "on")


def extxyz_expect(m):
    ang, amu = _crd_units()
    title = " ".join
    raw = extxyz_write(m).decode().split("\n")
    out = ["ok " + F.enc_str(raw[1].strip())]
    out.append("-" if m["lattice"] is None else F.enc_list([num_frac(x) * ang for x in m["lattice"]], enc_rat))
    out.append("-" if m["energy"] is None else enc_num(num_norm(m["energy"])))
    out.append("-" if m["charge"] is None else enc_num(num_norm(m["charge"])))
    cols = {name: [c for cells in m["atoms"] for c in cells[k]] for k, (name, _, _) in enumerate(m["props"])}
    zname = "Z" if m["zmode"] != "species" else "species"
    out.append(F.enc_list([c[1] for c in cols[zname]], str))
    out.append(F.enc_list([num_frac(c[1]) * ang for c in cols["pos"]], enc_rat))
    out.append("-" if "masses" not in cols else F.enc_list([num_frac(c[1]) * amu for c in cols["masses"]], enc_rat))
    out.append("-" if "force" not in cols else F.enc_list([num_norm((not c[1][0], c[1][1], c[1][2])) for c in cols["force"]], enc_num))
    extra = {}
    for k, (name, dt, nc) in enumerate(m["props"]):
        if name in ("pos", "masses", "force", zname):
            continue
        vals = cols[name]
        code = {"S": "S", "R": "F", "I": "I", "L": "B"}[dt] + str(0 if nc == 1 else nc)
        enc = {"S": lambda c: F.enc_str(str(c[1])[:25]), "R": lambda c: enc_num(num_norm(c[1])), "I": lambda c: str(c[1]),
               "L": lambda c: str(int(_ext_bool(c[1])))}[dt]
        extra[name] = code + ":" + F.enc_list(vals, enc)
    for key, kind, v in m["extra"]:
        if kind == "i":
            extra[key] = f"i:{v}"
        elif kind == "f":
            extra[key] = "f:" + enc_num(num_norm(v))
        elif kind == "b":
            extra[key] = f"b:{int(v)}"
        elif kind == "s":
            extra[key] = "s:" + F.enc_str(v)
        elif kind == "Ti":
            extra[key] = "Ti:" + F.enc_list(v, str)
        elif kind == "Tf":
            extra[key] = "Tf:" + F.enc_list([num_norm(x) for x in v], enc_num)
        elif kind == "Tb":
            extra[key] = "Tb:" + F.enc_list(v, lambda b: str(int(b)))
        elif kind == "Ts":
            extra[key] = "Ts:" + F.enc_list(v, F.enc_str)
    out.append(F.enc_list(sorted(extra), lambda k: F.enc_str(k) + "=" + extra[k]))
    return ";".join(out)


def _ext_enc_value(v):
    import numpy as np

    if isinstance(v, bool | np.bool_):
        return f"b:{int(v)}"
    if isinstance(v, int | np.integer):
        return f"i:{int(v)}"
    if isinstance(v, float | np.floating):
        return "f:" + enc_num(num_of_float(v))
    if isinstance(v, str):
        return "s:" + F.enc_str(v)
    if isinstance(v, np.ndarray):
        k = v.dtype.kind
        return {"i": "i", "f": "f", "b": "b", "U": "s"}.get(k, "?"), v
    return "?:" + type(v).__name__


def extxyz_impl(raw, ref, natom_hint=None):
    import numpy as np

    r = F.real_load(raw, "extxyz")
    if not r.ok:
        return "err " + r.err
    if not ref.startswith("ok "):
        return "ok <loaded>"
    d = r.value
    rf = ref[3:].split(";")
    toks = lambda s: [] if s in ("@", "-") else s.split(",")  # noqa: E731
    out = ["ok " + F.enc_str(d.title)]
    out.append("-" if d.cellvecs is None else snap_list(d.cellvecs.ravel(), toks(rf[1])))
    out.append("-" if d.energy is None else enc_num(num_of_float(d.energy)))
    out.append("-" if d.charge is None else enc_num(num_of_float(d.charge)))
    out.append("-" if d.atnums is None else F.enc_list([int(z) for z in d.atnums], str))
    out.append("-" if d.atcoords is None else snap_list(d.atcoords.ravel(), toks(rf[5])))
    out.append("-" if d.atmasses is None else snap_list(d.atmasses.ravel(), toks(rf[6])))
    out.append("-" if d.atgradient is None else F.enc_list([num_of_float(v) for v in d.atgradient.ravel()], enc_num))
    natom = None if d.atcoords is None else len(d.atcoords)
    extra = {}
    for key, v in (d.extra or {}).items():
        e = _ext_enc_value(v)
        if isinstance(e, tuple):
            code, arr = e
            enc = {"i": lambda x: str(int(x)), "f": lambda x: enc_num(num_of_float(x)), "b": lambda x: str(int(x)),
                   "s": lambda x: F.enc_str(str(x))}.get(code, lambda x: "?")
            per_atom = natom is not None and arr.ndim >= 1 and arr.shape[0] == natom and (arr.ndim == 2 or _is_column(ref, key))
            if per_atom:
                e = {"i": "I", "f": "F", "b": "B", "s": "S"}.get(code, "?") + str(0 if arr.ndim == 1 else arr.shape[1]) + ":" + F.enc_list(arr.ravel(), enc)
            else:
                e = "T" + code + ":" + F.enc_list(arr.ravel(), enc)
        extra[str(key)] = e
    out.append(F.enc_list(sorted(extra), lambda k: F.enc_str(k) + "=" + extra[k]))
    return ";".join(out)


def _is_column(ref, key):
    """a 1-D array of length natom is a per-atom column iff the title's Properties names it (read from the reference line)"""
    ex = ref[3:].split(";")[-1]
    for item in ([] if ex == "@" else ex.split(",")):
        k, _, code = item.partition("=")
        if k == F.enc_str(key):
            return code[0] in "IFBS"
    return False


FORMATS = {
    "glog": dict(fields=["one_ints.olp", "one_ints.kin_ao", "one_ints.na_ao", "two_ints.er_ao"], gen=glog_gen, enc=glog_enc, write=glog_write, expect=glog_expect, impl=lambda raw, ref, m: glog_impl_line(raw),
                 fmt="gaussianlog", n=(36, 300), load=lambda m: "glog"),
    "crd": dict(fields=["title", "atffparams/extra", "atcoords", "atmasses"], gen=crd_gen, enc=crd_enc, write=crd_write,
                expect=crd_expect, impl=lambda raw, ref, m: crd_impl(raw, ref), cause=crd_cause, fmt="charmm", n=(30, 300), load=lambda m: "crd"),
    "extxyz": dict(fields=["title", "cellvecs", "energy", "charge", "atnums", "atcoords", "atmasses", "atgradient", "extra"],
                   gen=extxyz_gen, enc=None, write=extxyz_write, expect=extxyz_expect, impl=lambda raw, ref, m: extxyz_impl(raw, ref),
                   fmt="extxyz", n=(40, 400), load=lambda m: "extxyz"),
    "vasp": dict(fields=["title", "atnums", "cellvecs", "atcoords", "cube.shape", "cube.axes", "cube.data"], gen=vasp_gen, enc=vasp_enc, write=vasp_write, expect=vasp_expect,
                 impl=lambda raw, ref, m: vasp_impl(raw, ref, m["kind"]), fmt="chgcar/locpot", n=(36, 300), load=lambda m: m["kind"]),
}


def _diff_kind(a: str, b: str, names=None):
    if a.startswith("err") or b.startswith("err"):
        return "load-fails" if a.startswith("err") else "unexpected-ok"
    pa, pb = a[3:].split(";"), b[3:].split(";")
    for k, (x, y) in enumerate(zip(pa, pb)):
        if x != y:
            nm = names[k] if names and k < len(names) else f"field{k}"
            xs, ys = x.split(","), y.split(",")
            if len(xs) != len(ys) or x.startswith("!shape"):
                return f"{nm}:shape"
            return f"{nm}:value"
    return "fields"


def run_format(ctx, key, n, do_corr=True):
    """spec-writers-agree / spec-load (direct: real code vs the model the file was written from) / load-spec (Lean reader).
    Values that went through floating-point arithmetic are compared exactly-rationally: the implementation's line is built by
    snapping each loaded double onto the reference line (see ``snap_list``)."""
    fm = FORMATS[key]
    rng = ctx.rng
    ms = [fm["gen"](rng, i, ctx.thorough) for i in range(n)]
    if fm["enc"] is None:  # no Lean renderer for the whole file: the Python writer of the published layout is the only one
        raws = [fm["write"](m) for m, _ in ms]
    else:
        raws = _driver_ok(ctx, [f"fmtr spec {key} {fm['enc'](m)}" for m, _ in ms], key)
    lreq, limp, lcls = [], [], []
    for (m, cls), raw in zip(ms, raws):
        py = fm["write"](m)
        same = py == raw
        if fm["enc"] is not None:
            ctx.count(f"spec-writers-agree:{key}", None, "same" if same else "DIFFER", nontrivial=False)
        if not same:
            k = next((i for i, (a, b) in enumerate(zip(py, raw)) if a != b), min(len(py), len(raw)))
            ctx.obligation(f"spec-writers-agree:{key}", False,
                           f"Lean specRender and the Python spec writer differ at byte {k}: {raw[max(0, k - 60):k + 40]!r} vs {py[max(0, k - 60):k + 40]!r}")
        expect = fm["expect"](m)
        line = fm["impl"](py, expect, m)
        ok = line == expect
        ctx.count(f"spec-load:{key}", py.hex()[:6000], cls + ("" if ok else "/DIFF"), sample={"format": key, "class": cls})
        if not ok:
            cause = fm["cause"](m) if "cause" in fm else None
            sig = f"{key}:spec:{cause or _diff_kind(line, expect, fm.get('fields'))}"
            ctx.fail(sig, f"{fm['fmt']}: a file following the published layout is not loaded as written ({sig}; class {cls})",
                     {"kind": "readers", "format": key, "sub": fm["load"](m), "hex": py.hex(), "expect": expect})
        lreq.append(f"fmtr load {fm['load'](m)} {raw.hex()}")
        limp.append(line)
        lcls.append(cls)
    if do_corr:
        ctx.corr(f"load-spec:{key}", lreq, limp, None, lcls)
        truncations(ctx, key, [(fm["load"](m), raw) for (m, _), raw in zip(ms, raws)])


def truncations(ctx, key, files):
    """the Lean readers are total functions on arbitrary line lists: on every line truncation of a few generated files the
    model's outcome class (loaded / LoadError) must be the implementation's"""
    req, imp, cls = [], [], []
    budget = ctx.n(60, 600)
    for sub, raw in files[: ctx.n(4, 30)]:
        lines = raw.split(b"\n")
        cuts = list(range(len(lines)))
        if len(cuts) > 25:
            cuts = sorted(ctx.rng.sample(cuts, 25))
        for c in cuts:
            if len(req) >= budget:
                break
            part = b"\n".join(lines[:c]) + (b"\n" if c else b"")
            for variant, data in (("line", part), ("mid", part + lines[c][: len(lines[c]) // 2] if c < len(lines) else part)):
                if not data:
                    continue  # (an empty payload is not expressible in the line protocol)
                r = F.real_load(data, {"glog": "gaussianlog", "crd": "charmm"}.get(sub, sub))
                req.append(f"fmtr load {sub} {data.hex()}")
                imp.append("ok" if r.ok else "err " + r.err)
                cls.append(f"{sub}/{variant}/{'ok' if r.ok else r.err}")
    if req:
        outs = ctx.driver(req)
        # compare classes only: the loaded values of intact files are compared by load-spec
        ctx.corr(f"load-truncated:{key}", req, [i if i.startswith("err") else o if o.startswith("ok") else "ok" for i, o in zip(imp, outs)], None, cls)


def correspond(ctx):
    for key, fm in FORMATS.items():
        run_format(ctx, key, ctx.n(*fm["n"]))
    corpus_corr(ctx)


def corpus_corr(ctx):
    """the Lean readers on the repository's own fixtures (the reference for snapping is the model's own answer)"""
    ddir = engine.REPO / "iodata" / "test" / "data"
    req = [f"fmtr load {sub} {(ddir / name).read_bytes().hex()}" for key, sub, name in CORPUS]
    refs = ctx.driver(req)
    imp = [FORMATS[key]["impl"]((ddir / name).read_bytes(), ref, {"kind": sub}) for (key, sub, name), ref in zip(CORPUS, refs)]
    if req:
        ctx.corr("load-corpus", req, imp, None, [name for _, _, name in CORPUS])


CORPUS = [("glog", "glog", "water_sto3g_hf_g03.log"), ("vasp", "chgcar", "CHGCAR.oxygen"), ("vasp", "chgcar", "CHGCAR.water"),
          ("vasp", "locpot", "LOCPOT.oxygen"), ("crd", "crd", "crambin.crd"), ("extxyz", "extxyz", "al_fcc.xyz"),
          ("extxyz", "extxyz", "water_extended_trajectory.xyz")]


def search(ctx):
    from . import _tokens

    if ctx.escalated:
        for key, fm in FORMATS.items():
            run_format(ctx, key, ctx.n(*fm["n"]) * 3, do_corr=False)
    vasp_spellings(ctx)
    molden_gto_blocks(ctx)
    _tokens.search(ctx)  # exploration: log parsers without a published layout


def molden_gto_blocks(ctx):
    """Molden [GTO]: every block names its atom by sequence number, so blocks may come in any order and atoms without
    basis functions have none.  Standard-conforming files written from a random true wavefunction (shared generator of
    C05) with permuted blocks / a function-less first atom must load to that wavefunction, shells on the named atoms."""
    import numpy as np

    from .. import gto
    from .. import vendorfiles as vf

    rng = ctx.rng
    done = 0
    for i in range(ctx.n(60, 400) * 3):
        if done >= ctx.n(60, 400):
            break
        case = vf.gen_true(rng, "standard", "molden", max_l=rng.choice([1, 2, 2, 3]))
        if case is None:
            continue
        natom = len(case["zs"])
        mode = rng.choice(["permuted", "ghost-first", "ghost-middle"]) if natom > 1 else "ghost-first"
        case = dict(case)
        shells = [dict(sh) for sh in case["shells"]]
        order = list(range(natom))
        if mode == "permuted":
            while order == list(range(natom)):
                rng.shuffle(order)
        else:
            pos = 0 if mode == "ghost-first" else rng.randrange(1, natom)
            case["zs"] = case["zs"][:pos] + [rng.randint(1, 10)] + case["zs"][pos:]
            case["coords"] = case["coords"][:pos] + [[9.5, -9.25, 8.75]] + case["coords"][pos:]
            for sh in shells:
                if sh["ic"] >= pos:
                    sh["ic"] += 1
            order = list(range(natom + 1))
        # shells in the order the blocks are written, MO rows permuted with them
        sizes = [len(gto.molden_labels(sh["l"], sh["kind"])) for sh in shells]
        offs = np.cumsum([0, *sizes])
        idx = [k for ia in order for k, sh in enumerate(shells) if sh["ic"] == ia]
        rows = np.concatenate([np.arange(offs[k], offs[k + 1]) for k in idx]) if idx else np.arange(0)
        case["shells"] = [shells[k] for k in idx]
        case["Ca"] = case["Ca"][rows]
        case["Cb"] = None if case["Cb"] is None else case["Cb"][rows]
        enc = vf.encode(case, "standard", rng)
        text = vf.write_molden(case, enc, rng, atom_order=order, skip_empty=True)
        r = F.real_load(text.encode(), "molden")
        bad = ("load", r.err) if not r.ok else vf.compare_loaded(case, r.value)
        done += 1
        ctx.count("spec-py:molden-gto-blocks", text[:3000], mode + ("" if bad is None else "/FAIL"))
        if bad:
            ctx.fail(f"molden:spec:gto-blocks:{mode}:{bad[0]}",
                     f"Molden file with {mode} [GTO] blocks is not loaded as written: {bad[0]}: {bad[1]}",
                     {"kind": "molden-text", "text": text, "case": {"zs": case["zs"], "coords": case["coords"], "unit": case["unit"],
                      "shells": case["shells"], "Ca": case["Ca"].tolist(), "Cb": None if case["Cb"] is None else case["Cb"].tolist()}})


def vasp_spellings(ctx):
    """VASP reads only the first character of the two keyword lines: `S`/`s` switches selective dynamics on, `C`, `c`,
    `K`, `k` mean Cartesian coordinates, anything else direct ones.  The same model written with every spelling must
    load to the same object."""
    rng = ctx.rng
    cart = ["Cartesian", "cartesian", "C", "c", "K", "k", "Kartesian", "kartesian", "CART"]
    direct = ["Direct", "direct", "D", "d", "Direct configuration=     1", "Fractional"]
    sel = ["Selective dynamics", "selective dynamics", "S", "s", "Selective"]
    fm = FORMATS["vasp"]
    for i in range(ctx.n(40, 300)):
        m, cls = fm["gen"](rng, i, ctx.thorough)
        lines = fm["write"](m).decode().split("\n")
        k = 7 + (1 if m["sel"] else 0)
        if lines[k] not in ("Cartesian", "Direct"):
            continue
        word = rng.choice(cart if m["cart"] else direct)
        lines[k] = word
        if m["sel"]:
            lines[k - 1] = rng.choice(sel)
        py = "\n".join(lines).encode()
        expect = fm["expect"](m)
        line = fm["impl"](py, expect, m)
        ok = line == expect
        ctx.count("spec-load:vasp-spellings", py.hex()[:6000], f"{word.split()[0][:4]}/{'sel' if m['sel'] else 'nosel'}" + ("" if ok else "/DIFF"))
        if not ok:
            ctx.fail(f"vasp:spec:mode-line-spelling:{word[0]}",
                     f"VASP file whose coordinate-mode line is spelled {word!r} is not loaded as "
                     f"{'Cartesian' if m['cart'] else 'direct'} coordinates ({_diff_kind(line, expect, fm.get('fields'))})",
                     {"kind": "readers", "format": "vasp", "sub": fm["load"](m), "hex": py.hex(), "expect": expect})


def replay(ctx, obj):
    from . import _tokens

    inp = obj["input"]
    if inp.get("kind") == "tokens":
        return _tokens.replay(ctx, obj)
    if inp.get("kind") == "molden-text":
        import numpy as np

        from .. import vendorfiles as vf

        case = dict(inp["case"], Ca=np.array(inp["case"]["Ca"]), Cb=None if inp["case"]["Cb"] is None else np.array(inp["case"]["Cb"]))
        r = F.real_load(inp["text"].encode(), "molden")
        return (not r.ok) or vf.compare_loaded(case, r.value) is not None
    if inp.get("kind") == "readers":
        fm = FORMATS[inp["format"]]
        return fm["impl"](bytes.fromhex(inp["hex"]), inp["expect"], {"kind": inp.get("sub")}) != inp["expect"]
    return None


# ---------------------------------------------------------------------------------------------
# hook

def install(g):
    """extend the C03 property module ``g`` (its globals) with the readers' module, translator, streams, search"""
    g["MODULES"] = [*g["MODULES"], MODULE]
    g["RULE"] = g["RULE"] + RULE
    g["TRUSTED"] = [*g["TRUSTED"], *TRUSTED]
    g["ASSUMPTIONS"] = [*g["ASSUMPTIONS"], *ASSUMPTIONS]
    t0, c0, s0, r0 = g["translate"], g["correspond"], g["search"], g["replay"]

    def translate_all(ctx):
        t0(ctx)
        translate(ctx)

    def correspond_all(ctx):
        c0(ctx)
        correspond(ctx)

    def search_all(ctx):
        s0(ctx)
        search(ctx)

    def replay_all(ctx, obj):
        r = replay(ctx, obj)
        return r0(ctx, obj) if r is None else r

    g.update(translate=translate_all, correspond=correspond_all, search=search_all, replay=replay_all)
