"""Search-only adapters (no byte-level Lean model yet): MOL2, Cube, FCIDUMP, POSCAR (C02/C15) and the
spec-following writers for GRO and MOL2 (C03)."""

from __future__ import annotations

import random

import numpy as np

from . import _formats as F
from ._adapters import Adapter, _symbols, _units, cmp_real, dec_text, pick_nbond, rand_bonds


def _cls_n(n):
    return n if n in (*F.SIZE_CLASSES_THOROUGH, 99999) else "rand"


class Mol2(Adapter):
    key = fmt = "mol2"

    def free_spec(self, rng, natom, i):
        return {"seed": rng.getrandbits(48), "natom": natom, "scale": rng.choice([0.5, 5.0, 50.0, 900.0, 9000.0, 90000.0]),
                "nbond": pick_nbond(rng, natom, i), "charges": rng.random() < 0.6, "attypes": rng.random() < 0.6}

    def free_class(self, s):
        return f"natom={_cls_n(s['natom'])}/charges={int(s['charges'])}/attypes={int(s['attypes'])}/nbond={'0' if not s['nbond'] else 'n'}"

    def free_build(self, s):
        from iodata import IOData

        rng = random.Random(s["seed"])
        n, scale = s["natom"], s["scale"]
        kw = {
            "atnums": np.array([rng.randint(1, 118) for _ in range(n)]),
            "atcoords": np.array([[rng.uniform(-scale, scale) for _ in range(3)] for _ in range(n)]) * _units(),
            "title": F.rand_title(rng) or None,
        }
        if s["charges"]:
            kw["atcharges"] = {"mol2charges": np.array([rng.uniform(-3, 3) for _ in range(n)])}
        if s["attypes"]:
            kw["atffparams"] = {"attypes": np.array([rng.choice(["c3", "ca", "n", "hc", "O.3", "N.pl3", "C.ar", "Du"]) for _ in range(n)])}
        b = rand_bonds(rng, n, s["nbond"])
        if b:
            kw["bonds"] = np.array(b, int)
        return IOData(**kw)

    def compare(self, x, y):
        sym = _symbols()
        bad = []
        if not np.array_equal(x.atnums, y.atnums):
            bad.append(("atnums", "atomic numbers differ"))
        bad += cmp_real("atcoords", x.atcoords, y.atcoords, 4, _units())
        n = x.natom
        ch = x.atcharges.get("mol2charges")
        bad += cmp_real("atcharges", ch if ch is not None else np.zeros(n), y.atcharges["mol2charges"], 4)
        at = x.atffparams.get("attypes")
        exp = [str(a) for a in at] if at is not None else [sym[int(z)] for z in x.atnums]
        if exp != [str(a) for a in y.atffparams["attypes"]]:
            bad.append(("attypes", f"{exp[:3]} -> {list(y.atffparams['attypes'])[:3]}"))
        xb = np.zeros((0, 3), int) if x.bonds is None else x.bonds
        yb = np.zeros((0, 3), int) if y.bonds is None else y.bonds
        if not np.array_equal(xb, yb):
            bad.append(("bonds", f"{xb[:3].tolist()} -> {yb[:3].tolist()}"))
        if (x.title or "Created with IOData") != y.title:
            bad.append(("title", f"{x.title!r} -> {y.title!r}"))
        return bad

    # C03: Tripos MOL2 (free format records)
    def spec_case(self, rng, natom, i):
        from iodata.periodic import bond2num

        sym = _symbols()
        sep = lambda: rng.choice([" ", "  ", "\t", "    "])  # noqa: E731
        atoms = [((i * 3 + k) % 118 + 1, [F.rand_fx(rng, 4, rng.choice([1, 3, 5]), None, True) for _ in range(3)],
                  F.rand_fx(rng, 4, 1), rng.choice(["C.3", "N.am", "H", "O.co2", "S.o2"])) for k in range(natom)]
        bonds = rand_bonds(rng, natom, pick_nbond(rng, natom, i))
        types = list(bond2num)
        title = F.rand_title(rng, allow_empty=False)
        L = ["@<TRIPOS>MOLECULE", title, f"{natom}{sep()}{len(bonds)}{sep()}0{sep()}0{sep()}0", "SMALL", "USER_CHARGES", "", "@<TRIPOS>ATOM"]
        for k, (z, co, q, ty) in enumerate(atoms):
            name = sym[z] + (str(k + 1) if len(sym[z]) == 2 or rng.random() < 0.5 else "")
            if len(sym[z]) == 1 and name[1:2].isalpha():
                name = sym[z]
            L.append(sep().join([str(k + 1), name, *(dec_text(c, 4) for c in co), ty, "1", "RES1", dec_text(q, 4)]))
        btxt = []
        if bonds:
            L.append("@<TRIPOS>BOND")
            for k, (a, b, t) in enumerate(bonds):
                bt = types[(t - 1) % len(types)]
                btxt.append(bt)
                L.append(sep().join([str(k + 1), str(a + 1), str(b + 1), bt]))
        raw = ("\n".join(L) + "\n").encode()

        def check(d):
            bad = []
            if [int(v) for v in d.atnums] != [a[0] for a in atoms]:
                bad.append("atnums")
            for k, (z, co, q, ty) in enumerate(atoms):
                if [F.fx_quant(d.atcoords[k, j], 4, _units()) for j in range(3)] != list(co):
                    bad.append("atcoords")
                    break
                if F.fx_quant(d.atcharges["mol2charges"][k], 4) != q or str(d.atffparams["attypes"][k]) != ty:
                    bad.append("atcharges/attypes")
                    break
            lb = [] if d.bonds is None else [tuple(int(v) for v in b) for b in d.bonds]
            if lb != [(a, b, bond2num[bt]) for (a, b, _), bt in zip(bonds, btxt)]:
                bad.append("bonds")
            if d.title != title:
                bad.append("title")
            return bad

        return raw, check, f"natom={_cls_n(natom)}/nbond={'0' if not bonds else 'n'}"


class Gro(Adapter):
    key = "gro"
    fmt = "gromacs"
    readonly = True

    def pick_natom(self, rng, i, thorough):
        classes = [*F.SIZE_CLASSES_QUICK, *( [9999, 10000, 10001, 99999, 100000, 100001] if thorough else [10001])]
        return classes[i] if i < len(classes) else rng.randint(1, 40)

    def spec_case(self, rng, natom, i):
        from iodata.utils import nanometer, picosecond

        dig = rng.choice([1, 2, 3, 4])  # integer digits of positions: 8.3f holds 9999.999 / -999.999
        title = F.rand_title(rng, allow_empty=False).replace(",", ";").replace("t=", "t-")
        t = rng.choice([None, (False, 0), (False, 123456), (False, 5)])
        L = [title + (f", t= {dec_text(t, 3)}" if t is not None else ""), str(natom).rjust(5)]
        atoms = []
        for k in range(natom):
            resnum = (k // 3 + 1) % 100000
            resname = rng.choice(["SOL", "A", "LYSH", "NA+", "WATER"])
            name = rng.choice(["OW", "HW1", "C", "CA12", "N1234"])
            pos = [F.rand_fx(rng, 3, dig, min(dig, 3)) for _ in range(3)]
            vel = [F.rand_fx(rng, 4, rng.choice([1, 2, 3]), 2) for _ in range(3)]
            atoms.append((resnum, resname, name, pos, vel))
            L.append(str(resnum).rjust(5) + resname.ljust(5) + name.rjust(5) + str((k + 1) % 100000).rjust(5)
                     + "".join(dec_text(p, 3).rjust(8) for p in pos) + "".join(dec_text(v, 4).rjust(8) for v in vel))
        nine = rng.random() < 0.5
        box = [F.rand_fx(rng, 5, 2, 0) for _ in range(9 if nine else 3)]
        box = [(False, b[1]) if k < 3 else b for k, b in enumerate(box)]
        L.append("".join(dec_text(b, 5).rjust(10) for b in box))
        raw = ("\n".join(L) + "\n").encode()

        def check(d):
            bad = []
            f32 = 2.0**-50  # the reader keeps double precision (fa4f07a); earlier float32 storage lost printed digits
            pos = np.array([[F.fx_float(p, 3) for p in a[3]] for a in atoms]).reshape(natom, 3)
            vel = np.array([[F.fx_float(v, 4) for v in a[4]] for a in atoms]).reshape(natom, 3)
            # tolerance: double rounding of value and of the unit product
            if not np.all(np.abs(d.atcoords / nanometer - pos) <= 2 * f32 * np.abs(pos) + 1e-30):
                bad.append("atcoords")
            if not np.all(np.abs(d.extra["velocities"] / (nanometer / picosecond) - vel) <= 2 * f32 * np.abs(vel) + 1e-30):
                bad.append("velocities")
            if [int(v) for v in d.atffparams["resnums"]] != [a[0] for a in atoms]:
                bad.append("resnums")
            if [str(v) for v in d.atffparams["resnames"]] != [a[1] for a in atoms] or [str(v) for v in d.atffparams["attypes"]] != [a[2] for a in atoms]:
                bad.append("resnames/attypes")
            cell = np.zeros((3, 3))
            b = [F.fx_float(v, 5) for v in box]
            cell[0, 0], cell[1, 1], cell[2, 2] = b[:3]
            if nine:
                cell[0, 1], cell[0, 2], cell[1, 0], cell[1, 2], cell[2, 0], cell[2, 1] = b[3:]
            # GRO box line: v1(x) v2(y) v3(z) v1(y) v1(z) v2(x) v2(z) v3(x) v3(y); rows of cellvecs are the vectors
            if not np.all(np.abs(d.cellvecs / nanometer - cell) <= 2 * f32 * np.abs(cell) + 1e-30):
                bad.append("cellvecs")
            if d.title != title:
                bad.append("title")
            tt = 0.0 if t is None else F.fx_float(t, 3)
            if abs(d.extra["time"] / picosecond - tt) > 1e-12 * max(1.0, tt):
                bad.append("time")
            return bad

        return raw, check, f"natom={_cls_n(natom)}/digits={dig}/box={'9' if nine else '3'}"


class CubeA(Adapter):
    key = fmt = "cube"

    def pick_natom(self, rng, i, thorough):
        return [1, 2, 3, 9, 10, 11, 99, 100][i] if i < 8 else rng.randint(1, 20)

    def free_spec(self, rng, natom, i):
        shape = [rng.choice([1, 2, 3, 5, 6, 7]), rng.choice([1, 2, 4, 6]), rng.choice([1, 2, 5, 6, 7, 11, 12, 13])]
        return {"seed": rng.getrandbits(48), "natom": natom, "shape": shape, "ghost": rng.random() < 0.12, "ecp": rng.random() < 0.4}

    def free_class(self, s):
        return f"natom={_cls_n(s['natom'])}/nz%6={s['shape'][2] % 6}/ghost={int(s['ghost'])}/ecp={int(s['ecp'])}"

    def free_build(self, s):
        from iodata import IOData
        from iodata.utils import Cube

        rng = random.Random(s["seed"])
        n = s["natom"]
        atnums = np.array([rng.randint(1, 118) for _ in range(n)])
        core = atnums.astype(float)
        if s["ecp"]:
            core = np.array([max(1.0, float(z) - rng.choice([0, 2, 10])) for z in atnums])
        if s["ghost"]:
            core[rng.randrange(n)] = 0.0
        data = np.array([rng.choice([0.0, rng.uniform(-1, 1), rng.uniform(-1, 1) * 10.0 ** rng.randint(-30, 30)])
                         for _ in range(int(np.prod(s["shape"])))]).reshape(s["shape"])
        cube = Cube(origin=np.array([rng.uniform(-50, 50) for _ in range(3)]),
                    axes=np.array([[rng.uniform(-2, 2) for _ in range(3)] for _ in range(3)]), data=data)
        return IOData(atnums=atnums, atcorenums=core, atcoords=np.array([[rng.uniform(-99, 99) for _ in range(3)] for _ in range(n)]),
                      cube=cube, title=F.rand_title(rng) or None)

    def compare(self, x, y):
        bad = []
        if not np.array_equal(x.atnums, y.atnums):
            bad.append(("atnums", "atomic numbers differ"))
        bad += cmp_real("atcoords", x.atcoords, y.atcoords, 6)
        bad += cmp_real("atcorenums", x.atcorenums, y.atcorenums, 6)
        bad += cmp_real("cube.origin", x.cube.origin, y.cube.origin, 6)
        bad += cmp_real("cube.axes", x.cube.axes, y.cube.axes, 6)
        a, b = x.cube.data, y.cube.data
        if a.shape != b.shape:
            bad.append(("cube.data", f"shape {a.shape} -> {b.shape}"))
        elif not np.all(np.abs(a - b) <= 5.0000001e-6 * np.abs(a)):  # six significant digits
            bad.append(("cube.data", "grid values differ beyond the sixth significant digit"))
        if (x.title or "Created with IOData") != y.title:
            bad.append(("title", f"{x.title!r} -> {y.title!r}"))
        return bad

    def known_cause(self, x):
        return "ghost-atom-core-charge" if np.any(x.atcorenums == 0.0) else None


def _eightfold(rng, n):
    """random two-electron integrals with the 8-fold symmetry, physicists' notation"""
    two = np.zeros((n, n, n, n))
    vals = {}
    for i in range(n):
        for j in range(i + 1):
            for k in range(n):
                for l in range(k + 1):
                    key = tuple(sorted([(i, j), (k, l)]))
                    if key not in vals:
                        vals[key] = rng.choice([0.0, rng.uniform(-2, 2), rng.uniform(-1, 1) * 10.0 ** rng.randint(-12, 3)])
                    v = vals[key]
                    for a, b in ((i, j), (j, i)):
                        for c, d in ((k, l), (l, k)):
                            two[a, c, b, d] = v  # <ac|bd> = (ab|cd)
                            two[c, a, d, b] = v
    return two


class Fcidump(Adapter):
    key = fmt = "fcidump"

    def pick_natom(self, rng, i, thorough):
        return [1, 2, 3, 4, 5, 6][i % 6] if i < 12 else rng.randint(1, 7 if not thorough else 9)

    def free_spec(self, rng, n, i):
        return {"seed": rng.getrandbits(48), "natom": n, "nelec": rng.choice(["float", "int", "none"]), "core": rng.random() < 0.7}

    def free_class(self, s):
        return f"norb={s['natom']}/nelec={s['nelec']}/core={int(s['core'])}"

    def free_build(self, s):
        from iodata import IOData

        rng = random.Random(s["seed"])
        n = s["natom"]
        one = np.array([[rng.uniform(-3, 3) for _ in range(n)] for _ in range(n)])
        one = (one + one.T) / 2
        kw = {"one_ints": {"core_mo": one}, "two_ints": {"two_mo": _eightfold(rng, n)}}
        if s["core"]:
            kw["core_energy"] = rng.uniform(-100, 100)
        if s["nelec"] != "none":
            ne = rng.randint(1, 2 * n)
            sp = rng.choice([k for k in range(0, ne + 1) if (ne - k) % 2 == 0])
            kw["nelec"] = float(ne) if s["nelec"] == "float" else ne
            kw["spinpol"] = float(sp) if s["nelec"] == "float" else sp
        return IOData(**kw)

    def compare(self, x, y):
        bad = []
        # 17 significant digits: doubles are reproduced exactly
        if not np.array_equal(x.one_ints["core_mo"], y.one_ints["core_mo"]):
            bad.append(("one_ints", "core_mo differs"))
        if not np.array_equal(x.two_ints["two_mo"], y.two_ints["two_mo"]):
            bad.append(("two_ints", "two_mo differs"))
        if (x.core_energy or 0.0) != y.core_energy:
            bad.append(("core_energy", f"{x.core_energy!r} -> {y.core_energy!r}"))
        if x.nelec is not None and (x.nelec != y.nelec or x.spinpol != y.spinpol):
            bad.append(("nelec", f"{x.nelec}/{x.spinpol} -> {y.nelec}/{y.spinpol}"))
        return bad


class Poscar(Adapter):
    key = fmt = "poscar"

    def free_spec(self, rng, natom, i):
        return {"seed": rng.getrandbits(48), "natom": min(natom, 1001), "nel": rng.choice([1, 2, 3, 5])}

    def free_class(self, s):
        return f"natom={_cls_n(s['natom'])}/nelements={s['nel']}"

    def free_build(self, s):
        from iodata import IOData

        rng = random.Random(s["seed"])
        n = s["natom"]
        els = [rng.randint(1, 118) for _ in range(s["nel"])]
        a = rng.uniform(3, 30)
        cell = np.diag([a, a * rng.uniform(0.5, 2), a * rng.uniform(0.5, 2)]) + np.array(
            [[rng.uniform(-1, 1) for _ in range(3)] for _ in range(3)])
        frac = np.array([[rng.uniform(-0.5, 1.5) for _ in range(3)] for _ in range(n)])
        return IOData(atnums=np.array([rng.choice(els) for _ in range(n)]), atcoords=frac @ cell, cellvecs=cell,
                      title=F.rand_title(rng) or None)

    def compare(self, x, y):
        bad = []
        # the documented re-ordering: grouped by element, heaviest first, original order within a group
        order = np.concatenate([np.nonzero(x.atnums == z)[0] for z in sorted(set(x.atnums.tolist()), reverse=True)])
        if not np.array_equal(x.atnums[order], y.atnums):
            bad.append(("atnums", "not the documented grouping by element"))
        eps = 2.0**-52
        cond = np.linalg.cond(x.cellvecs)
        scale = max(np.abs(x.atcoords).max(), np.abs(x.cellvecs).max())
        # fractional coordinates printed with 16 decimals and angstrom cell vectors with 16 decimals; inversion error cond*eps
        tol = (64 * cond * eps + 1e-15) * scale
        if y.atcoords.shape != x.atcoords.shape or np.abs(x.atcoords[order] - y.atcoords).max() > tol:
            bad.append(("atcoords", "coordinates differ beyond the printed digits"))
        if np.abs(x.cellvecs - y.cellvecs).max() > 0.5e-16 * _units() + 8 * eps * np.abs(x.cellvecs).max():
            bad.append(("cellvecs", "cell vectors differ beyond the printed digits"))
        if (x.title or "Created with IOData") != y.title:
            bad.append(("title", f"{x.title!r} -> {y.title!r}"))
        return bad


class ExtXyz(Adapter):
    """C03 for extended XYZ (ASE): `Lattice="ax ay az bx by bz cx cy cz"` (rows are the cell vectors a, b, c, in angstrom),
    `Properties=species:S:1:pos:R:3[:force:R:3][:masses:R:1][:<user>:I|R:n]`, `energy=`, `charge=`; force = -gradient"""

    key = fmt = "extxyz"

    def spec_case(self, rng, natom, i):
        from iodata.utils import amu

        sym = _symbols()
        ang = _units()
        natom = min(natom, 1001)
        lattice = [F.rand_fx(rng, 10, rng.choice([1, 2, 3])) for _ in range(9)] if i % 4 != 3 else None
        force = i % 2 == 0
        masses = i % 3 == 0
        user = i % 5 == 0
        energy = F.rand_fx(rng, 10, 4) if i % 3 != 1 else None
        atoms = []
        for k in range(natom):
            z = (i * 5 + k) % 118 + 1
            atoms.append({"z": z, "pos": [F.rand_fx(rng, 10, rng.choice([1, 2, 4]), None, False) for _ in range(3)],
                          "force": [F.rand_fx(rng, 10, 2) for _ in range(3)], "mass": (False, rng.randint(10**10, 3 * 10**12)),
                          "tag": rng.randint(-99, 99), "variant": rng.randint(0, 2)})
        props = "species:S:1:pos:R:3" + (":force:R:3" if force else "") + (":masses:R:1" if masses else "") + (":tag:I:1" if user else "")
        sep = lambda: rng.choice([" ", "  ", "   "])  # noqa: E731
        title = []
        if lattice is not None:
            title.append('Lattice="' + " ".join(dec_text(v, 10) for v in lattice) + '"')
        title.append("Properties=" + props)
        if energy is not None:
            title.append("energy=" + dec_text(energy, 10))
        rng.shuffle(title)
        L = [str(natom), " ".join(title)]
        for a in atoms:
            s = sym[a["z"]]
            w = [[s, s.upper(), s.lower()][a["variant"]], *(dec_text(v, 10) for v in a["pos"])]
            if force:
                w += [dec_text(v, 10) for v in a["force"]]
            if masses:
                w.append(dec_text(a["mass"], 10))
            if user:
                w.append(str(a["tag"]))
            L.append(sep().join(w))
        raw = ("\n".join(L) + "\n").encode()

        def check(d):
            bad = []
            if [int(v) for v in d.atnums] != [a["z"] for a in atoms]:
                bad.append("atnums")
            for k, a in enumerate(atoms):
                if [F.fx_quant(d.atcoords[k, j], 10, ang) for j in range(3)] != a["pos"]:
                    bad.append("atcoords")
                    break
                if force and [F.fx_quant(-d.atgradient[k, j], 10) for j in range(3)] != [(n and m != 0, m) if m == 0 else (n, m) for n, m in a["force"]]:
                    if [abs_fx(F.fx_quant(-d.atgradient[k, j], 10)) for j in range(3)] != [abs_fx(v) for v in a["force"]] or any(
                        (F.fx_quant(-d.atgradient[k, j], 10)[0] != a["force"][j][0]) and a["force"][j][1] != 0 for j in range(3)
                    ):
                        bad.append("atgradient")
                        break
                if masses and F.fx_quant(d.atmasses[k], 10, amu) != a["mass"]:
                    bad.append("atmasses")
                    break
                if user and int(d.extra["tag"][k]) != a["tag"]:
                    bad.append("extra:tag")
                    break
            if lattice is not None:
                if d.cellvecs is None or d.cellvecs.shape != (3, 3):
                    bad.append("cellvecs:missing")
                else:
                    got = [F.fx_quant(d.cellvecs[r, c], 10, ang) for r in range(3) for c in range(3)]
                    if [abs_fx(v) for v in got] != [abs_fx(v) for v in lattice] or any(g[0] != w[0] and w[1] != 0 for g, w in zip(got, lattice)):
                        bad.append("cellvecs:Lattice-rows")
            if energy is not None and (d.energy is None or abs_fx(F.fx_quant(d.energy, 10)) != abs_fx(energy)
                                       or (F.fx_quant(d.energy, 10)[0] != energy[0] and energy[1] != 0)):
                bad.append("energy")
            return bad

        cls = f"natom={_cls_n(natom)}/lattice={int(lattice is not None)}/force={int(force)}/masses={int(masses)}/user={int(user)}"
        return raw, check, cls


def abs_fx(v):
    return v[1]


SEARCH_ONLY = {a.key: a for a in [Mol2(), CubeA(), Fcidump(), Poscar()]}
class GamessPunch(Adapter):
    """GAMESS(US)/Firefly punch file (`*.dat`): $DATA group, geometry block, $GRAD, $HESS (records `I2,I3,5E15.8`: the
    row number is printed modulo 100, the record number counts the lines of a row), ATOMIC MASSES."""

    key = "gamess"
    fmt = "gamess"
    readonly = True

    def pick_natom(self, rng, i, thorough):
        classes = [1, 2, 3, 11, 33, 34, 35, 67, *([100, 134] if thorough else [])]  # 3N crosses 100, 200, (300, 400)
        return classes[i] if i < len(classes) else rng.randint(1, 12)

    def spec_case(self, rng, natom, i):
        from iodata.periodic import num2sym
        from iodata.utils import angstrom

        zs = [rng.randint(1, 36) for _ in range(natom)]
        syms = [num2sym[z].upper() for z in zs]
        xyz = [[float(f"{rng.uniform(-20, 20):.10f}") for _ in range(3)] for _ in range(natom)]
        grad = [[float(f"{rng.uniform(-1, 1) * 10 ** rng.randint(-6, -1):.10E}") for _ in range(3)] for _ in range(natom)]
        n3 = 3 * natom
        hess = [[float(f"{(0.0 if rng.random() < 0.5 else rng.uniform(-2, 2)):.8E}") for _ in range(n3)] for _ in range(n3)]
        energy = float(f"{rng.uniform(-2000, -1):.10f}")
        title = F.rand_title(rng, allow_empty=False)[:60] or "t"
        L = ["$DATA", title.ljust(80), "C1       0"]
        for sym, z, r in zip(syms, zs, xyz):
            L.append(f"{sym:<10s}{float(z):5.1f}{r[0]:18.10f}{r[1]:18.10f}{r[2]:18.10f}")
            L += ["   S          1", "     1         0.4830000000  1.00000000", "           "]
        L.append(" $END      ")
        L.append("-------------------- DATA FROM NSERCH=   0 --------------------")
        L.append(" COORDINATES OF SYMMETRY UNIQUE ATOMS (ANGS)")
        L.append("   ATOM   CHARGE       X              Y              Z")
        L.append(" ------------------------------------------------------------")
        for sym, z, r in zip(syms, zs, xyz):
            L.append(f" {sym:<10s}{float(z):5.1f}{r[0]:15.10f}{r[1]:15.10f}{r[2]:15.10f}")
        L.append(" $GRAD")
        L.append(f"E={energy:20.10f}  GMAX=   0.0000338  GRMS=   0.0000154")
        for sym, z, g in zip(syms, zs, grad):
            L.append(f"{sym:<10s}{float(z):5.0f}.{g[0]:20.10E}{g[1]:20.10E}{g[2]:20.10E}")
        L.append(" $END")
        L.append(" $HESS")
        L.append(f"ENERGY IS{energy:20.10f} E(NUC) IS      273.9207388851")
        for irow, row in enumerate(hess):
            for rec, j in enumerate(range(0, n3, 5)):
                L.append(f"{(irow + 1) % 100:2d}{(rec + 1) % 1000:3d}" + "".join(f"{v:15.8E}" for v in row[j:j + 5]))
        L.append(" $END")
        masses = [float(f"{rng.uniform(1, 90):.5f}") for _ in range(natom)]
        L.append("ATOMIC MASSES")
        for j in range(0, natom, 5):
            L.append("".join(f"{m:12.5f}" for m in masses[j:j + 5]))
        raw = ("\n".join(L) + "\n").encode()

        def check(d):
            bad = []
            if [int(z) for z in d.atnums] != zs:
                bad.append("atnums")
            want = np.array(xyz) * angstrom
            if d.atcoords.shape != want.shape or not np.all(np.abs(d.atcoords - want) <= 4e-16 * np.abs(want) + 1e-300):
                bad.append("atcoords")
            if d.energy != energy:
                bad.append("energy")
            if d.atgradient is None or not np.array_equal(np.asarray(d.atgradient, float), np.array(grad)):
                bad.append("atgradient")
            if d.athessian is None or not np.array_equal(np.asarray(d.athessian, float), np.array(hess)):
                bad.append("athessian")
            if d.title != title.strip():
                bad.append("title")
            return bad

        return raw, check, f"natom={natom}/3N={'>=100' if n3 >= 100 else '<100'}"


SPEC_ONLY = {a.key: a for a in [Gro(), Mol2(), ExtXyz(), GamessPunch()]}
