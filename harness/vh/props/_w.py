"""Second group of byte-level formats for C02 / C15 (FCIDUMP full file, POSCAR text, FCHK object mapping, WFN / WFX
sections, QCSchema molecule core): one hook for ``correspond`` and one for ``search``; the per-format modules are
``_fcidumpw``, ``_poscarw``, ``_fchkw``, ``_wfnw``, ``_qcsw``; the Lean side answers on ``fmtw …`` (``Drv/FmtW.lean``)."""

from __future__ import annotations

from . import _checks as K
from . import _formats as F

RULE = (
    " SECOND GROUP (fmtw streams). FCIDUMP full file: 1-6 (thorough 8) orbitals, symmetric one-electron and 8-fold symmetric "
    "two-electron arrays of random doubles (0.0, -0.0, integers, subnormal and largest doubles, 10^-30..10^30), core energy "
    "absent/zero/value, nelec/spinpol absent, int, integral float, half-integral, and the values 9.999999999999998, "
    "1.4999999999999998, 7.500000000000001 whose int() and int(round()) differ; every real enters the model as the exact "
    "(Fraction) 17-digit quantisation of the double, nelec/spinpol as exact fractions. POSCAR text: 1-1001 (thorough 10001) atoms, "
    "1-20 elements, triclinic and integer cells from 3 to 20000 bohr (cell entries wider than the 21 columns), fractional "
    "coordinates in and outside the cell; the printed numbers are derived from the object by the writer's own float "
    "expressions and exact rounding, the loaded doubles are compared bit for bit with the reader's float expressions applied "
    "to the numbers the model read. FCHK objects: the generators of dump:fchk plus all six charge kinds together, the four "
    "one_rdms keys with every level of theory (MP2, MP3, CC, CI and others), through the probed writer/reader tables. WFN "
    "sections: synthetic section-level objects (1-999 atoms, 1-60 primitives so that every section ends ragged, 1-81 orbitals "
    "for the 40-per-line spin list, nan energy, values filling their columns) rendered with the real FMT_* templates, and real "
    "objects (Cartesian s/p/d shells, restricted/unrestricted, consistent and interleaved mo_spin records) through dump_one / "
    "load_wfn_low / load_one. WFX sections: synthetic section lists (text / integer / real / orbital sections with lengths "
    "0..41 around the per-line counts 10, 4, 3, NAN, three-digit exponents) through the real _write_xml_* helpers, parse_wfx "
    "and np.fromstring, and real objects. QCSchema molecule: 1-100 atoms, ghost atoms and pseudo-potential core charges, "
    "int/float charge and spin, empty/absent title, masses, 0..4 bonds (the empty list included), zero and non-zero symmetry "
    "number, every subset of the passed-through extra keys with scalar/list/dict values, absent/dict/list provenance, unparsed "
    "keys; compared at the level of the JSON dictionary with exact numbers. XYZ with five user columns of which three share "
    "`atcharges` and two share `extra`. non-trivial = distinct request"
)
TRUSTED = [
    "harness/vh/props/_layoutsw.py, _fchkprobe.py: ast extraction / tracer probing for lean/Iodata/Gen/LayoutsW.lean",
    "harness/vh/props/_fcidumpw.py, _poscarw.py, _fchkw.py, _wfnw.py, _wfxw.py, _qcsw.py, _xyzcols.py: object construction, exact "
    "(Fraction) quantisation of doubles, the independent tokenisers parse() / sections_of() of real WFN / WFX files, the "
    "re-enactment render() of the printing tail of the WFN / WFX dump_one with the real templates and helper functions",
    "lean/Iodata/Drv/FmtW.lean: (de)coding of the fmtw protocol",
    "harness/vh/props/_fchkw.py skeleton(): the fields of the minimal basis-set / orbital block of FCHK objects (pass-through rows)",
    "json.dump / json.load of the Python standard library (QCSchema is compared at the level of the parsed dictionary)",
]
ASSUMPTIONS = [
    "a double printed with 17 significant digits is read back bit-identically by CPython float() (FCIDUMP; observed by the "
    "search with np.array_equal)",
    "POSCAR: the theorems speak about the numbers as printed; the floating-point maps rvec/angstrom, inv(cell)^T r, "
    "float(text)*angstrom, frac.cell are applied by the harness with the same numpy expressions as the code (their exact "
    "counterpart is proved invertible); the known last-digit drift lives in these maps only",
    "FCHK objects: the basis-set / orbital block is carried as opaque fields (its semantics is C01's); post-SCF densities are "
    "in the domain only with a level of theory the reader knows (MP2, MP3, CC, CI)",
    "WFN / WFX: section layer only — which primitive belongs to which shell, normalisation and spin bookkeeping are C01's; "
    "negative or zero indices, inf, and sections with inner blank lines are outside the reader models",
    "QCSchema: null values and empty dictionaries (removed by _parse_json), fragments and extra['molecule'] masses / mass_numbers "
    "are outside the domain; the order of JSON keys is not compared",
]

MODULES_W = ["_fcidumpw", "_poscarw", "_fchkw", "_wfnw", "_wfxw", "_qcsw", "_xyzcols"]


def _mods():
    import importlib

    out = []
    for m in MODULES_W:
        try:
            out.append(importlib.import_module("." + m, __package__))
        except ModuleNotFoundError as exc:
            if exc.name and exc.name.endswith(m):
                continue
            raise
    return out


def corr_roundtrip(ctx, ad, n, generations=1):
    """as ``_checks.corr_roundtrip`` on the ``fmtw`` protocol: writer bytes, reader result, and (C15) the second generation"""
    rng = ctx.rng
    dreq, dimp, dcls, loads = [], [], [], []
    for i in range(n):
        q, opts, cls = ad.gen(rng, ad.pick_natom(rng, i, ctx.thorough), i)
        try:
            data = ad.build(q, opts)
        except Exception as exc:
            raise K.F_InfraError(f"{ad.key}: cannot build object: {exc!r}") from exc
        r = F.real_dump(data, ad.fmt, **ad.kw(opts))
        dreq.append(f"fmtw dump {ad.key} {opts} {ad.enc(q)}")
        dimp.append("ok " + r.value.hex() if r.ok else "err DumpError")
        dcls.append(cls + ("" if r.ok else "/refused:" + r.err))
        if r.ok:
            loads.append((r.value, opts, cls))
    ctx.corr(f"dump:{ad.key}", dreq, dimp, None, dcls)
    lreq, limp, lcls, second = [], [], [], []
    for raw, opts, cls in loads:
        r = F.real_load(raw, ad.fmt, **ad.kw(opts))
        line = "ok " + ad.enc_loaded(ad.quant(r.value, opts)) if r.ok else "err " + r.err
        lreq.append(f"fmtw load {ad.key} {opts} {raw.hex()}")
        limp.append(line)
        lcls.append(cls + ("" if r.ok else "/" + line))
        if r.ok and generations > 1:
            second.append((ad.loaded_to_obj_enc(line[3:]), r.value, opts, cls))
    ctx.corr(f"load:{ad.key}", lreq, limp, None, lcls)
    if generations > 1:
        g2req, g2imp, g2cls = [], [], []
        for enc, obj, opts, cls in second:
            r = F.real_dump(obj, ad.fmt, **ad.kw(opts))
            g2req.append(f"fmtw dump {ad.key} {opts} {enc}")
            g2imp.append("ok " + r.value.hex() if r.ok else "err DumpError")
            g2cls.append(cls)
        ctx.corr(f"dump-gen2:{ad.key}", g2req, g2imp, None, g2cls)


def correspond(ctx):
    for m in _mods():
        if hasattr(m, "correspond"):
            m.correspond(ctx)


def search(ctx):
    for m in _mods():
        if hasattr(m, "search"):
            m.search(ctx)


def replay_or(ctx, obj, fallback):
    """replay of a failing input recorded by one of the W modules (their adapters are registered in ``REPLAY`` under the
    ``format`` name they report); everything else goes to the first-round replay"""
    inp = obj.get("input", {})
    for m in _mods():
        ad = getattr(m, "REPLAY", {}).get(inp.get("format"))
        if ad is not None:
            if hasattr(ad, "replay"):
                return ad.replay(inp)
            x = ad.free_build(inp["spec"])
            kw = ad.kw(ad.OPTS) if hasattr(ad, "OPTS") else {}
            return (K.c02_eval(ad, x, kw) if inp["kind"] == "c02" else K.c15_eval(ad, x, kw)) is not None
    return fallback(ctx, obj)
