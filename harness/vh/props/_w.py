"""Second group of byte-level formats for C02 / C15 (FCIDUMP full file, POSCAR text, FCHK object mapping, WFN / WFX
sections, QCSchema molecule core): one hook for ``correspond`` and one for ``search``; the per-format modules are
``_fcidumpw``, ``_poscarw``, ``_fchkw``, ``_wfnw``, ``_qcsw``; the Lean side answers on ``fmtw …`` (``Drv/FmtW.lean``)."""

from __future__ import annotations

from . import _checks as K
from . import _formats as F

MODULES_W = ["_fcidumpw", "_poscarw", "_fchkw", "_wfnw", "_wfxw", "_qcsw", "_xyzcols"]


def _mods():
    import importlib

    out = []
    for m in MODULES_W:
        try:
            out.append(importlib.import_module("." + m, __package__))
        except ModuleNotFoundError as exc:
            if exc.name and exc.name.endswith(m):
                continue
            raise
    return out


def corr_roundtrip(ctx, ad, n, generations=1):
    """as ``_checks.corr_roundtrip`` on the ``fmtw`` protocol: writer bytes, reader result, and (C15) the second generation"""
    rng = ctx.rng
    dreq, dimp, dcls, loads = [], [], [], []
    for i in range(n):
        q, opts, cls = ad.gen(rng, ad.pick_natom(rng, i, ctx.thorough), i)
        try:
            data = ad.build(q, opts)
        except Exception as exc:
            raise K.F_InfraError(f"{ad.key}: cannot build object: {exc!r}") from exc
        r = F.real_dump(data, ad.fmt, **ad.kw(opts))
        dreq.append(f"fmtw dump {ad.key} {opts} {ad.enc(q)}")
        dimp.append("ok " + r.value.hex() if r.ok else "err DumpError")
        dcls.append(cls + ("" if r.ok else "/refused:" + r.err))
        if r.ok:
            loads.append((r.value, opts, cls))
    ctx.corr(f"dump:{ad.key}", dreq, dimp, None, dcls)
    lreq, limp, lcls, second = [], [], [], []
    for raw, opts, cls in loads:
        r = F.real_load(raw, ad.fmt, **ad.kw(opts))
        line = "ok " + ad.enc_loaded(ad.quant(r.value, opts)) if r.ok else "err " + r.err
        lreq.append(f"fmtw load {ad.key} {opts} {raw.hex()}")
        limp.append(line)
        lcls.append(cls + ("" if r.ok else "/" + line))
        if r.ok and generations > 1:
            second.append((ad.loaded_to_obj_enc(line[3:]), r.value, opts, cls))
    ctx.corr(f"load:{ad.key}", lreq, limp, None, lcls)
    if generations > 1:
        g2req, g2imp, g2cls = [], [], []
        for enc, obj, opts, cls in second:
            r = F.real_dump(obj, ad.fmt, **ad.kw(opts))
            g2req.append(f"fmtw dump {ad.key} {opts} {enc}")
            g2imp.append("ok " + r.value.hex() if r.ok else "err DumpError")
            g2cls.append(cls)
        ctx.corr(f"dump-gen2:{ad.key}", g2req, g2imp, None, g2cls)


def correspond(ctx):
    for m in _mods():
        if hasattr(m, "correspond"):
            m.correspond(ctx)


def search(ctx):
    for m in _mods():
        if hasattr(m, "search"):
            m.search(ctx)


def replay_or(ctx, obj, fallback):
    """replay of a failing input recorded by one of the W modules (their adapters are registered in ``REPLAY`` under the
    ``format`` name they report); everything else goes to the first-round replay"""
    inp = obj.get("input", {})
    for m in _mods():
        ad = getattr(m, "REPLAY", {}).get(inp.get("format"))
        if ad is not None:
            if hasattr(ad, "replay"):
                return ad.replay(inp)
            x = ad.free_build(inp["spec"])
            kw = ad.kw(ad.OPTS) if hasattr(ad, "OPTS") else {}
            return (K.c02_eval(ad, x, kw) if inp["kind"] == "c02" else K.c15_eval(ad, x, kw)) is not None
    return fallback(ctx, obj)
