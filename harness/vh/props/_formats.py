"""Machinery shared by C02 / C03 / C15: quantised objects, line-protocol encoding, generators,
the real dump/load through iodata.api, exact re-quantisation, object comparison.

Numbers (DESIGN §4.1).  A real printed with ``d`` decimals is carried as ``(neg, mag)`` with
``mag = round(|x|*10^d)``.  The Python object is built as ``x = ±(mag / 10**d) * unit`` (int/int true
division is correctly rounded).  The writer prints ``fl(x/unit)``, which differs from ``mag/10^d`` by at most
three roundings (relative 3*2^-53), so its ``d``-decimal rendering is again ``mag`` as long as
``mag * 3 * 2^-53 < 1/2``; generators keep ``mag <= MAXMAG = 10^15 < 2^52/3``.  A loaded double ``v`` is
re-quantised *exactly* with ``fractions.Fraction``: ``round(Fraction(v)/Fraction(unit)*10^d)``; no decimal
string produced by the implementation is ever compared with one produced by the model except the file
bytes themselves (the byte-exact writer correspondence).
"""

from __future__ import annotations

import math
import os
import shutil
import tempfile
import warnings
from fractions import Fraction

import numpy as np

MAXMAG = 10**15

_TMP = None


def tmpdir() -> str:
    global _TMP
    if _TMP is None:
        base = "/dev/shm" if os.path.isdir("/dev/shm") else None
        _TMP = tempfile.mkdtemp(prefix="vhfmt", dir=base)
        import atexit

        atexit.register(shutil.rmtree, _TMP, ignore_errors=True)
    return _TMP


# ---------------------------------------------------------------------------------------------
# quantised numbers


def fx_float(fx, d: int) -> float:
    neg, mag = fx
    v = mag / 10**d
    return -v if neg else v


def fx_quant(v: float, d: int, unit: float = 1.0):
    """exact re-quantisation of a double (in units of ``unit``) to ``d`` decimals"""
    v = float(v)
    if math.isnan(v) or math.isinf(v):
        return (False, -1)
    q = Fraction(v) / Fraction(unit) * 10**d
    return (math.copysign(1.0, v) < 0, int(round(abs(q))))


def enc_fx(fx) -> str:
    return ("-" if fx[0] else "") + str(fx[1])


def dec_fx(s: str):
    return (True, int(s[1:])) if s.startswith("-") else (False, int(s))


def enc_str(s: str) -> str:
    return "x" + s.encode("latin-1").hex()


def dec_str(s: str) -> str:
    return bytes.fromhex(s[1:]).decode("latin-1")


def enc_list(items, f, sep=",") -> str:
    items = list(items)
    return sep.join(f(i) for i in items) if items else "@"


def dec_list(s: str, f, sep=","):
    return [] if s in ("", "@") else [f(i) for i in s.split(sep)]


# ---------------------------------------------------------------------------------------------
# random pieces

TITLE_CHARS = "abcdefghijklmnopqrstuvwxyzABCDEFGHIJKLMNOPQRSTUVWXYZ0123456789 _-+=.,:;()[]{}<>/*#@!?%&|~^$'\"`\\"


def rand_title(rng, allow_empty=True) -> str:
    r = rng.random()
    if allow_empty and r < 0.15:
        return ""
    if r > 0.8:
        # free text as people write it: words that name units or quantities must stay plain text for every reader
        return " ".join(rng.choice(TITLE_WORDS) for _ in range(rng.randint(1, 6)))
    n = rng.choice([1, 2, 5, 12, 30, 79, 80, 81, 200]) if r < 0.5 else rng.randint(1, 40)
    t = "".join(rng.choice(TITLE_CHARS) for _ in range(n)).strip()
    return t or "t"


TITLE_WORDS = ["energy", "E(MP2)", "=", "-76.332", "a.u.", "bohr", "Bohr", "BOHR", "angstrom", "Angstrom", "Angs", "AU", "au",
               "nm", "eV", "hartree", "kcal/mol", "step", "frame", "12", "in", "coordinates", "geometry", "optimized", "water"]


def rand_mag(rng, d: int, int_digits: int, allow_wide: bool = False):
    """magnitude with up to ``int_digits`` integer digits (capacity boundary classes included)"""
    r = rng.random()
    cap = 10 ** (int_digits + d) - 1
    if r < 0.08:
        m = 0
    elif r < 0.16:
        m = cap  # 99..9.99..9 : fills the column
    elif r < 0.24:
        m = 10 ** (int_digits - 1 + d)  # smallest value with that many integer digits
    elif r < 0.30:
        m = rng.randint(1, 9)  # last printed digit only
    elif r < 0.36 and allow_wide:
        m = rng.randint(cap + 1, 10 * cap)  # wider than the column
    else:
        k = rng.randint(0, int_digits)
        m = rng.randint(0, 10 ** (k + d) - 1) if k + d > 0 else 0
    return min(m, MAXMAG)


def rand_fx(rng, d, int_digits_pos, int_digits_neg=None, allow_wide=False):
    neg = rng.random() < 0.45
    nd = (int_digits_neg if int_digits_neg is not None else int_digits_pos) if neg else int_digits_pos
    return (neg, rand_mag(rng, d, nd, allow_wide))


SIZE_CLASSES_QUICK = [1, 2, 3, 9, 10, 11, 99, 100, 101, 999, 1000, 1001, 9999, 10000, 10001]
SIZE_CLASSES_THOROUGH = [*SIZE_CLASSES_QUICK, 12000]


def pick_natom(rng, i: int, thorough: bool, big=None) -> int:
    """sizes: boundary classes first (deterministically cycled), then random small"""
    classes = SIZE_CLASSES_THOROUGH if thorough else SIZE_CLASSES_QUICK
    if big:
        classes = [*classes, *big]
    if i < len(classes):
        return classes[i]
    return rng.randint(1, 40)


# ---------------------------------------------------------------------------------------------
# real code


class Outcome:
    def __init__(self, ok, value=None, err=None, exc=None):
        self.ok, self.value, self.err, self.exc = ok, value, err, exc


def err_class(exc) -> str:
    from iodata.utils import DumpError, FileFormatError, LoadError, PrepareDumpError, WriteInputError

    for cls in (PrepareDumpError, DumpError, LoadError, FileFormatError, WriteInputError):
        if isinstance(exc, cls):
            return cls.__name__
    if isinstance(exc, TypeError | ValueError):
        return type(exc).__name__
    return "Other:" + type(exc).__name__


_counter = [0]


def real_dump(data, fmt: str, **kw) -> Outcome:
    """bytes written by ``iodata.api.dump_one``"""
    from iodata.api import dump_one

    _counter[0] += 1
    path = os.path.join(tmpdir(), f"d{os.getpid()}_{_counter[0]}.{fmt}")
    try:
        with warnings.catch_warnings():
            warnings.simplefilter("ignore")
            dump_one(data, path, fmt=fmt, **kw)
        with open(path, "rb") as fh:
            return Outcome(True, fh.read())
    except Exception as exc:
        return Outcome(False, err=err_class(exc), exc=exc)
    finally:
        if os.path.exists(path):
            os.unlink(path)


def real_load(raw: bytes, fmt: str, **kw) -> Outcome:
    from iodata.api import load_one

    _counter[0] += 1
    path = os.path.join(tmpdir(), f"l{os.getpid()}_{_counter[0]}.{fmt}")
    with open(path, "wb") as fh:
        fh.write(raw)
    try:
        with warnings.catch_warnings():
            warnings.simplefilter("ignore")
            return Outcome(True, load_one(path, fmt=fmt, **kw))
    except Exception as exc:
        return Outcome(False, err=err_class(exc), exc=exc)
    finally:
        os.unlink(path)


# ---------------------------------------------------------------------------------------------
# bit-exact snapshots of IOData objects (C15) and attribute comparison (C02)

ATTRS = [
    "atcharges", "atcoords", "atcorenums", "atffparams", "atfrozen", "atgradient", "athessian", "atmasses", "atnums",
    "basisdef", "bonds", "cellvecs", "charge", "core_energy", "cube", "energy", "extra", "g_rot", "lot", "mo", "moments",
    "nelec", "obasis", "obasis_name", "one_ints", "one_rdms", "run_type", "spinpol", "title", "two_ints", "two_rdms",
]  # fmt: skip


def snap(v):
    """hashable, bit-exact snapshot"""
    import attrs

    if v is None or isinstance(v, str | bool | int):
        return ("v", type(v).__name__, v)
    if isinstance(v, float):
        return ("f", np.float64(v).tobytes().hex())
    if isinstance(v, np.generic):
        return ("g", v.dtype.str, v.tobytes().hex())
    if isinstance(v, np.ndarray):
        if v.dtype.kind in "US":
            return ("as", v.shape, tuple(str(x) for x in v.ravel()))
        if v.dtype.kind == "O":
            return ("ao", v.shape, tuple(snap(x) for x in v.ravel()))
        return ("a", v.dtype.str, v.shape, np.ascontiguousarray(v).tobytes().hex())
    if isinstance(v, dict):
        return ("d", tuple((repr(k), snap(v[k])) for k in sorted(v, key=repr)))
    if isinstance(v, list | tuple):
        return ("l", type(v).__name__, tuple(snap(x) for x in v))
    if attrs.has(type(v)):
        return ("o", type(v).__name__, tuple((a.name, snap(getattr(v, a.name))) for a in attrs.fields(type(v))))
    return ("r", repr(v))


def snap_iodata(d):
    out = {}
    for a in ATTRS:
        try:
            val = getattr(d, a)
        except Exception as exc:  # derived attribute that cannot be computed
            val = "<" + type(exc).__name__ + ">"
        out[a] = snap(val)
    return out


def snap_diff(a: dict, b: dict):
    return [k for k in a if a[k] != b[k]]
