"""C06 — overlap matrices are the exact L2 inner products of the documented functions."""

from __future__ import annotations

import math
from fractions import Fraction

import numpy as np

from ..engine import _sha
from . import c10

MODULES = ["Iodata.Props.C06", "Iodata.Props.C06Tables"]
RULE = (
    "kern: all (n1,n2)<=7 x random dyadic (x1,x2,two_at) with magnitudes 1e-3..1e3 (x) and 1e-2..4e5 (two_at), signs and "
    "zeros, n_max in {max(n1,n2)..7}; exact Rat value vs the double within 16(n+1)u*sum|term|. gotab/cart: exhaustive "
    "n<=12. nrm: random exponents x all Cartesian powers l<=7. ovl: random pairs of bases (1-5 centres incl. coincident, "
    "1-6 shells, l 0-7 Cartesian / 2-7 pure, 1-6 primitives, exponents 1e-2..1e5, generalized contractions, random "
    "signed conventions, one or two bases, rejected inputs); every matrix element vs the model run in double with a "
    "running error bound. search: the same kind of bases against an independent evaluator (Helgaker solid harmonics + "
    "Gauss-Hermite), symmetry, transposition, translation, convention action, PSD, rejections. non-trivial = distinct "
    "request whose result is not all zeros / not the identity"
)
TRUSTED = [
    "numpy.polynomial.hermite.hermgauss and the closed formulas of the independent evaluator in harness/vh/props/c06.py",
    "Float.exp/sqrt/pow of the Lean runtime (C libm) in the `ovl` stream; every comparison there is within a running "
    "first-order error bound computed by the driver (EF arithmetic), factor 8",
]
ASSUMPTIONS = [
    "the final content of `overlap` after the block writes is modelled in final-state form (Model/Overlap.rawEntry); tied by the ovl stream",
    "positive semidefiniteness and the size of what the 1e-15 screening drops are NOT proved (checked numerically by the search)",
    "IEEE double arithmetic of numpy is not modelled; comparisons use model-derived error bounds",
    "kernel_eq_integral is proved over the reals for the 1-D factor; that the 3-D primitive integral is the product of the three "
    "1-D factors (Fubini) and that contraction / Cartesian->pure transformation are linear is used, not restated in Lean",
    "checkTable (interval checker) is tied to real numbers by the soundness lemmas I.mem_add/mem_scale/mem_mulPos/within_sound/"
    "invSqrt_sound; their composition over the checker's list folds is by construction",
]
TIME_LIMIT = {"quick": 1200, "thorough": 7200}

U = 2.0 ** -53


# ------------------------------------------------------------------ T1
def _lean_rat(x: float) -> str:
    fr = Fraction(float(x))
    if fr.denominator == 1:
        return f"({fr.numerator} : Rat)" if fr.numerator >= 0 else f"(({fr.numerator}) : Rat)"
    return f"(({fr.numerator} : Rat) / {fr.denominator})"


def translate(ctx):
    c10.translate(ctx)  # Gen/Conventions (HORTON2 = OVERLAP_CONVENTIONS) from the current source
    import iodata.overlap as ov
    from iodata.overlap_cartpure import tfs

    if ov.OVERLAP_CONVENTIONS is not __import__("iodata.convert", fromlist=["x"]).HORTON2_CONVENTIONS:
        raise ValueError("OVERLAP_CONVENTIONS is no longer the HORTON2 table")
    body = ["namespace Iodata.Gen.Cartpure", ""]
    for l, tf in enumerate(tfs):
        tf = np.asarray(tf, dtype=float)
        if tf.ndim != 2:
            raise ValueError(f"tfs[{l}] is not a matrix")
        rows = ["    [" + ", ".join(_lean_rat(v) for v in row) + "]" for row in tf]
        body.append(f"def tf{l} : List (List Rat) := [\n" + ",\n".join(rows) + "]\n")
    body.append("def tfs : List (List (List Rat)) := [" + ", ".join(f"tf{l}" for l in range(len(tfs))) + "]")
    body.append("\nend Iodata.Gen.Cartpure\n")
    ctx.gen_write("Cartpure", "\n".join(body))


# ------------------------------------------------------------------ helpers
def _book(ctx, stream, reqs, ok_flags, details, nontrivial, classes, samples=None):
    """Bookkeeping of a tolerance-based correspondence (same fields as Ctx.corr)."""
    for i, rq in enumerate(reqs):
        ctx.evaluations += 1
        ctx.streams[stream] += 1
        if nontrivial[i]:
            ctx.distinct.add(_sha([stream, rq]))
        ctx.hist[f"{stream}:{classes[i]}"] += 1
        if not ok_flags[i]:
            ctx.mismatches.append({"stream": stream, "request": rq[:3000], "impl": details[i][0][:600], "model": details[i][1][:600]})
    if reqs and len(ctx.samples) < 12:
        k = ctx.rng.randrange(len(reqs))
        ctx.samples.append({"stream": stream, "request": reqs[k][:300], "response": (details[k][1] if details[k] else "")[:300]})


def _dyadic(rng, lo_exp, hi_exp, signed=True, bits=20):
    """random double with `bits` significant bits, magnitude 10**U(lo_exp, hi_exp)."""
    mag = 10.0 ** rng.uniform(lo_exp, hi_exp)
    m, e = math.frexp(mag)
    m = round(m * (1 << bits)) / (1 << bits)
    x = math.ldexp(m, e)
    if signed and rng.random() < 0.5:
        x = -x
    return x


def _fr(x):
    f = Fraction(float(x))
    return f"{f.numerator}/{f.denominator}"


def _bits(x) -> str:
    return str(int(np.float64(x).view(np.uint64)))


def _unbits(s) -> float:
    return float(np.uint64(int(s)).view(np.float64))


# ------------------------------------------------------------------ T2: kernel & tables
def _corr_kernel(ctx):
    from iodata.overlap import GaussianOverlap

    rng = ctx.rng
    gos = {n: GaussianOverlap(n) for n in range(0, 8)}
    reqs, impl, cls = [], [], []
    reps = ctx.n(12, 80)
    for n1 in range(8):
        for n2 in range(8):
            for _ in range(reps):
                x1 = 0.0 if rng.random() < 0.08 else _dyadic(rng, -3, 3)
                x2 = 0.0 if rng.random() < 0.08 else _dyadic(rng, -3, 3)
                if rng.random() < 0.1:
                    x2 = x1
                t = _dyadic(rng, -2, 5.6, signed=False)
                nmax = rng.randint(max(n1, n2), 7)
                f = np.frompyfunc(gos[nmax].compute_overlap_gaussian_1d, 5, 1)
                val = float(f(np.float64(x1), np.float64(x2), np.int64(n1), np.int64(n2), np.float64(t)))
                reqs.append(f"kern {n1} {n2} {_fr(x1)} {_fr(x2)} {_fr(t)}")
                impl.append(val)
                cls.append(f"n1+n2={n1 + n2}/x0={int(x1 == 0) + int(x2 == 0)}")
    out = ctx.driver(reqs)
    ok, det, nt = [], [], []
    for rq, v, line in zip(reqs, impl, out):
        ex, ab, cnt = line.split()
        ex, ab, cnt = Fraction(ex), Fraction(ab), int(cnt)
        bound = 16 * (cnt + 1) * Fraction(U) * ab
        good = abs(Fraction(v) - ex) <= bound
        ok.append(good)
        det.append((repr(v), f"{float(ex)!r} +- {float(bound):.3e}"))
        nt.append(ex != 0)
    _book(ctx, "kern", reqs, ok, det, nt, cls)
    # the tables built by GaussianOverlap.__init__ and iter_cart_alphabet: exact
    from iodata.convert import iter_cart_alphabet

    reqs, outs = [], []
    for n in range(0, 13):
        go = GaussianOverlap(n)
        reqs.append(f"gotab {n}")
        facts = [int(x) for x in go.facts]
        bins = [[int(round(float(b))) for b in row] for row in go.binomials]
        exact = all(float(b) == int(round(float(b))) for row in go.binomials for b in row) and all(
            float(x) == int(x) for x in go.facts)
        outs.append((f"{facts} {bins}" if exact else "non-integer table").replace("'", ""))
        reqs.append(f"cart {n}")
        outs.append("[" + ", ".join(f"({a}, ({b}, {c}))" for a, b, c in (map(int, t) for t in iter_cart_alphabet(n))) + "]")
    ctx.corr("tables", reqs, outs, None, [r.split()[0] for r in reqs])
    # normalisation: rational part of N^2
    from iodata.overlap import gob_cart_normalization

    reqs, vals = [], []
    for l in range(8):
        for n in iter_cart_alphabet(l):
            for _ in range(ctx.n(1, 6)):
                a = _dyadic(rng, -2, 5, signed=False)
                nn = np.array([int(k) for k in n])
                N = float(gob_cart_normalization(a, nn))
                reqs.append(f"nrm {_fr(a)} {int(n[0])} {int(n[1])} {int(n[2])}")
                vals.append(N * N / (2 * a / math.pi) ** 1.5)
    out = ctx.driver(reqs)
    ok = [abs(Fraction(v) - Fraction(o)) <= Fraction(1, 10 ** 13) * Fraction(o) for v, o in zip(vals, out)]
    _book(ctx, "nrm", reqs, ok, [(repr(v), o) for v, o in zip(vals, out)], [True] * len(reqs),
          [f"l={sum(int(k) for k in r.split()[2:])}" for r in reqs])


# ------------------------------------------------------------------ random bases
def _rand_conv_table(rng, keys, h2):
    t = {}
    for k in keys:
        c = list(h2[k])
        if rng.random() < 0.8:
            rng.shuffle(c)
            c = [("-" + x if rng.random() < 0.3 else x) for x in c]
        t[k] = c
    return t


def _cost(shells):
    c = 0
    for s in shells:
        for l, k in zip(s["angmoms"], s["kinds"]):
            c += ((l + 1) * (l + 2) // 2) * len(s["exps"])
    return c


def _rand_basis(rng, ncenter, lmax, h2, max_cost):
    while True:
        nsh = rng.randint(1, 6)
        shells = []
        for _ in range(nsh):
            ncon = 1 if rng.random() < 0.6 else rng.randint(2, 3)
            r = rng.random()
            angmoms = [rng.randint(0, 2) if r < 0.45 else rng.randint(0, 4) if r < 0.8 else rng.randint(0, lmax) for _ in range(ncon)]
            kinds = [("p" if (l >= 2 and rng.random() < 0.5) else "c") for l in angmoms]
            nprim = rng.randint(1, 6)
            exps = [_dyadic(rng, -2, 5, signed=False, bits=30) for _ in range(nprim)]
            coeffs = [[(_dyadic(rng, -2, 1, bits=30) if rng.random() < 0.9 else 0.0) for _ in range(ncon)] for _ in range(nprim)]
            shells.append({"icenter": rng.randrange(ncenter), "angmoms": angmoms, "kinds": kinds, "exps": exps, "coeffs": coeffs})
        if _cost(shells) <= max_cost:
            break
    keys = sorted({(l, k) for s in shells for l, k in zip(s["angmoms"], s["kinds"])})
    return {"shells": shells, "conv": _rand_conv_table(rng, keys, h2), "l2": True}


def _rand_coords(rng, n):
    scale = rng.choice([0.5, 2.0, 2.0, 5.0, 12.0])
    pts = []
    for i in range(n):
        if i and rng.random() < 0.25:
            pts.append(list(rng.choice(pts)))
        else:
            pts.append([_dyadic(rng, -1, 0, bits=30) * scale * rng.uniform(0.2, 1.5) for _ in range(3)])
    shift = rng.choice([0.0, 0.0, 3.0, 40.0])
    return [[x + shift for x in p] for p in pts]


def _mk_basis(b):
    from iodata.basis import MolecularBasis, Shell

    shells = [Shell(s["icenter"], list(s["angmoms"]), list(s["kinds"]), np.array(s["exps"], dtype=float),
                    np.array(s["coeffs"], dtype=float).reshape(len(s["exps"]), len(s["angmoms"]))) for s in b["shells"]]
    return MolecularBasis(shells, {k: list(v) for k, v in b["conv"].items()}, "L2" if b["l2"] else "L1")


def _enc_basis(b):
    sh = []
    for s in b["shells"]:
        sh.append(":".join([
            str(s["icenter"]), ",".join(map(str, s["angmoms"])), "".join(s["kinds"]),
            ",".join(_bits(e) for e in s["exps"]), ";".join(",".join(_bits(c) for c in row) for row in s["coeffs"])]))
    return f"{int(b['l2'])}|{c10._enc_table(b['conv'])}|{'/'.join(sh)}"


def _enc_xyz(x):
    return ";".join(",".join(_bits(c) for c in p) for p in x)


def _borderline(b0, x0, b1, x1):
    """True when some screening prefactor is too close to 1e-15 for a float comparison to be stable."""
    def segs(b):
        return [(s["icenter"], s["exps"]) for s in b["shells"] for _ in s["angmoms"]]
    for i0, e0 in segs(b0):
        for i1, e1 in segs(b1):
            r = np.array(x0[i0]) - np.array(x1[i1])
            r2 = float(np.dot(r, r))
            for a0 in e0:
                for a1 in e1:
                    p = math.exp(-a0 * a1 / (a0 + a1) * r2)
                    if abs(p - 1e-15) < 1e-18:
                        return True
    return False


def _exc_class(exc):
    for c in (TypeError, ValueError, KeyError):
        if isinstance(exc, c):
            return c.__name__
    return "Other:" + type(exc).__name__


def _gen_case(rng, h2, max_cost, lmax):
    two = rng.random() < 0.5
    nc0 = rng.randint(1, 5)
    b0 = _rand_basis(rng, nc0, lmax, h2, max_cost)
    x0 = _rand_coords(rng, nc0)
    b1 = x1 = None
    if two:
        nc1 = rng.randint(1, 5)
        b1 = _rand_basis(rng, nc1, lmax, h2, max_cost)
        x1 = _rand_coords(rng, nc1)
        if rng.random() < 0.3:
            x1[0] = list(x0[0])
    cls = "two" if two else "one"
    r = rng.random()
    if r < 0.03:
        b0["l2"] = False
        cls += "/nonL2-0"
    elif r < 0.06 and two:
        b1["l2"] = False
        cls += "/nonL2-1"
    elif r < 0.09 and two:
        x1 = None
        cls += "/missing-coords"
    elif r < 0.12 and not two:
        x1 = _rand_coords(rng, 2)
        cls += "/coords-without-basis"
    elif r < 0.15:
        s = rng.choice(b0["shells"])
        j = rng.randrange(len(s["angmoms"]))
        s["angmoms"][j] = rng.randint(0, 1)
        s["kinds"][j] = "p"
        b0["conv"].setdefault((s["angmoms"][j], "p"), ["c0"] if s["angmoms"][j] == 0 else ["c0", "c1", "s1"])
        cls += "/pure-l<2"
    elif r < 0.18:
        k = rng.choice(sorted(b0["conv"]))
        del b0["conv"][k]
        cls += "/missing-conv"
    elif r < 0.21:
        k = rng.choice(sorted(b0["conv"]))
        b0["conv"][k] = c10._corrupt(rng, b0["conv"][k])
        cls += "/corrupt-conv"
    return b0, x0, b1, x1, cls


def _run_impl(b0, x0, b1, x1):
    from iodata.overlap import compute_overlap

    try:
        mb0 = _mk_basis(b0)
        # the same basis OBJECT on both sides (with its own geometry each) when the two descriptions coincide
        mb1 = None if b1 is None else (mb0 if (b1 is b0 or b1 == b0) else _mk_basis(b1))
        return compute_overlap(mb0, np.array(x0, dtype=float), mb1, None if x1 is None else np.array(x1, dtype=float))
    except Exception as exc:  # noqa: BLE001
        return _exc_class(exc)


def _labels_ok(b):
    return all(all(32 < ord(ch) < 127 and ch not in " ,;=|/:@" for ch in x) and x for v in b["conv"].values() for x in v) and all(v for v in b["conv"].values())


def _corr_overlap(ctx):
    rng = ctx.rng
    h2 = c10._tables()["horton2"]
    n = ctx.n(240, 1500)
    reqs, impls, clss = [], [], []
    for i in range(n):
        big = i % 6 == 0
        while True:
            b0, x0, b1, x1, cls = _gen_case(rng, h2, 260 if big else 120, 7 if big else 5)
            if not _labels_ok(b0) or (b1 is not None and not _labels_ok(b1)):
                continue
            if not (b1 is not None and x1 is None) and _borderline(b0, x0, b1 or b0, x1 if b1 is not None else x0):
                continue
            break
        reqs.append(f"ovl {_enc_basis(b0)} {_enc_xyz(x0)} {'@' if b1 is None else _enc_basis(b1)} {'@' if x1 is None else _enc_xyz(x1)}")
        impls.append(_run_impl(b0, x0, b1, x1))
        lm = max(l for s in b0["shells"] for l in s["angmoms"])
        clss.append(f"{cls}/lmax={lm}")
    out = ctx.driver(reqs)
    ok, det, nt = [], [], []
    worst = 0.0
    for rq, im, line in zip(reqs, impls, out):
        if isinstance(im, str):
            good = line == "err " + im
            ok.append(good)
            det.append(("err " + im, line[:200]))
            nt.append(True)
            continue
        parts = line.split(" ")
        if parts[0] != "ok":
            ok.append(False)
            det.append((f"matrix {im.shape}", line[:200]))
            nt.append(True)
            continue
        nr, nc = int(parts[1]), int(parts[2])
        if (nr, nc) != im.shape:
            ok.append(False)
            det.append((f"shape {im.shape}", f"shape {(nr, nc)}"))
            nt.append(True)
            continue
        v = np.array([_unbits(s) for s in parts[3].split(",")]).reshape(nr, nc) if nr * nc else np.zeros((nr, nc))
        e = np.array([_unbits(s) for s in parts[4].split(",")]).reshape(nr, nc) if nr * nc else np.zeros((nr, nc))
        diff = np.abs(im - v)
        tol = 8 * e + 1e-300
        bad = np.argwhere(~(diff <= tol))
        with np.errstate(divide="ignore", invalid="ignore"):
            ratio = np.nanmax(np.where(e > 0, diff / e, 0.0)) if e.size else 0.0
        worst = max(worst, float(ratio))
        good = len(bad) == 0
        ok.append(good)
        if good:
            det.append(("", f"max|diff|/bound={ratio:.3f}"))
        else:
            r, c = map(int, bad[0])
            det.append((f"[{r},{c}]={im[r, c]!r}", f"[{r},{c}]={v[r, c]!r} +- {tol[r, c]:.3e} ({len(bad)} elements differ)"))
        nt.append(bool(np.any(v != 0)))
    ctx.extra_cov["ovl_worst_diff_over_bound"] = round(worst, 4)
    _book(ctx, "ovl", reqs, ok, det, nt, clss)


def correspond(ctx):
    _corr_kernel(ctx)
    _corr_overlap(ctx)


# ------------------------------------------------------------------ S: independent evaluator
def _f2(n):
    r = 1
    while n > 1:
        r *= n
        n -= 2
    return r


def _solid_harmonic(l, m):
    """Real regular solid harmonic (Racah normalised) as {(nx,ny,nz): coeff}; Helgaker, Jorgensen, Olsen,
    Molecular Electronic-Structure Theory, eq. 6.4.47-6.4.50.  m >= 0: cosine-like C_lm, m < 0: sine-like S_l|m|."""
    am = abs(m)
    vm = Fraction(0) if m >= 0 else Fraction(1, 2)
    n2 = Fraction(2 * math.factorial(l + am) * math.factorial(l - am), (2 if m == 0 else 1)) / (2 ** am * math.factorial(l)) ** 2
    out = {}
    for t in range((l - am) // 2 + 1):
        for u in range(t + 1):
            v = vm
            while v <= (Fraction(am, 2) - vm).__floor__() + vm:
                c = (Fraction(-1) ** int(t + v - vm)) * Fraction(1, 4) ** t * math.comb(l, t) * math.comb(l - t, am + t) * math.comb(t, u) * math.comb(am, int(2 * v))
                key = (int(2 * t + am - 2 * (u + v)), int(2 * (u + v)), l - 2 * t - am)
                out[key] = out.get(key, 0) + c
                v += 1
    s = math.sqrt(n2)
    return {k: float(c) * s for k, c in out.items() if c != 0}


_SH = {}


def _ao_list(b, xyz, order):
    """Flat list of the documented basis functions: (center, exps, coefficient column, {mono: weight incl. sign})
    in the order/sign the conventions of `b` prescribe (docs/basis.rst)."""
    aos = []
    for s in b["shells"]:
        for j, (l, kind) in enumerate(zip(s["angmoms"], s["kinds"])):
            col = [row[j] for row in s["coeffs"]]
            for label in order[(l, kind)]:
                sign = -1.0 if label.startswith("-") else 1.0
                lab = label.lstrip("-")
                if kind == "c":
                    mono = (lab.count("x"), lab.count("y"), lab.count("z")) if lab != "1" else (0, 0, 0)
                    poly = {mono: 1.0}
                    norm_kind = ("c", mono)
                else:
                    mm = int(lab[1:])
                    key = (l, mm if lab[0] == "c" else -mm)
                    if key not in _SH:
                        _SH[key] = _solid_harmonic(*key)
                    poly = _SH[key]
                    norm_kind = ("p", l)
                aos.append((np.array(xyz[s["icenter"]], dtype=float), np.array(s["exps"], dtype=float), np.array(col, dtype=float),
                            {k: sign * w for k, w in poly.items()}, norm_kind))
    return aos


_GH = np.polynomial.hermite.hermgauss(10)


def _i1d(a, b, al0, al1, A, B):
    """int (x-A)^a (x-B)^b exp(-al0 (x-A)^2 - al1 (x-B)^2) dx without the Gaussian-product prefactor, and its abs-scale."""
    p = al0 + al1
    P = (al0 * A + al1 * B) / p
    x, w = _GH
    xs = x / math.sqrt(p) + P
    vals = w * (xs - A) ** a * (xs - B) ** b
    return float(vals.sum()) / math.sqrt(p), float(np.abs(vals).sum()) / math.sqrt(p)


def _norm2(alpha, nk):
    base = (2 * alpha / math.pi) ** 1.5
    if nk[0] == "c":
        nx, ny, nz = nk[1]
        return base * (4 * alpha) ** (nx + ny + nz) / (_f2(2 * nx - 1) * _f2(2 * ny - 1) * _f2(2 * nz - 1))
    return base * (4 * alpha) ** nk[1] / _f2(2 * nk[1] - 1)


def reference_overlap(b0, x0, b1, x1):
    """<chi_mu | chi_nu> of the documented functions, with a scale matrix (sum of |terms|) and the part that lies
    below the 1e-15 Gaussian-product prefactor (what screening is allowed to drop)."""
    ao0 = _ao_list(b0, x0, b0["conv"])
    ao1 = _ao_list(b1, x1, b1["conv"])
    S = np.zeros((len(ao0), len(ao1)))
    scale = np.zeros_like(S)
    dropped = np.zeros_like(S)
    cache = {}
    for i, (A, e0, c0, poly0, nk0) in enumerate(ao0):
        for j, (B, e1, c1, poly1, nk1) in enumerate(ao1):
            r2 = float(np.dot(A - B, A - B))
            tot = sc = dr = 0.0
            for al0, d0 in zip(e0, c0):
                for al1, d1 in zip(e1, c1):
                    pref = math.exp(-al0 * al1 / (al0 + al1) * r2)
                    f = d0 * d1 * math.sqrt(_norm2(al0, nk0) * _norm2(al1, nk1)) * pref
                    val = ab = 0.0
                    for m0, w0 in poly0.items():
                        for m1, w1 in poly1.items():
                            pv = pa = w0 * w1
                            pa = abs(pa)
                            for d in range(3):
                                key = (m0[d], m1[d], al0, al1, A[d], B[d])
                                if key not in cache:
                                    cache[key] = _i1d(*key)
                                pv *= cache[key][0]
                                pa *= cache[key][1]
                            val += pv
                            ab += pa
                    tot += f * val
                    sc += abs(f) * ab
                    if pref < 1.0000001e-15:
                        dr += abs(f) * ab
            S[i, j], scale[i, j], dropped[i, j] = tot, sc, dr
    return S, scale, dropped


def _check_case(case):
    """All S predicates on one generated case; returns list of (sig, what)."""
    b0, x0, b1, x1 = case["b0"], case["x0"], case["b1"], case["x1"]
    fails = []
    S = _run_impl(b0, x0, b1, x1)
    if isinstance(S, str):
        return [("ovl-rejects-valid", f"valid input raised {S}")]
    two = b1 is not None
    ref, scale, dropped = reference_overlap(b0, x0, b1 if two else b0, x1 if two else x0)
    if S.shape != ref.shape:
        return [("ovl-shape", f"shape {S.shape} instead of {ref.shape}")]
    tol = 2e-9 * scale + 1.01 * dropped + 1e-14
    bad = np.argwhere(~(np.abs(S - ref) <= tol))
    if len(bad):
        r, c = map(int, bad[0])
        fails.append(("ovl-value", f"element [{r},{c}] = {S[r, c]!r}, exact inner product {ref[r, c]!r} (scale {scale[r, c]:.3e}); {len(bad)} elements wrong"))
    ftol = 1e-12 * scale + 2.02 * dropped + 1e-14
    if not two:
        if not np.all(np.abs(S - S.T) <= ftol):
            fails.append(("ovl-symmetric", "single-basis overlap is not symmetric"))
        else:
            w = np.linalg.eigvalsh((S + S.T) / 2)
            if w.min() < -1e-9 * max(1.0, abs(w).max()) - S.shape[0] * float(dropped.max()):
                fails.append(("ovl-psd", f"smallest eigenvalue {w.min()!r}"))
    else:
        T = _run_impl(b1, x1, b0, x0)
        if isinstance(T, str) or T.shape != S.T.shape or not np.all(np.abs(T - S.T) <= ftol.T):
            fails.append(("ovl-transpose", "S(b1,b0) is not the transpose of S(b0,b1)"))
    # translation
    d = case["shift"]
    xs0 = [[a + t for a, t in zip(p, d)] for p in x0]
    xs1 = None if x1 is None else [[a + t for a, t in zip(p, d)] for p in x1]
    Ssh = _run_impl(b0, xs0, b1, xs1)
    span = 1.0 + max(abs(t) for t in d) + max(abs(a) for p in x0 + (x1 or []) for a in p)
    lm = max([l for s in b0["shells"] for l in s["angmoms"]] + ([l for s in b1["shells"] for l in s["angmoms"]] if two else []))
    amax = max([a for s in b0["shells"] for a in s["exps"]] + ([a for s in b1["shells"] for a in s["exps"]] if two else []))
    # moving the centres by d perturbs every centre difference by <= u*span: first-order bound on the element
    ttol = (1e-12 + 4e-16 * span * (2 * lm + 2) * (1 + math.sqrt(amax)) * 40) * scale + 2.02 * dropped + 1e-14
    if isinstance(Ssh, str) or not np.all(np.abs(Ssh - S) <= ttol):
        fails.append(("ovl-translation", f"translating all centres by {d} changes the matrix"))
    # conventions: same shells, HORTON2 conventions -> signed permutation of rows/cols
    h2 = case["h2"]
    bh0 = dict(b0, conv={k: h2[k] for k in b0["conv"]})
    bh1 = None if not two else dict(b1, conv={k: h2[k] for k in b1["conv"]})
    Sh = _run_impl(bh0, x0, bh1, x1)
    if isinstance(Sh, str):
        fails.append(("ovl-convention", f"HORTON2 conventions rejected: {Sh}"))
    else:
        def sperm(b):
            idx, sg = [], []
            for s in b["shells"]:
                for l, k in zip(s["angmoms"], s["kinds"]):
                    base = [x for x in h2[(l, k)]]
                    off = len(idx)
                    for lab in b["conv"][(l, k)]:
                        idx.append(off + base.index(lab.lstrip("-")))
                        sg.append(-1.0 if lab.startswith("-") else 1.0)
            return np.array(idx), np.array(sg)
        p0, s0 = sperm(b0)
        p1, s1 = sperm(b1) if two else (p0, s0)
        exp = Sh[p0][:, p1] * s0[:, None] * s1[None, :]
        if not np.array_equal(exp, S):
            fails.append(("ovl-convention", "changing conventions is not the signed permutation of rows and columns"))
    return fails


def _search_case(rng, h2, max_cost, lmax):
    while True:
        two = rng.random() < 0.5
        nc0 = rng.randint(1, 5)
        b0 = _rand_basis(rng, nc0, lmax, h2, max_cost)
        x0 = _rand_coords(rng, nc0)
        b1 = x1 = None
        if two:
            nc1 = rng.randint(1, 5)
            b1 = _rand_basis(rng, nc1, lmax, h2, max_cost)
            x1 = _rand_coords(rng, nc1)
            if rng.random() < 0.3:
                x1[0] = list(x0[0])
            if rng.random() < 0.25:
                # one basis object placed at two different geometries
                b1 = b0
                x1 = _rand_coords(rng, nc0)
        if not _borderline(b0, x0, b1 or b0, x1 or x0):
            break
    shift = [rng.choice([0.0, 1.0, -2.5, 0.3, 17.0]) * rng.choice([1, -1]) for _ in range(3)]
    return {"b0": b0, "x0": x0, "b1": b1, "x1": x1, "shift": shift}


def _ser(case):
    def sb(b):
        return None if b is None else {"shells": b["shells"], "conv": {f"{l}{k}": v for (l, k), v in b["conv"].items()}, "l2": b["l2"]}
    return {"kind": "overlap", "b0": sb(case["b0"]), "x0": case["x0"], "b1": sb(case["b1"]), "x1": case["x1"], "shift": case["shift"]}


def _deser(o):
    def db(b):
        return None if b is None else {"shells": b["shells"], "conv": {(int(k[:-1]), k[-1]): v for k, v in b["conv"].items()}, "l2": b["l2"]}
    return {"b0": db(o["b0"]), "x0": o["x0"], "b1": db(o["b1"]), "x1": o["x1"], "shift": o["shift"]}


def _reject_checks(ctx, h2):
    rng = ctx.rng
    for _ in range(ctx.n(20, 200)):
        b0 = _rand_basis(rng, 2, 3, h2, 60)
        x0 = _rand_coords(rng, 2)
        b1 = _rand_basis(rng, 2, 3, h2, 60)
        x1 = _rand_coords(rng, 2)
        variants = [
            ("nonL2-first", dict(b0, l2=False), x0, None, None, "ValueError"),
            ("nonL2-first-two", dict(b0, l2=False), x0, b1, x1, "ValueError"),
            ("nonL2-second", b0, x0, dict(b1, l2=False), x1, "ValueError"),
            ("missing-second-geometry", b0, x0, b1, None, "TypeError"),
            ("geometry-without-basis", b0, x0, None, x1, "TypeError"),
        ]
        for name, a, xa, b, xb, want in variants:
            got = _run_impl(a, xa, b, xb)
            ok = got == want
            ctx.count("search-reject", [name, _enc_basis(a)], name if ok else name + "/BAD")
            if not ok:
                ctx.fail(f"ovl-reject:{name}", f"unsupported input ({name}) gave {got if isinstance(got, str) else 'a matrix'} instead of {want}",
                         {"kind": "reject", "variant": name, **_ser({"b0": a, "x0": xa, "b1": b, "x1": xb, "shift": [0, 0, 0]})})


def search(ctx):
    rng = ctx.rng
    h2 = c10._tables()["horton2"]
    n = ctx.n(120, 800) * (3 if ctx.escalated else 1)
    for i in range(n):
        big = i % 5 == 0
        case = _search_case(rng, h2, 150 if big else 70, 7 if big else 4)
        case["h2"] = h2
        fails = _check_case(case)
        lm = max(l for s in case["b0"]["shells"] for l in s["angmoms"])
        ctx.count("search-overlap", _enc_basis(case["b0"]) + _enc_xyz(case["x0"]),
                  f"{'two' if case['b1'] is not None else 'one'}/lmax={lm}/{'ok' if not fails else fails[0][0]}",
                  sample={"nshell": len(case["b0"]["shells"]), "lmax": lm})
        for sig, what in fails:
            ctx.fail(sig, what, _ser(case))
    _reject_checks(ctx, h2)
    # every single shell type against itself and its neighbours: unit diagonal of normalised primitives, all l, both kinds
    for l in range(8):
        for kind in ("c", "p") if l >= 2 else ("c",):
            a = _dyadic(rng, -1, 2, signed=False)
            b0 = {"shells": [{"icenter": 0, "angmoms": [l], "kinds": [kind], "exps": [a], "coeffs": [[1.0]]}],
                  "conv": {(l, kind): h2[(l, kind)]}, "l2": True}
            case = {"b0": b0, "x0": [[0.25, -0.5, 0.125]], "b1": None, "x1": None, "shift": [1.0, 2.0, -3.0], "h2": h2}
            fails = _check_case(case)
            S = _run_impl(b0, case["x0"], None, None)
            if not isinstance(S, str) and kind == "p" and not np.allclose(np.diag(S), 1.0, atol=1e-12, rtol=0):
                fails.append(("ovl-value", f"normalised pure primitive l={l} has self-overlap {np.diag(S)}"))
            if not isinstance(S, str) and kind == "c":
                for (nx, ny, nz), v in zip(((lab.count("x"), lab.count("y"), lab.count("z")) for lab in h2[(l, "c")]), np.diag(S)):
                    if abs(v - 1.0) > 1e-12:
                        fails.append(("ovl-value", f"normalised Cartesian primitive {nx, ny, nz} has self-overlap {v!r}"))
            ctx.count("search-shelltype", [l, kind], f"l={l}{kind}/{'ok' if not fails else fails[0][0]}")
            for sig, what in fails:
                ctx.fail(sig, what, _ser(case))


def replay(ctx, obj):
    inp = obj["input"]
    h2 = c10._tables()["horton2"]
    case = _deser(inp)
    if inp.get("variant"):
        want = "TypeError" if "geometry" in inp["variant"] else "ValueError"
        return _run_impl(case["b0"], case["x0"], case["b1"], case["x1"]) != want
    case["h2"] = h2
    return bool(_check_case(case))
