"""C07, parser part for the formats with a Lean reader (Model/Rd/*): correspondence on MALFORMED input.

Every corpus / generated file of a modelled format x every line truncation x seeded mutations is run through the
real ``iodata.formats.<fmt>.load_one`` (called directly with a real ``LineIterator``: the exception class BEFORE the
API funnel) followed by ``IOData(**result)``, and through the Lean reader (`rdr` stream of the driver).  Compared:
outcome class, shapes of every array of the result, the keys of the result dictionary whose value is not None,
the constructor's verdict, the attributes that are not None on the constructed object, and ``lit.lineno``.
C17 runs the same stream (`correspond_rdr`, smaller budget) as the tie for its "guaranteed => set" theorems.
"""

from __future__ import annotations

import multiprocessing as mp
import os
import re
import signal
import tempfile
import warnings

from ..engine import REPO

FORMATS = ["xyz", "sdf", "mol2", "pdb", "cube", "gromacs", "poscar", "chgcar", "locpot", "crd"]
# stream name -> module of iodata.formats, where they differ
MODULE = {"crd": "charmm"}
EXT = {"xyz": (".xyz",), "sdf": (".sdf",), "mol2": (".mol2",), "pdb": (".pdb",), "cube": (".cube", ".cub"),
       "gromacs": (".gro",), "crd": (".crd",)}
# atom records kept of a corpus CRD file (the count line is rewritten accordingly)
CRD_KEEP = 4
# the VASP formats are recognised by the START of the file name (PATTERNS of the format modules)
PREFIX = {"poscar": ("POSCAR",), "chgcar": ("CHGCAR", "AECCAR"), "locpot": ("LOCPOT",)}
VASP = tuple(PREFIX)
# address-space head room of a worker while a VASP reader runs: `[n] * count` with a count of 3e9 must fail with
# MemoryError instead of taking 24 GB from the machine (np.zeros/np.empty are capped by `_guard`)
VASP_AS_HEADROOM = 2 * 2**30
CLASSES = ["ValueError", "IndexError", "KeyError", "StopIteration", "TypeError", "LoadError", "OverflowError",
           "MemoryError", "NameError", "AttributeError"]
EXTRA_KEYS = {"pdb": ["occupancies", "bfactors", "chainids"], "gromacs": ["velocities"], "crd": ["segid", "resid"]}
# attribute names the Lean result object represents (order of `Rd.accessors`); `keys=` lists those present in the
# reader's result dictionary with a value that is not None (any other key is printed as `?name`, which the model
# never prints), `set=` those that are not None on the constructed IOData object
ATTR_NAMES = ["atcoords", "atnums", "atcorenums", "atcharges", "atffparams", "atmasses", "bonds", "cellvecs", "cube", "extra",
              "title"]
ALLOC_LIMIT = 2**30
PER_CASE_LIMIT = 5


def _slow_by_size(text):
    """True when the input carries an integer count of at least 10^7 (the count-huge mutations)."""
    import re
    return any(len(m) >= 8 and int(m) >= 10 ** 7 for m in re.findall(r"(?<![\d.eE+-])\d{8,18}(?![\d.eE])", text))


# characters of the modelled domain used by the substitution mutations
SUBST = list("x*-9. \t#_+eE,:@0") + [" ", "é", "²", "٣", "€"]
NUMREP = ["99999999999999999999", "1e999", "-1", "0", "nan", "1.5", "1_0", "١٢", "-99999999999999999999",
          "1e", "+.5e-3", "inf", "1000000", "3000000000", "9" * 310]

RULE = (
    "rdr: corpus and generated files of the formats with a Lean reader x EVERY line truncation x seeded mutations "
    "(delete/duplicate/swap line, character substitution incl. non-ASCII, numeric overflow/nan/underscore forms, "
    "count inflation, count -> 0/1/negative, block deletion, blank lines, cut inside a line): real "
    "formats.<fmt>.load_one on a LineIterator + IOData(**result) against the Lean reader: class, array shapes, "
    "the set of keys of the result dictionary whose value is not None, constructor verdict, the attributes that are "
    "not None on the constructed object, lit.lineno; non-trivial = the outcome is not the unmodified file's. pynum: int()/float()/"
    "title()/isdigit()/split()/strip() on seeded strings of the modelled character domain. rctor: IOData(...) on "
    "seeded array shapes (also mutually inconsistent ones) against the validator model. VASP (rdr:poscar, "
    "rdr:chgcar, rdr:locpot): corpus files POSCAR*/CHGCAR*/AECCAR*/LOCPOT* (all below 1 kB) plus generated files that "
    "reach the paths the corpus does not (Cartesian / selective-dynamics headers, counts/symbols of different "
    "lengths, negative counts, cell or atom lines with other than three numbers, no atoms, grid shape lines with "
    "0/1/2/4/65 integers at the end of the file, zero-sized grids); an `ok` line of these streams also carries "
    "atnums.sum() as a value fingerprint, and the real side checks cell (3,3) / 3-d grid data / axes (3,3) on every "
    "object the constructor accepted. CHARMM CRD (rdr:crd): the corpus file crambin.crd cut down to its title "
    "section, a rewritten count line and its first 4 atom records, plus generated files (title lines without `*`, an "
    "end marker with trailing blanks, no end marker, no atoms, a count in Arabic-Indic digits, a record with nine "
    "words, words after the tenth, nan/inf/underscore numbers, non-ASCII residue names); the shapes compared include "
    "atmasses, the three atffparams arrays and extra['segid'], extra['resid']. rctor includes atmasses (which takes "
    "part in IOData.natom before atnums)"
)
ASSUMPTIONS = [
    "character domain of the reader correspondence: printable ASCII, TAB, LF, U+00A0, U+00E9/U+00C9, U+00B2, "
    "U+0660-0669, U+20AC in valid UTF-8; CR, U+001C-001F, other scripts and undecodable bytes are covered by the "
    "direct search only",
    "allocations above 1 GiB fail with MemoryError (the harness makes np.zeros/np.empty do so deterministically; "
    "sizes that overflow intp are numpy's own ValueError)",
    "values that cannot influence the outcome class (coordinates, charges) are abstracted in the reader models: "
    "float() is modelled as accept/reject",
    "VASP readers: the list repetition `[n] * count` of _load_vasp_header raises MemoryError for more than 1 GiB of "
    "pointers (the harness limits the address space of the worker to its current size + 2 GiB while the reader "
    "runs; counts between 2^27 and 2^28 are not generated), OverflowError from 2^63 on; np.linalg.det on a (3, 3) "
    "matrix of finite/inf/nan entries and the division by its result do not raise",
    "CRD reader: np.array(list) of Python ints of any size, of floats (inf/nan included) and of strings does not "
    "raise; integer literals beyond sys.get_int_max_str_digits() (4300 digits, a ValueError of int()) are not generated",
]


class _Timeout(BaseException):
    pass


def _alarm(signum, frame):
    raise _Timeout()


def _cls(exc) -> str:
    for k in type(exc).__mro__:
        if k.__name__ in CLASSES:
            return k.__name__
    return "Other:" + type(exc).__name__


def _shape(a) -> str:
    import numpy as np

    if a is None:
        return "-"
    if isinstance(a, np.ndarray):
        return "x".join(str(d) for d in a.shape) or "s"
    return str(len(a))


def _summary(fmt, res) -> str:
    def lens(d, keys=None):
        if not d:
            return "-"
        ks = [k for k in (keys or list(d)) if k in d]
        return ",".join(str(len(d[k])) for k in ks) or "-"

    cube = res.get("cube")
    keys = [a for a in ATTR_NAMES if res.get(a) is not None] + sorted("?" + k for k in res if k not in ATTR_NAMES)
    return (
        f"atcoords={_shape(res.get('atcoords'))} atnums={_shape(res.get('atnums'))} "
        f"atcorenums={_shape(res.get('atcorenums'))} atmasses={_shape(res.get('atmasses'))} "
        f"atcharges={lens(res.get('atcharges'))} "
        f"atffparams={lens(res.get('atffparams'))} extra={lens(res.get('extra'), EXTRA_KEYS.get(fmt, []))} "
        f"bonds={_shape(res.get('bonds'))} cellvecs={_shape(res.get('cellvecs'))} "
        f"cube={_shape(cube.data) if cube is not None else '-'} keys={','.join(keys) or '-'}"
    )


def _guard(orig):
    import numpy as np

    def f(shape, *a, **k):
        dims = [shape] if isinstance(shape, (int, np.integer)) else list(shape)
        if all(isinstance(d, (int, np.integer)) for d in dims) and all(0 <= int(d) < 2**63 for d in dims):
            total = 8
            for d in dims:
                total *= int(d)
            if ALLOC_LIMIT < total < 2**63:
                raise MemoryError(f"harness: refusing to allocate {total} bytes")
        return orig(shape, *a, **k)

    return f


def real_outcome(fmt: str, text: str) -> dict:
    """Run the real reader and constructor on `text`; returns {'line', 'verdict', 'detail'}."""
    import importlib

    import numpy as np
    from iodata import IOData
    from iodata.utils import LineIterator

    mod = importlib.import_module(f"iodata.formats.{MODULE.get(fmt, fmt)}")
    d = tempfile.mkdtemp(prefix="vh-c07r-")
    path = os.path.join(d, "f." + fmt)
    with open(path, "w", encoding="utf-8", newline="") as fh:
        fh.write(text)
    oz, oe = np.zeros, np.empty
    np.zeros, np.empty = _guard(oz), _guard(oe)
    old_as = None
    if fmt in VASP:
        import resource

        old_as = resource.getrlimit(resource.RLIMIT_AS)
        with open("/proc/self/statm") as fh:
            vm = int(fh.read().split()[0]) * resource.getpagesize()
        want = vm + VASP_AS_HEADROOM
        if old_as[1] != resource.RLIM_INFINITY:
            want = min(want, old_as[1])
        resource.setrlimit(resource.RLIMIT_AS, (want, old_as[1]))
    old = signal.signal(signal.SIGALRM, _alarm)
    signal.alarm(PER_CASE_LIMIT)
    verdict, detail = "ok", ""
    lit = LineIterator(path)
    try:
        with warnings.catch_warnings():
            warnings.simplefilter("ignore")
            try:
                with lit:
                    try:
                        res = mod.load_one(lit)
                    except Exception as exc:  # noqa: BLE001
                        return {"line": f"err {_cls(exc)} @{lit.lineno}", "verdict": "ok", "detail": ""}
                    lineno = lit.lineno
                    summ = _summary(fmt, res)
                    try:
                        obj = IOData(**res)
                        ctor = "ok"
                    except Exception as exc:  # noqa: BLE001
                        ctor, obj = _cls(exc), None
                    isset = "-"
                    if obj is not None:
                        bad = _inconsistent(obj)
                        if bad:
                            verdict, detail = "bad-object", bad
                        isset = ",".join(a for a in ATTR_NAMES if getattr(obj, a, None) is not None) or "-"
                    tag = f" zsum={int(res['atnums'].sum())}" if fmt in VASP else ""
                    if fmt in VASP and verdict == "ok":
                        bad = _vasp_inconsistent(res, obj)
                        if bad:
                            verdict, detail = "bad-object", bad
                    return {"line": f"ok {summ} ctor={ctor} set={isset} @{lineno}{tag}", "verdict": verdict,
                            "detail": detail}
            except _Timeout:
                return {"line": "timeout", "verdict": "timeout", "detail": ""}
            except BaseException as exc:  # noqa: BLE001
                return {"line": f"escape {type(exc).__name__}", "verdict": "escape:" + type(exc).__name__,
                        "detail": repr(exc)[:200]}
    finally:
        signal.alarm(0)
        signal.signal(signal.SIGALRM, old)
        np.zeros, np.empty = oz, oe
        if old_as is not None:
            resource.setrlimit(resource.RLIMIT_AS, old_as)
        try:
            os.unlink(path)
            os.rmdir(d)
        except OSError:
            pass


def _inconsistent(obj) -> str:
    """the property's own predicate on a returned object: every per-atom array has natom entries"""
    nat = obj.natom
    if nat is None:
        return ""
    for name in ("atnums", "atcoords", "atcorenums", "atmasses", "atgradient", "atfrozen"):
        v = getattr(obj, name)
        if v is not None and len(v) != nat:
            return f"{name} has {len(v)} entries, natom {nat}"
    if obj.atcoords is not None and obj.atcoords.shape != (nat, 3):
        return f"atcoords has shape {obj.atcoords.shape}"
    for k, v in (obj.atcharges or {}).items():
        if len(v) != nat:
            return f"atcharges[{k}] has {len(v)} entries, natom {nat}"
    for k, v in (obj.atffparams or {}).items():
        if hasattr(v, "__len__") and not isinstance(v, str) and len(v) != nat:
            return f"atffparams[{k}] has {len(v)} entries, natom {nat}"
    return ""


def _vasp_inconsistent(res, obj) -> str:
    """VASP results the constructor accepted: cell 3x3, grid data as large as its shape says, axes 3x3"""
    if obj is None:
        return ""
    if obj.cellvecs is None or obj.cellvecs.shape != (3, 3):
        return f"cellvecs has shape {None if obj.cellvecs is None else obj.cellvecs.shape}"
    if obj.atnums is None or obj.atcoords is None or obj.atnums.shape != (len(obj.atcoords),):
        return "atnums / atcoords disagree"
    cube = res.get("cube")
    if cube is not None:
        if cube.data.ndim != 3 or cube.axes.shape != (3, 3) or cube.origin.shape != (3,):
            return f"cube has data shape {cube.data.shape}, axes {cube.axes.shape}"
    return ""


def _worker(task):
    fmt, text = task
    return real_outcome(fmt, text)


# ----------------------------------------------------------------------------------------------------
# inputs
# ----------------------------------------------------------------------------------------------------
def _generated(fmt: str) -> list[tuple[str, str]]:
    """small files written for the purpose (the corpus has few files of some formats)"""
    g = {
        "xyz": [
            ("gen-h2", "2\nhydrogen\nH 0.0 0.0 0.0\nh 0.0 0.0 0.74\n"),
            ("gen-numbers", "3\n\n8 0.0 0.0 0.1\n1   0.7 0.0 -0.4\n  1 -0.7 0.0 -0.4  extra words\n"),
            ("gen-zero", "0\nno atoms\n"),
            ("gen-sci", " 1 \ncomment\nCl 1e0 -2.5E-1 +.5\ntrailing\n"),
        ],
        "mol2": [
            ("gen-two", "# comment\n@<TRIPOS>MOLECULE\nwater\n 3 2 1 0 0\nSMALL\nUSER_CHARGES\n\n@<TRIPOS>ATOM\n"
                        "      1 O1          0.0000    0.0000    0.1000 O.3     1  WAT1       -0.8000\n"
                        "      2 H1          0.7000    0.0000   -0.4000 H       1  WAT1        0.4000\n"
                        "      3 H2         -0.7000    0.0000   -0.4000 H       1  WAT1        0.4000\n"
                        "@<TRIPOS>BOND\n     1     1     2    1\n     2     1     3   ar\n"
                        "@<TRIPOS>MOLECULE\nsecond\n 1 0 0 0 0\nSMALL\nNO_CHARGES\n\n@<TRIPOS>ATOM\n"
                        "      1 CL1         1.0000    2.0000    3.0000 Cl\n"),
            ("gen-order", "@<TRIPOS>BOND\n 1 1 2 1\n@<TRIPOS>ATOM\n 1 C 0 0 0 C.3\n@<TRIPOS>MOLECULE\nm\n1 0\n"
                          "@<TRIPOS>ATOM\n 1 C 0 0 0 C.3\n"),
            ("gen-nobond", "@<TRIPOS>MOLECULE\nm\n 2 1\n@<TRIPOS>ATOM\n 1 Xx1 0 0 0 Du 1 R 0.0\n 2 h 0 0 1e0 H\n x\n"),
        ],
        "pdb": [
            ("gen-water", "TITLE     water\nCOMPND    MOL\n"
                          "HETATM    1  O   HOH A   1       0.000   0.000   0.100  1.00  0.00           O  \n"
                          "HETATM    2  H1  HOH A   1       0.700   0.000  -0.400  1.00  0.00           H  \n"
                          "ATOM      3  H2  HOH     1      -0.700   0.000  -0.400  1.00  0.00              \n"
                          "CONECT    1    2    3\nCONECT    2    1\nCONECT    3    1\nEND\n"),
            ("gen-noend", "REMARK x\nEND\nATOM      1 CL   UNK     1       1.000   2.000   3.000  0.50 10.00\n"
                          "ATOM      2      UNK     2       1.000   2.000   3.000  0.50 10.00          ZN\nENDMDL\n"
                          "ATOM      3  C   UNK     3       1.000   2.000   3.000  0.50 10.00\n"),
        ],
        "cube": [
            ("gen-h2", "title\ncomment\n    2    0.000000    0.000000    0.000000\n"
                       "    2    0.500000    0.000000    0.000000\n    1    0.000000    0.500000    0.000000\n"
                       "    3    0.000000    0.000000    0.500000\n"
                       "    1    1.000000    0.000000    0.000000    0.000000\n"
                       "    1    0.000000    0.000000    0.000000    1.400000\n"
                       "  1.0E-01  2.0E-01  3.0E-01\n  4.0E-01  5.0E-01  6.0E-01\n"),
            ("gen-noatom", "t\n\n 0 0 0 0\n 1 1 0 0\n 1 0 1 0 trailing\n 2 0 0 1\n 1.5 -2.5 extra\nmore\n"),
            ("gen-zero", "t\n\n 1 0 0 0\n 0 1 0 0\n 4 0 1 0\n 4 0 0 1\n 6 0.0 0 0 0\n"),
        ],
        "gromacs": [
            ("gen-vel", "water, t= 1.5 step= 3\n    3\n"
                        "    1WATER  OW1    1   0.126   1.624   1.679  0.1227 -0.0580  0.0434\n"
                        "    1WATER  HW2    2   0.190   1.661   1.747  0.8085  0.3191 -0.7791\n"
                        "    1WATER  HW3    3   0.177   1.568   1.613 -0.9045 -2.6469  1.3180\n"
                        "   1.82060   1.82060   1.82060\n"),
            ("gen-novel", "no time\n 2\n    1SOL     OW    1   1.0000   2.0000   3.0000\n"
                          "    1SOL    HW1    2   1.1000   2.1000   3.1000\n"
                          "   1.0 2.0 3.0 0.0 0.0 0.1 0.0 0.2 0.3\n"),
            ("gen-zero", "t=0\n0\n 1 1 1\n"),
        ],
        "sdf": [
            ("gen-water", "water\n  iodata\n\n  3  2  0     0  0  0  0  0  0999 V2000\n"
                          "    0.0000    0.0000    0.1000 O   0  0  0  0  0  0  0  0  0  0  0  0\n"
                          "    0.7000    0.0000   -0.4000 H   0  0  0  0  0  0  0  0  0  0  0  0\n"
                          "   -0.7000    0.0000   -0.4000 H   0  0  0  0  0  0  0  0  0  0  0  0\n"
                          "  1  2  1  0  0  0  0\n  1  3  1  0  0  0  0\nM  END\n$$$$\n"),
            ("gen-nobond", "x\n\n\n  1  0 v2000\n    1.0       2.0       3.0    cl\nM  END\n> <k>\nv\n\n$$$$\nnext\n"),
            ("gen-empty", "\n\n\n  0  0  0  0  0  0  0  0  0  0999 V2000\nM  END\n$$$$\n"),
        ],
    }
    g["crd"] = [
        ("gen-two", "* two atoms\n* second title line\n*\n    2\n"
                    "    1    1 THR  N     -3.85076  -7.04232   4.62858 MAIN 1     14.00700\n"
                    "    2    1 THR  HT1   -4.15659  -6.56927   5.49436 MAIN 1      1.00800\n"),
        ("gen-skip", "no star: skipped\n* t\n\n  * not a title line either\n*   \t \n 3 \n"
                     " 1 1 A B 1e0 -2.5E-1 +.5 S 1 1.0 extra words\n 2 -2 A B nan inf 0 S 1_0 0\n"
                     "\t3 3 \u00e9 \u20ac 1 2 3 S +4 .5\ntrailing line\n* star after the atoms\n"),
        ("gen-zero", "*\n0\nnot read\n"),
        ("gen-nomarker", "* title without the bare star\n* 1\n 1 1 A B 0 0 0 S 1 1.0\n"),
        ("gen-count", "*\n\u0661\n 1 1 A B 0 0 0 S 1 1.0\n"),
        ("gen-short", "* t\n*\n2\n 1 1 A B 0 0 0 S 1 1.0\n 2 1 A B 0 0 0 S 1\n"),
    ]
    hdr = "title\n 1.0\n 4.0 0.0 0.0\n 0.0 4.0 0.0\n 0.0 0.0 4.0\n"
    vasp_grid = [
        ("gen-h2", hdr + " H\n 2\nDirect\n 0.0 0.0 0.0\n 0.5 0.5 0.5\n\n 2 1 3\n 1.0 2.0 3.0 4.0\n 5.0E+00 6.0\n"
                         "augmentation occupancies 1 2\n 0.1 0.2\n"),
        ("gen-cart", hdr + " O H\n 1 2\nSelective dynamics\nKartesian\n 0 0 0 T T T\n 1 0 0 F F F\n 0 1 0 T F T\n"
                           "\n 1 2 2\n 1 2 3\n 4 trailing\nmore\n"),
        ("gen-skip", hdr + "He\n1\nd\n 0.5 0.5 0.5\n\n 7\n 1 2\n 1 2 3 4\n 1 1 2\n .5\n 1e-3\n"),
        ("gen-eof4", hdr + "He\n1\nd\n 0.5 0.5 0.5\n\n 1 2 3 4\n"),
        ("gen-eof4z", hdr + "He\n1\nd\n 0.5 0.5 0.5\n 2 0 3 4 5\n"),
        ("gen-eof2", hdr + "He\n1\nd\n 0.5 0.5 0.5\n\n 3 3\n"),
        ("gen-zero", hdr + "He\n1\nd\n 0.5 0.5 0.5\n\n 0 2 2\nnot read\n"),
        ("gen-many", hdr + "He\n1\nd\n 0.5 0.5 0.5\n" + " ".join(["1"] * 65) + "\n"),
        ("gen-cell2", "t\n2\n 1 0\n 0 1\n 0 0\nLi\n1\nCart\n 0 0 0\n\n 1 1 1\n 9.5\n"),
        # Cartesian by the letter `k` with rows of two numbers / without atoms: the shapes tell the mode
        ("gen-short-k", hdr + " H\n 1\nk\n 0 0\n\n 1 1 1\n 2.5\n"),
    ]
    g["chgcar"] = vasp_grid
    g["locpot"] = [(n, t) for n, t in vasp_grid
                   if n in ("gen-h2", "gen-cart", "gen-skip", "gen-eof4", "gen-cell2", "gen-short-k")]
    g["poscar"] = [
        ("gen-direct", hdr + " Si  C\n 1 1\nDirect\n 0.0 0.0 0.0\n 0.25 0.25 0.25 comment\n"),
        ("gen-sel", "x\n -2.5e0\n 1 0 0\n 0 1 0\n 0 0 1\n Fe O H\n 1 0 2\nselective\ncartesian\n 0 0 0 T T T\n"
                    " 1 0 0 F F F\n 0 1 0 T F T\ntrailing line\n"),
        ("gen-zip", hdr + " H He Li\n 2 -1\nK\n 0 0 0\n 1 1 1\n"),
        ("gen-short", hdr + " H\n 2\nCart\n 0 0\n 1 1\n"),
        ("gen-ragged", hdr + " H\n 2\nCart\n 0 0\n 1 1 1\n"),
        ("gen-none", hdr + "\n\nCart\n"),
        ("gen-none-k", hdr + " H\n -1\nSelective\nKartesian\n"),
        ("gen-short-k", hdr + " H He\n 1 1\nk\n 0 0\n 1 1\n"),
        ("gen-none-d", hdr + " H\n 0\n\n"),
        ("gen-cell4", "t\n1\n 1 0 0 0\n 0 1 0 0\n 0 0 1 0\nB\n1\nDirect\n 0 0 0\n"),
        ("gen-cell0", "t\n1\n\n\n\nB\n1\nCartesian\n 0 0 0\n"),
    ]
    return g.get(fmt, [])


def _sources(fmt: str) -> list[tuple[str, str]]:
    out = []
    for p in sorted((REPO / "iodata" / "test" / "data").iterdir()):
        hit = p.name.startswith(PREFIX[fmt]) if fmt in PREFIX else p.suffix in EXT[fmt]
        if p.is_file() and hit and p.stat().st_size < 60_000:
            try:
                text = p.read_text()
            except UnicodeDecodeError:
                continue
            if fmt == "crd":
                text = _crd_cut(text)
            out.append((p.name, text))
    return out + _generated(fmt)


def _crd_cut(text: str) -> str:
    """a corpus CRD file cut down to its title section, the count line and the first CRD_KEEP atom records"""
    lines = text.splitlines(keepends=True)
    for i, line in enumerate(lines):
        if line.startswith("*") and not line[1:].strip():
            break
    else:
        return text
    if i + 1 >= len(lines) or not lines[i + 1].strip().isdigit():
        return text
    atoms = lines[i + 2: i + 2 + CRD_KEEP]
    return "".join(lines[: i + 1]) + f"{len(atoms):5d}\n" + "".join(atoms)


_INT_RE = re.compile(r"(?<![\w.+-])\d+(?![\w.])")
_NUM_RE = re.compile(r"-?\d+(\.\d+)?([eE][-+]?\d+)?")


def mutate(lines: list[str], kind: str, rng) -> list[str]:
    n = len(lines)
    out = list(lines)
    if kind == "trunc-byte":
        txt = "".join(lines)
        return [txt[: rng.randrange(len(txt) + 1)]] if txt else []
    if n == 0:
        return out
    i, j = rng.randrange(n), rng.randrange(n)
    if kind == "delete":
        del out[i]
    elif kind == "dup":
        out.insert(i, out[i])
    elif kind == "swap":
        out[i], out[j] = out[j], out[i]
    elif kind == "subst":
        s = out[i]
        body = s[:-1] if s.endswith("\n") else s
        if body:
            k = rng.randrange(len(body))
            out[i] = s[:k] + rng.choice(SUBST) + s[k + 1:]
    elif kind == "insert":
        s = out[i]
        k = rng.randrange(len(s)) if s else 0
        out[i] = s[:k] + rng.choice(SUBST) + s[k:]
    elif kind == "overflow":
        nums = list(_NUM_RE.finditer(out[i]))
        if nums:
            m = rng.choice(nums)
            rep = rng.choice(NUMREP)
            if rng.random() < 0.5:
                rep = rep.rjust(m.end() - m.start())[: max(len(rep), m.end() - m.start())]
            out[i] = out[i][: m.start()] + rep + out[i][m.end():]
    elif kind in ("inflate", "count"):
        cands = [(k, m) for k in range(min(n, 12)) for m in _INT_RE.finditer(out[k])]
        if cands:
            k, m = rng.choice(cands)
            v = int(m.group())
            if kind == "inflate":
                new = str(v * rng.choice([2, 3, 10]) + rng.choice([0, 1]))
            else:
                new = rng.choice(["0", "1", "2", "-1", "-3", str(v + 1), str(max(v - 1, 0))])
            w = m.end() - m.start()
            if rng.random() < 0.7:
                new = new.rjust(w)
            out[k] = out[k][: m.start()] + new + out[k][m.end():]
    elif kind == "del-block":
        a, b = sorted((i, j))
        del out[a: b + 1]
    elif kind == "blank":
        if rng.random() < 0.5:
            out[i] = rng.choice(["\n", "   \n", "\t\n", " \n"])
        else:
            out.insert(i, "\n")
    elif kind == "token":
        toks = list(re.finditer(r"\S+", out[i]))
        if toks:
            m = rng.choice(toks)
            rep = rng.choice(["Xx", "1e999", "-", "é", "0", "H", "He", "99999999999999999999", "_", "1_0", "٣",
                              "²", "1.5", "-2", "@<TRIPOS>ATOM", "END", "nan", ""])
            if rng.random() < 0.5:
                rep = rep[: m.end() - m.start()].ljust(m.end() - m.start())
            out[i] = out[i][: m.start()] + rep + out[i][m.end():]
    elif kind == "move-end":
        out.append(out.pop(i))
    return out


KINDS = ["delete", "dup", "swap", "subst", "subst", "insert", "overflow", "overflow", "inflate", "count", "count",
         "del-block", "blank", "trunc-byte", "move-end", "token", "token"]


def _enc(text: str) -> str:
    if not text:
        return "a -"
    if all(ord(c) < 128 for c in text):
        return "a " + text.encode("ascii").hex()
    return "u " + "".join(f"{ord(c):04x}" for c in text)


def cases(ctx, fmt, trunc_cap=None, nmut=None):
    rng = ctx.rng
    out = []  # (text, label)
    for name, text in _sources(fmt):
        lines = text.splitlines(keepends=True)
        nl = len(lines)
        cuts = list(range(nl + 1))
        cap = trunc_cap if trunc_cap is not None else ctx.n(160, 4000)
        if len(cuts) > cap:
            cuts = sorted(rng.sample(cuts, cap))
        for c in cuts:
            out.append(("".join(lines[:c]), f"{name}/trunc"))
        nm = (nmut if nmut is not None else ctx.n(60, 600)) * (3 if ctx.escalated else 1)
        for _ in range(nm):
            kind = rng.choice(KINDS)
            new = mutate(lines, kind, rng)
            if rng.random() < 0.15:
                new = mutate(new, rng.choice(KINDS), rng)
                kind += "+2"
            out.append(("".join(new), f"{name}/{kind}"))
    return out


def _pynum_cases(ctx):
    rng = ctx.rng
    alpha = list("0123456789") * 3 + list("+-._eE ") * 2 + list("infINFnaNty") + ["\t", "\n", " ", "é",
             "²", "٣", "€", "x", "_", "1", "0", "a", "H", "C", "l"]
    reqs, outs = [], []
    fixed = ["", " ", "1", "-1", "+1", "1_0", "1__0", "_1", "1_", "1.", ".1", ".", "1e5", "1e", "1e+", "1e+5", "inf",
             "-inf", "+nan", "Infinity", "infinit", "1e999", "nan", "1_0.0_1e1_0", "1._5", "1_.5", "٣", "²",
             " 5 ", "1 2", "--1", "0x1", "1e5e3", "e5", "1.e1", ".e1", " 12\n", "12\n", "cl", "CL", "hE",
             "éh", "hé", "a1b", "1a", "He\n"]
    pool = fixed + ["".join(rng.choice(alpha) for _ in range(rng.randint(1, 7))) for _ in range(ctx.n(4000, 60000))]
    for s in pool:
        e = _enc(s)
        for fn in ("int", "float", "title", "upper", "isdigit", "split", "strip"):
            reqs.append(f"pynum {fn} {e}")
            if fn == "int":
                try:
                    outs.append(f"ok {int(s)}")
                except ValueError:
                    outs.append("err")
            elif fn == "float":
                try:
                    float(s)
                    outs.append("ok")
                except ValueError:
                    outs.append("err")
            elif fn == "title":
                outs.append("ok " + "".join(f"{ord(c):04x}" for c in s.title()))
            elif fn == "upper":
                outs.append("ok " + "".join(f"{ord(c):04x}" for c in s.upper()))
            elif fn == "isdigit":
                outs.append("ok 1" if s.isdigit() else "ok 0")
            elif fn == "split":
                outs.append("ok " + "/".join("".join(f"{ord(c):04x}" for c in w) for w in s.split()))
            else:
                outs.append("ok " + "".join(f"{ord(c):04x}" for c in s.strip()))
    return reqs, outs


def _rctor_cases(ctx):
    import numpy as np
    from iodata import IOData

    rng = ctx.rng

    def rshape(kind):
        r = rng.random()
        if r < 0.35:
            return None
        n = rng.choice([0, 0, 1, 2, 3, 3, 4])
        if kind == 1:
            return rng.choice([(n,), (n,), (n,), (n, 1), (n, 3)])
        return rng.choice([(n, 3), (n, 3), (n, 3), (n,), (n, 2), (n, 3, 1), (3, n)])

    reqs, outs = [], []
    for _ in range(ctx.n(1500, 20000)):
        atcoords, atnums, atcorenums = rshape(2), rshape(1), rshape(1)
        bonds, cellvecs = rshape(2), rshape(2)
        atmasses = rshape(1)
        chg = [rng.choice([0, 1, 2, 3, 3, 4]) for _ in range(rng.choice([0, 0, 1, 2]))]
        kw = {}
        if atcoords is not None:
            kw["atcoords"] = np.zeros(atcoords)
        if atnums is not None:
            kw["atnums"] = np.zeros(atnums, int)
        if atcorenums is not None:
            kw["atcorenums"] = np.zeros(atcorenums)
        if bonds is not None:
            kw["bonds"] = np.zeros(bonds, int)
        if cellvecs is not None:
            kw["cellvecs"] = np.zeros(cellvecs)
        if atmasses is not None:
            kw["atmasses"] = np.zeros(atmasses)
        if chg:
            kw["atcharges"] = {f"k{i}": np.zeros(c) for i, c in enumerate(chg)}
        try:
            obj = IOData(**kw)
            outs.append("ok")
            bad = _inconsistent(obj)
            if bad:
                shapes = {k: (list(v.shape) if hasattr(v, "shape") else {kk: list(vv.shape) for kk, vv in v.items()})
                          for k, v in kw.items()}
                ctx.fail("ctor-accepts-inconsistent-shapes:IOData",
                         f"IOData(**arrays) accepted arrays of shapes {shapes}: {bad}", {"kind": "rctor", "shapes": shapes})
        except Exception as exc:  # noqa: BLE001
            outs.append(_cls(exc))

        def sh(s):
            return "-" if s is None else ("x".join(map(str, s)) or "s")

        reqs.append(f"rctor {sh(atcoords)} {sh(atnums)} {sh(atcorenums)} {','.join(map(str, chg)) or '-'} "
                    f"{sh(bonds)} {sh(cellvecs)} {sh(atmasses)}")
    return reqs, outs


def correspond(ctx):
    reqs, outs = _pynum_cases(ctx)
    ctx.corr("pynum", reqs, outs, None, [r.split(" ")[1] + "/" + o.split(" ")[0] for r, o in zip(reqs, outs)])
    reqs, outs = _rctor_cases(ctx)
    ctx.corr("rctor", reqs, outs, None, outs)
    correspond_rdr(ctx)


def correspond_rdr(ctx, trunc_cap=None, nmut=None, report_failures=True):
    """the `rdr:<fmt>` streams (shared by C07 and, with a smaller budget, C17; C17 leaves the reporting of parsers
    that do not terminate / inconsistent objects to C07: there they only show as correspondence mismatches)"""
    total_files, total_cases = 0, 0
    with mp.get_context("fork").Pool(min(12, os.cpu_count() or 4), maxtasksperchild=500) as pool:
        for fmt in FORMATS:
            cs = cases(ctx, fmt, trunc_cap, nmut)
            total_files += len(_sources(fmt))
            base = {}
            # in batches: a parser that does not terminate costs PER_CASE_LIMIT seconds per input, so the rest of the
            # format is skipped once two inputs have timed out (they are reported as failures below)
            results, nto = [], 0
            for b0 in range(0, len(cs), 96):
                part = pool.map(_worker, [(fmt, t) for t, _ in cs[b0:b0 + 96]], chunksize=4)
                results.extend(part)
                for (t, _), r in zip(cs[b0:b0 + 96], part):
                    if r["verdict"] == "timeout" and _slow_by_size(t):
                        # a count of >= 10^7 in the input makes the reader's loops legitimately run for minutes (the
                        # model answers such inputs at once); the time limit is the harness's, not an observation of
                        # the implementation, so the input is left out of the comparison and counted as inconclusive
                        r["verdict"] = r["line"] = "slow"
                nto += sum(1 for r in part if r["verdict"] == "timeout")
                if nto >= 2:
                    ctx.extra_cov.setdefault("rdr_formats_cut_short_after_timeouts", []).append(fmt)
                    break
            cs = cs[: len(results)]
            nslow = sum(1 for r in results if r["verdict"] == "slow")
            if nslow:
                d = ctx.extra_cov.setdefault("rdr_inputs_inconclusive_huge_count_over_time_limit", {})
                d[fmt] = d.get(fmt, 0) + nslow
                keep = [i for i, r in enumerate(results) if r["verdict"] != "slow"]
                cs, results = [cs[i] for i in keep], [results[i] for i in keep]
            reqs, outs, nontriv, classes = [], [], [], []
            ntimeout = 0
            for (text, label), r in zip(cs, results):
                name = label.split("/")[0]
                if label.endswith("/trunc"):
                    base[name] = r["line"]  # the last truncation is the whole file
                reqs.append(f"rdr {fmt} {_enc(text)}")
                outs.append(r["line"])
                classes.append(f"{fmt}/{label.split('/', 1)[1].split('+')[0]}/{' '.join(r['line'].split(' ')[:2]) if r['line'].startswith('err') else 'ok'}")
                if not report_failures:
                    pass
                elif r["verdict"] == "timeout":
                    ntimeout += 1
                    if ntimeout <= 2:
                        ctx.fail(f"does-not-terminate:{fmt}.load_one",
                                 f"{label}: {fmt}.load_one did not return within {PER_CASE_LIMIT}s on a {len(text)}-byte "
                                 "file (the intact files load in milliseconds): the parser does not terminate",
                                 {"kind": "rdr", "fmt": fmt, "text": text})
                elif r["verdict"] != "ok":
                    ctx.fail(f"{r['verdict']}:{fmt}.load_one", f"{label}: {r['verdict']} {r['detail']}",
                             {"kind": "rdr", "fmt": fmt, "text": text})
            for (text, label), o in zip(cs, outs):
                nontriv.append(o != base.get(label.split("/")[0]))
            ctx.corr(f"rdr:{fmt}", reqs, outs, nontriv, classes)
            total_cases += len(cs)
    ctx.extra_cov["proved_reader_formats"] = list(FORMATS)
    ctx.extra_cov["proved_reader_files"] = total_files
    ctx.extra_cov["proved_reader_malformed_inputs"] = total_cases


def search(ctx):
    # the direct search of c07.py stays as it is; here only the coverage note
    ctx.extra_cov["parser_part_proved_for"] = list(FORMATS)


def replay(ctx, obj):
    inp = obj["input"]
    if inp.get("kind") == "rctor":
        import numpy as np
        from iodata import IOData

        kw = {k: ({kk: np.zeros(vv) for kk, vv in v.items()} if isinstance(v, dict) else
                  np.zeros(v, int if k in ("atnums", "bonds") else float)) for k, v in inp["shapes"].items()}
        try:
            return bool(_inconsistent(IOData(**kw)))
        except Exception:  # noqa: BLE001
            return False
    r = real_outcome(inp["fmt"], inp["text"])
    return r["verdict"] != "ok"
