"""POSCAR structure layer: element grouping (order, element/count lines) and direct coordinates against the Lean model."""

from __future__ import annotations

from fractions import Fraction

import numpy as np

from . import _formats as F


def corr_struct(ctx, n):
    from iodata import IOData
    from iodata.periodic import sym2num
    from iodata.utils import angstrom

    rng = ctx.rng
    req, imp, cls = [], [], []
    for i in range(n):
        natom = F.pick_natom(rng, i, False) if i < 12 else rng.randint(1, 60)
        natom = min(natom, 1001)
        nel = rng.choice([1, 2, 3, 5, 20])
        els = [rng.randint(1, 118) for _ in range(nel)]
        zs = [rng.choice(els) for _ in range(natom)]
        cell = np.eye(3) * 1000.0 * angstrom
        co = np.zeros((natom, 3))
        co[:, 0] = (np.arange(natom) + 1) * 0.5 * angstrom      # atom k sits at x = (k+1)/2 angstrom
        r = F.real_dump(IOData(atnums=np.array(zs), atcoords=co, cellvecs=cell, title="t"), "poscar")
        lines = r.value.decode().splitlines()
        counts = list(zip([sym2num[w] for w in lines[5].split()], [int(w) for w in lines[6].split()]))
        l = F.real_load(r.value, "poscar")
        order = [int(round(x / angstrom * 2)) - 1 for x in l.value.atcoords[:, 0]]
        req.append("fmt posgroup poscar - " + F.enc_list(zs, str, "/"))
        imp.append("ok " + F.enc_list(order, str, "/") + ";" + F.enc_list(counts, lambda p: f"{p[0]}:{p[1]}") + ";" +
                   F.enc_list([int(z) for z in l.value.atnums], str, "/"))
        cls.append(f"group/natom={natom if natom in F.SIZE_CLASSES_THOROUGH else 'rand'}/nelements={len(set(zs)) if len(set(zs)) < 4 else 'many'}")
    ctx.corr("grouping:poscar", req, imp, None, cls)
    # direct coordinates: numpy against exact rational arithmetic (tolerance from the condition number)
    req, cases = [], []
    for i in range(n):
        while True:
            m = [[rng.randint(-9, 9) for _ in range(3)] for _ in range(3)]
            if round(np.linalg.det(np.array(m, float))) != 0:
                break
        v = [rng.randint(-50, 50) for _ in range(3)]
        req.append("fmt posfrac poscar - " + ":".join(str(x) for row in m for x in row) + ";" + ":".join(str(x) for x in v))
        cases.append((m, v))
    outs = ctx.driver(req)
    imp = []
    for (m, v), out in zip(cases, outs):
        a = np.array(m, float)
        s = np.dot(np.linalg.inv(a).T, np.array(v, float))       # the writer's expression
        back = np.dot(s, a)                                       # the reader's expression
        ok = out.startswith("ok ")
        if ok:
            fr, bk = out[3:].split(";")
            exact = [Fraction(t) for t in fr.split(":")]
            exact_back = [Fraction(t) for t in bk.split(":")]
            tol = 64 * np.linalg.cond(a) * 2.0**-52 * max(1.0, float(max(abs(x) for x in exact)))
            ok = all(abs(float(e) - x) <= tol for e, x in zip(exact, s)) and exact_back == [Fraction(x) for x in v] and all(
                abs(b - x) <= 64 * np.linalg.cond(a) * 2.0**-52 * 50 for b, x in zip(back, v))
        imp.append(out if ok else "numpy: " + ":".join(repr(float(x)) for x in s))
    ctx.corr("direct-coordinates:poscar", req, imp, None, ["frac"] * len(req))
