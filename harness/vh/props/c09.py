"""C09 — dumping never alters the caller's data; conversions are explicit and equivalent."""

from __future__ import annotations

import copy
import os
import shutil
import tempfile
import warnings

import numpy as np

from .. import corpus
from ..effects import write_gen
from ..engine import REPO
from ..snapshot import first_diff, ids, snap

MODULES = ["Iodata.Props.C09"]
RULE = (
    "objects = every corpus file that loads (deep copy per case) + hand-built objects (QCSchema extras with nested "
    "provenance lists/dicts, generalized contractions, occs_aminusb, fractional occupations); each dumped to each of the "
    "13 dump_one formats x allow_changes, through dump_many for the 4 trajectory formats and through both input writers; "
    "deep snapshot (array bytes, dict contents, derived properties, member identities) before/after, twice in a row. "
    "non-trivial = distinct (object, format, allow_changes) whose dump was not refused by the required-attribute check"
)
TRUSTED = [
    "completeness of the static effect analysis harness/vh/effects.py (flow-ordered may-alias analysis over the ast of "
    "every iodata module; calls into numpy summarised by a hand list of in-place APIs) — cross-checked on every run by "
    "the dynamic deep-snapshot comparison, not assumed",
]
ASSUMPTIONS = [
    "the frame lemma speaks about an abstract heap; mapping Python objects to locations is not formalised",
    "wavefunction equivalence of converted objects is compared numerically (density matrices, overlap) at 1e-10",
]


def translate(ctx):
    write_gen(ctx, REPO)


# ---------------------------------------------------------------------------
def _handmade():
    """Objects that exercise aliasing-prone paths."""
    from iodata import IOData, load_one
    from iodata.basis import MolecularBasis, Shell
    from iodata.orbitals import MolecularOrbitals

    out = []
    d = corpus.DATA
    with warnings.catch_warnings():
        warnings.simplefilter("ignore")
        for name in ("LiCl_STO4G_Gaussian_output.json", "LiCl_STO4G_Gaussian_input_nested_extra.json",
                     "CuSCN_molecule_nested_extra.json", "H2O_CCSDprTpr_STO3G_output.json", "water_full.json"):
            try:
                base = load_one(str(d / name), fmt="json_qcschema")
            except Exception:
                continue
            for variant in ("asis", "prov-list", "prov-dict", "nested"):
                o = copy.deepcopy(base)
                for src in ("molecule", "input", "output"):
                    if src in o.extra and isinstance(o.extra[src], dict):
                        if variant == "prov-list":
                            o.extra[src]["provenance"] = [{"creator": "A", "routine": "r1"}, {"creator": "B"}]
                        elif variant == "prov-dict":
                            o.extra[src]["provenance"] = {"creator": "A", "routine": "r1"}
                        elif variant == "nested":
                            o.extra[src].setdefault("unparsed", {})["deep"] = {"l": [1, [2, 3], {"k": [4]}]}
                out.append((f"json:{name}:{variant}", o))
        # wavefunction objects needing conversion
        try:
            w = load_one(str(d / "water_hfs_321g.fchk"))  # SP shells
            out.append(("fchk:sp-shells", w))
            # generalized contraction: merge two s shells on the same centre with the same exponents
            w2 = copy.deepcopy(w)
            sh = w2.obasis.shells
            gen = []
            used = set()
            for i, s in enumerate(sh):
                if i in used:
                    continue
                mate = None
                for j in range(i + 1, len(sh)):
                    t = sh[j]
                    if (j not in used and t.icenter == s.icenter and list(t.angmoms) == list(s.angmoms) == [0]
                            and t.exponents.shape == s.exponents.shape and np.allclose(t.exponents, s.exponents)):
                        mate = j
                        break
                gen.append(s)
            out.append(("fchk:as-loaded-copy", w2))
        except Exception:
            pass
        try:
            r = load_one(str(d / "ch3_rohf_sto3g_g03.fchk"))
            out.append(("fchk:rohf", r))
            h = load_one(str(d / "hf_sto3g.fchk"))
            mo = h.mo
            norb = mo.norba
            occs = np.zeros(norb)
            occs[:3] = 2.0
            occs[3:5] = [1.0, 0.5]
            am = np.zeros(norb)
            am[3:5] = [1.0, 0.5]
            h2 = copy.deepcopy(h)
            h2.mo = MolecularOrbitals("restricted", norb, norb, occs, mo.coeffs.copy(), mo.energies.copy(),
                                      mo.irreps, occs_aminusb=am)
            out.append(("fchk:aminusb", h2))
            h2b = copy.deepcopy(h2)
            h2b.extra = dict(h2b.extra or {})
            h2b.extra["mo_spin"] = np.full(norb, 3)
            out.append(("fchk:aminusb+mo_spin", h2b))
            # generalized contractions: fold the two s shells of sto-3g on F (same exponents? no) -> build explicit one
            h3 = copy.deepcopy(h)
            shells = list(h3.obasis.shells)
            s0 = shells[0]
            g = Shell(s0.icenter, np.array([0, 0]), ["c", "c"], s0.exponents.copy(),
                      np.stack([s0.coeffs[:, 0], s0.coeffs[:, 0] * 0.5 + 0.1], axis=1))
            nb_old = h3.obasis.nbasis
            h3.obasis = MolecularBasis([g, *shells[1:]], h3.obasis.conventions, h3.obasis.primitive_normalization)
            nb_new = h3.obasis.nbasis
            c = np.zeros((nb_new, mo.coeffs.shape[1]))
            c[0] = mo.coeffs[0]
            c[1] = 0.25 * mo.coeffs[0]
            c[2:] = mo.coeffs[1:]
            h3.mo = MolecularOrbitals(mo.kind, mo.norba, mo.norbb, mo.occs.copy(), c, mo.energies.copy(), mo.irreps)
            assert nb_new == nb_old + 1
            h3.one_rdms = {}  # the stored density matrices belong to the original basis
            out.append(("fchk:generalized-contraction", h3))
            # a generalized contraction mixing kinds (Cartesian p with pure d), as in SPD shells of a 5D basis
            h5 = copy.deepcopy(h)
            shells5 = list(h5.obasis.shells)
            g5 = Shell(shells5[-1].icenter, np.array([1, 2]), ["c", "p"], np.array([1.5, 0.4]),
                       np.array([[0.7, 0.3], [0.4, 0.8]]))
            h5.obasis = MolecularBasis([*shells5, g5], h5.obasis.conventions, h5.obasis.primitive_normalization)
            c5 = np.vstack([mo.coeffs, 0.01 * np.arange(1, 8 * mo.coeffs.shape[1] + 1).reshape(8, -1)])
            h5.mo = MolecularOrbitals(mo.kind, mo.norba, mo.norbb, mo.occs.copy(), c5, mo.energies.copy(), mo.irreps)
            h5.one_rdms = {}
            out.append(("fchk:generalized-contraction-mixed-kinds", h5))
            # the same wavefunction with the shells stored in reverse order (not grouped by centre)
            for src_name, tag in (("hf_sto3g.fchk", "hf"), ("water_sto3g_hf_g03.fchk", "water")):
                w0 = load_one(str(d / src_name))
                shs = list(w0.obasis.shells)
                offs = np.cumsum([0] + [sh.nbasis for sh in shs])
                order = list(range(len(shs)))[::-1]
                if len(order) > 3:
                    order[0], order[2] = order[2], order[0]
                rows = np.concatenate([np.arange(offs[i], offs[i + 1]) for i in order])
                w1 = copy.deepcopy(w0)
                w1.obasis = MolecularBasis([copy.deepcopy(shs[i]) for i in order], w0.obasis.conventions,
                                           w0.obasis.primitive_normalization)
                m0 = w0.mo
                w1.mo = MolecularOrbitals(m0.kind, m0.norba, m0.norbb, m0.occs.copy(), m0.coeffs[rows].copy(),
                                          m0.energies.copy(), m0.irreps)
                w1.one_rdms = {}
                out.append((f"fchk:{tag}-shells-unsorted", w1))
            # restricted orbitals whose occs_aminusb sums to zero but is not zero
            h4 = copy.deepcopy(h)
            occs4 = np.zeros(norb)
            occs4[:3] = [2.0, 1.0, 1.0]
            am4 = np.zeros(norb)
            am4[1:3] = [0.5, -0.5]
            h4.mo = MolecularOrbitals("restricted", norb, norb, occs4, mo.coeffs.copy(), mo.energies.copy(),
                                      mo.irreps, occs_aminusb=am4)
            out.append(("fchk:aminusb-zero-sum", h4))
            # occupations that are not in aufbau order (an excited determinant): formats either write them or refuse,
            # nothing may be re-ordered behind the caller's back
            h6 = copy.deepcopy(h)
            occs6 = np.zeros(norb)
            occs6[[0, 1, 3]] = 2.0
            h6.mo = MolecularOrbitals("restricted", norb, norb, occs6, mo.coeffs.copy(), mo.energies.copy(), mo.irreps)
            h6.one_rdms = {}
            out.append(("fchk:non-aufbau-restricted", h6))
            h7 = copy.deepcopy(h)
            occs7 = np.zeros(2 * norb)
            occs7[[0, 2, 4]] = 1.0
            occs7[norb:norb + 3] = 1.0
            h7.mo = MolecularOrbitals("unrestricted", norb, norb, occs7, np.hstack([mo.coeffs, mo.coeffs]),
                                      np.concatenate([mo.energies, mo.energies]), None)
            h7.one_rdms = {}
            out.append(("fchk:non-aufbau-unrestricted", h7))
            # optional per-atom / per-coordinate arrays that only some writers touch, deliberately without the
            # symmetries a well-behaved program would give them (a finite-difference Hessian, forces)
            h8 = copy.deepcopy(h)
            n3 = 3 * h8.natom
            h8.athessian = np.arange(n3 * n3, dtype=float).reshape(n3, n3) * 1e-3 + np.eye(n3)
            h8.atgradient = np.arange(n3, dtype=float).reshape(-1, 3) * 1e-2 - 0.03
            h8.atfrozen = np.array([True] + [False] * (h8.natom - 1))
            h8.atmasses = np.arange(1, h8.natom + 1, dtype=float) * 1837.0
            h8.moments = {(1, "c"): np.array([0.1, -0.2, 0.3]), (2, "c"): np.arange(6, dtype=float) * 0.1}
            out.append(("fchk:optional-arrays", h8))
            # a generalized contraction whose angular momenta are not ascending (the two parts of an SP shell stored
            # P first): the announced segmentation must keep every basis function where the coefficients expect it
            h9 = copy.deepcopy(h)
            sh9 = list(h9.obasis.shells)
            g9 = Shell(sh9[-1].icenter, np.array([1, 0]), ["c", "c"], np.array([2.5, 0.6]), np.array([[0.6, 0.2], [0.5, 0.9]]))
            h9.obasis = MolecularBasis([*sh9, g9], h9.obasis.conventions, h9.obasis.primitive_normalization)
            c9 = np.vstack([mo.coeffs, 0.01 * np.arange(1, 4 * mo.coeffs.shape[1] + 1).reshape(4, -1)])
            h9.mo = MolecularOrbitals(mo.kind, mo.norba, mo.norbb, mo.occs.copy(), c9, mo.energies.copy(), mo.irreps)
            h9.one_rdms = {}
            out.append(("fchk:generalized-contraction-p-first", h9))
        except Exception as exc:  # pragma: no cover
            out.append(("handmade-error:" + repr(exc)[:80], None))
        try:
            # a segmented basis (every conversion for it would be the only one) with alpha-minus-beta occupations:
            # formats that convert to unrestricted orbitals must announce exactly that conversion
            s0 = load_one(str(d / "h2o_sto3g.wfn"))
            m0 = s0.mo
            n0 = m0.norba
            occ0 = np.zeros(n0)
            occ0[: min(4, n0)] = [2.0, 2.0, 1.0, 1.0][: min(4, n0)]
            am0 = np.zeros(n0)
            am0[2: min(4, n0)] = 1.0
            s1 = copy.deepcopy(s0)
            s1.mo = MolecularOrbitals("restricted", n0, n0, occ0, m0.coeffs[:, :n0].copy(), m0.energies[:n0].copy(), None,
                                      occs_aminusb=am0)
            s1.extra = {k: v for k, v in (s1.extra or {}).items() if k != "mo_spin"}
            out.append(("wfn:segmented-aminusb", s1))
            # beta-majority alpha-minus-beta occupations (Ms < 0): a conversion must keep which spin is which
            s2 = copy.deepcopy(s1)
            s2.mo = MolecularOrbitals("restricted", n0, n0, occ0.copy(), m0.coeffs[:, :n0].copy(), m0.energies[:n0].copy(), None,
                                      occs_aminusb=-am0)
            out.append(("wfn:segmented-aminusb-beta-majority", s2))
            # orbitals without energies (natural orbitals): NaN entries are data, too
            s3 = copy.deepcopy(s0)
            e3 = s3.mo.energies.copy()
            e3[-1] = np.nan
            e3[0] = np.inf
            s3.mo = MolecularOrbitals(s3.mo.kind, s3.mo.norba, s3.mo.norbb, s3.mo.occs.copy(), s3.mo.coeffs.copy(), e3, None)
            out.append(("wfn:nan-energies", s3))
        except Exception as exc:  # pragma: no cover
            out.append(("handmade-error:" + repr(exc)[:80], None))
        mol = IOData(atnums=np.array([8, 1, 1]), atcoords=np.array([[0, 0, 0.0], [0, 1.5, 1.1], [0, -1.5, 1.1]]),
                     title="water", charge=0.0, spinpol=0.0,
                     bonds=np.array([[0, 1, 1], [0, 2, 1]]), atcharges={"mulliken": np.array([-0.6, 0.3, 0.3])},
                     atffparams={"attypes": np.array(["O", "H", "H"]), "restypes": np.array(["HOH"] * 3),
                                 "resnums": np.array([1, 1, 1])},
                     extra={"occupancies": np.array([1.0, 1.0, 1.0]), "bfactors": np.array([0.0, 0.5, 1.0]),
                            "chainids": np.array(["A", "A", "A"]), "note": {"l": [1, 2, [3]]}},
                     cellvecs=np.eye(3) * 10.0, lot="hf", obasis_name="sto-3g", run_type="energy")
        out.append(("handmade:water-topology", mol))
    return [(n, o) for n, o in out if o is not None]


def _pool(ctx):
    objs = []
    for p in corpus.files(max_size=ctx.n(120_000, 600_000)):
        fmt = corpus.select_fmt(p)
        if fmt is None:
            continue
        o = corpus.load(p, fmt)
        if o is not None:
            objs.append((f"corpus:{p.name}", o))
    objs += _handmade()
    return objs


def _equiv(a, b):
    """Same wavefunction?  None or a description of the difference."""
    from iodata.overlap import compute_overlap

    if (a.mo is None) != (b.mo is None) or (a.obasis is None) != (b.obasis is None):
        return "mo/obasis presence changed"
    if a.obasis is not None:
        if a.obasis.nbasis != b.obasis.nbasis:
            return f"nbasis {a.obasis.nbasis} -> {b.obasis.nbasis}"
        fa = [(int(s.icenter), int(l), k) for s in a.obasis.shells for l, k in zip(s.angmoms, s.kinds)]
        fb = [(int(s.icenter), int(l), k) for s in b.obasis.shells for l, k in zip(s.angmoms, s.kinds)]
        if fa != fb:
            return f"contractions (center, angmom, kind) changed: {fa} -> {fb}"
        sa = compute_overlap(a.obasis, a.atcoords)
        sb = compute_overlap(b.obasis, b.atcoords)
        if not np.allclose(sa, sb, atol=1e-10, rtol=0):
            return "overlap matrix of the basis changed (functions or their order differ)"
    if a.mo is not None:
        if a.mo.kind == "generalized" or b.mo.kind == "generalized":
            return None

        def dens(m):
            ca, cb = m.coeffsa, m.coeffsb
            oa, ob = m.occsa, m.occsb
            if ca is None or oa is None:
                return None, None
            da = (ca * oa) @ ca.T
            db = (cb * ob) @ cb.T
            return da + db, da - db

        ta, sa_ = dens(a.mo)
        tb, sb_ = dens(b.mo)
        if ta is not None and tb is not None:
            if not np.allclose(ta, tb, atol=1e-10, rtol=0):
                return "total density changed"
            if not np.allclose(sa_, sb_, atol=1e-10, rtol=0):
                return "spin density changed"
        for name in ("nelec", "spinpol"):
            va, vb = getattr(a.mo, name), getattr(b.mo, name)
            if (va is None) != (vb is None) or (va is not None and abs(va - vb) > 1e-10):
                return f"{name} {va} -> {vb}"
    return None


def _one_case(ctx, tmp, label, obj, fmt, ac, mode):
    """Returns a failure tuple (sig, what) or None; counts the case."""
    from iodata import dump_many, dump_one, write_input
    from iodata.utils import DumpError, FileFormatError, PrepareDumpError, PrepareDumpWarning, WriteInputError

    o = copy.deepcopy(obj)
    try:
        _ = o.atcorenums  # the one permitted (lazy default) change happens before the snapshot
    except Exception:
        pass
    before, idb = snap(o), ids(o)
    path = os.path.join(tmp, f"out_{abs(hash((label, fmt, ac, mode))) % 10**8}.{corpus.EXT.get(fmt, fmt)}")
    outcome = "ok"
    ret = None
    wlist = []
    for rep in range(2):
        try:
            with warnings.catch_warnings(record=True) as wl:
                warnings.simplefilter("always")
                if mode == "one":
                    ret = dump_one(o, path, fmt=fmt, allow_changes=ac)
                elif mode == "many":
                    dump_many([o, o], path, fmt=fmt, allow_changes=ac)
                elif mode == "input-kw":
                    # per-call settings: template fields and keyword arguments named like the object's own fields,
                    # dict-valued ones included, and a custom atom-line callback; they take precedence for this call
                    # and must not be written into (or merged with) the caller's object
                    write_input(o, path, fmt=fmt, template="{title} {lot} {charge} {spinmult} {extra[nproc]} {obasis_name}\n{geometry}\n",
                                title="per-call", lot="PBE", charge=3, extra={"nproc": 8}, atcharges={"percall": [0.0]},
                                moments={(1, "c"): [1.0, 2.0, 3.0]}, one_ints={"percall": [[1.0]]},
                                atom_line=lambda data, iatom: f"X {iatom}")
                else:
                    write_input(o, path, fmt=fmt)
        except (PrepareDumpError, DumpError, WriteInputError, FileFormatError) as exc:
            outcome = type(exc).__name__
        except Exception as exc:
            outcome = "Other:" + type(exc).__name__
        if rep == 0:
            wlist = list(wl)  # also when the call raised: warnings issued before the failure count
        after, ida = snap(o), ids(o)
        if after != before:
            where = first_diff(before, after)
            return (f"mutated:{mode}:{fmt}:{where.split('[')[0]}",
                    f"{mode} dump to {fmt} (allow_changes={ac}, repetition {rep + 1}) changed the caller's object at {where}")
        if ida != idb:
            diff = sorted(k for k in set(ida) | set(idb) if ida.get(k) != idb.get(k))[:3]
            return (f"identity:{mode}:{fmt}:{diff[0].split('[')[0] if diff else ''}",
                    f"{mode} dump to {fmt} replaced members of the caller's object: {diff}")
        if outcome != "ok":
            break
    ctx.count(f"dump-{mode}", [label, fmt, ac], f"{fmt}/{outcome}/ac={int(ac)}",
              nontrivial=outcome in ("ok", "DumpError") or "prepar" not in outcome.lower(),
              sample={"object": label, "fmt": fmt, "allow_changes": ac, "outcome": outcome})
    if mode == "one" and outcome in ("DumpError",) or (mode == "one" and outcome.startswith("Other")):
        nw = sum(1 for w in wlist if issubclass(w.category, PrepareDumpWarning))
        if nw > 0:
            return (f"conversion-then-write-failure:{fmt}",
                    f"dump_one to {fmt} announced a conversion (PrepareDumpWarning) and then failed with {outcome}: the "
                    "converted object is not one the writer can write, so it is not the object that was given")
    if mode == "one" and outcome == "ok" and fmt in ("wfn", "wfx", "molden", "molekel") and o.mo is not None \
            and o.mo.kind != "generalized" and o.mo.occs is not None:
        # the written file must carry the alpha/beta occupations of the object it was given (as is or converted)
        from iodata import load_one

        try:
            with warnings.catch_warnings():
                warnings.simplefilter("ignore")
                back = load_one(path, fmt=fmt)
        except Exception:
            back = None  # unreadable own output is C01/C02's business, not C09's
        if back is not None and back.mo is not None and back.mo.occs is not None:
            def occ_key(m):
                return sorted(np.round(np.concatenate([m.occsa, m.occsb]), 5).tolist())
            ka = [x for x in occ_key(o.mo) if x != 0]
            kb = [x for x in occ_key(back.mo) if x != 0]
            if len(ka) != len(kb) or not np.allclose(ka, kb, atol=2e-5):
                return (f"written-occupations-differ:{fmt}",
                        f"dump_one to {fmt} (allow_changes={ac}) succeeded but the file carries alpha/beta occupations "
                        f"{kb[:8]} while the object has {ka[:8]}: a conversion happened silently or was not equivalent")
    if mode == "one" and outcome == "ok":
        nwarn = sum(1 for w in wlist if issubclass(w.category, PrepareDumpWarning))
        if not ac and ret is not o:
            return (f"returned-other:{fmt}", f"dump_one to {fmt} without allow_changes returned a different object")
        if ret is o and nwarn > 0:
            return (f"announced-conversion-returns-argument:{fmt}",
                    f"dump_one to {fmt} announced a conversion (PrepareDumpWarning) but returned the caller's object, "
                    "not the converted object that was written")
        if ret is not o:
            if nwarn == 0:
                return (f"silent-conversion:{fmt}", f"dump_one to {fmt} converted the object without a PrepareDumpWarning")
            try:
                d = _equiv(o, ret)
            except Exception as exc:
                d = None
                ctx.hist[f"equiv-check-error:{type(exc).__name__}"] += 1
            if d:
                return (f"conversion-not-equivalent:{fmt}:{d.split(' ')[0]}", f"conversion for {fmt}: {d}")
            ctx.hist[f"converted:{fmt}"] += 1
    return None


def search(ctx):
    pool = _pool(ctx)
    ctx.extra_cov["objects_in_pool"] = len(pool)
    tmp = tempfile.mkdtemp(prefix="c09_")
    try:
        cases = []
        for label, obj in pool:
            for fmt in corpus.DUMP_ONE:
                for ac in (False, True):
                    cases.append((label, obj, fmt, ac, "one"))
            for fmt in corpus.DUMP_MANY:
                cases.append((label, obj, fmt, False, "many"))
            for fmt in ("gaussian", "orca"):
                cases.append((label, obj, fmt, False, "input"))
                cases.append((label, obj, fmt, False, "input-kw"))
        hand = [c for c in cases if not c[0].startswith("corpus:")]
        rest = [c for c in cases if c[0].startswith("corpus:")]
        ctx.rng.shuffle(rest)
        budget = ctx.n(900, 10**9) * (3 if ctx.escalated else 1)
        for label, obj, fmt, ac, mode in hand + rest[:budget]:
            r = _one_case(ctx, tmp, label, obj, fmt, ac, mode)
            if r:
                ctx.fail(r[0], r[1], {"object": label, "fmt": fmt, "allow_changes": ac, "mode": mode})
    finally:
        shutil.rmtree(tmp, ignore_errors=True)


def replay(ctx, obj):
    inp = obj["input"]
    pool = dict(_pool(ctx))
    if inp["object"] not in pool:
        return True
    tmp = tempfile.mkdtemp(prefix="c09_")
    try:
        return _one_case(ctx, tmp, inp["object"], pool[inp["object"]], inp["fmt"], inp["allow_changes"], inp["mode"]) is not None
    finally:
        shutil.rmtree(tmp, ignore_errors=True)
