"""XYZ with user-defined atom columns that share a dictionary attribute (two ``atcharges`` kinds, two ``extra`` keys, one of
them a per-atom 3-vector), on the existing XYZ model (``fmt dump|load xyz <columns>``): the Lean model only sees a list of
fixed-point columns; which attribute and key a column belongs to is the business of this adapter, so a reader that builds
the dictionary attribute afresh for every column (keeping only the last key) gives a reload that cannot be re-quantised
(`load:xyz-dictcols` answers ``err quant:KeyError``) and a failing direct search (`search:xyz-dictcols`)."""

from __future__ import annotations

import random

import numpy as np

from . import _checks as K
from . import _formats as F
from ._adapters import Xyz, _units, cmp_real


class XyzDict(Xyz):
    # (attribute, key, values per atom, width, decimals, negated)
    EXTRA = [("atcharges", "mulliken", 1, 10, 5, False), ("atcharges", "esp", 1, 10, 5, False),
             ("extra", "alpha", 1, 12, 6, False), ("extra", "beta", 3, 9, 3, False), ("atcharges", "npa", 1, 8, 4, False)]
    OPTS = "15.10.0,15.10.0,15.10.0,10.5.0,10.5.0,12.6.0,9.3.0,9.3.0,9.3.0,8.4.0"

    def gen(self, rng, natom, i):
        title = F.rand_title(rng)
        atoms = []
        cols = self.opts_cols(self.OPTS)
        for k in range(natom):
            z = (i * 7 + k) % 118 + 1
            vals = [F.rand_fx(rng, d, 3, 2, allow_wide=True) for (_, d, _) in cols]
            atoms.append((z, vals))
        return {"title": title, "atoms": atoms}, self.OPTS, f"natom={natom if natom in F.SIZE_CLASSES_THOROUGH else 'rand'}/dictcols"

    def _split(self, vals):
        """column block of every (attr, key)"""
        out, j = [], 3
        for attr, key, n, _, _, _ in self.EXTRA:
            out.append((attr, key, n, j))
            j += n
        return out

    def build(self, q, opts="-"):
        from iodata import IOData

        cols = self.opts_cols(opts)
        n = len(q["atoms"])
        vals = np.array([[F.fx_float(v, c[1]) for v, c in zip(a[1], cols)] for a in q["atoms"]], float).reshape(n, len(cols))
        kw = {"atnums": np.array([a[0] for a in q["atoms"]], int), "atcoords": vals[:, :3] * _units(), "title": q["title"] or None,
              "atcharges": {}, "extra": {}}
        for attr, key, m, j in self._split(vals):
            kw[attr][key] = vals[:, j].copy() if m == 1 else vals[:, j : j + m].copy()
        return IOData(**kw)

    def quant(self, d, opts="-"):
        cols = self.opts_cols(opts)
        atoms = []
        for k in range(d.natom):
            vals = [F.fx_quant(d.atcoords[k, j], cols[j][1], _units()) for j in range(3)]
            for attr, key, m, j in self._split(None):
                arr = getattr(d, attr)[key]
                vals += [F.fx_quant(arr[k], cols[j][1])] if m == 1 else [F.fx_quant(arr[k, t], cols[j + t][1]) for t in range(m)]
            atoms.append((int(d.atnums[k]), vals))
        return {"title": d.title if d.title is not None else "", "atoms": atoms}

    # ---- direct search ----
    def free_spec(self, rng, natom, i):
        return {"seed": rng.getrandbits(48), "natom": natom}

    def free_class(self, s):
        return f"natom={s['natom'] if s['natom'] in F.SIZE_CLASSES_THOROUGH else 'rand'}/dictcols"

    def free_build(self, s):
        from iodata import IOData

        rng = random.Random(s["seed"])
        n = s["natom"]
        u = lambda k=1.0: rng.uniform(-k, k)  # noqa: E731
        return IOData(atnums=np.array([rng.randint(1, 118) for _ in range(n)]), atcoords=np.array([[u(50) for _ in range(3)] for _ in range(n)]) * _units(),
                      title=F.rand_title(rng) or None,
                      atcharges={"mulliken": np.array([u() for _ in range(n)]), "esp": np.array([u() for _ in range(n)]), "npa": np.array([u() for _ in range(n)])},
                      extra={"alpha": np.array([u(100) for _ in range(n)]), "beta": np.array([[u(10) for _ in range(3)] for _ in range(n)])})

    def compare(self, x, y):
        bad = super().compare(x, y)
        cols = self.opts_cols(self.OPTS)
        for attr, key, m, j in self._split(None):
            got = (getattr(y, attr) or {}).get(key)
            if got is None:
                bad.append((f"{attr}:{key}", f"the key {key!r} of {attr} is lost on reload"))
            else:
                bad += cmp_real(f"{attr}:{key}", getattr(x, attr)[key], got, cols[j][1])
        return bad


XYZD = XyzDict()


class _Tag:
    """stream name of its own; the Lean side is the XYZ model"""

    def __init__(self, ad):
        self._ad = ad
        self.key = "xyz-dictcols"
        self.fmt = "xyz"

    def __getattr__(self, name):
        return getattr(self._ad, name)


REPLAY = {"xyz-dictcols": _Tag(XYZD)}


def _kw(ad):
    return ad.kw(ad.OPTS)


def corr(ctx, n, generations=1):
    ad = XYZD
    rng = ctx.rng
    dreq, dimp, dcls, loads = [], [], [], []
    for i in range(n):
        q, opts, cls = ad.gen(rng, F.pick_natom(rng, i, ctx.thorough) if i < 6 else rng.randint(1, 30), i)
        r = F.real_dump(ad.build(q, opts), "xyz", **ad.kw(opts))
        dreq.append(f"fmt dump xyz {opts} {ad.enc(q)}")
        dimp.append("ok " + r.value.hex() if r.ok else "err DumpError")
        dcls.append(cls)
        if r.ok:
            loads.append((r.value, opts, cls))
    ctx.corr("dump:xyz-dictcols", dreq, dimp, None, dcls)
    lreq, limp, second = [], [], []
    for raw, opts, cls in loads:
        line, obj = K._impl_load_line(ad, raw, opts)
        lreq.append(f"fmt load xyz {opts} {raw.hex()}")
        limp.append(line)
        if line.startswith("ok") and generations > 1:
            second.append((line[3:], obj, opts, cls))
    ctx.corr("load:xyz-dictcols", lreq, limp, None, [c for _, _, c in loads])
    if generations > 1:
        g2req, g2imp = [], []
        for enc, obj, opts, cls in second:
            r = F.real_dump(obj, "xyz", **ad.kw(opts))
            g2req.append(f"fmt dump xyz {opts} {enc}")
            g2imp.append("ok " + r.value.hex() if r.ok else "err DumpError")
        ctx.corr("dump-gen2:xyz-dictcols", g2req, g2imp, None, [c for _, _, _, c in second])


def correspond(ctx):
    corr(ctx, ctx.n(120, 500), generations=2 if ctx.prop == "C15" else 1)


def search(ctx):
    ad = _Tag(XYZD)
    rng = ctx.rng
    n = ctx.n(150, 600) * (3 if ctx.escalated else 1)
    for i in range(n):
        natom = F.pick_natom(rng, i, ctx.thorough) if i < 6 else rng.randint(1, 40)
        spec = ad.free_spec(rng, natom, i)
        x = ad.free_build(spec)
        res = K.c02_eval(ad, x, _kw(XYZD)) if ctx.prop == "C02" else K.c15_eval(ad, x, _kw(XYZD))
        ctx.count(("search:" if ctx.prop == "C02" else "cycles:") + ad.key, spec["seed"], ad.free_class(spec) + ("" if res is None else "/FAIL"))
        if res:
            ctx.fail(res[0], res[1], {"kind": "c02" if ctx.prop == "C02" else "c15", "format": ad.key, "spec": spec})
