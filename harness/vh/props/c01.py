"""C01 — wavefunction conversion never silently changes the wavefunction.

Layout of this file
  1. an evaluator of contracted Gaussian basis functions written from docs/basis.rst
     (numpy only; it shares no code with iodata)
  2. generators of wavefunction objects (plain-python "specs" turned into IOData objects)
  3. the property predicate on the real code: dump_one -> load_one -> same functions of space
  4. minimal tokenizers for the five written formats (used by the structural correspondence and
     to recognise the quantitative fingerprint of the known defects)
  5. translate / correspond / search / replay for the engine
"""

from __future__ import annotations

import io
import json
import math
import os
import random
import re
import tempfile
import warnings
from fractions import Fraction

import numpy as np

from ..engine import REPO, lean_list, lean_str

MODULES = ["Iodata.Props.C01"]
FORMATS = ["fchk", "molden", "molekel", "wfn", "wfx"]
EXT = {"fchk": "fchk", "molden": "molden", "molekel": "mkl", "wfn": "wfn", "wfx": "wfx"}

# --------------------------------------------------------------------------------------------
# 1. independent evaluator (docs/basis.rst)
# --------------------------------------------------------------------------------------------


def _fac2(n: int) -> int:
    """(n)!! with (-1)!! = 1."""
    r = 1
    while n > 1:
        r *= n
        n -= 2
    return r


def norm_cart(alpha, nx, ny, nz):
    """N(alpha, nx, ny, nz) of docs/basis.rst, section 'Cartesian basis functions'."""
    return math.sqrt(
        (2 * alpha / math.pi) ** 1.5 * (4 * alpha) ** (nx + ny + nz) / (_fac2(2 * nx - 1) * _fac2(2 * ny - 1) * _fac2(2 * nz - 1))
    )


def norm_pure(alpha, l):
    """N(alpha, l) of docs/basis.rst, section 'Pure or harmonic basis functions'."""
    return math.sqrt((2 * alpha / math.pi) ** 1.5 * (4 * alpha) ** l / _fac2(2 * l - 1))


def solid_harmonics(lmax, x, y, z):
    """Real regular solid harmonics C[l][m], S[l][m] by the recursion of docs/basis.rst."""
    r2 = x * x + y * y + z * z
    one = np.ones_like(x)
    C = {(0, 0): one}
    S = {(0, 0): 0 * one}
    if lmax >= 1:
        C[(1, 0)] = z
        C[(1, 1)] = x
        S[(1, 0)] = 0 * one
        S[(1, 1)] = y
    for l in range(2, lmax + 1):
        f = math.sqrt((2 * l - 1) / (2 * l))
        C[(l, l)] = f * (x * C[(l - 1, l - 1)] - y * S[(l - 1, l - 1)])
        S[(l, l)] = f * (x * S[(l - 1, l - 1)] + y * C[(l - 1, l - 1)])
        g = math.sqrt(2 * l - 1)
        C[(l, l - 1)] = z * g * C[(l - 1, l - 1)]
        S[(l, l - 1)] = z * g * S[(l - 1, l - 1)]
        for m in range(0, l - 1):
            a = (2 * l - 1) / math.sqrt((l + m) * (l - m))
            b = math.sqrt((l - m - 1) * (l + m - 1) / ((l + m) * (l - m)))
            C[(l, m)] = a * z * C[(l - 1, m)] - b * r2 * C[(l - 2, m)]
            S[(l, m)] = a * z * S[(l - 1, m)] - b * r2 * S[(l - 2, m)]
    return C, S


def eval_basis(atcoords, shells, conventions, pts):
    """Values of all basis functions at pts.

    shells: list of (icenter, angmoms, kinds, exponents, coeffs[nexp][ncon]) plain python/numpy.
    Returns (B, A): B[npt, nbasis] values, A[npt, nbasis] the sum of the absolute values of the primitive
    terms, each weighted by (1 + alpha r^2 + l/2): the first-order forward error of the value per unit relative
    error of the printed numbers (used for error bounds).
    """
    cols, acols = [], []
    for icenter, angmoms, kinds, exps, coeffs in shells:
        d = pts - np.asarray(atcoords[icenter], float)[None, :]
        x, y, z = d[:, 0], d[:, 1], d[:, 2]
        r2 = x * x + y * y + z * z
        gauss = [np.exp(-float(a) * r2) for a in exps]
        lmax = max(int(l) for l in angmoms)
        harm = None
        for icon, (l, kind) in enumerate(zip(angmoms, kinds)):
            l = int(l)
            kind = str(kind)
            labels = conventions[(l, kind)]
            for lab in labels:
                sign = -1.0 if lab.startswith("-") else 1.0
                name = lab.lstrip("-")
                if kind == "c":
                    if name == "1":
                        nx = ny = nz = 0
                    else:
                        nx, ny, nz = name.count("x"), name.count("y"), name.count("z")
                        if nx + ny + nz != len(name) or nx + ny + nz != l:
                            raise ValueError(f"bad Cartesian label {lab} for l={l}")
                    poly = x**nx * y**ny * z**nz
                    norms = [norm_cart(float(a), nx, ny, nz) for a in exps]
                elif kind == "p":
                    if harm is None:
                        harm = solid_harmonics(lmax, x, y, z)
                    m = int(name[1:])
                    if name[0] not in "cs" or m > l or (name[0] == "s" and m == 0):
                        raise ValueError(f"bad pure label {lab}")
                    poly = harm[0 if name[0] == "c" else 1][(l, m)]
                    norms = [norm_pure(float(a), l) for a in exps]
                else:
                    raise ValueError(f"bad kind {kind}")
                val = 0.0
                aval = 0.0
                for k in range(len(exps)):
                    t = float(coeffs[k][icon]) * norms[k] * poly * gauss[k]
                    val = val + t
                    # forward-error weight of this primitive term: a relative error e in alpha changes
                    # exp(-alpha r^2) by alpha r^2 e and the normalisation by (l/2 + 3/4) e
                    aval = aval + np.abs(t) * (1.0 + float(exps[k]) * r2 + 0.5 * l)
                cols.append(sign * val)
                acols.append(aval)
    if not cols:
        return np.zeros((len(pts), 0)), np.zeros((len(pts), 0))
    return np.stack(cols, axis=1), np.stack(acols, axis=1)


def plain_shells(obasis):
    """Extract the plain description of an iodata MolecularBasis (attribute access only)."""
    out = []
    for s in obasis.shells:
        out.append(
            (int(s.icenter), [int(a) for a in s.angmoms], [str(k) for k in s.kinds], [float(e) for e in s.exponents],
             [[float(c) for c in row] for row in s.coeffs])
        )
    return out


def plain_conv(conventions):
    return {(int(k[0]), str(k[1])): [str(x) for x in v] for k, v in conventions.items()}


# --------------------------------------------------------------------------------------------
# 2. objects
# --------------------------------------------------------------------------------------------
ANGSTROM = 1.0 / 0.52917721092  # only used to put generated nuclei on the grid MKL prints (6 decimals in angstrom)


def _tables():
    """The convention dictionaries of the format modules and the two defaults."""
    import iodata.convert as cv
    from iodata.formats import fchk, molden, molekel, wfn, wfx

    tabs = {
        "horton2": {k: v for k, v in cv.HORTON2_CONVENTIONS.items() if k[0] <= 6},
        "cca": {k: v for k, v in cv.CCA_CONVENTIONS.items() if k[0] <= 6},
        "fchk": {k: v for k, v in fchk.CONVENTIONS.items() if k[0] <= 6},
        "molden": molden.CONVENTIONS,
        "molekel": molekel.CONVENTIONS,
        "wfn": wfn.CONVENTIONS,
        "wfx": wfx.CONVENTIONS,
    }
    return {n: plain_conv(t) for n, t in tabs.items()}


# Molden and Molekel know pure h functions only (no Cartesian entry in their CONVENTIONS table)
LMAX = {"fchk": 6, "molden": 5, "molekel": 5, "wfn": 5, "wfx": 5}
PURE_OK = {"fchk": True, "molden": True, "molekel": True, "wfn": False, "wfx": False}


def conv_key(k):
    return f"{k[0]}{k[1]}"


def conv_to_json(conv):
    return {conv_key(k): list(v) for k, v in conv.items()}


def conv_from_json(j):
    return {(int(k[:-1]), k[-1]): list(v) for k, v in j.items()}


def rand_conv(rng, base, pflip=0.3):
    c = list(base)
    rng.shuffle(c)
    return [("-" + x if rng.random() < pflip else x) for x in c]


def gen_spec(rng, fmt, tabs, cls_hint=None):
    """A random small wavefunction object for target format fmt (JSON-able)."""
    h2 = tabs["horton2"]
    natom = rng.choice([1, 2, 2, 3, 3, 4])
    # layouts the Molden / Molekel writers have to get right and a uniform draw rarely produces
    scen = None
    if fmt in ("molden", "molekel"):
        r = rng.random()
        if r < 0.08:
            scen = "many-shells"      # 17-24 s/p shells on 2-3 centres, shuffled (an unstable sort of equal centres shows)
            natom = rng.choice([2, 3])
        elif r < 0.20:
            scen = "interleaved"      # >= 6 shells of different sizes on two centres, not adjacent
            natom = max(natom, 2)
        elif r < 0.36 and fmt == "molden":
            scen = "d-f-opposite"     # pure d with Cartesian f or the reverse ([5D10F] / [7F])
        elif r < 0.46:
            scen = "with-h"           # pure h, with or without g shells of either kind ([9G] switches both)
    atnums = [rng.choice([1, 1, 3, 6, 8]) for _ in range(natom)]
    atcorenums = [float(z) for z in atnums]
    flavour = rng.random()
    if natom > 1 and flavour < 0.2:
        atcorenums[rng.randrange(natom)] = 0.0  # ghost centre (FCHK style: atnum kept, core charge zero)
    # nuclei on a 1e-3 angstrom grid, well separated
    coords = []
    while len(coords) < natom:
        p = [rng.randint(-1500, 1500) for _ in range(3)]
        if all(sum((a - b) ** 2 for a, b in zip(p, q)) > 600**2 for q in coords):
            coords.append(p)
    atcoords = [[k * 1e-3 * ANGSTROM for k in p] for p in coords]
    # shells
    lmax = LMAX[fmt]
    nshell = rng.choice([1, 2, 3, 3, 4, 5, 6])
    order_kind = rng.choice(["sorted", "sorted", "shuffled", "reversed", "skip"])
    kinds_for_l = {}
    forced_l = []
    two = None
    if scen == "many-shells":
        nshell = rng.randint(17, 24)
        order_kind = "shuffled"
    elif scen == "interleaved":
        nshell = rng.randint(6, 9)
        order_kind = "shuffled"
        two = rng.sample(range(natom), 2)
    elif scen == "d-f-opposite":
        kinds_for_l[2] = rng.choice("cp")
        kinds_for_l[3] = "c" if kinds_for_l[2] == "p" else "p"
        forced_l = [2, 3]
        nshell = max(nshell, 2)
    elif scen == "with-h":
        forced_l = [5] + ([4] if rng.random() < 0.5 else [])
        nshell = max(nshell, len(forced_l))
    shells = []
    for ish in range(nshell):
        if ish < len(forced_l):
            l = forced_l[ish]
        elif scen == "many-shells":
            l = rng.choice([0, 0, 1])
        elif scen == "interleaved":
            l = rng.choice([0, 1, 1, 2, 3])
        else:
            l = rng.choice([0, 0, 1, 1, 2, 2, 3] + list(range(lmax + 1)))
        if PURE_OK[fmt] and l >= 2:
            # Molden cannot mix pure and Cartesian for one l; keep one kind per l so that this is not what is tested.
            # h shells are always pure for Molden/Molekel; g shells of either kind ([9G] switches g and h together:
            # Cartesian g with pure h is inexpressible in Molden, the writer has to refuse).
            kind = kinds_for_l.setdefault(l, "p" if (l == 5 and fmt in ("molden", "molekel")) else rng.choice("cp"))
        else:
            kind = "c"
        nexp = 1 if scen == "many-shells" else rng.choice([1, 1, 2, 3])
        exps = sorted({round(rng.uniform(0.15, 2.5), 4) for _ in range(nexp)}, reverse=True)
        coeffs = [[round(rng.uniform(0.2, 1.0) * rng.choice([1, 1, -1]), 5)] for _ in exps]
        centre = rng.choice(two) if two is not None else rng.randrange(natom)
        shells.append([centre, [l], [kind], exps, coeffs])
    gen_contr = rng.random()
    if scen in ("many-shells", "interleaved"):
        gen_contr = 1.0
    if gen_contr < 0.15:
        # SP shell or another generalized contraction
        exps = sorted({round(rng.uniform(0.15, 2.5), 4) for _ in range(rng.choice([1, 2, 3]))}, reverse=True)
        if rng.random() < 0.6:
            angs, kds = [0, 1], ["c", "c"]
        else:
            angs = [rng.choice([0, 1, 2]) for _ in range(rng.choice([2, 3]))]
            if rng.random() < 0.4:
                angs = [1, 0]  # the two contractions of an SP shell stored P first: not an SP shell for any writer
            kds = ["c" if (a < 2 or not PURE_OK[fmt]) else kinds_for_l.setdefault(a, rng.choice("cp")) for a in angs]
        coeffs = [[round(rng.uniform(0.2, 1.0) * rng.choice([1, -1]), 5) for _ in angs] for _ in exps]
        shells.append([rng.randrange(natom), angs, kds, exps, coeffs])
    if order_kind == "sorted":
        shells.sort(key=lambda s: s[0])
        # make the centres contiguous 0..k so that nothing is skipped
        used = sorted({s[0] for s in shells})
        if used != list(range(len(used))):
            remap = {c: i for i, c in enumerate(used)}
            for s in shells:
                s[0] = remap[s[0]]
    elif order_kind == "reversed":
        shells.sort(key=lambda s: -s[0])
    elif order_kind == "shuffled":
        rng.shuffle(shells)
    else:  # skip: sorted but possibly leaving out a centre
        shells.sort(key=lambda s: s[0])
    # conventions
    keys = sorted({(a, k) for s in shells for a, k in zip(s[1], s[2])})
    choice = rng.choice(["native", "horton2", "cca", "other-module", "random", "random", "random-perm"])
    if choice == "native":
        src = tabs[fmt]
    elif choice in ("horton2", "cca"):
        src = tabs[choice]
    elif choice == "other-module":
        src = tabs[rng.choice([f for f in FORMATS if f != fmt])]
    else:
        src = None
    conv = {}
    lm = max(k[0] for k in keys)
    allkeys = {(l, "c") for l in range(lm + 1)} | ({(l, "p") for l in range(2, lm + 1)} if PURE_OK[fmt] else set())
    for k in sorted(set(keys) | allkeys):
        if src is not None and k in src:
            conv[k] = list(src[k])
        else:
            conv[k] = rand_conv(rng, h2[k], 0.3 if choice != "random-perm" else 0.0)
    nbasis = sum(len(conv[(a, k)]) for s in shells for a, k in zip(s[1], s[2]))
    # orbitals
    mokind = rng.choice(["restricted", "restricted", "unrestricted", "unrestricted", "rohf", "aminusb", "natural"])
    virt = rng.random() < 0.6
    nocc_a = rng.randint(1, min(nbasis, 4))
    nocc_b = rng.randint(1, nocc_a) if mokind in ("unrestricted", "rohf", "aminusb") else nocc_a
    if mokind == "unrestricted":
        norba = min(nbasis, nocc_a + (rng.randint(0, 3) if virt else 0))
        norbb = min(nbasis, nocc_b + (rng.randint(0, 3) if virt else 0))
        if rng.random() < 0.5:
            norbb = max(nocc_b, min(norbb, norba))  # same count is the common case
        if rng.random() < 0.07:
            nocc_b = norbb = 0  # no beta orbitals at all (one-electron systems, fully polarised sets without virtuals)
        occs = [1.0] * nocc_a + [0.0] * (norba - nocc_a) + [1.0] * nocc_b + [0.0] * (norbb - nocc_b)
        if nocc_a > nocc_b and norbb > nocc_b and rng.random() < 0.25:
            # a fractional beta occupation between the beta and the alpha electron count (smeared / fractional-electron
            # calculations): formats that cannot store it must refuse, the others must keep it
            occs[norba + nocc_b] = round(rng.uniform(0.05, 0.45), 5)
            mokind = "unrestricted-fractional"
        norb = norba + norbb
        ea = sorted(round(rng.uniform(-3, 2), 6) for _ in range(norba))
        eb = sorted(round(rng.uniform(-3, 2), 6) for _ in range(norbb))
        # first beta energy below the last alpha energy (what the WFN reader's heuristic documents)
        eb = [e - (eb[0] - ea[-1]) - 0.25 for e in eb] if (eb and eb[0] >= ea[-1]) else eb
        energies = ea + [round(e, 6) for e in eb]
        aminusb = None
        mk = "unrestricted"
    else:
        norba = norbb = norb = min(nbasis, nocc_a + (rng.randint(0, 3) if virt else 0))
        if mokind == "restricted":
            occs = [2.0] * nocc_a + [0.0] * (norb - nocc_a)
            aminusb = None
        elif mokind == "rohf":
            occs = [2.0] * nocc_b + [1.0] * (nocc_a - nocc_b) + [0.0] * (norb - nocc_a)
            aminusb = None
        elif mokind == "aminusb":
            occs = [2.0] * nocc_b + [1.0] * (nocc_a - nocc_b) + [0.0] * (norb - nocc_a)
            aminusb = [0.0] * nocc_b + [1.0] * (nocc_a - nocc_b) + [0.0] * (norb - nocc_a)
            if nocc_a > nocc_b and rng.random() < 0.25:
                # alpha 1.0, beta 0.3 in the first singly occupied orbital
                occs[nocc_b], aminusb[nocc_b] = 1.3, 0.7
                mokind = "aminusb-fractional"
        else:  # natural orbitals, fractional occupations
            occs = sorted((round(rng.uniform(0.01, 1.99), 5) for _ in range(norb)), reverse=True)
            tot = max(2, 2 * round(sum(occs) / 2))  # an even, integer number of electrons
            occs[0] = round(occs[0] + (tot - sum(occs)), 5)
            if not 0.0 <= occs[0] <= 2.0:
                occs = [2.0] * nocc_a + [0.0] * (norb - nocc_a)
            aminusb = None
        energies = sorted(round(rng.uniform(-3, 2), 6) for _ in range(norb))
        mk = "restricted"
    coeffs = [[rng.choice([1, -1]) * rng.randint(1, 999) / 128.0 for _ in range(norb)] for _ in range(nbasis)]
    irreps = None
    if rng.random() < 0.3:
        irreps = [f"{i + 1}{rng.choice(['a', 'b'])}" for i in range(norb)]
    spec = {
        "atnums": atnums, "atcorenums": atcorenums, "atcoords": atcoords, "shells": shells,
        "conv": conv_to_json(conv),
        "mo": {"kind": mk, "norba": norba, "norbb": norbb, "occs": occs, "coeffs": coeffs, "energies": energies,
               "irreps": irreps, "aminusb": aminusb},
        "normalize": True,
        "rdm": (fmt == "fchk" and mokind in ("restricted", "unrestricted") and rng.random() < 0.6),
        "tags": {"order": order_kind, "conv": choice, "mo": mokind, "virt": virt, "scen": scen},
    }
    return spec


def build_iodata(spec):
    """spec -> IOData (orbitals normalised with iodata's overlap so that Molden/MKL readers accept them)."""
    from iodata import IOData
    from iodata.basis import MolecularBasis, Shell
    from iodata.orbitals import MolecularOrbitals
    from iodata.overlap import compute_overlap

    conv = conv_from_json(spec["conv"])
    shells = [Shell(s[0], np.array(s[1]), list(s[2]), np.array(s[3], float), np.array(s[4], float)) for s in spec["shells"]]
    obasis = MolecularBasis(shells, conv, "L2")
    m = spec["mo"]
    coeffs = np.array(m["coeffs"], float)
    atcoords = np.array(spec["atcoords"], float)
    if spec.get("normalize"):
        olp = compute_overlap(obasis, atcoords)
        nrm = np.sqrt(np.einsum("ai,ab,bi->i", coeffs, olp, coeffs))
        coeffs = coeffs / nrm
    mo = MolecularOrbitals(m["kind"], m["norba"], m["norbb"], np.array(m["occs"], float), coeffs, np.array(m["energies"], float),
                           None if m.get("irreps") is None else np.array(m["irreps"]),
                           None if m.get("aminusb") is None else np.array(m["aminusb"], float))
    kw = {}
    if spec.get("rdm"):
        ca, cb = mo.coeffsa, mo.coeffsb
        dm = (ca * mo.occsa) @ ca.T + (cb * mo.occsb) @ cb.T
        kw["one_rdms"] = {"scf": dm}
        if mo.kind == "unrestricted":
            kw["one_rdms"]["scf_spin"] = (ca * mo.occsa) @ ca.T - (cb * mo.occsb) @ cb.T
    return IOData(atnums=np.array(spec["atnums"]), atcorenums=np.array(spec["atcorenums"], float), atcoords=atcoords,
                  obasis=obasis, mo=mo, title="c01 object", **kw)


# --------------------------------------------------------------------------------------------
# 3. the property on the real code
# --------------------------------------------------------------------------------------------
# relative error a correct writer may introduce into an orbital value, from the digits it prints
# (coefficients, exponents, contraction coefficients, coordinates), times a safety factor of ~100:
#   fchk   ' 16.8E' everywhere (9 significant digits)                                    -> 1e-6
#   wfn    coefficients 16.8E, exponents 14.7E (8 digits: alpha*r^2*5e-8), coords 12.8f  -> 2e-5
#   wfx    ' ,.14E' everywhere                                                            -> 1e-10
#   molden coefficients .17e, exponents/contractions 20.10f (>= 0.01 in the corpus)       -> 1e-6
#   mkl    coefficients 12 decimals, exponents/contractions 10 decimals, coordinates 6 decimals in angstrom
#          (generated nuclei sit on that grid; corpus nuclei do not -> 1e-6 bohr * gradient) -> 1e-6 / 2e-4
TOL = {"fchk": 1e-6, "wfn": 2e-5, "wfx": 1e-9, "molden": 1e-6, "molekel": 1e-6}
TOL_MKL_OFFGRID = 3e-4
# absolute error of printed occupations / energies
TOL_OCC = {"fchk": 0.0, "wfn": 1e-7, "wfx": 1e-12, "molden": 1e-14, "molekel": 1e-7}
TOL_ENE = {"fchk": 1e-7, "wfn": 1e-6, "wfx": 1e-12, "molden": 1e-14, "molekel": 1e-11}


def exc_class(exc):
    from iodata.utils import DumpError, FileFormatError, LoadError, PrepareDumpError, WriteInputError

    for c in (PrepareDumpError, DumpError, LoadError, WriteInputError, FileFormatError):
        if type(exc) is c:
            return c.__name__
    for c in (TypeError, ValueError):
        if type(exc) is c:
            return c.__name__
    return "Other:" + type(exc).__name__


def probe_points(atcoords, seed, n=20):
    rs = random.Random(f"pts-{seed}")
    at = np.asarray(atcoords, float)
    pts = []
    for i in range(n):
        c = at[rs.randrange(len(at))]
        pts.append([c[j] + rs.uniform(-2.2, 2.2) for j in range(3)])
    return np.array(pts)


def mo_view(mo):
    """Spin-orbital view of an iodata MolecularOrbitals: dict with kind, per-orbital lists."""
    kind = str(mo.kind)
    return {
        "kind": kind, "norba": int(mo.norba), "norbb": int(mo.norbb),
        "occs": np.array(mo.occs, float), "energies": np.array(mo.energies, float), "coeffs": np.array(mo.coeffs, float),
        "occsa": np.array(mo.occsa, float), "occsb": np.array(mo.occsb, float),
    }


def wf_values(data, pts):
    """(V, Vabs) orbital values at pts for an iodata object, via the independent evaluator."""
    B, A = eval_basis(np.asarray(data.atcoords, float), plain_shells(data.obasis), plain_conv(data.obasis.conventions), pts)
    C = np.asarray(data.mo.coeffs, float)
    if C.shape[0] != B.shape[1]:
        raise ValueError(f"coefficient rows {C.shape[0]} != basis functions {B.shape[1]}")
    return B @ C, A @ np.abs(C), B, A


def compare_wf(src, dst, fmt, seed, offgrid=False, src_pred=None):
    """Compare two iodata objects as wavefunctions.  Returns list of (kind, detail)."""
    out = []
    # nuclei
    if len(src.atnums) != len(dst.atnums) or not np.array_equal(np.asarray(src.atnums), np.asarray(dst.atnums)):
        out.append(("nuclei", f"atnums {list(src.atnums)} -> {list(dst.atnums)}"))
        return out
    # printed digits of the coordinates: fchk 16.8E, wfn 12.8f, wfx .14E, molden 25.18f, mkl 6 decimals in angstrom
    cmax = max(1.0, float(np.abs(np.asarray(src.atcoords)).max()))
    ctol = {"fchk": 1e-8 * cmax, "wfn": 1e-8, "wfx": 1e-12 * cmax, "molden": 1e-12,
            "molekel": 1.1e-6 if offgrid else 1e-8 * cmax}[fmt]
    if np.abs(np.asarray(src.atcoords) - np.asarray(dst.atcoords)).max() > ctol:
        out.append(("nuclei", "coordinates moved by %.2e" % np.abs(np.asarray(src.atcoords) - np.asarray(dst.atcoords)).max()))
        return out
    pts = probe_points(src.atcoords, seed)
    v0, a0, b0, w0 = wf_values(src, pts)
    try:
        v1, a1, b1, _w1 = wf_values(dst, pts)
    except (ValueError, KeyError, IndexError) as exc:
        out.append(("reloaded-object-inconsistent", repr(exc)[:200]))
        return out
    m0, m1 = mo_view(src.mo), mo_view(dst.mo)
    # spin-orbital lists
    expand = False
    if m0["kind"] == "restricted" and src.mo.occs_aminusb is not None and fmt != "fchk":
        # Molden, Molekel, WFN and WFX announce a conversion to unrestricted orbitals for this case (FCHK keeps them)
        expand = True
        v0 = np.concatenate([v0, v0], axis=1)
        a0 = np.concatenate([a0, a0], axis=1)
        occ0 = np.concatenate([m0["occsa"], m0["occsb"]])
        ene0 = np.concatenate([m0["energies"], m0["energies"]])
        nab0 = (m0["norba"], m0["norbb"])
    else:
        occ0, ene0 = m0["occs"], m0["energies"]
        nab0 = (m0["norba"], m0["norbb"])
    if v0.shape[1] != v1.shape[1]:
        out.append(("orbital-count", f"{v0.shape[1]} orbitals before, {v1.shape[1]} after"))
        return out
    tol = TOL_MKL_OFFGRID if (fmt == "molekel" and offgrid) else TOL[fmt]
    bound = tol * (a0 + 1e-12) + 1e-13
    if fmt == "molekel":
        bound = bound + 2e-12 * np.abs(b0).sum(axis=1)[:, None]  # 12 decimals absolute on every coefficient
    err = np.abs(v1 - v0)
    bad = err > bound
    if bad.any():
        j = int(np.argmax((err / bound).max(axis=0)))
        out.append(("orbital-values", f"orbital {j}: |dv| max {err[:, j].max():.3e} allowed {bound[:, j].max():.3e} "
                    f"(value scale {np.abs(v0[:, j]).max():.3e})"))
    if np.abs(m1["occs"] - occ0).max() > TOL_OCC[fmt] + 1e-15:
        out.append(("occupations", f"{occ0.tolist()} -> {m1['occs'].tolist()}"))
    if np.abs(m1["energies"] - ene0).max() > TOL_ENE[fmt] * (1 + np.abs(ene0).max()):
        out.append(("energies", f"{ene0.tolist()} -> {m1['energies'].tolist()}"))
    # spin labelling where the target can express it
    spin_comparable = True
    if fmt == "wfn" and not (m0["kind"] == "restricted" and m0["occs"].max() > 1.0 and not expand):
        spin_comparable = False
    if spin_comparable:
        k0 = "unrestricted" if expand else m0["kind"]
        if k0 == "unrestricted" and nab0[1] == 0 and m1["kind"] == "restricted":
            # no beta orbitals at all: a file that lists the alpha orbitals only reads back as restricted orbitals whose
            # beta occupations are all zero — the same occupied spin orbitals (the empty beta set cannot be expressed)
            if np.abs(m1["occsa"] - occ0).max() > TOL_OCC[fmt] + 1e-15 or np.abs(m1["occsb"]).max() > TOL_OCC[fmt]:
                out.append(("spin", f"alpha-only orbitals {occ0.tolist()} -> occsa {m1['occsa'].tolist()} occsb {m1['occsb'].tolist()}"))
        elif k0 != m1["kind"]:
            out.append(("spin", f"kind {m0['kind']} -> {m1['kind']}"))
        elif m1["kind"] == "unrestricted" and (m1["norba"], m1["norbb"]) != nab0:
            out.append(("spin", f"(norba, norbb) {nab0} -> {(m1['norba'], m1['norbb'])}"))
        elif m1["kind"] == "restricted" and not expand:
            # alpha/beta occupations of restricted orbitals (the ROHF convention) must survive
            if np.abs(m1["occsa"] - m0["occsa"]).max() > TOL_OCC[fmt] + 1e-15:
                out.append(("spin", f"occsa {m0['occsa'].tolist()} -> {m1['occsa'].tolist()}"))
    # density matrices (only FCHK stores them)
    r0 = getattr(src, "one_rdms", None) or {}
    r1 = getattr(dst, "one_rdms", None) or {}
    if fmt == "fchk":
        for key, d0 in r0.items():
            if key not in r1:
                if key == "scf" and dst.mo.kind == "restricted" and abs(float(dst.mo.occsa.sum() - dst.mo.occsb.sum())) > 1e-9:
                    continue  # the FCHK loader discards the total SCF density of restricted open-shell files by design
                out.append(("density-lost", key))
                continue
            d1 = np.asarray(r1[key], float)
            d0 = np.asarray(d0, float)
            if d1.shape != (b1.shape[1],) * 2 or d0.shape != (b0.shape[1],) * 2:
                out.append(("density-shape", f"{key}: {d0.shape} -> {d1.shape}"))
                continue
            # D as a bilinear form at pairs of probe points: rho(r, r') = b(r)^T D b(r')
            f0 = b0 @ d0 @ b0.T
            f1 = b1 @ d1 @ b1.T
            scale = w0 @ np.abs(d0) @ w0.T
            if (np.abs(f1 - f0) > 1e-6 * scale + 1e-13).any():
                out.append(("density:" + key, f"max |d rho| {np.abs(f1 - f0).max():.3e} (scale {scale.max():.3e})"))
    return out


def file_values(fmt, text, atcoords, pts, tabs, norb_hint=None):
    """Orbital values at pts denoted by the *file*, from my own tokenizers (iodata's readers are not involved).

    WFN/WFX: primitive type codes are interpreted with the AIMALL list, primitives are un-normalised.
    Molden/MKL/FCHK: shells as written, functions ordered as in the format module's CONVENTIONS table.
    """
    atcoords = np.asarray(atcoords, float)
    if fmt in ("wfn", "wfx"):
        f = parse_wfn(text) if fmt == "wfn" else parse_wfx(text)
        cols = []
        for c, t, a in zip(f["centers"], f["types"], f["exps"]):
            d = pts - atcoords[c][None, :]
            nx, ny, nz = _lab_powers(AIMALL[t - 1])
            cols.append(d[:, 0] ** nx * d[:, 1] ** ny * d[:, 2] ** nz * np.exp(-a * (d * d).sum(axis=1)))
        return np.stack(cols, axis=1) @ f["coeffs"]
    if fmt == "molden":
        f = parse_molden(text)
        shells = [(c, [l], ["p" if (l in f["pure"] and l >= 2) else "c"], ex, [[x] for x in cf]) for c, l, ex, cf in f["shells"]]
        C = np.array([o[4] for o in f["orbs"]], float).T
        return eval_basis(atcoords, shells, tabs["molden"], pts)[0] @ C
    if fmt == "molekel":
        f = parse_mkl(text)
        shells = [(ns, [l], ["c" if nfn == (l + 1) * (l + 2) // 2 else "p"], ex, [[x] for x in cf]) for ns, nfn, l, ex, cf in f["shells"]]
        if any(sh[0] >= len(atcoords) for sh in shells):
            raise IndexError("centre index beyond the atoms")
        B = eval_basis(atcoords, shells, tabs["molekel"], pts)[0]
        C = mkl_blocks(f["alpha"], B.shape[1])[2]
        if f["beta"]:
            C = np.concatenate([C, mkl_blocks(f["beta"], B.shape[1])[2]], axis=1)
        return B @ C
    if fmt == "fchk":
        f = parse_fchk(text)
        shells, k = [], 0
        sp = f.get("P(S=P) Contraction coefficients")
        for st, n, at in zip(f["Shell types"], f["Number of primitives per shell"], f["Shell to atom map"]):
            ex = f["Primitive exponents"][k:k + n]
            cf = f["Contraction coefficients"][k:k + n]
            if st == -1:
                shells.append((at - 1, [0, 1], ["c", "c"], ex, [[a, b] for a, b in zip(cf, sp[k:k + n])]))
            else:
                shells.append((at - 1, [abs(st)], ["p" if st < 0 else "c"], ex, [[a] for a in cf]))
            k += n
        nb = f["Number of basis functions"]
        C = np.array(f["Alpha MO coefficients"]).reshape(-1, nb).T
        if "Beta MO coefficients" in f:
            C = np.concatenate([C, np.array(f["Beta MO coefficients"]).reshape(-1, nb).T], axis=1)
        return eval_basis(atcoords, shells, tabs["fchk"], pts)[0] @ C
    raise ValueError(fmt)


def compare_file(src, fmt, text, seed, tabs, offgrid=False):
    """Does the written file, read by my own tokenizer, denote the same orbitals?  -> list of (kind, detail)"""
    pts = probe_points(src.atcoords, seed)
    v0, a0, b0, _w0 = wf_values(src, pts)
    if src.mo.kind == "restricted" and src.mo.occs_aminusb is not None and fmt != "fchk":
        v0, a0 = np.concatenate([v0, v0], axis=1), np.concatenate([a0, a0], axis=1)
    try:
        v1 = file_values(fmt, text, src.atcoords, pts, tabs)
    except Exception as exc:
        return [("file-unreadable", f"{type(exc).__name__}: {exc}"[:160])]
    if v1.shape != v0.shape:
        return [("file-orbital-count", f"{v0.shape[1]} orbitals in the object, {v1.shape[1]} in the file")]
    tol = TOL_MKL_OFFGRID if (fmt == "molekel" and offgrid) else TOL[fmt]
    bound = tol * (a0 + 1e-12) + 1e-13
    if fmt == "molekel":
        bound = bound + 2e-12 * np.abs(b0).sum(axis=1)[:, None]
    err = np.abs(v1 - v0)
    if (err > bound).any():
        j = int(np.argmax((err / bound).max(axis=0)))
        return [("file-values", f"orbital {j} as written: |dv| max {err[:, j].max():.3e} allowed {bound[:, j].max():.3e}")]
    return []


def roundtrip(data, fmt, allow, workdir=None):
    """dump_one + load_one on the real code.  Returns (status, obj|None, path|None, exc_class|None, text|None)."""
    from iodata import dump_one, load_one

    fd, path = tempfile.mkstemp(suffix="." + EXT[fmt], dir=workdir)
    os.close(fd)
    try:
        with warnings.catch_warnings():
            warnings.simplefilter("ignore")
            try:
                dump_one(data, path, fmt=fmt, allow_changes=allow)
            except Exception as exc:
                return "dump-error", None, exc_class(exc), None, repr(exc.__cause__ or exc)[:300]
            text = open(path).read()
            try:
                back = load_one(path, fmt=fmt)
            except Exception as exc:
                cause = "" if exc.__cause__ is None else " <- " + repr(exc.__cause__)
                return "load-error", None, exc_class(exc), text, (repr(exc)[:300] + cause)[:400]
        return "ok", back, None, text, None
    finally:
        try:
            os.unlink(path)
        except OSError:
            pass


# --------------------------------------------------------------------------------------------
# 4. minimal tokenizers of the written files (no iodata code)
# --------------------------------------------------------------------------------------------
def _flt(w):
    return float(w.replace("D", "E").replace("d", "e"))


def parse_wfn(text):
    """-> dict(centers[list 0-based], types[list 1-based], exps[list], coeffs[nprim][nmo], occs, energies)"""
    lines = text.splitlines()
    m = re.match(r"GAUSSIAN\s+(\d+) MOL ORBITALS\s+(\d+) PRIMITIVES\s+(\d+) NUCLEI", lines[1])
    nmo, nprim, nat = (int(g) for g in m.groups())
    i = 2 + nat
    cen, typ, exps = [], [], []
    while lines[i].startswith("CENTRE ASSIGNMENTS"):
        s = lines[i][20:]
        cen += [int(s[k : k + 3]) - 1 for k in range(0, len(s), 3) if s[k : k + 3].strip()]
        i += 1
    while lines[i].startswith("TYPE ASSIGNMENTS"):
        s = lines[i][20:]
        typ += [int(s[k : k + 3]) for k in range(0, len(s), 3) if s[k : k + 3].strip()]
        i += 1
    while lines[i].startswith("EXPONENTS"):
        s = lines[i][10:]
        exps += [_flt(s[k : k + 14]) for k in range(0, len(s), 14) if s[k : k + 14].strip()]
        i += 1
    cols, occs, enes = [], [], []
    while lines[i].startswith("MO"):
        mm = re.search(r"OCC NO =\s*(\S+)\s+ORB. ENERGY =\s*(\S+)", lines[i])
        occs.append(float(mm.group(1)))
        enes.append(float(mm.group(2)))
        i += 1
        col = []
        while len(col) < nprim:
            s = lines[i]
            col += [_flt(s[k : k + 16]) for k in range(0, len(s), 16) if s[k : k + 16].strip()]
            i += 1
        cols.append(col)
    assert lines[i].startswith("END DATA") and len(cen) == len(typ) == len(exps) == nprim and len(cols) == nmo
    return {"centers": cen, "types": typ, "exps": exps, "coeffs": np.array(cols).T.reshape(nprim, nmo), "occs": occs, "energies": enes}


def _wfx_section(text, tag):
    m = re.search(re.escape(f"<{tag}>") + r"(.*?)" + re.escape(f"</{tag}>"), text, re.S)
    return None if m is None else m.group(1)


def parse_wfx(text):
    cen = [int(w) - 1 for w in _wfx_section(text, "Primitive Centers").split()]
    typ = [int(w) for w in _wfx_section(text, "Primitive Types").split()]
    exps = [_flt(w) for w in _wfx_section(text, "Primitive Exponents").split()]
    body = _wfx_section(text, "Molecular Orbital Primitive Coefficients")
    parts = re.split(r"<MO Number>\s*\d+\s*</MO Number>", body)[1:]
    cols = [[_flt(w) for w in p.split()] for p in parts]
    occs = [_flt(w) for w in _wfx_section(text, "Molecular Orbital Occupation Numbers").split()]
    enes = [_flt(w) for w in _wfx_section(text, "Molecular Orbital Energies").split()]
    spins = [l.strip() for l in _wfx_section(text, "Molecular Orbital Spin Types").strip().splitlines()]
    nprim = len(cen)
    assert len(typ) == len(exps) == nprim and all(len(c) == nprim for c in cols)
    return {"centers": cen, "types": typ, "exps": exps, "coeffs": np.array(cols).T.reshape(nprim, len(cols)), "occs": occs,
            "energies": enes, "spins": spins}


def parse_molden(text):
    """-> dict(shells=[(center, l, nexp-list exps, coefs)], pure=set of l, alpha/beta lists of (occ, ene, sym, col))"""
    lines = text.splitlines()
    pure = set()
    shells, orbs = [], []
    tags, gblocks = [], []  # header tags in file order; [GTO] centre blocks (centre as printed, [(l, [(exp, coef)])])
    i = 0
    while i < len(lines):
        low = lines[i].strip().lower()
        mt = re.match(r"\[(5d7f|5d10f|5d|7f|9g)\]", low)
        if mt:
            tags.append(mt.group(1).upper())
        if low.startswith(("[5d]", "[5d7f]")):
            pure |= {2, 3}
        elif low.startswith("[7f]"):
            pure.add(3)
        elif low.startswith("[5d10f]"):
            pure.add(2)
        elif low.startswith("[9g]"):
            pure |= {4, 5}
        elif low == "[gto]":
            i += 1
            while i < len(lines) and re.match(r"\s*\d+\s+0\s*$", lines[i]):
                center = int(lines[i].split()[0]) - 1
                gblocks.append((center + 1, []))
                i += 1
                while lines[i].strip():
                    w = lines[i].split()
                    l, nexp = "spdfghi".index(w[0].lower()), int(w[1])
                    prim = [tuple(_flt(x) for x in lines[i + 1 + k].split()[:2]) for k in range(nexp)]
                    shells.append((center, l, [p[0] for p in prim], [p[1] for p in prim]))
                    gblocks[-1][1].append((l, prim))
                    i += 1 + nexp
                i += 1
            continue
        elif low == "[mo]":
            i += 1
            while i < len(lines) and "=" in lines[i]:
                info = {}
                while i < len(lines) and lines[i].count("=") == 1:
                    k, v = lines[i].split("=")
                    info[k.strip().lower()] = v.strip()
                    i += 1
                col = []
                while i < len(lines) and len(lines[i].split()) == 2 and lines[i].split()[0].isdigit():
                    assert int(lines[i].split()[0]) == len(col) + 1
                    col.append(_flt(lines[i].split()[1]))
                    i += 1
                orbs.append((info["spin"].lower(), float(info["occup"]), float(info["ene"]), info.get("sym"), col))
            continue
        i += 1
    return {"shells": shells, "pure": pure, "orbs": orbs, "tags": tags, "blocks": gblocks}


def parse_mkl(text):
    """-> dict(shells=[(n_dollar_dollar_before, nfn, l, exps, coefs)], alpha=(irreps, energies, coeff matrix), beta=...)"""
    lines = text.splitlines()
    out = {"shells": [], "items": [], "alpha": None, "beta": None, "occ_alpha": None, "occ_beta": None}
    i = 0
    while i < len(lines):
        s = lines[i].strip()
        if s == "$BASIS":
            i += 1
            nsep = 0
            while lines[i].strip() != "$END":
                t = lines[i].strip()
                if t == "$$":
                    nsep += 1
                    out["items"].append("$$")
                    i += 1
                elif t == "":
                    i += 1
                else:
                    w = t.split()
                    nfn, l = int(w[0]), "spdfghi".index(w[1].lower())
                    i += 1
                    exps, cf = [], []
                    while len(lines[i].split()) == 2 and lines[i].strip() != "$$":
                        a, b = lines[i].split()
                        exps.append(_flt(a))
                        cf.append(_flt(b))
                        i += 1
                    out["shells"].append((nsep, nfn, l, exps, cf))
                    out["items"].append((nfn, l, exps, cf))
        elif s in ("$COEFF_ALPHA", "$COEFF_BETA"):
            key = "alpha" if s.endswith("ALPHA") else "beta"
            i += 1
            blocks = []
            cur = []
            while lines[i].strip() != "$END":
                cur.append(lines[i].split())
                i += 1
            out[key] = cur  # raw token rows; interpreted by the caller who knows nbasis
        elif s in ("$OCC_ALPHA", "$OCC_BETA"):
            key = "occ_alpha" if s.endswith("ALPHA") else "occ_beta"
            i += 1
            occ = []
            while lines[i].strip() != "$END":
                occ += [_flt(w) for w in lines[i].split()]
                i += 1
            out[key] = occ
        i += 1
    return out


def mkl_blocks(rows, nbasis):
    """Interpret the token rows of a $COEFF section: groups of (labels, energies, nbasis coefficient rows)."""
    irreps, enes, cols = [], [], []
    i = 0
    while i < len(rows):
        lab = rows[i]
        en = [_flt(w) for w in rows[i + 1]]
        blk = [[_flt(w) for w in r] for r in rows[i + 2 : i + 2 + nbasis]]
        irreps.append(lab)
        enes.append(en)
        cols.append(np.array(blk).reshape(nbasis, -1))
        i += 2 + nbasis
    return irreps, enes, (np.concatenate(cols, axis=1) if cols else np.zeros((nbasis, 0)))


def parse_fchk(text):
    """-> dict label -> scalar or list (numbers only)"""
    out = {}
    lines = text.splitlines()
    i = 2
    while i < len(lines):
        ln = lines[i]
        name, rest = ln[:40].strip(), ln[40:].split()
        if len(rest) >= 3 and rest[1] == "N=":
            n = int(rest[2])
            vals = []
            i += 1
            while len(vals) < n:
                vals += lines[i].split()
                i += 1
            out[name] = [int(v) for v in vals] if rest[0] == "I" else [_flt(v) for v in vals]
            continue
        if len(rest) == 2 and rest[0] in "IR":
            out[name] = int(rest[1]) if rest[0] == "I" else _flt(rest[1])
        i += 1
    return out


# --------------------------------------------------------------------------------------------
# 3b. what the written file should contain / what the known defects make it contain
#     (used only to *name* a failure that the predicate above has already established)
# --------------------------------------------------------------------------------------------
def _strip(x):
    return x.lstrip("-")


def _sg(x):
    return -1.0 if x.startswith("-") else 1.0


def plain_source(data, fmt):
    """My own segmentation / spin expansion of the object: segmented shells, conventions, spin-orbital matrix."""
    conv = plain_conv(data.obasis.conventions)
    shells = []
    for ic, angs, kinds, exps, coeffs in plain_shells(data.obasis):
        if fmt == "fchk" and list(angs) == [0, 1] and list(kinds) == ["c", "c"]:
            shells.append((ic, [0, 1], ["c", "c"], exps, coeffs))
            continue
        for j, (a, k) in enumerate(zip(angs, kinds)):
            shells.append((ic, [a], [k], exps, [[row[j]] for row in coeffs]))
    C = np.asarray(data.mo.coeffs, float)
    if data.mo.kind == "restricted" and data.mo.occs_aminusb is not None and fmt != "fchk":
        C = np.concatenate([C, C], axis=1)
    return {"atcoords": np.asarray(data.atcoords, float), "shells": shells, "conv": conv, "C": C}


def convert_rows(shells, conv_src, conv_dst, M):
    """Rows of M (source conventions) -> rows in destination conventions, shell by shell (my own implementation)."""
    out = np.zeros_like(M)
    off = 0
    for _ic, angs, kinds, _e, _c in shells:
        for a, k in zip(angs, kinds):
            S, T = conv_src[(a, k)], conv_dst[(a, k)]
            names = [_strip(x) for x in S]
            for j, t in enumerate(T):
                i = names.index(_strip(t))
                out[off + j] = _sg(S[i]) * _sg(t) * M[off + i]
            off += len(S)
    return out


def _close(a, b, rtol=2e-7, atol=1e-9):
    a, b = np.asarray(a, float), np.asarray(b, float)
    return a.shape == b.shape and bool(np.all(np.abs(a - b) <= atol + rtol * np.abs(b)))


def predict_wfn(src, wfnconv, scales_from_source):
    cen, typ, exps, rows = [], [], [], []
    Cc = convert_rows(src["shells"], src["conv"], wfnconv, src["C"])
    offs = {}
    o = 1
    for l in range(0, 7):
        if (l, "c") in wfnconv:
            offs[l] = o
            o += len(wfnconv[(l, "c")])
    off = 0
    for ic, angs, kinds, ex, cf in src["shells"]:
        l = angs[0]
        T, S = wfnconv[(l, "c")], src["conv"][(l, "c")]
        for k, alpha in enumerate(ex):
            for j, t in enumerate(T):
                lab = _strip(S[j]) if scales_from_source else t
                nx, ny, nz = (0, 0, 0) if lab == "1" else (lab.count("x"), lab.count("y"), lab.count("z"))
                cen.append(ic)
                typ.append(offs[l] + j)
                exps.append(alpha)
                rows.append(Cc[off + j] * cf[k][0] * norm_cart(alpha, nx, ny, nz))
        off += len(T)
    return cen, typ, exps, np.array(rows).reshape(len(cen), src["C"].shape[1])


def classify_known(fmt, data, kinds, status, msg, text, back, tabs):
    """Name of the known defect whose exact fingerprint the written file carries, else None."""
    try:
        src = plain_source(data, fmt)
        if fmt in ("wfn", "wfx") and status == "ok" and set(kinds) <= {"orbital-values", "file-values"}:
            if any(k != "c" for s in src["shells"] for k in s[2]):
                return None
            f = parse_wfn(text) if fmt == "wfn" else parse_wfx(text)
            bad = predict_wfn(src, tabs[fmt], True)
            good = predict_wfn(src, tabs[fmt], False)
            rt = 2e-8 if fmt == "wfn" else 1e-12
            same_struct = f["centers"] == bad[0] and f["types"] == bad[1] and _close(f["exps"], bad[2], 1e-6)
            if same_struct and _close(f["coeffs"], bad[3], rt, 1e-14) and not _close(f["coeffs"], good[3], rt, 1e-14):
                return f"{fmt}:scales-source-conventions"
            return None
        if fmt == "molden" and status == "load-error" and set(kinds) <= {"load-error:LoadError", "file-values", "file-unreadable"}:
            # pure h shells, no pure g shell, and the file carries no [9G] line (the only tag that makes h pure)
            ks = {(a, k) for s in src["shells"] for a, k in zip(s[1], s[2])}
            if (5, "p") in ks and (4, "p") not in ks and not re.search(r"^\s*\[9g\]", text or "", re.I | re.M):
                return "molden:pure-h-without-9g"
        if fmt == "molden" and set(kinds) <= {"orbital-values", "load-error:LoadError", "file-values"}:
            centers = [s[0] for s in src["shells"]]
            if centers == sorted(centers):
                return None
            f = parse_molden(text)
            order = sorted(range(len(centers)), key=lambda i: centers[i])
            exp_shells = [src["shells"][i] for i in order]
            ok_sh = len(f["shells"]) == len(exp_shells) and all(
                a[0] == b[0] and a[1] == b[1][0] and _close(a[2], b[3], 1e-9, 1e-10) and _close(a[3], [r[0] for r in b[4]], 1e-9, 1e-10)
                for a, b in zip(f["shells"], exp_shells))
            rows = convert_rows(src["shells"], src["conv"], tabs["molden"], src["C"])  # original shell order: the defect
            cols = np.array([o[4] for o in f["orbs"]]).T
            # correct rows: blocks permuted like the shells
            sizes = [sum(len(src["conv"][(a, k)]) for a, k in zip(s[1], s[2])) for s in src["shells"]]
            starts = np.concatenate([[0], np.cumsum(sizes)])
            perm = [r for i in order for r in range(starts[i], starts[i + 1])]
            if ok_sh and _close(cols, rows, 1e-14, 1e-300) and not _close(cols, rows[perm], 1e-14, 1e-300):
                return "molden:gto-sorted-coeffs-unsorted"
            return None
        if fmt == "molekel":
            m = data.mo
            if status == "load-error" and ("Wrong number of energies" in (msg or "") or "Expect irrep" in (msg or "")) \
                    and m.kind == "unrestricted" \
                    and m.irreps is not None and m.norba != m.norbb:
                f = parse_mkl(text)
                labs = [r for r in f["beta"][:: 2 + int(data.obasis.nbasis)]] if f["beta"] else []
                want = [list(map(str, m.irreps[m.norbb:][j:j + 5])) for j in range(0, m.norbb, 5)]
                if labs[: len(want)] == want:
                    return "molekel:beta-irreps-slice"
                return None
            centers = [s[0] for s in src["shells"]]
            seen, last, n = [], 0, 0
            for c in centers:
                if c != last:
                    n += 1
                last = c
                seen.append(n)
            if seen != centers and set(kinds) <= {"orbital-values", "load-error:LoadError", "reloaded-object-inconsistent", "file-values", "file-unreadable"}:
                f = parse_mkl(text)
                rows = convert_rows(src["shells"], src["conv"], tabs["molekel"], src["C"])
                nb = rows.shape[0]
                ca = mkl_blocks(f["alpha"], nb)[2]
                cb = mkl_blocks(f["beta"], nb)[2] if f["beta"] else np.zeros((nb, 0))
                cols = np.concatenate([ca, cb], axis=1) if f["beta"] else ca
                if [s[0] for s in f["shells"]] == seen and _close(cols, rows, 0, 6e-13):
                    return "molekel:center-separators"
            if status == "load-error" and "KeyError((5, 'c'))" in (msg or "") and any(5 in s[1] for s in src["shells"]):
                return "molekel:h-shell-unreadable"
            ghost = abs(float(np.sum(data.atnums)) - float(np.sum(data.atcorenums))) > 1e-9
            if status == "load-error" and ghost and ("inconsistent with number of electrons" in (msg or "")
                                                     or "Odd number of electrons" in (msg or "")):
                return "molekel:charge-from-core-charges-unreadable"
            if status == "load-error" and not ghost and "inconsistent with number of electrons" in (msg or ""):
                # exact occupations consistent, the printed ones (7 decimals, integer charge) not within the reader's 1e-7
                exact = abs(float(m.occs.sum()) - (float(np.sum(data.atnums)) - float(data.charge)))
                printed = abs(float(np.round(np.asarray(m.occs, float), 7).sum()) - (float(np.sum(data.atnums)) - round(float(data.charge))))
                if exact < 1e-9 and printed > 1e-7:
                    return "molekel:printed-occupations-inconsistent"
            if status == "load-error" and m.kind == "restricted" and m.occs_aminusb is None and not ghost:
                if "Odd number of electrons" in (msg or "") and int(round(float(m.occs.sum()))) % 2 == 1:
                    return "molekel:restricted-odd-electrons-unreadable"
            return None
        if fmt == "fchk" and status == "ok" and kinds and all(k.startswith("density:") for k in kinds):
            P = convert_rows(src["shells"], src["conv"], tabs["fchk"], np.eye(src["C"].shape[0]))
            for k in kinds:
                key = k.split(":", 1)[1]
                d0, d1 = np.asarray(data.one_rdms[key], float), np.asarray(back.one_rdms[key], float)
                if not (_close(d1, d0, 2e-8, 1e-12) and not _close(d1, P @ d0 @ P.T, 2e-8, 1e-12)):
                    return None
            return "fchk:density-unconverted"
    except Exception:  # a file my tokenizer cannot read is certainly not the known fingerprint
        return None
    return None


# --------------------------------------------------------------------------------------------
# 3c. one case = (object, format, allow_changes)
# --------------------------------------------------------------------------------------------
WF_EXTS = {".fchk", ".molden", ".mkl", ".wfn", ".wfx", ".mwfn", ".input", ".cp2k", ".out", ".log"}
_TABS = None


def tabs_cached():
    global _TABS
    if _TABS is None:
        _TABS = _tables()
    return _TABS


def transform_object(data, tr, rng):
    """The same wavefunction re-expressed: other conventions and/or another shell order (rows follow)."""
    from iodata.basis import MolecularBasis

    if not tr:
        return data
    tabs = tabs_cached()
    conv0 = plain_conv(data.obasis.conventions)
    keys = sorted({(int(a), str(k)) for s in data.obasis.shells for a, k in zip(s.angmoms, s.kinds)})
    conv1 = dict(conv0)
    if tr.get("conv") == "horton2":
        from iodata.convert import HORTON2_CONVENTIONS as H

        for k in conv0:
            conv1[k] = list(H[k])
    elif tr.get("conv") == "random":
        for k in keys:
            conv1[k] = rand_conv(rng, [_strip(x) for x in conv0[k]])
    shells = list(data.obasis.shells)
    sizes = [sum(len(conv0[(int(a), str(k))]) for a, k in zip(s.angmoms, s.kinds)) for s in shells]
    order = list(range(len(shells)))
    if tr.get("order") == "reversed":
        order = order[::-1]
    elif tr.get("order") == "shuffled":
        rng.shuffle(order)
    starts = np.concatenate([[0], np.cumsum(sizes)]).astype(int)
    plain = plain_shells(data.obasis)
    C = convert_rows(plain, conv0, conv1, np.asarray(data.mo.coeffs, float))
    perm = [r for i in order for r in range(starts[i], starts[i + 1])]
    C = C[perm]
    import attrs

    mo = attrs.evolve(data.mo, coeffs=C)
    obasis = MolecularBasis([shells[i] for i in order], conv1, data.obasis.primitive_normalization)
    kw = {}
    if getattr(data, "one_rdms", None):
        Pm = convert_rows(plain, conv0, conv1, np.eye(C.shape[0]))[perm]
        kw["one_rdms"] = {k: Pm @ np.asarray(v, float) @ Pm.T for k, v in data.one_rdms.items()}
    return attrs.evolve(data, obasis=obasis, mo=mo, **kw)


def make_object(case):
    if case["kind"] == "gen":
        return build_iodata(case["spec"]), False
    from .. import corpus

    data = corpus.load(corpus.DATA / case["file"])
    if data is None:
        return None, True
    data = transform_object(data, case.get("transform"), random.Random(case.get("tseed", 0)))
    return data, True


def run_case(case):
    """Evaluate the property on one case.  Returns a JSON-able dict."""
    tabs = tabs_cached()
    fmt, allow = case["fmt"], case["allow"]
    res = {"cls": "", "fail": None, "nontrivial": False}
    try:
        data, offgrid = make_object(case)
    except Exception as exc:  # the generator produced something the data model itself rejects
        res["cls"] = "object-rejected:" + type(exc).__name__
        return res
    if data is None or data.mo is None or data.obasis is None or data.mo.kind == "generalized" or data.mo.coeffs is None \
            or data.mo.occs is None or data.mo.energies is None:
        res["cls"] = "not-a-wavefunction"
        return res
    if float(np.sum(data.mo.occs)) < 0.5:
        res["cls"] = "out-of-domain:no-electrons"  # the property quantifies over objects with at least one electron
        return res
    status, back, ec, text, msg = roundtrip(data, fmt, allow)
    if status == "dump-error":
        res["cls"] = f"{fmt}/refused:{ec}"
        return res
    seed = json.dumps([case.get("file"), case.get("id"), fmt])
    if status == "load-error":
        kinds, details = [f"load-error:{ec}"], msg
    else:
        diffs = compare_wf(data, back, fmt, seed, offgrid=offgrid)
        kinds, details = [k for k, _ in diffs], "; ".join(f"{k}: {d}" for k, d in diffs)
    fdiffs = compare_file(data, fmt, text, seed, tabs, offgrid=offgrid)
    kinds += [k for k, _ in fdiffs]
    details = "; ".join([details or ""] + [f"{k}: {d}" for k, d in fdiffs]).strip("; ")
    res["nontrivial"] = True
    if not kinds:
        res["cls"] = f"{fmt}/same"
        return res
    known = classify_known(fmt, data, kinds, status, msg, text, back, tabs)
    sig = known or (fmt + ":" + "+".join(sorted(set(kinds))))
    res["cls"] = f"{fmt}/FAIL:{sig}"
    res["fail"] = {"sig": sig, "what": f"{fmt} (allow_changes={allow}): {details}"[:600]}
    return res


# --------------------------------------------------------------------------------------------
# 5. engine entry points
# --------------------------------------------------------------------------------------------
RULE = (
    "search: random objects (1-4 nuclei on a 1e-3 angstrom grid incl. ghost centres, 1-7 shells, l up to the target's maximum, "
    "Cartesian and pure, 1-3 primitives, SP/generalized contractions, shell order sorted/reversed/shuffled/centre-skipping, "
    "conventions = target's own, HORTON2, CCA, another module's, random signed permutations; restricted/ROHF/unrestricted/"
    "occs_aminusb/natural orbitals with and without virtuals, optional irreps and SCF density matrices) x 5 formats x "
    "allow_changes, plus every corpus wavefunction file (as loaded, and re-expressed in HORTON2/random conventions and "
    "reversed/shuffled shell order) as a conversion source; dump_one -> load_one -> every orbital evaluated at 20 probe points "
    "with an evaluator written from docs/basis.rst, occupations, energies, spin labelling, densities as bilinear forms; and the "
    "written file itself tokenized without iodata (WFN/WFX type codes read with the AIMALL list, un-normalised primitives) and "
    "evaluated at the same points. A failure is named after a known defect only when the file carries that defect's exact "
    "quantitative fingerprint (otherwise it is reported under a generic signature and alarms). "
    "non-trivial = the dump succeeded, so the reload and the comparison were actually performed. "
    "corr: tracer objects (integer coefficients and contraction coefficients) written by the real writers, tokenized "
    "independently, normalisation divided out, compared with the Lean model's rows; moldenw/mklw/fchkw: the complete file "
    "structure of the same tracer objects (header tags, [GTO] centre blocks, $$ items, 5-column coefficient blocks, FCHK basis "
    "arrays incl. SP shells; pure/Cartesian kinds per shell for Molekel/FCHK, mixed kinds and Cartesian h / Cartesian g + pure h "
    "as refusals for Molden) tokenized from the real writer's text vs the Lean writer model (non-trivial = non-native "
    "conventions, unsorted centres, l >= 2 shells or generalized contractions); moldenr/mklr/fchkr/fchkdr: structural files "
    "printed by the harness's own writers (random tag lists at any position, unsorted/repeated centre blocks, leading/repeated/"
    "trailing $$, nfn matching neither kind, uneven/ragged/mis-sized coefficient blocks, SP and pure shell types, unsorted shell-"
    "to-atom maps, several orbitals, wrong coefficient counts) read by the real load_one (norm_threshold=inf) vs the Lean reader "
    "model, exception classes compared as classes (non-trivial = anything beyond the sorted default layout). "
    "translator: six writer-variant flags plus the 81-row Molden header table, each row obtained by running the real writer"
)
TRUSTED = [
    "the independent evaluator (docs/basis.rst transcribed in harness/vh/props/c01.py; validated against iodata's overlap "
    "integrals by grid quadrature to 2e-15 once, not on every run)",
    "iodata's loaders for the corpus *sources* (a corpus file is converted from the object load_one returns)",
    "iodata.overlap.compute_overlap is used by the generator only to normalise random orbitals (Molden/MKL readers reject "
    "un-normalised orbitals); it plays no role in the comparison",
]
ASSUMPTIONS = [
    "the Lean model works over the integers with an abstract non-zero scale N(exponent, label); real scales are real numbers "
    "and the only algebra used is cancellation of a non-zero factor",
    "text scanning of the five formats is not modelled in Lean (structural level: which number goes where); occupations, energies "
    "and spin labels are compared by the search only",
    "numpy fancy indexing / broadcasting as transcribed in Model/Wf.lean",
    "tolerances: orbital values within 100 x the relative precision of the digits each writer prints, times the first-order "
    "forward error weight sum |primitive term| (1 + alpha r^2 + l/2) |C| (documented at TOL in c01.py)",
    "reader models (Model/WfRead.lean) are structural: a shell type absent from the format's convention table counts 0 functions "
    "in the model while the real Molden/Molekel readers end in a wrapped KeyError LoadError (Cartesian h without [9G], nfn = 0); "
    "a density array whose length is not triangular and the Molekel readers' normalisation repair (C05) are outside the model; "
    "the reader-side generators stay inside the convention tables",
    "Molden/Molekel/FCHK files are evaluated with the function order of the format module's CONVENTIONS table (T1 = spec); "
    "WFN/WFX type codes with the AIMALL list copied into the harness",
]
TIME_LIMIT = {"quick": 900, "thorough": 5400}

WITNESSES = [
    # the defects of DESIGN.md section 6, replayed on every run (same wavefunction, re-expressed)
    {"kind": "corpus", "file": "o2_cc_pvtz_cart.fchk", "transform": {"conv": "horton2"}, "fmt": "wfn", "allow": False},
    {"kind": "corpus", "file": "o2_cc_pvtz_cart.fchk", "transform": {"conv": "horton2"}, "fmt": "wfx", "allow": False},
    {"kind": "corpus", "file": "water_ccpvdz_pure_hf_g03.fchk", "transform": {"order": "reversed"}, "fmt": "molden", "allow": False},
    {"kind": "corpus", "file": "water_ccpvdz_pure_hf_g03.fchk", "transform": {"order": "reversed"}, "fmt": "molekel", "allow": False},
    {"kind": "corpus", "file": "o2_cc_pvtz_cart.fchk", "transform": {"conv": "horton2"}, "fmt": "fchk", "allow": False},
]


def _corpus_sources(ctx):
    from .. import corpus

    out = []
    for p in sorted(corpus.DATA.iterdir()):
        if not p.is_file():
            continue
        n = p.name.lower()
        if not (p.suffix.lower() in (".fchk", ".molden", ".mkl", ".wfn", ".wfx", ".mwfn") or n.endswith(".molden.input")
                or n.endswith(".cp2k.out")):
            continue
        out.append(p)
    return out


BIG = {"nh3_psi4_1.3.2_aug_cc_pvqz_cart.molden", "orca_cuh_cc_pvqz_pure.molden", "orca_zn_cc_pvqz_pure.molden",
       "psi4_cuh_cc_pvqz_pure.molden", "psi4_mn_cc_pvqz_pure.molden", "psi4_zn_cc_pvqz_pure.molden",
       "carbon_gs_ae_uncontracted.cp2k.out", "carbon_sc_ae_uncontracted.cp2k.out", "carbon_gs_pp_uncontracted.cp2k.out",
       "carbon_sc_pp_uncontracted.cp2k.out", "cah110_hf_sto3g_g09.wfn", "cah110_hf_sto3g_g09.wfx", "li2.mkl", "li2.molden.input"}


def build_cases(ctx):
    rng = ctx.rng
    tabs = tabs_cached()
    cases = [dict(w, id=f"witness{i}") for i, w in enumerate(WITNESSES)]
    ngen = ctx.n(2400, 40000) * (3 if ctx.escalated else 1)
    for i in range(ngen):
        fmt = FORMATS[i % 5]
        spec = gen_spec(rng, fmt, tabs)
        cases.append({"kind": "gen", "spec": spec, "fmt": fmt, "allow": rng.random() < 0.5, "id": i})
    files = [p.name for p in _corpus_sources(ctx)]
    if not ctx.thorough:
        small = [f for f in files if f not in BIG]
        files = small if ctx.escalated else rng.sample(small, min(len(small), 40))
    for f in files:
        big = f in BIG
        for fmt in FORMATS:
            if big and fmt in ("molden", "molekel") and not f.endswith((".mkl", ".molden", ".input")):
                continue  # the reload would spend minutes in the readers' normalisation test
            cases.append({"kind": "corpus", "file": f, "fmt": fmt, "allow": True, "transform": None})
            if big:
                continue
            cases.append({"kind": "corpus", "file": f, "fmt": fmt, "allow": False, "transform": None})
            tr = {"conv": rng.choice(["horton2", "random"]), "order": rng.choice([None, "reversed", "shuffled"])}
            cases.append({"kind": "corpus", "file": f, "fmt": fmt, "allow": True, "transform": tr, "tseed": rng.randrange(10**6)})
    return cases


def _pool_init(repo):
    import sys

    if repo and repo not in sys.path:
        sys.path.insert(0, repo)
    warnings.simplefilter("ignore")


def run_cases(cases, nproc=None):
    import multiprocessing as mp

    nproc = nproc or min(16, os.cpu_count() or 1)
    if nproc <= 1 or len(cases) < 8:
        return [run_case(c) for c in cases]
    ctxm = mp.get_context("fork")
    with ctxm.Pool(nproc, initializer=_pool_init, initargs=(os.environ.get("IODATA_REPO"),)) as pool:
        return pool.map(run_case, cases, chunksize=max(1, min(24, len(cases) // (nproc * 4))))


def case_class(case):
    if case["kind"] == "gen":
        t = case["spec"]["tags"]
        return f"gen/{t['order']}/{t['conv']}/{t['mo']}" + (f"/{t['scen']}" if t.get("scen") else "")
    tr = case.get("transform") or {}
    return f"corpus/{tr.get('conv') or 'asloaded'}/{tr.get('order') or 'asloaded'}"


def search(ctx):
    cases = build_cases(ctx)
    results = run_cases(cases)
    for case, res in zip(cases, results):
        key = [case.get("file"), case.get("id"), case["fmt"], case["allow"], case.get("transform"), case.get("tseed")]
        ctx.count("roundtrip", key, res["cls"] + "|" + case_class(case), nontrivial=res["nontrivial"],
                  sample={"case": case_class(case), "fmt": case["fmt"], "result": res["cls"]})
        if res["fail"]:
            ctx.fail(res["fail"]["sig"], res["fail"]["what"], case)
    ctx.extra_cov["corpus_sources"] = len({c["file"] for c in cases if c["kind"] == "corpus"})
    ctx.extra_cov["generated_objects"] = sum(1 for c in cases if c["kind"] == "gen")


def replay(ctx, obj):
    res = run_case(obj["input"])
    return res["fail"] is not None


# ---- T1: which variant of each writer the source implements (read off the writers by probing them) ----------------
AIMALL = ("s px py pz dxx dyy dzz dxy dxz dyz fxxx fyyy fzzz fxxy fxxz fyyz fxyy fxzz fyzz fxyz "
          "gxxxx gyyyy gzzzz gxxxy gxxxz gxyyy gyyyz gxzzz gyzzz gxxyy gxxzz gyyzz gxxyz gxyyz gxyzz "
          "hzzzzz hyzzzz hyyzzz hyyyzz hyyyyz hyyyyy hxzzzz hxyzzz hxyyzz hxyyyz hxyyyy hxxzzz hxxyzz hxxyyz hxxyyy "
          "hxxxzz hxxxyz hxxxyy hxxxxz hxxxxy hxxxxx").split()
AIMALL = ["1" if t == "s" else t[1:] for t in AIMALL]  # primitive type code (1-based) -> unsigned label
EXPS = [0.25 + 0.125 * i for i in range(12)]
PRIMES = [2, 3, 5, 7, 11, 13, 17, 19, 23, 29, 31, 37, 41, 43, 47, 53, 59, 61, 67, 71, 73, 79, 83, 89, 97]


def _lab_powers(lab):
    return (0, 0, 0) if lab == "1" else (lab.count("x"), lab.count("y"), lab.count("z"))


def tracer_object(t):
    """t: dict(atn, shells=[(center,l,kind,[(e,d)])], conv, cols=[[int]], kind, norba, norbb, irreps, dm) -> IOData"""
    from iodata import IOData
    from iodata.basis import MolecularBasis, Shell
    from iodata.orbitals import MolecularOrbitals

    natom = t["natom"]
    if t.get("gshells") is not None:
        shells = [Shell(c, [l for l, _k in cons], [k for _l, k in cons], np.array([EXPS[e] for e, _ in pr]),
                        np.array([[float(d) for d in ds] for _, ds in pr])) for c, cons, pr in t["gshells"]]
    else:
        shells = [Shell(c, [l], [k], np.array([EXPS[e] for e, _ in pr]), np.array([[float(d)] for _, d in pr]))
                  for c, l, k, pr in t["shells"]]
    obasis = MolecularBasis(shells, t["conv"], "L2")
    C = np.array(t["cols"], float).T
    norb = C.shape[1]
    if t["kind"] == "restricted":
        occs = [2.0] + [0.0] * (norb - 1)
        mo = MolecularOrbitals("restricted", norb, norb, np.array(occs), C, np.arange(norb) * 0.5 - 1.0)
    else:
        na, nb = t["norba"], t["norbb"]
        occs = [1.0] + [0.0] * (na - 1) + [1.0] + [0.0] * (nb - 1)
        ene = list(np.arange(na) * 0.5 - 1.0) + list(np.arange(nb) * 0.5 - 1.25)
        mo = MolecularOrbitals("unrestricted", na, nb, np.array(occs), C, np.array(ene),
                               None if t.get("irreps") is None else np.array([str(i) for i in t["irreps"]]))
    kw = {}
    if t.get("dm") is not None:
        kw["one_rdms"] = {"scf": np.array(t["dm"], float)}
    coords = np.array([[0.9 * i, 0.3 * (i % 2), -0.4 * i] for i in range(natom)])
    return IOData(atnums=np.array([1] * natom), atcoords=coords, obasis=obasis, mo=mo, **kw)


def dump_text(data, fmt, allow=False):
    from iodata import dump_one

    fd, path = tempfile.mkstemp(suffix="." + EXT[fmt])
    os.close(fd)
    try:
        with warnings.catch_warnings():
            warnings.simplefilter("ignore")
            dump_one(data, path, fmt=fmt, allow_changes=allow)
        return open(path).read()
    finally:
        os.unlink(path)


def wfn_rows_line(t, f, col, from_src, tabs_fmt):
    """The rows of orbital col of a parsed WFN/WFX file with the normalisation divided out, as the driver prints them."""
    out = []
    r = 0
    for c, l, k, pr in t["shells"]:
        S = t["conv"][(l, "c")]
        T = tabs_fmt[(l, "c")]
        for e, _d in pr:
            for j in range(len(T)):
                typelab = AIMALL[f["types"][r] - 1]
                slab = _strip(S[j]) if from_src else typelab
                eid = min(range(len(EXPS)), key=lambda i: abs(EXPS[i] - f["exps"][r]))
                a = f["coeffs"][r, col] / norm_cart(EXPS[eid], *_lab_powers(slab))
                ai = round(a)
                if abs(a - ai) > 2e-7 * max(1.0, abs(a)):
                    return f"non-integer row {r}: {a!r}"
                nx, ny, nz = _lab_powers(slab)
                out.append(f"{f['centers'][r]}:{typelab}:{eid}:{ai}:{1 + nx + 10 * ny + 100 * nz + 1000 * eid}")
                r += 1
    if r != len(f["types"]):
        return "row count"
    return ";".join(out)


def probe_flags():
    """Run each writer on a minimal object and read off which variant it implements."""
    h2d = ["xx", "xy", "xz", "yy", "yz", "zz"]
    conv = {(0, "c"): ["1"], (1, "c"): ["x", "y", "z"], (2, "c"): h2d}
    tabs = tabs_cached()
    flags = {}
    t = {"natom": 1, "shells": [(0, 2, "c", [(0, 1)])], "conv": conv, "cols": [[1, 2, 3, 4, 5, 6]], "kind": "restricted"}
    for fmt, key in (("wfn", "wfnScalesFromSource"), ("wfx", "wfxScalesFromSource")):
        f = (parse_wfn if fmt == "wfn" else parse_wfx)(dump_text(tracer_object(t), fmt))
        a = wfn_rows_line(t, f, 0, True, tabs[fmt])
        b = wfn_rows_line(t, f, 0, False, tabs[fmt])
        if a.startswith("non-integer") == b.startswith("non-integer"):
            raise ValueError(f"{fmt} writer matches neither/both scale variants: {a} / {b}")
        flags[key] = not a.startswith("non-integer")
    t2 = {"natom": 2, "shells": [(1, 0, "c", [(0, 1)]), (0, 0, "c", [(1, 1)])], "conv": conv, "cols": [[1, 2]], "kind": "restricted"}
    f = parse_molden(dump_text(tracer_object(t2), "molden"))
    col = [round(x) for x in f["orbs"][0][4]]
    if col not in ([1, 2], [2, 1]) or [s[0] for s in f["shells"]] != [0, 1]:
        raise ValueError(f"molden probe: {col} {f['shells']}")
    flags["moldenRowsFollowSort"] = col == [2, 1]
    t3 = {"natom": 1, "shells": [(0, 1, "c", [(0, 1)])], "conv": conv, "cols": [[1, 2, 3]] * 5, "kind": "unrestricted",
          "norba": 3, "norbb": 2, "irreps": [1, 2, 3, 4, 5]}
    f = parse_mkl(dump_text(tracer_object(t3), "molekel"))
    labs = [int(x) for x in f["beta"][0]]
    if labs not in ([3, 4, 5], [4, 5]):
        raise ValueError(f"molekel probe: beta irreps {labs}")
    flags["mklBetaIrrepsUseNorbb"] = labs == [3, 4, 5]
    t5 = {"natom": 3, "shells": [(2, 0, "c", [(0, 1)]), (0, 0, "c", [(1, 1)])], "conv": conv, "cols": [[1, 2]], "kind": "restricted"}
    f = parse_mkl(dump_text(tracer_object(t5), "molekel"))
    seps = [sh[0] for sh in f["shells"]]
    col = [round(x) for x in mkl_blocks(f["alpha"], 2)[2][:, 0]]
    if (seps, col) == ([1, 2], [1, 2]):
        flags["mklSeparatorsPerCentre"] = False
    elif (seps, col) == ([0, 2], [2, 1]):
        flags["mklSeparatorsPerCentre"] = True
    else:
        raise ValueError(f"molekel probe: separators {seps}, rows {col}")
    t4 = {"natom": 1, "shells": [(0, 2, "c", [(0, 1)])], "conv": conv, "cols": [[1, 2, 3, 4, 5, 6]], "kind": "restricted",
          "dm": [[(i + 1) * (j + 1) + (7 if i == j else 0) for j in range(6)] for i in range(6)]}
    f = parse_fchk(dump_text(tracer_object(t4), "fchk"))
    tri = [round(x) for x in f["Total SCF Density"]]
    D = np.array(t4["dm"])
    P = convert_rows([(0, [2], ["c"], [1.0], [[1.0]])], conv, tabs["fchk"], np.eye(6))
    if tri == [int(x) for x in D[np.tril_indices(6)]]:
        flags["fchkDensitiesConverted"] = False
    elif tri == [int(round(x)) for x in (P @ D @ P.T)[np.tril_indices(6)]]:
        flags["fchkDensitiesConverted"] = True
    else:
        raise ValueError("fchk probe: density matrix matches neither variant")
    return flags


DOC = {
    "wfnScalesFromSource": "wfn.py: `get_mocoeff_scales` is called on a basis carrying the source conventions",
    "wfxScalesFromSource": "wfx.py: same",
    "moldenRowsFollowSort": "molden.py: coefficient rows re-ordered like the `[GTO]` shells sorted by centre",
    "mklBetaIrrepsUseNorbb": "molekel.py: beta irreps sliced with `norbb`",
    "mklSeparatorsPerCentre": "molekel.py: shells written sorted by centre with one `$$` per centre passed, rows following",
    "fchkDensitiesConverted": "fchk.py: density matrices converted to the FCHK conventions",
}
_FLAGS = None


def flags_cached():
    global _FLAGS
    if _FLAGS is None:
        _FLAGS = probe_flags()
    return _FLAGS


MOLDEN_TAGS = {"5D": "Tag.d5", "5D7F": "Tag.d5f7", "7F": "Tag.f7", "5D10F": "Tag.d5f10", "9G": "Tag.g9"}
_HEADER = None


def probe_header():
    """The Molden writer's header logic as a table: for each combination of the kinds of d, f, g, h shells
    (None = no such shell) the tag lines it prints before `[GTO]`, or None when dump_one raises."""
    import itertools

    h2 = tabs_cached()["horton2"]
    conv = {k: list(v) for k, v in h2.items() if k[0] <= 5}
    table = []
    for combo in itertools.product([None, "c", "p"], repeat=4):
        shells = [(0, 0, "c", [(0, 1)])]
        for l, kind in zip((2, 3, 4, 5), combo):
            if kind is not None:
                shells.append((0, l, kind, [(l, 1)]))
        nb = sum(len(conv[(l, k)]) for _c, l, k, _p in shells)
        t = {"natom": 1, "shells": shells, "conv": conv, "cols": [[1] * nb], "kind": "restricted"}
        try:
            text = dump_text(tracer_object(t), "molden")
        except Exception:
            table.append((list(combo), None))
            continue
        tags = []
        for line in text.splitlines():
            line = line.strip()
            if line.lower() == "[gto]":
                break
            if line.startswith("["):
                name = line[1:line.index("]")] if "]" in line else line
                if name.lower() in ("molden format", "title", "atoms"):
                    continue
                if line[line.index("]") + 1:].strip() or name.upper() not in MOLDEN_TAGS:
                    raise ValueError(f"molden header probe {combo}: unknown bracket line {line!r} before [GTO]")
                tags.append(name.upper())
        else:
            raise ValueError(f"molden header probe {combo}: no [GTO] section written")
        table.append((list(combo), tags))
    return table


def header_cached():
    global _HEADER
    if _HEADER is None:
        _HEADER = probe_header()
    return _HEADER


def _lean_optchar(k):
    return "none" if k is None else f"some '{k}'"


def translate(ctx):
    from . import c10

    c10.translate(ctx)  # Gen/Conventions.lean (the format modules' CONVENTIONS tables) is shared with C10
    flags = flags_cached()
    header = header_cached()
    body = ["import Iodata.Model.WfRead", "namespace Iodata.Gen.Wf"]
    for k in DOC:
        body.append(f"/-- {DOC[k]} -/")
        body.append(f"def {k} : Bool := {'true' if flags[k] else 'false'}")
    entries = []
    for combo, tags in header:
        key = "[" + ", ".join(_lean_optchar(k) for k in combo) + "]"
        val = "none" if tags is None else "some [" + ", ".join(MOLDEN_TAGS[t] for t in tags) + "]"
        entries.append(f"({key}, {val})")
    body.append("open Iodata.Wf in")
    body.append("/-- molden.py: header tags per combination of d/f/g/h kinds -/")
    body.append("def moldenHeader : Iodata.Wf.HdrTable := [\n  " + ",\n  ".join(entries) + "]")
    body.append("end Iodata.Gen.Wf\n")
    ctx.gen_write("Wf", "\n".join(body))
    ctx.extra_cov["molden_header"] = [["".join(k or "-" for k in combo), tags] for combo, tags in header]


# ---- T2: structural correspondence --------------------------------------------------------------------------------
def _enc_conv(conv):
    return ";".join(f"{l}{k}=" + ",".join(v) for (l, k), v in sorted(conv.items()))


def _enc_shells(shells):
    return ";".join(f"{c}:{l}:{k}:" + ",".join(f"{e}*{d}" for e, d in pr) for c, l, k, pr in shells)


def _enc_gshells(gshells):
    return ";".join(f"{c}:" + "+".join(f"{l}.{k}" for l, k in cons) + ":" + ",".join(f"{e}*" + "/".join(str(d) for d in ds) for e, ds in pr)
                    for c, cons, pr in gshells)


def _rand_d(rng):
    return rng.choice([1, 2, 3, 4, 5]) * rng.choice([1, 1, -1])


def gen_tracer(rng, fmt, tabs):
    h2 = tabs["horton2"]
    natom = rng.choice([1, 2, 3, 4])
    nshell = rng.choice([1, 2, 3, 4, 5])
    kinds_for_l = {}
    # one kind per angular momentum is what Molden can express; Molekel and FCHK announce the kind per shell.
    # Sometimes the kinds are drawn per shell (Molden: the writer has to refuse).
    per_shell = rng.random() < {"molden": 0.2, "molekel": 0.3, "fchk": 0.3}.get(fmt, 0.0)
    shells = []
    for _ in range(nshell):
        l = rng.choice(([0, 1, 2, 2, 3, 3, 4, 5] if fmt in ("molden", "molekel") else [0, 1, 2, 2, 3]) + list(range(LMAX[fmt] + 1)))
        if PURE_OK[fmt] and l >= 2:
            if fmt in ("molden", "molekel") and l == 5:
                first = "p" if rng.random() < 0.85 else "c"  # Cartesian h: no entry in the Molden table, a refusal
            else:
                first = rng.choice("cp")
            kind = first if per_shell else kinds_for_l.setdefault(l, first)
        else:
            kind = "c"
        pr = [(e, _rand_d(rng)) for e in rng.sample(range(len(EXPS)), rng.choice([1, 1, 2, 3]))]
        shells.append((rng.randrange(natom), l, kind, pr))
    order = rng.choice(["sorted", "any", "any"])
    if order == "sorted":
        shells.sort(key=lambda s: s[0])
    gshells = None
    if fmt == "fchk" and rng.random() < 0.35:
        # generalized contractions: SP shells (kept by the FCHK writer), rarely another one (refused)
        gshells = [(c, [(l, k)], [(e, [d]) for e, d in pr]) for c, l, k, pr in shells]
        for _ in range(rng.choice([1, 1, 2])):
            cons = [(0, "c"), (1, "c")] if rng.random() < 0.85 else rng.choice([[(1, "c"), (2, "c")], [(0, "c"), (0, "c")], [(0, "c"), (1, "c"), (2, "p")], [(1, "c"), (0, "c")], [(1, "c"), (0, "c")]])
            pr = [(e, [_rand_d(rng) for _ in cons]) for e in rng.sample(range(len(EXPS)), rng.choice([1, 2, 3]))]
            gshells.insert(rng.randrange(len(gshells) + 1), (rng.randrange(natom), cons, pr))
        if order == "sorted":
            gshells.sort(key=lambda g: g[0])
        # the same basis functions as segmented shells (contraction by contraction), for the row-level streams
        shells = [(c, l, k, [(e, ds[i]) for e, ds in pr]) for c, cons, pr in gshells for i, (l, k) in enumerate(cons)]
    lm = max(s[1] for s in shells)
    allkeys = {(l, "c") for l in range(lm + 1)} | ({(l, "p") for l in range(2, lm + 1)} if PURE_OK[fmt] else set())
    choice = rng.choice(["native", "horton2", "cca", "other-module", "random", "random"])
    src = tabs[fmt] if choice == "native" else tabs.get(choice) if choice in ("horton2", "cca") else \
        tabs[rng.choice([f for f in FORMATS if f != fmt])] if choice == "other-module" else None
    conv = {}
    for k in sorted(allkeys):
        conv[k] = list(src[k]) if (src is not None and k in src) else rand_conv(rng, h2[k])
    nbasis = sum(len(conv[(l, k)]) for _c, l, k, _p in shells)
    kind = rng.choice(["restricted", "unrestricted"])
    na = rng.choice([1, 2, 3, 6, 7] if fmt == "molekel" else [1, 2, 3])
    nb = rng.choice([1, 2, 3, 6] if fmt == "molekel" else [1, 2, 3]) if kind == "unrestricted" else na
    ncol = na + nb if kind == "unrestricted" else na
    cols = [[rng.choice(PRIMES) * rng.choice([1, -1]) for _ in range(nbasis)] for _ in range(ncol)]
    t = {"natom": natom, "shells": shells, "conv": conv, "cols": cols, "kind": kind, "norba": na, "norbb": nb,
         "tags": f"{choice}/{order}/{kind}", "gshells": gshells}
    if fmt == "molekel" and kind == "unrestricted" and rng.random() < 0.7:
        t["irreps"] = list(range(1, ncol + 1))
    if fmt == "fchk" and nbasis <= 12 and rng.random() < 0.6:
        m = [[rng.randint(-9, 9) for _ in range(nbasis)] for _ in range(nbasis)]
        t["dm"] = [[m[i][j] + m[j][i] for j in range(nbasis)] for i in range(nbasis)]
    return t


def _eid(x):
    """index of the tracer exponent a printed exponent denotes"""
    i = min(range(len(EXPS)), key=lambda j: abs(EXPS[j] - x))
    if abs(EXPS[i] - x) > 1e-6:
        raise ValueError(f"exponent {x!r} is not a tracer exponent")
    return i


def _int(x, tol=1e-6):
    r = round(x)
    if abs(x - r) > tol * max(1.0, abs(x)):
        raise ValueError(f"{x!r} is not an integer")
    return int(r)


def _ints(xs, tol=1e-6):
    xs = list(xs)
    return ",".join(str(_int(x, tol)) for x in xs) if xs else "@"


def _enc_prims(exps, cfs):
    return ",".join(f"{_eid(e)}*{_int(d)}" for e, d in zip(exps, cfs))


def mkl_raw_blocks(rows, nbasis):
    """token rows of a $COEFF section -> [(number of labels on the irrep line, [row of numbers] * nbasis)]"""
    out = []
    i = 0
    while i < len(rows):
        out.append((len(rows[i]), [[_flt(w) for w in r] for r in rows[i + 2: i + 2 + nbasis]]))
        i += 2 + nbasis
    return out


def moldenw_line(text, col):
    """`tags|gto|mo` of a Molden file as the writer model prints it (from my tokenizer of the file)"""
    f = parse_molden(text)
    gto = ";".join(f"{c}=" + "/".join(f"{l}:" + _enc_prims([p[0] for p in pr], [p[1] for p in pr]) for l, pr in fs)
                   for c, fs in f["blocks"])
    return (",".join(f["tags"]) or "@") + "|" + (gto or "@") + "|" + _ints(f["orbs"][col][4], 1e-9)


def mklw_line(text, spin):
    f = parse_mkl(text)
    items = ";".join("$$" if it == "$$" else f"{it[0]}:{it[1]}:" + _enc_prims(it[2], it[3]) for it in f["items"])
    nb = sum(it[0] for it in f["items"] if it != "$$")  # the number of rows the file's own $BASIS announces
    blocks = mkl_raw_blocks(f[spin], nb)
    return (items or "@") + "|" + (";".join("/".join([str(n)] + [_ints(r, 1e-9) for r in rows]) for n, rows in blocks) or "@")


def fchkw_line(text):
    f = parse_fchk(text)
    sp = f.get("P(S=P) Contraction coefficients")
    return "|".join([
        _ints(f["Shell types"]), _ints(f["Number of primitives per shell"]), _ints(f["Shell to atom map"]),
        ",".join(str(_eid(e)) for e in f["Primitive exponents"]), _ints(f["Contraction coefficients"]),
        "none" if sp is None else _ints(sp), _ints(f["Alpha MO coefficients"])])


# ---- reader side: structural files printed by my own writers (no iodata code), read by the real readers ------------
LETTERS = "spdfghi"


def _coords(natom):
    return [(0.9 * i, 0.3 * (i % 2), -0.4 * i) for i in range(natom)]


def write_molden(natom, tags, gto, mo, rng):
    """tags: [(position 0..3, name)] in file order; gto: [(centre as printed, [(l, [(eid, d)])])]; mo: [int]"""
    def taglines(pos):
        return [("[%s]" % (n.lower() if low else n)) for q, n, low in tags if q == pos]

    out = ["[Molden Format]"]
    out += taglines(0)
    out.append("[Atoms] AU")
    for i, (x, y, z) in enumerate(_coords(natom)):
        out.append(f"H {i + 1:4d} 1 {x:18.10f} {y:18.10f} {z:18.10f}")
    out += taglines(1)
    out.append("[GTO]")
    for c, fs in gto:
        out.append(f"{c:4d} 0")
        for l, pr in fs:
            out.append(f" {LETTERS[l]} {len(pr):4d} 1.00")
            for e, d in pr:
                out.append(f"   {EXPS[e]:.8f}   {d:.8f}")
        out.append("")
    out += taglines(2)
    out.append("[MO]")
    if rng.random() < 0.5:
        out.append(" Sym= 1a")
    out += [" Ene= -0.5", " Spin= Alpha", " Occup= 2.0"]
    for i, v in enumerate(mo):
        out.append(f"{i + 1:5d} {v:.10f}")
    out += taglines(3)
    return "\n".join(out) + "\n"


def write_mkl(natom, items, blocks):
    """items: ["$$" | (nfn, l, [(eid, d)])]; blocks: [(ncol, [[int] * width] * nrow)] of $COEFF_ALPHA"""
    norb = sum(n for n, _r in blocks)
    out = ["$MKL", "#", "# structural test file", "#", "$CHAR_MULT", f"  {natom - 2} 1", "$END", "", "$COORD"]
    for x, y, z in _coords(natom):
        out.append(f"  1  {x / ANGSTROM:.6f}  {y / ANGSTROM:.6f}  {z / ANGSTROM:.6f}")
    out += ["$END", "", "$BASIS"]
    for it in items:
        if it == "$$":
            out.append("$$")
        else:
            out.append(f" {it[0]} {LETTERS[it[1]].upper()} 1.00")
            for e, d in it[2]:
                out.append(f"   {EXPS[e]:.8f}   {d:.8f}")
    out += ["", "$END", "", "$COEFF_ALPHA"]
    k = 0
    for n, rows in blocks:
        out.append(" ".join(f" a{k + j + 1}" for j in range(n)))
        out.append(" ".join(f" {0.25 * (k + j) - 1.0:.6f}" for j in range(n)))
        for r in rows:
            out.append(" ".join(f" {v:.6f}" for v in r))
        k += n
    out += [" $END", "", "$OCC_ALPHA"]
    occs = [2.0] + [0.0] * (norb - 1)
    for j in range(0, norb, 5):
        out.append(" ".join(f" {o:.7f}" for o in occs[j:j + 5]))
    out += [" $END", ""]
    return "\n".join(out) + "\n"


def _fchk_scalar(name, typ, v):
    return f"{name:40s}   {typ}     {v:12d}" if typ == "I" else f"{name:40s}   {typ}     {v:22.15E}"


def _fchk_array(name, typ, vals):
    out = [f"{name:40s}   {typ}   N=   {len(vals):12d}"]
    per = 6 if typ == "I" else 5
    for j in range(0, len(vals), per):
        out.append("".join((f"{v:12d}" if typ == "I" else f"{v:16.8E}") for v in vals[j:j + per]))
    return out


def write_fchk(natom, types, nprims, amap, exps, c1, c2, nbasis, norb, flat, tril=None):
    out = ["structural test file", "SP        RHF                                                         basis"]
    out.append(_fchk_scalar("Number of atoms", "I", natom))
    out.append(_fchk_scalar("Number of electrons", "I", 2))
    out.append(_fchk_scalar("Number of alpha electrons", "I", 1))
    out.append(_fchk_scalar("Number of beta electrons", "I", 1))
    out.append(_fchk_scalar("Number of basis functions", "I", nbasis))
    out += _fchk_array("Atomic numbers", "I", [1] * natom)
    out += _fchk_array("Nuclear charges", "R", [1.0] * natom)
    out += _fchk_array("Current cartesian coordinates", "R", [float(x) for p in _coords(natom) for x in p])
    out += _fchk_array("Shell types", "I", types)
    out += _fchk_array("Number of primitives per shell", "I", nprims)
    out += _fchk_array("Shell to atom map", "I", amap)
    out += _fchk_array("Primitive exponents", "R", [EXPS[e] for e in exps])
    out += _fchk_array("Contraction coefficients", "R", [float(v) for v in c1])
    if c2 is not None:
        out += _fchk_array("P(S=P) Contraction coefficients", "R", [float(v) for v in c2])
    out.append(_fchk_scalar("Total Energy", "R", -1.0))
    out += _fchk_array("Alpha Orbital Energies", "R", [0.5 * i - 1.0 for i in range(norb)])
    out += _fchk_array("Alpha MO coefficients", "R", [float(v) for v in flat])
    if tril is not None:
        out += _fchk_array("Total SCF Density", "R", [float(v) for v in tril])
    return "\n".join(out) + "\n"


def real_load(text, fmt):
    """the real reader on a text; Molden/Molekel with the normalisation repair switched off"""
    from iodata import load_one

    fd, path = tempfile.mkstemp(suffix="." + EXT[fmt])
    os.close(fd)
    try:
        with open(path, "w") as fh:
            fh.write(text)
        with warnings.catch_warnings():
            warnings.simplefilter("ignore")
            if fmt == "fchk":
                return load_one(path, fmt=fmt)
            return load_one(path, fmt=fmt, norm_threshold=float("inf"))
    finally:
        os.unlink(path)


def show_loaded_shells(obasis, generalized=False):
    out = []
    for sh in obasis.shells:
        c = int(sh.icenter)
        exps = [_eid(float(e)) for e in sh.exponents]
        if generalized:
            cons = "+".join(f"{int(l)}.{k}" for l, k in zip(sh.angmoms, sh.kinds))
            out.append(f"{c}:{cons}:" + ",".join(f"{e}*" + "/".join(str(_int(float(d))) for d in row) for e, row in zip(exps, sh.coeffs)))
        else:
            if len(sh.angmoms) != 1:
                raise ValueError("generalized contraction from a segmented format")
            out.append(f"{c}:{int(sh.angmoms[0])}:{sh.kinds[0]}:" + ",".join(f"{e}*{_int(float(row[0]))}" for e, row in zip(exps, sh.coeffs)))
    return ";".join(out) or "@"


def show_cols(C):
    C = np.asarray(C, float)
    return ";".join(_ints(C[:, j]) for j in range(C.shape[1])) or "@"


def _rand_prims(rng):
    return [(e, _rand_d(rng)) for e in rng.sample(range(len(EXPS)), rng.choice([1, 1, 2, 3]))]


def gen_molden_file(rng, tabs):
    """a structural Molden file (not only what the writer would produce) -> (request, text, nontrivial, class)"""
    natom = rng.choice([1, 2, 3, 4])
    style = rng.choice(["writer-like", "free", "free"])
    ntag = rng.choice([0, 1, 1, 2, 2, 3])
    names = [rng.choice(["5D", "5D7F", "7F", "5D10F", "9G", "9G"]) for _ in range(ntag)]
    if style == "writer-like":
        tags = [(1, n, False) for n in names]
    else:
        tags = sorted(((rng.randrange(4), n, rng.random() < 0.3) for n in names), key=lambda t: t[0])
    pure = set()
    for n in names:
        pure |= {"5D": {2, 3}, "5D7F": {2, 3}, "7F": {3}, "5D10F": {2}, "9G": {4, 5}}[n]
    nblock = rng.choice([1, 1, 2, 3, 4])
    if style == "writer-like":
        centres = sorted(rng.sample(range(1, natom + 1), min(nblock, natom)))
    else:
        centres = [rng.randint(1, natom) for _ in range(nblock)]  # unsorted, repeated centre blocks
    gto = []
    for c in centres:
        fs = []
        for _ in range(rng.choice([1, 1, 2, 3])):
            l = rng.choice([0, 1, 2, 2, 3, 3, 4, 5])
            if l == 5 and 5 not in pure:
                l = 4  # Cartesian h functions have no entry in the Molden CONVENTIONS table: outside the reader's domain
            fs.append((l, _rand_prims(rng)))
        gto.append((c, fs))
    cvm = tabs["molden"]
    nb = sum(len(cvm[(l, "p" if l in pure else "c")]) for _c, fs in gto for l, _p in fs)
    wrong = rng.random() < 0.15
    n = nb if not wrong else max(0, nb + rng.choice([-1, 1, -5, 3, 4, -nb]))
    if n == nb:
        wrong = False
    mo = [rng.choice(PRIMES) * rng.choice([1, -1]) for _ in range(n)]
    text = write_molden(natom, tags, gto, mo, rng)
    req = "moldenr " + (",".join(n for _q, n, _l in tags) or "@") + " " + \
        ";".join(f"{c}=" + "/".join(f"{l}:" + ",".join(f"{e}*{d}" for e, d in pr) for l, pr in fs) for c, fs in gto) + " " + \
        (",".join(map(str, mo)) or "@")
    cs = [c for c, _f in gto]
    feats = []
    if cs != sorted(cs):
        feats.append("unsorted")
    if len(set(cs)) < len(cs):
        feats.append("repeated-centre")
    if names:
        feats.append("tags:" + "+".join(names))
    if any(q != 1 for q, _n, _l in tags):
        feats.append("tags-elsewhere")
    if wrong:
        feats.append("wrong-length")
    return req, text, bool(feats), "/".join(feats) or "plain"


def gen_mkl_file(rng, tabs):
    cvm = tabs["molekel"]
    style = rng.choice(["writer-like", "free", "free"])
    nsh = rng.choice([1, 2, 3, 4, 5])
    items, nsep, feats = [], 0, []
    bad_nfn = False
    if style == "free" and rng.random() < 0.4:
        k = rng.choice([1, 1, 2])
        items += ["$$"] * k
        nsep += k
        feats.append("leading-$$")
    for i in range(nsh):
        l = rng.choice([0, 1, 2, 2, 3, 3, 4, 5])
        kinds = [k for k in "cp" if (l, k) in cvm]
        r = rng.random()
        if style == "free" and r < 0.06:
            nfn = rng.choice([len(cvm[(l, k)]) for k in kinds] + [(l + 1) * (l + 2) // 2]) + rng.choice([1, -1, 2])
            if nfn <= 0 or any(nfn == len(cvm[(l, k)]) for k in kinds):
                nfn = 2
            bad_nfn = bad_nfn or not any(nfn == len(cvm[(l, k)]) for k in kinds)
        else:
            nfn = len(cvm[(l, rng.choice(kinds))])
        items.append((nfn, l, _rand_prims(rng)))
        if i + 1 < nsh:
            k = rng.choice([0, 1, 1] if style == "writer-like" else [0, 0, 1, 1, 2, 3])
            items += ["$$"] * k
            nsep += k
            if k > 1 and "repeated-$$" not in feats:
                feats.append("repeated-$$")
    if style == "free" and rng.random() < 0.3:
        k = rng.choice([1, 2])
        items += ["$$"] * k
        nsep += k
        feats.append("trailing-$$")
    if bad_nfn:
        feats.append("bad-nfn")
    nb = sum(it[0] for it in items if it != "$$")
    if any(it != "$$" and it[0] == len(cvm.get((it[1], "p"), [])) and it[1] >= 2 for it in items):
        feats.append("pure")
    ncols = rng.choice([1, 2, 3, 5, 6, 7, 11])
    if style == "free" and rng.random() < 0.5:
        widths = []
        left = ncols
        while left:
            w = rng.randint(1, min(5, left))
            widths.append(w)
            left -= w
    else:
        widths = [min(5, ncols - j) for j in range(0, ncols, 5)]
    if len(widths) > 1:
        feats.append(f"{len(widths)}-blocks")
    if widths != [min(5, ncols - j) for j in range(0, ncols, 5)]:
        feats.append("uneven-blocks")
    blocks = []
    ragged = style == "free" and rng.random() < 0.1
    for w in widths:
        rows = [[rng.choice(PRIMES) * rng.choice([1, -1]) for _ in range(w)] for _ in range(nb)]
        blocks.append((w, rows))
    if ragged and nb:
        w, rows = blocks[rng.randrange(len(blocks))]
        r = rows[rng.randrange(nb)]
        if rng.random() < 0.5 and len(r) > 1:
            r.pop()
        else:
            r.append(7)
        feats.append("ragged-row")
    elif style == "free" and nb and rng.random() < 0.08:
        # a block with one row too few / too many (every variant ends in a LoadError of the real reader)
        w, rows = blocks[rng.randrange(len(blocks))]
        if rng.random() < 0.5:
            rows.pop()
        else:
            rows.append([rng.choice(PRIMES) for _ in range(w)])
        feats.append("bad-rowcount")
    text = write_mkl(nsep + 1 + rng.choice([0, 0, 1]), items, blocks)
    req = "mklr " + ";".join("$$" if it == "$$" else f"{it[0]}:{it[1]}:" + ",".join(f"{e}*{d}" for e, d in it[2]) for it in items) + " " + \
        ";".join("/".join([str(w)] + [",".join(map(str, r)) for r in rows]) for w, rows in blocks)
    return req, text, bool(feats), "/".join(feats) or "plain"


def gen_fchk_file(rng, tabs):
    cvf = tabs["fchk"]
    natom = rng.choice([1, 2, 3, 4])
    nsh = rng.choice([1, 2, 3, 4, 5])
    style = rng.choice(["writer-like", "free", "free"])
    types, nprims, amap, exps, c1, c2 = [], [], [], [], [], []
    for _ in range(nsh):
        r = rng.random()
        if r < 0.25:
            t = -1
        else:
            l = rng.choice([0, 1, 2, 2, 3, 3, 4, 5, 6])
            t = -l if (l >= 2 and rng.random() < 0.5) else l
        pr = _rand_prims(rng)
        types.append(t)
        nprims.append(len(pr))
        amap.append(rng.randint(1, natom))
        exps += [e for e, _d in pr]
        c1 += [d for _e, d in pr]
        c2 += [(_rand_d(rng) if t == -1 else 0) for _ in pr]
    if style == "writer-like":
        order = sorted(range(nsh), key=lambda i: amap[i])
        amap = [amap[i] for i in order]  # only the map is sorted; the other arrays are random anyway
    has_sp = -1 in types
    keep_c2 = has_sp or rng.random() < 0.1
    nbasis = sum(4 if t == -1 else len(cvf[(abs(t), "p" if t < 0 else "c")]) for t in types)
    norb = rng.choice([1, 2, 3, 4])
    flat = [rng.choice(PRIMES) * rng.choice([1, -1]) for _ in range(norb * nbasis)]
    text = write_fchk(natom, types, nprims, amap, exps, c1, c2 if keep_c2 else None, nbasis, norb, flat)
    j = lambda xs: ",".join(map(str, xs))
    req = f"fchkr {j(types)} {j(nprims)} {j(amap)} {j(exps)} {j(c1)} {j(c2) if keep_c2 else 'none'} {nbasis} {j(flat)}"
    feats = []
    if has_sp:
        feats.append("SP")
    if any(t < -1 for t in types):
        feats.append("pure")
    if amap != sorted(amap):
        feats.append("unsorted-map")
    if norb > 1:
        feats.append(f"{norb}-orbitals")
    if keep_c2 and not has_sp:
        feats.append("unused-P(S=P)")
    return req, text, bool(feats), "/".join(feats) or "plain"


def reader_line(text, fmt, generalized=False):
    """the real reader's result in the model's notation (exception class for a refusal)"""
    try:
        d = real_load(text, fmt)
    except Exception as exc:
        return exc_class(exc)
    return show_loaded_shells(d.obasis, generalized) + "|" + show_cols(d.mo.coeffs)


def correspond_readers(ctx, add, tabs):
    rng = ctx.rng
    n = ctx.n(40, 800)
    for _ in range(n):
        req, text, nt, cls = gen_molden_file(rng, tabs)
        add("moldenr", req, reader_line(text, "molden"), nt, cls)
        req, text, nt, cls = gen_mkl_file(rng, tabs)
        add("mklr", req, reader_line(text, "molekel"), nt, cls)
        req, text, nt, cls = gen_fchk_file(rng, tabs)
        add("fchkr", req, reader_line(text, "fchk", True), nt, cls)
        # density matrix: the lower triangle in a file of its own
        nb = rng.choice([1, 2, 3, 4, 5, 6])
        tril = [rng.randint(-99, 99) for _ in range(nb * (nb + 1) // 2)]
        text = write_fchk(1, [0] * nb, [1] * nb, [1] * nb, [0] * nb, [1] * nb, None, nb, 1, [1] * nb, tril)
        try:
            D = np.asarray(real_load(text, "fchk").one_rdms["scf"], float)
            line = ";".join(_ints(row) for row in D)
        except Exception as exc:
            line = exc_class(exc)
        add("fchkdr", "fchkdr " + ",".join(map(str, tril)), line, nb > 1, f"n{nb}")


def correspond(ctx):
    tabs = tabs_cached()
    flags = flags_cached()
    rng = ctx.rng
    streams = {k: ([], [], [], []) for k in ("wfn", "wfx", "molden", "mkl", "mklirr", "fchk", "fchkd", "moldenw", "mklw", "fchkw",
                                             "moldenr", "mklr", "fchkr", "fchkdr")}

    def add(stream, req, impl, nontrivial, cls):
        a = streams[stream]
        a[0].append(req)
        a[1].append(impl)
        a[2].append(nontrivial)
        a[3].append(cls)

    n = ctx.n(60, 1200)
    for i in range(n * 5):
        fmt = FORMATS[i % 5]
        t = gen_tracer(rng, fmt, tabs)
        sh, cv = _enc_shells(t["shells"]), _enc_conv(t["conv"])
        centers = [s[0] for s in t["shells"]]
        native = all(t["conv"][k] == tabs[fmt].get(k) for k in {(s[1], s[2]) for s in t["shells"]})
        nontriv = (not native) or centers != sorted(centers)
        ncol = len(t["cols"])
        # the complete file structure (writer side): which spin block / orbital is compared
        if fmt in ("molden", "molekel", "fchk"):
            wcol = rng.randrange(ncol)
            spin = "beta" if (fmt == "molekel" and t["kind"] == "unrestricted" and rng.random() < 0.5) else "alpha"
            if t["kind"] == "unrestricted":
                wcols = t["cols"][t["norba"]:] if spin == "beta" else t["cols"][:t["norba"]]
            else:
                wcols = t["cols"]
            enc_cols = ";".join(",".join(str(v) for v in c) for c in wcols)
            kinds_l = sorted({(s[1], s[2]) for s in t["shells"] if s[1] >= 2})
            wcls = t["tags"] + "/" + ("".join(f"{l}{k}" for l, k in kinds_l) or "sp-only")
            if fmt == "molden":
                wreq = f"moldenw {sh} {cv} " + ",".join(str(v) for v in t["cols"][wcol])
            elif fmt == "molekel":
                wreq = f"mklw {sh} {cv} {enc_cols}"
                wcls += f"/{spin}{len(wcols)}"
            else:
                gs = t["gshells"] if t.get("gshells") is not None else [(c, [(l, k)], [(e, [d]) for e, d in pr]) for c, l, k, pr in t["shells"]]
                wreq = f"fchkw {_enc_gshells(gs)} {cv} {enc_cols}"
                wcls += "/" + ("gen" if any(len(g[1]) > 1 and g[1] != [(0, "c"), (1, "c")] for g in gs) else
                               "SP" if any(len(g[1]) > 1 for g in gs) else "seg")
            wstream = {"molden": "moldenw", "molekel": "mklw", "fchk": "fchkw"}[fmt]
            wnontriv = nontriv or bool(kinds_l) or (fmt == "fchk" and t.get("gshells") is not None)
        try:
            text = dump_text(tracer_object(t), fmt)
        except Exception as exc:
            # a refusal is allowed by the property; the writer models say when it happens
            ctx.hist[f"corr-refused:{fmt}:{exc_class(exc)}"] += 1
            if fmt in ("molden", "molekel", "fchk"):
                add(wstream, wreq, "refused", True, wcls + "/refused")
            continue
        if fmt == "molden":
            add(wstream, wreq, moldenw_line(text, wcol), wnontriv, wcls)
        elif fmt == "molekel":
            add(wstream, wreq, mklw_line(text, spin), wnontriv, wcls)
        elif fmt == "fchk":
            add(wstream, wreq, fchkw_line(text), wnontriv, wcls)
        col = rng.randrange(ncol)
        coeffs = ",".join(str(v) for v in t["cols"][col])
        if fmt in ("wfn", "wfx"):
            f = (parse_wfn if fmt == "wfn" else parse_wfx)(text)
            line = wfn_rows_line(t, f, col, flags[f"{fmt}ScalesFromSource"], tabs[fmt])
            add(fmt, f"{fmt} {sh} {cv} {coeffs}", line, nontriv, t["tags"])
        elif fmt == "molden":
            f = parse_molden(text)
            shells = ",".join(f"{c}:{l}:{'p' if (l in f['pure'] and l >= 2) else 'c'}" for c, l, _e, _c in f["shells"])
            vals = [x for x in f["orbs"][col][4]]
            ok = all(abs(x - round(x)) < 1e-9 for x in vals)
            add("molden", f"molden {sh} {cv} {coeffs}", shells + "|" + (",".join(str(round(x)) for x in vals) if ok else "non-integer"),
                nontriv, t["tags"])
        elif fmt == "molekel":
            f = parse_mkl(text)
            nb = sum(len(t["conv"][(l, k)]) for _c, l, k, _p in t["shells"])
            shells = ",".join(f"{ns}:{l}:{'c' if nfn == (l + 1) * (l + 2) // 2 else 'p'}" for ns, nfn, l, _e, _c in f["shells"])
            if t["kind"] == "unrestricted" and col >= t["norba"]:
                try:
                    M = mkl_blocks(f["beta"], nb)[2]
                    vals = list(M[:, col - t["norba"]])
                except Exception:  # an unreadable beta block (irreps defect): compare the alpha block instead
                    col = 0
                    coeffs = ",".join(str(v) for v in t["cols"][0])
                    vals = list(mkl_blocks(f["alpha"], nb)[2][:, 0])
            else:
                vals = list(mkl_blocks(f["alpha"], nb)[2][:, col])
            ok = all(abs(x - round(x)) < 1e-9 for x in vals)
            add("mkl", f"mkl {sh} {cv} {coeffs}", shells + "|" + (",".join(str(round(x)) for x in vals) if ok else "non-integer"),
                nontriv, t["tags"])
            if t.get("irreps"):
                labs = [int(x) for row in f["beta"][:: 2 + nb] for x in row] if f["beta"] else []
                add("mklirr", f"mklirr {t['norba']} {t['norbb']} {','.join(map(str, t['irreps']))}",
                    ",".join(map(str, labs)) if labs else "@", t["norba"] != t["norbb"], f"na{t['norba']}nb{t['norbb']}")
        elif fmt == "fchk":
            f = parse_fchk(text)
            nb = f["Number of basis functions"]
            A = np.array(f["Alpha MO coefficients"]).reshape(-1, nb)
            if t["kind"] == "unrestricted" and col >= t["norba"]:
                vals = list(np.array(f["Beta MO coefficients"]).reshape(-1, nb)[col - t["norba"]])
            else:
                vals = list(A[col])
            ok = all(abs(x - round(x)) < 1e-6 for x in vals)
            add("fchk", f"fchk {sh} {cv} {coeffs}", ",".join(str(round(x)) for x in vals) if ok else "non-integer", not native, t["tags"])
            if t.get("dm") is not None:
                tri = f["Total SCF Density"]
                D = np.zeros((nb, nb))
                D[np.tril_indices(nb)] = tri
                D = D + D.T - np.diag(np.diag(D))
                add("fchkd", f"fchkd {sh} {cv} {';'.join(','.join(str(v) for v in row) for row in t['dm'])}",
                    ";".join(",".join(str(round(x)) for x in row) for row in D), not native, t["tags"])
    correspond_readers(ctx, add, tabs)
    for k, (reqs, impl, nt, cls) in streams.items():
        if reqs:
            ctx.corr(k, reqs, impl, nt, cls)
    ctx.extra_cov["writer_variants"] = flags
