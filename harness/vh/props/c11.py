"""C11 — charge / nelec / atcorenums consistency of IOData under any assignment history."""

from __future__ import annotations

import ast
import copy
import itertools
import multiprocessing as mp
from fractions import Fraction as Fr

import numpy as np

from .. import engine
from ..engine import lean_list, lean_str

MODULES = ["Iodata.Props.C11"]
RULE = (
    "iod/iodl: operation sequences {construct with a subset of arguments, assign/clear atnums, atcorenums, charge, "
    "nelec, spinpol, mo, atcoords, atmasses, atgradient, atfrozen, read atcorenums/charge/nelec/spinpol/natom} over "
    "None, dyadic scalars, arrays of length 0-3, six real MolecularOrbitals objects; quick: ALL sequences of length 3 "
    "over the fixed 37-op alphabet, ALL sequences of length 4 over a reduced 23-op alphabet, random sequences of "
    "length <= 12 from a wider alphabet; thorough: length 4 over the full alphabet and longer random ones. After EVERY "
    "operation (iodl stream: results of every operation, observables after the last) the result/exception "
    "class and all observables (each read from a fresh shallow copy of the object) are compared with the Lean model. "
    "non-trivial = some operation of the sequence raised or changed an observable; distinct = distinct request line"
)
TRUSTED = [
    "copy.copy of an attrs slotted object reproduces the hidden fields without running setters (used to read "
    "observables without disturbing the object under test)",
    "the ast walk of iodata.py that lists the natom chain, the shape-validated fields, the post-init replay and the "
    "property setters",
]
ASSUMPTIONS = [
    "attrs.define semantics: converters + validators in __init__ (on the new object, field order) and on every "
    "attribute assignment (on the old object) - exercised by the correspondence, not proved",
    "double arithmetic on the dyadic alphabet is exact, so the real results equal the model's rationals",
    "per-atom arrays are modelled by one scalar per atom (atcoords/atgradient rows are (x,0,0)); values outside the "
    "documented types (ragged lists, wrong second dimension) are outside the domain",
    "IOData sees orbitals only through mo.nelec / mo.spinpol (restricted and unrestricted kinds)",
]
TIME_LIMIT = {"quick": 900, "thorough": 3600}

SRC = engine.REPO / "iodata" / "iodata.py"

# --------------------------------------------------------------------------------------
# T1: names and orders from the source


def _self_attr(node):
    if isinstance(node, ast.Attribute) and isinstance(node.value, ast.Name) and node.value.id == "self":
        return node.attr
    return None


def extract():
    tree = ast.parse(SRC.read_text())
    cls = next(n for n in tree.body if isinstance(n, ast.ClassDef) and n.name == "IOData")
    out = {"natom": [], "validated": [], "plain": [], "post": [], "setters": []}
    model_plain = {"_charge", "mo", "_nelec", "_spinpol"}
    for node in cls.body:
        if isinstance(node, ast.AnnAssign) and isinstance(node.target, ast.Name):
            name = node.target.id
            call = node.value
            kws = {k.arg: k.value for k in call.keywords} if isinstance(call, ast.Call) else {}
            val = kws.get("validator")
            if val is not None:
                # attrs.validators.optional(validate_shape("natom", ...))
                inner = val.args[0] if isinstance(val, ast.Call) and val.args else None
                if (isinstance(inner, ast.Call) and getattr(inner.func, "id", "") == "validate_shape" and inner.args
                        and isinstance(inner.args[0], ast.Constant) and inner.args[0].value == "natom"):
                    out["validated"].append((name, len(inner.args)))
            if name in model_plain and "validator" not in kws and "converter" not in kws:
                out["plain"].append(name)
        if isinstance(node, ast.FunctionDef) and node.name == "natom" and not out["natom"]:
            ifs = [n for n in node.body if isinstance(n, ast.If)]
            cur = ifs[0]
            while True:
                test = cur.test  # self.X is not None
                nm = _self_attr(test.left)
                asg = cur.body[0]  # natom = len(self.X)
                nm2 = _self_attr(asg.value.args[0])
                if nm is None or nm != nm2 or asg.value.func.id != "len":
                    raise ValueError("natom chain has an unexpected shape")
                out["natom"].append(nm)
                if len(cur.orelse) == 1 and isinstance(cur.orelse[0], ast.If):
                    cur = cur.orelse[0]
                elif not cur.orelse:
                    break
                else:
                    raise ValueError("natom chain has an unexpected else branch")
        if isinstance(node, ast.FunctionDef) and node.name == "__attrs_post_init__":
            for st in node.body:
                if isinstance(st, ast.If):
                    hid = _self_attr(st.test.left)
                    asg = st.body[0]
                    pub = _self_attr(asg.targets[0])
                    if _self_attr(asg.value) != hid:
                        raise ValueError("post-init replay has an unexpected shape")
                    out["post"].append((hid, pub))
        if isinstance(node, ast.FunctionDef):
            for d in node.decorator_list:
                if isinstance(d, ast.Attribute) and d.attr == "setter":
                    out["setters"].append(node.name)
    return out


def translate(ctx):
    ex = extract()
    body = [
        "import Iodata.Model.IOData",
        "namespace Iodata.Gen.IODataFields",
        f"def natomChain : List String := {lean_list(ex['natom'], lean_str)}",
        "def shapeValidated : List (String × Nat) := "
        + lean_list(ex["validated"], lambda p: f"({lean_str(p[0])}, {p[1]})"),
        "def postInitReplay : List (String × String) := "
        + lean_list(ex["post"], lambda p: f"({lean_str(p[0])}, {lean_str(p[1])})"),
        f"def plainFields : List String := {lean_list(ex['plain'], lean_str)}",
        f"def propertySetters : List String := {lean_list(ex['setters'], lean_str)}",
        "end Iodata.Gen.IODataFields",
        "",
    ]
    ctx.gen_write("IODataFields", "\n".join(body))


# --------------------------------------------------------------------------------------
# operations: ("new", {name: value}), ("set", name, value), ("get", name)
# values: None | Fraction | tuple of Fractions (arrays) | mo key (str)

ARR_FIELDS = ("atcoords", "atgradient", "atfrozen", "atmasses")
SCALARS = ("charge", "nelec", "spinpol")
READS = ("atcorenums", "charge", "nelec", "spinpol", "natom")

_MO_CACHE = {}


def mo_table():
    """key -> real MolecularOrbitals object (restricted / unrestricted only)."""
    if not _MO_CACHE:
        from iodata.orbitals import MolecularOrbitals as MO

        _MO_CACHE.update({
            "rc": MO("restricted", 3, 3, occs=np.array([2.0, 2.0, 0.0])),
            "ro": MO("restricted", 3, 3, occs=np.array([2.0, 1.0, 0.0])),
            "rf": MO("restricted", 2, 2, occs=np.array([1.5, 0.5])),
            "ra": MO("restricted", 2, 2, occs=np.array([1.0, 1.0]), occs_aminusb=np.array([1.0, -0.5])),
            "rn": MO("restricted", 2, 2),
            "uo": MO("unrestricted", 2, 1, occs=np.array([1.0, 1.0, 1.0])),
        })
    return _MO_CACHE


def fr(x):
    if x is None:
        return None
    return Fr(float(x)) if not isinstance(x, (int, np.integer)) else Fr(int(x))


def s_num(x):
    return "-" if x is None else str(fr(x))


def s_arr(a):
    if a is None:
        return "-"
    return "[" + ",".join(str(fr(x)) for x in a) + "]"


def enc_val(name, v):
    if v is None:
        return "-"
    if name == "mo":
        m = mo_table()[v]
        return f"({s_num(m.nelec)},{s_num(m.spinpol)})"
    if isinstance(v, tuple):
        return "[" + ",".join(str(x) for x in v) + "]"
    return str(v)


def enc_op(op):
    if op[0] == "new":
        return "new:" + ";".join(f"{k}={enc_val(k, v)}" for k, v in op[1].items())
    if op[0] == "set":
        return f"set:{op[1]}={enc_val(op[1], op[2])}"
    return f"get:{op[1]}"


def to_py(name, v):
    """alphabet value -> the Python/numpy value given to the real code"""
    if v is None:
        return None
    if name == "mo":
        return mo_table()[v]
    if name in ("atcoords", "atgradient"):
        a = np.zeros((len(v), 3))
        a[:, 0] = [float(x) for x in v]
        return a
    if name == "atfrozen":
        return np.array([bool(x) for x in v], dtype=bool)
    if name == "atnums":
        return np.array([int(x) for x in v], dtype=int)
    if isinstance(v, tuple):
        return np.array([float(x) for x in v], dtype=float)
    return float(v)


def exc_class(exc):
    n = type(exc).__name__
    return n if n in ("TypeError", "ValueError") else "Other:" + n


def observe(obj):
    """all observables, each read from its own shallow copy (reads may write)"""
    def rd(name):
        return getattr(copy.copy(obj), name)

    try:
        c, n, s, ac, na = rd("charge"), rd("nelec"), rd("spinpol"), rd("atcorenums"), rd("natom")
    except Exception:  # a getter raised
        return "read-error"
    col = lambda a: None if a is None else a[:, 0]  # noqa: E731
    return (
        f"c={s_num(c)};n={s_num(n)};s={s_num(s)};ac={s_arr(ac)};na={'-' if na is None else int(na)};"
        f"z={s_arr(obj.atnums)};xyz={s_arr(col(obj.atcoords))};g={s_arr(col(obj.atgradient))};"
        f"f={s_arr(obj.atfrozen)};m={s_arr(obj.atmasses)};mo={0 if obj.mo is None else 1}"
    )


def apply(obj, op):
    """run one operation on the real object: (object, 'ok…'|'err:Class')"""
    from iodata import IOData

    try:
        if op[0] == "new":
            return IOData(**{k: to_py(k, v) for k, v in op[1].items()}), "ok"
        if op[0] == "set":
            setattr(obj, op[1], to_py(op[1], op[2]))
            return obj, "ok"
        v = getattr(obj, op[1])
        if op[1] == "atcorenums":
            return obj, "ok=" + s_arr(v)
        if op[1] == "natom":
            return obj, "ok=" + ("-" if v is None else str(int(v)))
        return obj, "ok=" + s_num(v)
    except Exception as exc:
        return obj, "err:" + exc_class(exc)


def run_seq(ops):
    """-> list of '<result>;<observables>' (one per op)"""
    from iodata import IOData

    obj = IOData()
    out = []
    for op in ops:
        obj, res = apply(obj, op)
        out.append(res + ";" + observe(obj))
    return out


def _work(item):
    mode, ops = item
    parts = run_seq(ops)
    nontriv = any(p.startswith("err") for p in parts)
    prev = None
    for p in parts:
        o = p.split(";", 1)[1]
        if prev is not None and o != prev:
            nontriv = True
        prev = o
    if parts and parts[0].split(";", 1)[1] != _EMPTY_OBS:
        nontriv = True
    nerr = sum(p.startswith("err") for p in parts)
    last = parts[-1] if parts else ""
    cls = f"errs={min(nerr, 3)}/mo={last[-1:]}/charge={'known' if 'c=-' not in last else 'none'}"
    if mode == "iod":
        line = "|".join(parts)
    else:  # iodl: results of all ops, observables after the last only
        line = ",".join(p.split(";", 1)[0] for p in parts) + "|" + (last.split(";", 1)[1] if parts else "")
    return line, nontriv, cls


_EMPTY_OBS = "c=-;n=-;s=-;ac=-;na=-;z=-;xyz=-;g=-;f=-;m=-;mo=0"

# --------------------------------------------------------------------------------------
# alphabets

H = Fr(1, 2)


def alphabet_full():
    ops = []
    for v in (None, Fr(0), Fr(1), -H):
        ops.append(("set", "charge", v))
    for v in (None, Fr(2), Fr(5, 2)):
        ops.append(("set", "nelec", v))
    for v in (None, Fr(1)):
        ops.append(("set", "spinpol", v))
    for v in (None, (1, 1), (8, 1), (1, 1, 1)):
        ops.append(("set", "atnums", v))
    for v in (None, (Fr(1), Fr(1)), (H, Fr(5, 2)), (Fr(1), Fr(1), Fr(1)), ()):
        ops.append(("set", "atcorenums", v))
    for v in (None, (Fr(0), Fr(1)), (Fr(0), Fr(1), Fr(2))):
        ops.append(("set", "atcoords", v))
    for v in (None, (Fr(1), Fr(12))):
        ops.append(("set", "atmasses", v))
    for v in (None, (Fr(0), H, Fr(1))):
        ops.append(("set", "atgradient", v))
    for v in (None, (Fr(1), Fr(0))):
        ops.append(("set", "atfrozen", v))
    for v in (None, "rc", "uo"):
        ops.append(("set", "mo", v))
    ops.append(("get", "atcorenums"))
    ops.append(("get", "charge"))
    ops.append(("new", {}))
    ops.append(("new", {"charge": Fr(1)}))
    ops.append(("new", {"atnums": (1, 1), "charge": Fr(0)}))
    ops.append(("new", {"atcorenums": (Fr(1), Fr(1)), "nelec": Fr(1), "charge": Fr(5)}))
    ops.append(("new", {"atnums": (1, 1), "atcoords": (Fr(0), Fr(1), Fr(2))}))
    return ops


def alphabet_reduced():
    return [
        ("set", "charge", None), ("set", "charge", Fr(1)), ("set", "charge", -H),
        ("set", "nelec", None), ("set", "nelec", Fr(2)),
        ("set", "spinpol", Fr(1)),
        ("set", "atnums", None), ("set", "atnums", (1, 1)), ("set", "atnums", (8, 1)), ("set", "atnums", (1, 1, 1)),
        ("set", "atcorenums", None), ("set", "atcorenums", (H, Fr(5, 2))), ("set", "atcorenums", (Fr(1), Fr(1), Fr(1))),
        ("set", "atcoords", None), ("set", "atcoords", (Fr(0), Fr(1))), ("set", "atcoords", (Fr(0), Fr(1), Fr(2))),
        ("set", "atmasses", (Fr(1), Fr(12))),
        ("set", "mo", None), ("set", "mo", "ro"),
        ("get", "atcorenums"), ("get", "charge"),
        ("new", {"charge": Fr(1)}), ("new", {"atnums": (1, 1), "nelec": Fr(2)}),
    ]


SCALAR_VALUES = [None, Fr(0), Fr(1), Fr(-1), H, Fr(5, 2), Fr(2), Fr(3), -H, Fr(7, 4)]
ARR_ELEMS = [Fr(0), Fr(1), Fr(-1), H, Fr(5, 2), Fr(2), Fr(8), Fr(3, 4)]


def rand_value(rng, name):
    if name in SCALARS:
        return rng.choice(SCALAR_VALUES)
    if name == "mo":
        return rng.choice([None, None] + sorted(mo_table()))
    if rng.random() < 0.25:
        return None
    n = rng.choice([0, 1, 2, 2, 2, 3, 3])
    if name == "atnums":
        return tuple(rng.choice([0, 1, 6, 8]) for _ in range(n))
    if name == "atfrozen":
        return tuple(Fr(rng.choice([0, 1])) for _ in range(n))
    return tuple(rng.choice(ARR_ELEMS) for _ in range(n))


ALL_NAMES = ("atnums", "atcorenums", "charge", "nelec", "spinpol", "mo") + ARR_FIELDS


def rand_op(rng):
    r = rng.random()
    if r < 0.12:
        names = [n for n in ALL_NAMES if rng.random() < 0.3]
        return ("new", {n: rand_value(rng, n) for n in names})
    if r < 0.3:
        return ("get", rng.choice(READS))
    name = rng.choice(ALL_NAMES)
    return ("set", name, rand_value(rng, name))


def rand_seq(rng, maxlen):
    return [rand_op(rng) for _ in range(rng.randint(1, maxlen))]


# --------------------------------------------------------------------------------------
# T2


def _corr_batch(ctx, pool, stream, mode, seqs):
    CH = 60000
    it = iter(seqs)
    while True:
        chunk = [list(s) for s in itertools.islice(it, CH)]
        if not chunk:
            break
        reqs = [mode + " " + " ".join(enc_op(op) for op in ops) for ops in chunk]
        res = pool.map(_work, [(mode, ops) for ops in chunk], chunksize=500)
        ctx.corr(stream, reqs, [r[0] for r in res], [r[1] for r in res], [r[2] for r in res])


def correspond(ctx):
    rng = ctx.rng
    mo_table()
    full = alphabet_full()
    with mp.get_context("fork").Pool(min(14, mp.cpu_count())) as pool:
        _corr_batch(ctx, pool, "iod-exhaustive3", "iod", itertools.product(full, repeat=3))
        _corr_batch(ctx, pool, "iod-random", "iod",
                    [rand_seq(rng, ctx.n(12, 30)) for _ in range(ctx.n(10000, 100000))])
        deep = full if ctx.thorough else alphabet_reduced()
        _corr_batch(ctx, pool, "iod-exhaustive4", "iodl", itertools.product(deep, repeat=4))
    ctx.extra_cov["exhaustive_depth"] = {"depth3_alphabet_size": len(full), "depth4_alphabet_size": len(deep)}


# --------------------------------------------------------------------------------------
# S: the property's predicates on the real code only


def _eq(a, b, tol):
    if a is None or b is None:
        return a is None and b is None
    return abs(float(a) - float(b)) <= tol


def _arr_eq(a, b):
    if a is None or b is None:
        return a is None and b is None
    return a.shape == b.shape and np.array_equal(a, b)


def _snapshot(obj):
    """observables as comparable Python values"""
    def rd(name):
        return getattr(copy.copy(obj), name)

    def arr(a):
        return None if a is None else (a.shape, a.tobytes())

    return (rd("charge"), rd("nelec"), rd("spinpol"), arr(rd("atcorenums")), rd("natom"), arr(obj.atnums),
            arr(obj.atcoords), arr(obj.atgradient), arr(obj.atfrozen), arr(obj.atmasses), id(obj.mo))


def _scale(*xs):
    return sum(abs(float(x)) for x in xs if x is not None) + 1.0


EPS = 2.0 ** -52


def check_history(ops_py):
    """Evaluate C11 along one history on the real code.  ops_py: ('new', kwargs) | ('set', name, value) |
    ('get', name) with real Python values.  Returns list of (sig, what)."""
    from iodata import IOData

    bad = []
    obj = IOData()
    explicit = False  # core charges assigned explicitly (and not cleared since)
    for i, op in enumerate(ops_py):
        before = _snapshot(obj)
        core_before = copy.copy(obj).atcorenums
        err = None
        old = obj
        try:
            if op[0] == "new":
                obj = IOData(**op[1])
            elif op[0] == "set":
                setattr(obj, op[1], op[2])
            else:
                v1 = getattr(obj, op[1])
                mid = _snapshot(obj)
                v2 = getattr(obj, op[1])
                same = _arr_eq(v1, v2) if isinstance(v1, np.ndarray) or isinstance(v2, np.ndarray) else (
                    (v1 is None and v2 is None) or v1 == v2)
                if not same or _snapshot(obj) != mid:
                    bad.append((f"read-not-idempotent:{op[1]}", f"step {i}: reading {op[1]} twice differs"))
        except Exception as exc:
            err = exc
            obj = old
        # --- failed assignment: TypeError and no observable changed
        if err is not None:
            if not isinstance(err, TypeError):
                bad.append((f"wrong-exception:{op[0]}:{op[1] if op[0] != 'new' else 'init'}",
                            f"step {i}: {type(err).__name__} instead of TypeError"))
            if _snapshot(obj) != before:
                bad.append((f"failed-set-changed-state:{op[1] if op[0] != 'new' else 'init'}",
                            f"step {i}: rejected {op[0]} {op[1] if op[0] != 'new' else ''} changed an observable"))
        else:
            if op[0] == "set" and op[1] in SCALARS:
                got = getattr(copy.copy(obj), op[1])
                ac = copy.copy(obj).atcorenums
                tol = 4 * EPS * _scale(op[2], ac.sum() if ac is not None else None,
                                       copy.copy(obj).nelec) if op[1] == "charge" else 0.0
                if not _eq(got, op[2], tol):
                    bad.append((f"set-does-not-read-back:{op[1]}", f"step {i}: assigned {op[2]!r}, reads {got!r}"))
                if not _arr_eq(core_before, copy.copy(obj).atcorenums):
                    bad.append((f"set-changed-core:{op[1]}", f"step {i}: assigning {op[1]} changed atcorenums"))
            if op[0] == "set" and _wrong_dims(op[1], op[2]):
                bad.append((f"wrong-dimensionality-accepted:{op[1]}",
                            f"step {i}: {op[1]} = value of {np.ndim(op[2])} dimension(s) was accepted"))
                return bad
            if op[0] == "set" and op[1] == "atcorenums":
                explicit = op[2] is not None
            if op[0] == "new":
                explicit = op[1].get("atcorenums") is not None
        # --- state predicates
        c = copy.copy(obj)
        ac, ne = c.atcorenums, c.nelec
        ch = copy.copy(obj).charge
        if ac is not None and ne is not None:
            exp = ac.sum() - ne
            if ch is None or abs(ch - exp) > 4 * EPS * _scale(ac.sum(), ne):
                bad.append(("charge-not-difference", f"step {i}: charge {ch!r} != sum(atcorenums) - nelec = {exp!r}"))
        if not explicit:
            exp = None if obj.atnums is None else obj.atnums.astype(float)
            if not _arr_eq(copy.copy(obj).atcorenums, exp):
                bad.append(("core-default:stale-after-atnums-reassign" if ac is not None else "core-default:missing",
                            f"step {i}: atcorenums {ac!r} although never assigned; atnums {obj.atnums!r}"))
        if obj.mo is not None:
            if not _eq(copy.copy(obj).nelec, obj.mo.nelec, 0) or not _eq(copy.copy(obj).spinpol, obj.mo.spinpol, 0):
                bad.append(("mo-rules:value", f"step {i}: nelec/spinpol differ from the orbitals'"))
            for nm in ("nelec", "spinpol"):
                probe = copy.copy(obj)
                try:
                    setattr(probe, nm, 1.0)
                    bad.append((f"mo-rules:set-{nm}-accepted", f"step {i}: assigning {nm} with orbitals present succeeded"))
                except TypeError:
                    pass
                except Exception as exc:
                    bad.append((f"mo-rules:set-{nm}-wrong-exception", f"step {i}: {type(exc).__name__}"))
        lens = {nm: len(getattr(obj, nm)) for nm in ("atcoords", "_atcorenums", "atgradient", "atfrozen", "atmasses", "atnums")
                if getattr(obj, nm) is not None}
        if len(set(lens.values())) > 1 or (lens and obj.natom != next(iter(lens.values()))) or (not lens and obj.natom is not None):
            bad.append(("natom-disagree", f"step {i}: lengths {lens}, natom {obj.natom}"))
    return bad


NONDYADIC = [0.1, 0.3, -0.7, 1.1, 2.2, 6.9, 1e-3, 1.0 / 3.0]


NDIM = {"atnums": 1, "atcorenums": 1, "atmasses": 1, "atfrozen": 1, "atcoords": 2, "atgradient": 2}


def _wrong_dims(name, value):
    """a value whose number of dimensions is not the field's (scalars, 0-d arrays, flat coordinates, nested rows)"""
    if name not in NDIM or value is None:
        return False
    return np.ndim(value) != NDIM[name]


def _search_value(rng, name):
    if name in NDIM and rng.random() < 0.08:
        # wrong dimensionality: must be refused like a wrong length
        n = rng.randint(1, 3)
        return rng.choice([np.float64(8.0), 8, np.array(8.0), np.ones(n) if NDIM[name] == 2 else np.ones((n, 3)),
                           np.ones((n, 3, 1)) if NDIM[name] == 2 else np.ones((n, 1))])
    v = rand_value(rng, name)
    if name in SCALARS and rng.random() < 0.3:
        return rng.choice(NONDYADIC)
    if name == "atcorenums" and v is not None and rng.random() < 0.3:
        return np.array([rng.choice(NONDYADIC + [1.0, 6.0]) for _ in v])
    return to_py(name, v)


def _search_seq(rng, maxlen):
    ops = []
    for _ in range(rng.randint(1, maxlen)):
        r = rng.random()
        if r < 0.12:
            names = [n for n in ALL_NAMES if rng.random() < 0.3]
            ops.append(("new", {n: _search_value(rng, n) for n in names}))
        elif r < 0.3:
            ops.append(("get", rng.choice(READS)))
        else:
            name = rng.choice(ALL_NAMES)
            ops.append(("set", name, _search_value(rng, name)))
    return ops


def _jsonable(ops):
    def j(v):
        if isinstance(v, np.ndarray):
            return {"array": v.tolist(), "dtype": str(v.dtype)}
        if isinstance(v, np.generic):
            return v.item()
        if v is None or isinstance(v, (int, float)):
            return v
        for k, m in mo_table().items():
            if v is m:
                return {"mo": k}
        return repr(v)

    out = []
    for op in ops:
        if op[0] == "new":
            out.append(["new", {k: j(v) for k, v in op[1].items()}])
        elif op[0] == "set":
            out.append(["set", op[1], j(op[2])])
        else:
            out.append(["get", op[1]])
    return out


def _unjson(ops):
    def u(v):
        if isinstance(v, dict) and "array" in v:
            return np.array(v["array"], dtype=v["dtype"])
        if isinstance(v, dict) and "mo" in v:
            return mo_table()[v["mo"]]
        return v

    out = []
    for op in ops:
        if op[0] == "new":
            out.append(("new", {k: u(v) for k, v in op[1].items()}))
        elif op[0] == "set":
            out.append(("set", op[1], u(op[2])))
        else:
            out.append(("get", op[1]))
    return out


def _search_work(ops):
    try:
        return check_history(ops)
    except Exception as exc:  # a getter or a predicate evaluation raised on the real object
        return [("getter-raised:" + type(exc).__name__, f"evaluating the observables raised {type(exc).__name__}: {exc}")]


def search(ctx):
    rng = ctx.rng
    mo_table()
    n = ctx.n(4000, 80000) * (4 if ctx.escalated else 1)
    seqs = [_search_seq(rng, ctx.n(12, 30)) for _ in range(n)]
    # the exhaustive depth-3 alphabet, too (real values)
    if ctx.escalated or ctx.thorough:
        full = alphabet_full()
        for t in itertools.product(full, repeat=3):
            seqs.append([(op[0], {k: to_py(k, v) for k, v in op[1].items()}) if op[0] == "new"
                         else (op[0], op[1], to_py(op[1], op[2])) if op[0] == "set" else op for op in t])
    with mp.get_context("fork").Pool(min(14, mp.cpu_count())) as pool:
        results = pool.map(_search_work, seqs, chunksize=200)
    for ops, bad in zip(seqs, results):
        kinds = sorted({b[0] for b in bad})
        ctx.count("history", _jsonable(ops), "ok" if not bad else "+".join(kinds), nontrivial=len(ops) > 1,
                  sample=_jsonable(ops)[:4])
        seen = set()
        for sig, what in bad:
            if sig not in seen:
                seen.add(sig)
                ctx.fail(sig, what, {"ops": _jsonable(ops)})


def replay(ctx, obj):
    ops = _unjson(obj["input"]["ops"])
    bad = _search_work(ops)
    return any(sig == obj.get("signature") for sig, _ in bad) if obj.get("signature") else bool(bad)
