"""C04 — every physical quantity is in atomic units, consistently across formats."""

from __future__ import annotations

import copy
import os
import re
import shutil
import tempfile
import warnings
from fractions import Fraction

import numpy as np

from ..engine import LEAN, REPO, lean_str

MODULES = ["Iodata.Props.C04"]
RULE = (
    "probe rows: for every (format, quantity) line of the hand-written spec (lean/Iodata/Model/Units.lean) a reader is "
    "probed by changing ONE digit of ONE printed number of a tiny generated file or corpus fixture and observing which "
    "attribute element moves (row = exact file delta, exact attribute delta), a writer by changing one attribute element "
    "and diffing the printed tokens (row = attribute delta, printed delta, print quantum); translator rows use the "
    "first tokens, the correspondence uses fresh random tokens/digits per seed; search: the same rows against CODATA "
    "numbers typed in Python, two-format round trips (writer A -> reader A -> writer B -> reader B) of random "
    "molecules/cells/masses, and atomic-mass plausibility of every fixture that carries masses. non-trivial = the "
    "perturbed token moved exactly the probed attribute"
)
TRUSTED = [
    "the token-perturbation prober (regex for decimal tokens, temp files, attribute getters) in harness/vh/props/c04.py",
    "CODATA 2018/2022 digits typed in lean/Iodata/Model/Units.lean (and repeated in c04.py for the search)",
    "the spec table (format, quantity -> prescribed unit) is hand-written from the format documentation",
]
ASSUMPTIONS = [
    "a reader/writer is linear in the probed number (checked: the measured factor is the same for 2-4 tokens)",
    "formats and quantities not listed in the spec table are not covered (mwfn/molekel/molden energies, FCIDUMP, log-file extras other than Q-Chem vib_energy)",
    "known rows (GAMESS/Q-Chem/QCSchema masses in amu, Q-Chem multipoles in Debye) are excluded from units_table_partial and reported as KNOWN-FINDING",
]
TIME_LIMIT = {"quick": 900, "thorough": 3600}

DATA = REPO / "iodata" / "test" / "data"
NUM_RE = re.compile(r"(?<![A-Za-z0-9_.+\-])[-+]?(?:\d+\.\d*|\.\d+)(?:[eEdD][-+]?\d+)?(?![A-Za-z0-9_.])")
KNOWN = {("gamess", "atmasses"), ("qchemlog", "atmasses"), ("json", "atmasses"), ("qchemlog", "dipole"), ("qchemlog", "quadrupole")}


# ------------------------------------------------------------------ spec (single source: the Lean file)
def read_spec():
    txt = (LEAN / "Iodata" / "Model" / "Units.lean").read_text()
    body = txt.split("-- SPEC-BEGIN", 1)[1].split("-- SPEC-END", 1)[0]
    rows = re.findall(r'\("([^"]+)",\s*"([^"]+)",\s*"([^"]+)"\)', body)
    return {(f, q): u for f, q, u in rows}


def py_units():
    """CODATA 2022 typed independently (NIST): value of each unit in atomic units, as Fractions."""
    F = Fraction
    c, h, e, nA = F(299792458), F("6.62607015e-34"), F("1.602176634e-19"), F("6.02214076e23")
    a0, me, eh = F("5.29177210544e-11"), F("9.1093837139e-31"), F("4.3597447222060e-18")
    pi = F("3.141592653589793238462643383279")
    sec = 2 * pi * eh / h
    cal = F("4.184")
    debye = F("1e-21") / (c * e * a0)
    return {
        "au": F(1), "angstrom": F("1e-10") / a0, "meter": 1 / a0, "nanometer": F("1e-9") / a0, "electronvolt": e / eh,
        "second": sec, "picosecond": F("1e-12") * sec, "nm/ps": (F("1e-9") / a0) / (F("1e-12") * sec),
        "amu": F("1e-3") / (nA * me), "kcalmol": 1000 * cal / (nA * eh), "calmol": cal / (nA * eh), "kjmol": 1000 / (nA * eh),
        "debye": debye, "debye-angstrom": debye * F("1e-10") / a0, "passthrough": F(1), "minus-passthrough": F(-1),
        "per-1000-cubic-angstrom": 1 / (1000 * (F("1e-10") / a0) ** 3),
    }


# ------------------------------------------------------------------ loading helpers
_TMP = None


def _tmpdir():
    global _TMP
    if _TMP is None or not os.path.isdir(_TMP):
        _TMP = tempfile.mkdtemp(prefix="vh_c04_")
    return _TMP


def _load_text(fmt, text, name):
    from iodata import load_many, load_one

    path = os.path.join(_tmpdir(), name)
    with open(path, "w") as fh:
        fh.write(text)
    with warnings.catch_warnings():
        warnings.simplefilter("ignore")
        if fmt == "gromacs":
            return next(iter(load_many(path, fmt=fmt)))
        return load_one(path, fmt=fmt)


def _dump_text(fmt, obj, name):
    from iodata import dump_one
    from iodata.api import write_input

    path = os.path.join(_tmpdir(), name)
    with warnings.catch_warnings():
        warnings.simplefilter("ignore")
        if fmt.endswith("-input-writer"):
            write_input(obj, path, fmt=fmt.split("-")[0])
        else:
            dump_one(obj, path, fmt=fmt, allow_changes=True)
    with open(path) as fh:
        return fh.read()


def _tok_fraction(tok):
    return Fraction(tok.replace("D", "E").replace("d", "e"))


def _tok_quantum(tok):
    """size of one unit in the last printed place"""
    t = tok.replace("D", "E").replace("d", "e").upper()
    mant, _, ex = t.partition("E")
    nd = len(mant.split(".")[1]) if "." in mant else 0
    return Fraction(10) ** (int(ex or 0) - nd)


def _perturb(tok, rng, digit=None):
    """change one fractional digit of a decimal token (same width); returns the new token or None"""
    m = re.match(r"([-+]?)(\d*)\.(\d*)(.*)", tok)
    if not m or not m.group(3):
        return None
    sign, ip, fp, rest = m.groups()
    k = rng.randrange(min(len(fp), 3)) if rng is not None else 0
    if digit == "last":
        k = len(fp) - 1
    d = int(fp[k])
    nd = d + 1 if d < 9 else d - 1
    if rng is not None and d < 7:
        nd = d + rng.randint(1, 2)
    return f"{sign}{ip}.{fp[:k]}{nd}{fp[k + 1:]}{rest}"


def _candidates(text, after=None, line=None, span=None, which=0):
    """(start, end, token) of decimal tokens in the selected lines"""
    lines = text.split("\n")
    sel = set(range(len(lines)))
    if after is not None:
        rx, n = after
        idx = [i for i, l in enumerate(lines) if re.search(rx, l)]
        sel = set()
        if idx:
            sel = set(range(idx[which] + 1, min(len(lines), idx[which] + 1 + n)))
    if line is not None:
        sel = {i for i in sel if re.search(line, lines[i])}
    if span is not None:
        sel = {i for i in sel if span[0] <= i < span[1]}
    out = []
    pos = 0
    for i, l in enumerate(lines):
        if i in sel:
            for m in NUM_RE.finditer(l):
                out.append((pos + m.start(), pos + m.end(), m.group(0)))
        pos += len(l) + 1
    return out


def _flat(x):
    a = np.asarray(x)
    return a.astype(float).ravel(), (a.dtype == np.float32)


def probe_load(p, rng=None, nrows=3):
    """rows (a, b, slack, note) for a load probe description `p`"""
    text = p["text"]() if callable(p.get("text")) else (DATA / p["file"]).read_text()
    name = p.get("name", p.get("file", "probe." + p["iofmt"]))
    base, f32 = _flat(p["get"](_load_text(p["iofmt"], text, name)))
    cands = _candidates(text, p.get("after"), p.get("line"), p.get("span"), p.get("which", 0))
    f32 = f32 or p.get("f32", False)
    if rng is not None:
        cands = list(cands)
        rng.shuffle(cands)
    rows, seen, tried = [], set(), 0
    for s, e, tok in cands:
        if tried >= p.get("max_try", 60) or len(rows) >= p.get("nrows", nrows):
            break
        new = _perturb(tok, rng, p.get("digit"))
        if new is None:
            continue
        tried += 1
        try:
            arr, _ = _flat(p["get"](_load_text(p["iofmt"], text[:s] + new + text[e:], name)))
        except Exception:  # noqa: BLE001
            continue
        if arr.shape != base.shape:
            continue
        moved = np.nonzero(arr != base)[0]
        if len(moved) == 0 or len(moved) > p.get("max_moved", 1):
            continue
        k = int(moved[0])
        if k in seen and rng is None:
            continue
        seen.add(k)
        a = _tok_fraction(new) - _tok_fraction(tok)
        b = Fraction(float(arr[k])) - Fraction(float(base[k]))
        slack = Fraction(0)
        if f32:
            slack = Fraction(2.0 ** -22) * Fraction(abs(float(arr[k])) + abs(float(base[k])))
        rows.append((a, b, slack, f"{tok}->{new} moved [{k}]"))
    return rows


def probe_dump(p, rng=None, nrows=2):
    obj0 = p["obj"]()
    name = p.get("name", "probe_out." + p["iofmt"])
    text0 = _dump_text(p["iofmt"], obj0, name)
    rows = []
    n = p.get("nelem", 3)
    idxs = list(range(n))
    if rng is not None:
        rng.shuffle(idxs)
    for k in idxs[:nrows]:
        obj1 = p["obj"]()
        delta = p.get("delta", 100.0) * (1.0 if rng is None else rng.choice([1.0, 0.5, 0.25, -1.0]))
        before, after = p["set"](obj1, k, delta)
        text1 = _dump_text(p["iofmt"], obj1, name)
        t0 = [m.group(0) for m in NUM_RE.finditer(text0)]
        t1 = [m.group(0) for m in NUM_RE.finditer(text1)]
        if len(t0) != len(t1):
            raise ValueError(f"dump probe {p['fmt']}/{p['qty']}: token count changed")
        diff = [(x, y) for x, y in zip(t0, t1) if x != y]
        if not diff:
            raise ValueError(f"dump probe {p['fmt']}/{p['qty']}: no printed number moved")
        if len(diff) > p.get("max_moved", 1):
            raise ValueError(f"dump probe {p['fmt']}/{p['qty']}: {len(diff)} printed numbers moved: {diff[:4]}")
        a = Fraction(float(after)) - Fraction(float(before))
        for x, y in (diff[:1] if p.get("first_only") else diff):
            b = _tok_fraction(y) - _tok_fraction(x)
            slack = (_tok_quantum(x) + _tok_quantum(y)) / 2
            if p.get("exact"):  # shortest round-trip repr: the token IS the double
                slack = (abs(_tok_fraction(x)) + abs(_tok_fraction(y))) * Fraction(1, 2 ** 52)
            rows.append((a, b, slack, f"[{k}] {x}->{y}"))
        # the writer converts *from* the object: writing the same object again (attribute delta 0) prints the same
        # numbers — a writer that rescales the caller's arrays in place changes every later output by a unit factor
        t2 = [m.group(0) for m in NUM_RE.finditer(_dump_text(p["iofmt"], obj1, name))]
        moved = [(x, y) for x, y in zip(t1, t2) if x != y] if len(t1) == len(t2) else [(t1[0], "0")]
        x, y = moved[0] if moved else (diff[0][1], diff[0][1])
        rows.append((Fraction(0), _tok_fraction(y) - _tok_fraction(x), _tok_quantum(x) / 2, f"[{k}] second write {x}->{y}"))
    return rows


# ------------------------------------------------------------------ generated tiny files
def _xyz():
    return "3\nwater\nO  0.1250  0.2500  0.3750\nH  0.8125  0.2500  0.3750\nH  0.1250  0.9375  0.3750\n"


def _extxyz():
    return ('3\nLattice="5.5 0.25 0.0 0.0 6.5 0.125 0.0 0.0 7.5" Properties=species:S:1:pos:R:3:masses:R:1:force:R:3 energy=-7.625 pbc="T T T"\n'
            "O  0.1250  0.2500  0.3750  15.9990  0.0625  0.1875  0.3125\n"
            "H  0.8125  0.2500  0.3750   1.0080  0.4375  0.5625  0.6875\n"
            "H  0.1250  0.9375  0.3750   1.0080  0.8125  0.9375  0.0625\n")


def _pdb():
    return ("CRYST1   10.000   10.000   10.000  90.00  90.00  90.00 P 1           1\n"
            "ATOM      1  O   HOH A   1       0.125   0.250   0.375  1.00  0.00           O\n"
            "ATOM      2  H1  HOH A   1       0.812   0.250   0.375  1.00  0.00           H\n"
            "ATOM      3  H2  HOH A   1       0.125   0.937   0.375  1.00  0.00           H\n"
            "END\n")


def _gro():
    return ("water t= 1.250\n    3\n"
            "    1WATER  OW1    1   0.126   1.624   1.679  0.1227 -0.0580  0.0434\n"
            "    1WATER  HW2    2   0.190   1.661   1.747  0.8085  0.3191 -0.7791\n"
            "    1WATER  HW3    3   0.177   1.568   1.613 -0.9045 -2.6469  1.3180\n"
            "   1.82060   2.82060   3.82060   0.00000   0.00000   0.51234   0.00000   0.61234   0.71234\n")


def _gro_novel():
    """the same frame with positions only (velocity columns are optional in the format)"""
    lines = _gro().split("\n")
    return "\n".join([l[:44] if 2 <= i <= 4 else l for i, l in enumerate(lines)])


def _poscar():
    return ("probe\n   1.0\n 5.5 0.25 0.125\n 0.5 6.5 0.75\n 0.375 0.625 7.5\n   O H\n   1 2\nCartesian\n"
            " 0.125 0.250 0.375\n 0.8125 0.250 0.375\n 0.125 0.9375 0.375\n")


def _chgcar_cart():
    txt = (DATA / "CHGCAR.oxygen").read_text()
    if "\nDirect\n" not in txt:
        raise ValueError("CHGCAR.oxygen fixture changed")
    return txt.replace("\nDirect\n", "\nCartesian\n", 1)


def _gaussian_com():
    return "%chk=w.chk\n#p hf/sto-3g\n\nwater\n\n0 1\nO  0.1250  0.2500  0.3750\nH  0.8125  0.2500  0.3750\nH  0.1250  0.9375  0.3750\n\n"


def _molden(angs, style="Angs"):
    """style: how the unit is spelled on the [Atoms] line (the Molden documentation writes `(Angs)` / `(AU)`)"""
    txt = (DATA / "h_sonly_sph_cfour.molden").read_text()
    new, n = re.subn(r"\[Atoms\]\s*AU", "[Atoms] " + (style if angs else style), txt, flags=re.I)
    if n != 1:
        raise ValueError("could not set the unit of the molden probe")
    return new


def _chgcar_lefthanded():
    """CHGCAR.oxygen with two lattice vectors exchanged: a left-handed cell of the same volume"""
    lines = (DATA / "CHGCAR.oxygen").read_text().splitlines(keepends=True)
    lines[2], lines[3] = lines[3], lines[2]
    return "".join(lines)


def _gamess_single_block():
    """PCGamess_PUNCH.dat as a run with one geometry would leave it: everything before the second
    `COORDINATES OF SYMMETRY UNIQUE ATOMS` block, then the trailing `ATOMIC MASSES` part."""
    lines = (DATA / "PCGamess_PUNCH.dat").read_text().splitlines(keepends=True)
    heads = [i for i, l in enumerate(lines) if l.startswith(" COORDINATES OF SYMMETRY UNIQUE ATOMS")]
    tail = next(i for i, l in enumerate(lines) if l.startswith("ATOMIC MASSES"))
    return "".join(lines[: heads[1]] + lines[tail:]) if len(heads) > 1 else "".join(lines)


def _water():
    from iodata import load_one

    return load_one(str(DATA / "water.xyz"))


def _fchk_obj():
    from iodata import load_one

    with warnings.catch_warnings():
        warnings.simplefilter("ignore")
        return load_one(str(DATA / "water_sto3g_hf_g03.fchk"))


def _set_arr(attr, scale_to_float=True):
    def setter(obj, k, delta):
        arr = np.array(getattr(obj, attr), dtype=float, copy=True)
        flat = arr.reshape(-1)
        before = float(flat[k])
        flat[k] = before + delta
        after = float(flat[k])
        setattr(obj, attr, arr)
        return before, after
    return setter


def _set_energy(obj, k, delta):
    before = float(obj.energy)
    obj.energy = before + delta
    return before, float(obj.energy)


def _geom_obj(extra_attrs=()):
    def mk():
        o = _water()
        o.atcoords = np.array([[0.25, 0.5, 0.75], [1.5, 0.5, 0.75], [0.25, 1.75, 0.75]])
        if "atmasses" in extra_attrs:
            o.atmasses = np.array([29000.0, 1837.0, 1837.0])
        if "cellvecs" in extra_attrs:
            o.cellvecs = np.array([[10.0, 0.5, 0.25], [0.0, 12.0, 0.75], [0.0, 0.0, 14.0]])
        if "energy" in extra_attrs:
            o.energy = -7.5
        if "atgradient" in extra_attrs:
            o.atgradient = np.array([[0.125, 0.25, 0.375], [0.5, 0.625, 0.75], [0.875, 1.0, 1.125]])
        if "atcharges" in extra_attrs:
            o.atcharges = {"mol2charges": np.array([-0.8, 0.4, 0.4])}
        return o
    return mk


def _cube_obj():
    from iodata import load_one

    return load_one(str(DATA / "cubegen_h2o_5points.cube"))


def _set_cube(field):
    def setter(obj, k, delta):
        import attrs

        arr = np.array(getattr(obj.cube, field), dtype=float, copy=True)
        flat = arr.reshape(-1)
        before = float(flat[k])
        flat[k] = before + delta
        obj.cube = attrs.evolve(obj.cube, **{field: arr})
        return before, float(flat[k])
    return setter


def _json_text():
    import json

    d = json.loads((DATA / "water_full.json").read_text())
    d.pop("mass_numbers", None)  # with both keys the reader keeps `masses` only in extra
    if "masses" not in d:
        raise ValueError("water_full.json fixture lost its masses")
    return json.dumps(d, indent=1)


def _json_obj():
    return _load_text("json_qcschema", _json_text(), "src.json")


def load_probes():
    g_coords = lambda d: d.atcoords  # noqa: E731
    g_mass = lambda d: d.atmasses  # noqa: E731
    g_cell = lambda d: d.cellvecs  # noqa: E731
    g_energy = lambda d: [d.energy]  # noqa: E731
    g_grad = lambda d: d.atgradient  # noqa: E731
    g_dip = lambda d: d.moments[(1, "c")]  # noqa: E731
    P = []

    def add(fmt, qty, iofmt, get, **kw):
        P.append(dict(fmt=fmt, qty=qty, iofmt=iofmt, get=get, **kw))

    add("xyz", "atcoords", "xyz", g_coords, text=_xyz, name="p.xyz")
    add("extxyz", "atcoords", "extxyz", g_coords, text=_extxyz, name="p.extxyz", span=(2, 9))
    add("extxyz", "atmasses", "extxyz", g_mass, text=_extxyz, name="p.extxyz", span=(2, 9))
    add("extxyz", "cellvecs", "extxyz", g_cell, text=_extxyz, name="p.extxyz", span=(1, 2))
    add("extxyz", "energy", "extxyz", g_energy, text=_extxyz, name="p.extxyz", span=(1, 2))
    add("extxyz", "atgradient", "extxyz", g_grad, text=_extxyz, name="p.extxyz", span=(2, 9))
    add("pdb", "atcoords", "pdb", g_coords, text=_pdb, name="p.pdb", line="^ATOM")
    add("mol2", "atcoords", "mol2", g_coords, file="water.mol2", after=(r"@<TRIPOS>ATOM", 3))
    add("sdf", "atcoords", "sdf", g_coords, file="formamide.sdf", span=(4, 8))
    add("poscar", "atcoords", "poscar", g_coords, text=_poscar, name="POSCAR.p", span=(8, 12))
    add("poscar", "cellvecs", "poscar", g_cell, text=_poscar, name="POSCAR.p", span=(2, 5), max_moved=1)
    add("chgcar", "atcoords", "chgcar", g_coords, text=_chgcar_cart, name="CHGCAR.p", span=(7, 12))
    add("poscar-kartesian", "atcoords", "poscar", g_coords, text=lambda: _poscar().replace("\nCartesian\n", "\nKartesian\n"),
        name="POSCAR.p", span=(8, 12))
    add("chgcar-kartesian", "atcoords", "chgcar", g_coords, text=lambda: _chgcar_cart().replace("\nCartesian\n", "\nkartesian\n", 1),
        name="CHGCAR.p", span=(7, 12))
    add("chgcar", "cube.data", "chgcar", lambda d: d.cube.data, file="CHGCAR.oxygen", name="CHGCAR.p", span=(11, 13))
    add("chgcar", "cellvecs", "chgcar", g_cell, file="CHGCAR.oxygen", name="CHGCAR.p", span=(2, 5))
    add("chgcar-lefthanded", "cube.data", "chgcar", lambda d: d.cube.data, text=_chgcar_lefthanded, name="CHGCAR.p", span=(11, 13))
    add("locpot", "cellvecs", "locpot", g_cell, file="LOCPOT.oxygen", name="LOCPOT.p", span=(2, 5))
    add("locpot", "cube.data", "locpot", lambda d: d.cube.data, file="LOCPOT.oxygen", name="LOCPOT.p", span=(10, 14))
    add("gromacs", "atcoords", "gromacs", g_coords, text=_gro, name="p.gro", span=(2, 5))
    add("gromacs-novel", "atcoords", "gromacs", g_coords, text=_gro_novel, name="p.gro", span=(2, 5))
    add("gromacs", "velocities", "gromacs", lambda d: d.extra["velocities"], text=_gro, name="p.gro", span=(2, 5))
    add("gromacs", "cellvecs", "gromacs", g_cell, text=_gro, name="p.gro", span=(5, 6), nrows=9)
    add("gromacs", "time", "gromacs", lambda d: [d.extra["time"]], text=_gro, name="p.gro", span=(0, 1))
    add("cube", "atcoords", "cube", g_coords, file="cubegen_h2o_5points.cube", span=(6, 9))
    add("cube", "cube.origin", "cube", lambda d: d.cube.origin, file="cubegen_h2o_5points.cube", span=(2, 3))
    add("cube", "cube.axes", "cube", lambda d: d.cube.axes, file="cubegen_h2o_5points.cube", span=(3, 6))
    add("cube", "cube.data", "cube", lambda d: d.cube.data, file="cubegen_h2o_5points.cube", span=(9, 12))
    add("fchk", "atcoords", "fchk", g_coords, file="water_sto3g_hf_g03.fchk", after=(r"^Current cartesian coordinates", 2))
    add("fchk", "atmasses", "fchk", g_mass, file="water_sto3g_hf_g03.fchk", after=(r"^Real atomic weights", 1))
    add("fchk", "energy", "fchk", g_energy, file="water_sto3g_hf_g03.fchk", line=r"^Total Energy")
    add("fchk", "atgradient", "fchk", g_grad, file="water_sto3g_hf_g03.fchk", after=(r"^Cartesian Gradient", 2))
    add("fchk", "dipole", "fchk", g_dip, file="water_sto3g_hf_g03.fchk", after=(r"^Dipole Moment", 1))
    add("charmm", "atcoords", "charmm", g_coords, file="crambin.crd", span=(6, 9), max_moved=1, f32=True)
    add("charmm", "atmasses", "charmm", g_mass, file="crambin.crd", span=(6, 9), max_moved=1)
    add("molden", "atcoords", "molden", g_coords, text=lambda: _molden(False, "AU"), name="p.molden", after=(r"(?i)\[Atoms\]", 1))
    add("molden-angs", "atcoords", "molden", g_coords, text=lambda: _molden(True, "Angs"), name="p.molden", after=(r"(?i)\[Atoms\]", 1))
    # the spellings of the Molden format description and of other programs
    add("molden-paren-au", "atcoords", "molden", g_coords, text=lambda: _molden(False, "(AU)"), name="p.molden", after=(r"(?i)\[Atoms\]", 1))
    add("molden-paren-angs", "atcoords", "molden", g_coords, text=lambda: _molden(True, "(Angs)"), name="p.molden", after=(r"(?i)\[Atoms\]", 1))
    add("molden-upper-angs", "atcoords", "molden", g_coords, text=lambda: _molden(True, "ANGS"), name="p.molden", after=(r"(?i)\[Atoms\]", 1))
    add("molekel", "atcoords", "molekel", g_coords, file="h2_sto3g.mkl", after=(r"^\$COORD", 2), digit="last")
    add("mwfn", "atcoords", "mwfn", g_coords, file="ch3_hf_sto3g_fchk_multiwfn3.7.mwfn", after=(r"^\$Centers", 2))
    add("wfn", "atcoords", "wfn", g_coords, file="h2o_sto3g.wfn", span=(2, 5))
    add("wfn", "energy", "wfn", g_energy, file="h2o_sto3g.wfn", line=r"ENERGY\s*=.*VIRIAL|THE\s+.*ENERGY")
    add("wfx", "atcoords", "wfx", g_coords, file="water_sto3g_hf.wfx", after=(r"<Nuclear Cartesian Coordinates>", 3))
    add("wfx", "energy", "wfx", g_energy, file="water_sto3g_hf.wfx", after=(r"<Energy = T \+ Vne \+ Vee \+ Vnn>", 1))
    add("wfx", "atgradient", "wfx", g_grad, file="water_sto3g_hf.wfx", after=(r"<Nuclear Cartesian Energy Gradients>", 3))
    add("gaussianinput", "atcoords", "gaussianinput", g_coords, text=_gaussian_com, name="p.com", span=(6, 9))
    add("gaussianinput-units-ang", "atcoords", "gaussianinput", g_coords,
        text=lambda: _gaussian_com().replace("#p hf/sto-3g", "#p HF/aug-cc-pVDZ Units=(Ang,Deg) SCF=Tight"), name="p.com", span=(6, 9))
    add("json", "atcoords", "json_qcschema", g_coords, text=_json_text, name="p.json", after=(r'"geometry"', 10))
    add("json", "atmasses", "json_qcschema", g_mass, text=_json_text, name="p.json", after=(r'"masses"', 4))
    add("gamess", "atcoords", "gamess", g_coords, file="PCGamess_PUNCH.dat", after=(r"^ COORDINATES OF SYMMETRY UNIQUE ATOMS \(ANGS\)", 4), which=-1)
    add("gamess-single-block", "atcoords", "gamess", g_coords, text=_gamess_single_block, name="single.dat",
        after=(r"^ COORDINATES OF SYMMETRY UNIQUE ATOMS \(ANGS\)", 4))
    add("gamess", "energy", "gamess", g_energy, file="PCGamess_PUNCH.dat", after=(r"^ \$GRAD", 1), which=-1)
    add("gamess", "atgradient", "gamess", g_grad, file="PCGamess_PUNCH.dat", after=(r"^E=", 3), which=-1)
    add("gamess", "atmasses", "gamess", g_mass, file="PCGamess_PUNCH.dat", after=(r"^ATOMIC MASSES", 2))
    q = "water_hf_ccpvtz_freq_qchem.out"
    add("qchemlog", "atcoords", "qchemlog", g_coords, file=q, after=(r"Standard Nuclear Orientation \(Angstroms\)", 5))
    add("qchemlog", "energy", "qchemlog", g_energy, file=q, line=r"Total energy in the final basis set")
    add("qchemlog", "atmasses", "qchemlog", g_mass, file=q, line=r"Has Mass")
    add("qchemlog", "dipole", "qchemlog", g_dip, file=q, after=(r"Dipole Moment \(Debye\)", 1), max_moved=1, digit="last")
    add("qchemlog", "quadrupole", "qchemlog", lambda d: d.moments[(2, "c")], file=q, after=(r"Quadrupole Moments \(Debye-Ang\)", 2))
    add("qchemlog", "vib_energy", "qchemlog", lambda d: [d.extra["vib_energy"]], file=q, line=r"Zero point vibrational energy")
    add("orcalog", "atcoords", "orcalog", g_coords, file="water_orca.out", after=(r"^CARTESIAN COORDINATES \(A\.U\.\)", 5))
    add("orcalog", "energy", "orcalog", g_energy, file="water_orca.out", line=r"^FINAL SINGLE POINT ENERGY")
    add("orcalog", "dipole", "orcalog", g_dip, file="water_orca.out", line=r"^Total Dipole Moment")
    add("cp2klog", "energy", "cp2klog", g_energy, file="atom_si.cp2k.out", line=r"Total energy|Total Energy|Energy")
    return P


def dump_probes():
    P = []

    def add(fmt, qty, iofmt, obj, setter, **kw):
        P.append(dict(fmt=fmt, qty=qty, iofmt=iofmt, obj=obj, set=setter, **kw))

    sc = _set_arr("atcoords")
    add("xyz", "atcoords", "xyz", _geom_obj(), sc, name="o.xyz")
    add("pdb", "atcoords", "pdb", _geom_obj(), sc, name="o.pdb", delta=1000.0)
    add("mol2", "atcoords", "mol2", _geom_obj(("atcharges",)), sc, name="o.mol2")
    add("sdf", "atcoords", "sdf", _geom_obj(), sc, name="o.sdf")
    add("poscar", "cellvecs", "poscar", _geom_obj(("cellvecs",)), _set_arr("cellvecs"), name="POSCAR.o", max_moved=12, first_only=True)
    add("cube", "atcoords", "cube", _cube_obj, sc, name="o.cube", delta=1.0)
    add("cube", "cube.origin", "cube", _cube_obj, _set_cube("origin"), name="o.cube", delta=1.0)
    add("cube", "cube.axes", "cube", _cube_obj, _set_cube("axes"), name="o.cube", delta=1.0)
    add("cube", "cube.data", "cube", _cube_obj, _set_cube("data"), name="o.cube", delta=0.5)
    add("fchk", "atcoords", "fchk", _fchk_obj, sc, name="o.fchk", delta=1.0, max_moved=4)
    add("fchk", "atmasses", "fchk", _fchk_obj, _set_arr("atmasses"), name="o.fchk", delta=18000.0)
    add("fchk", "energy", "fchk", _fchk_obj, _set_energy, name="o.fchk", nelem=1, delta=1.5, max_moved=3)
    add("molden", "atcoords", "molden", _fchk_obj, sc, name="o.molden", delta=1.0)
    add("molekel", "atcoords", "molekel", _fchk_obj, sc, name="o.mkl", delta=1.0)
    add("wfn", "atcoords", "wfn", _fchk_obj, sc, name="o.wfn", delta=1.0)
    add("wfn", "energy", "wfn", _fchk_obj, _set_energy, name="o.wfn", nelem=1, delta=1.5)
    add("wfx", "atcoords", "wfx", _fchk_obj, sc, name="o.wfx", delta=1.0)
    add("wfx", "energy", "wfx", _fchk_obj, _set_energy, name="o.wfx", nelem=1, delta=1.5)
    add("gaussian-input-writer", "atcoords", "gaussian-input-writer", _geom_obj(), sc, name="o.com")
    add("orca-input-writer", "atcoords", "orca-input-writer", _geom_obj(), sc, name="o.inp")
    add("json", "atcoords", "json_qcschema", _json_obj, sc, name="o.json", delta=1.0, exact=True)
    add("json", "atmasses", "json_qcschema", _json_obj, _set_arr("atmasses"), name="o.json", delta=4.0, exact=True)
    return P


def run_probes(rng=None, nrows_load=3, nrows_dump=2, strict=True):
    """All rows: (fmt, qty, dir, a, b, slack, note)."""
    rows, problems = [], []
    for p in load_probes():
        try:
            r = probe_load(p, rng, nrows_load)
        except Exception as exc:  # noqa: BLE001
            r = []
            problems.append(f"load probe {p['fmt']}/{p['qty']}: {type(exc).__name__}: {exc}")
        if not r:
            problems.append(f"load probe {p['fmt']}/{p['qty']}: no token moves the attribute")
        rows += [(p["fmt"], p["qty"], "load", *x) for x in r]
    for p in dump_probes():
        try:
            r = probe_dump(p, rng, nrows_dump)
        except Exception as exc:  # noqa: BLE001
            r = []
            problems.append(f"dump probe {p['fmt']}/{p['qty']}: {type(exc).__name__}: {exc}")
        rows += [(p["fmt"], p["qty"], "redump" if "second write" in x[3] else "dump", *x) for x in r]
    if _TMP:
        shutil.rmtree(_TMP, ignore_errors=True)
    if strict and problems:
        raise ValueError("; ".join(problems[:6]))
    return rows, problems


# ------------------------------------------------------------------ T1
def _lrat(fr):
    fr = Fraction(fr)
    n, d = fr.numerator, fr.denominator
    s = f"({n} : Rat)" if n >= 0 else f"(({n}) : Rat)"
    return s if d == 1 else f"({s} / {d})"


CONST_NAMES = ["angstrom", "electronvolt", "meter", "nanometer", "second", "picosecond", "amu", "kcalmol", "calmol", "kjmol"]


def translate(ctx):
    import iodata.utils as u

    body = ["import Iodata.Model.Units", "namespace Iodata.Gen.Units", "open Iodata.Units", ""]
    consts = []
    for n in CONST_NAMES:
        v = getattr(u, n)
        if not isinstance(v, float):
            raise ValueError(f"iodata.utils.{n} is not a float")
        consts.append(f'  ({lean_str(n)}, {_lrat(Fraction(v))})')
    extra = sorted(k for k, v in vars(u).items() if isinstance(v, float) and not k.startswith("_") and k not in CONST_NAMES)
    body.append("/-- the float constants of iodata/utils.py (exact values of the doubles) -/")
    body.append("def constants : List (String × Rat) := [\n" + ",\n".join(consts) + "]\n")
    body.append("/-- other module-level floats of utils.py (must be empty: every constant needs a reference value) -/")
    body.append("def otherFloatNames : List String := [" + ", ".join(lean_str(k) for k in extra) + "]\n")
    rows, _ = run_probes(None)
    ctx._c04_rows = rows
    lines = []
    for fmt, qty, d, a, b, slack, note in rows:
        lines.append(f"  ⟨{lean_str(fmt)}, {lean_str(qty)}, {lean_str(d)}, {_lrat(a)}, {_lrat(b)}, {_lrat(slack)}⟩")
    body.append("/-- probe table: see harness/vh/props/c04.py -/")
    body.append("def rows : List Row := [\n" + ",\n".join(lines) + "]\n")
    body.append("end Iodata.Gen.Units\n")
    ctx.gen_write("Units", "\n".join(body))


# ------------------------------------------------------------------ T2
def _enc(fr):
    fr = Fraction(fr)
    return f"{fr.numerator}/{fr.denominator}"


def correspond(ctx):
    import iodata.utils as u

    # (a) the model's CODATA-derived unit values vs the library's constants
    reqs = [f"unitval {n}" for n in CONST_NAMES]
    out = ctx.driver(reqs)
    for n, rq, line in zip(CONST_NAMES, reqs, out):
        ok = False
        if line.startswith("ok "):
            v18, v22 = (Fraction(x) for x in line.split()[1:3])
            x = Fraction(getattr(u, n))
            ok = abs(x - v18) <= Fraction(1, 10 ** 8) * v18 and abs(x - v22) <= Fraction(1, 10 ** 8) * v22
        ctx.evaluations += 1
        ctx.streams["unitval"] += 1
        ctx.hist["unitval:" + n] += 1
        ctx.distinct.add("unitval" + n)
        if not ok:
            ctx.mismatches.append({"stream": "unitval", "request": rq, "impl": repr(getattr(u, n)), "model": line[:200]})
    # (b) fresh random probes judged by the Lean model: every row must be accepted, except the known rows
    rows, problems = run_probes(ctx.rng, nrows_load=ctx.n(3, 10), nrows_dump=ctx.n(2, 4), strict=False)
    for pr in problems:
        ctx.notes.append(pr)
    reqs, impl, cls = [], [], []
    for fmt, qty, d, a, b, slack, note in rows:
        reqs.append(f"unitrow {fmt} {qty} {d} {_enc(a)} {_enc(b)} {_enc(slack)}")
        impl.append("bad" if (fmt, qty) in KNOWN and d != "redump" else "ok")
        cls.append(f"{fmt}/{qty}/{d}")
    ctx.corr("unitrow", reqs, impl, None, cls)
    ctx.extra_cov["probe_problems"] = problems[:10]


# ------------------------------------------------------------------ S
def _row_ok_py(spec, units, fmt, qty, d, a, b, slack):
    u = spec.get((fmt, qty))
    if u is None:
        return None
    c = units[u]
    if d == "redump":
        return a == 0 and abs(b) <= slack
    if d == "load":
        return abs(b - a * c) <= Fraction(1, 10 ** 8) * abs(a * c) + slack
    return abs(b * c - a) <= Fraction(1, 10 ** 8) * abs(a) + slack * abs(c)


def _standard_masses():
    """standard atomic weights (u), typed from the IUPAC 2013 table for the elements in the fixtures"""
    return {1: 1.008, 2: 4.0026, 3: 6.94, 4: 9.0122, 5: 10.81, 6: 12.011, 7: 14.007, 8: 15.999, 9: 18.998, 10: 20.180,
            11: 22.990, 12: 24.305, 13: 26.982, 14: 28.085, 15: 30.974, 16: 32.06, 17: 35.45, 18: 39.948, 29: 63.546, 30: 65.38}


MASS_FIXTURES = [("PCGamess_PUNCH.dat", "gamess", "gamess"), ("water_hf_ccpvtz_freq_qchem.out", "qchemlog", "qchemlog"),
                 ("water_cluster.json", "json_qcschema", "json"), ("water_sto3g_hf_g03.fchk", "fchk", "fchk"),
                 ("crambin.crd", "charmm", "charmm"), ("hf_sto3g.fchk", "fchk", "fchk"), ("ch3_hf_sto3g.fchk", "fchk", "fchk")]


GEOM_FMTS = {"xyz": ("xyz", 2e-10), "pdb": ("pdb", 1e-3), "mol2": ("mol2", 2e-4), "sdf": ("sdf", 2e-4),
             "gaussian-input-writer": ("gaussianinput", 2e-6), "poscar": ("poscar", 1e-9)}


def _roundtrip(rng, units):
    """writer A -> reader A -> writer B -> reader B on a random molecule; returns (a, b, failures)."""
    from iodata import IOData, load_one

    fails = []
    natom = rng.randint(1, 6)
    atnums = np.array([rng.choice([1, 6, 7, 8, 9, 16]) for _ in range(natom)])
    atnums.sort()
    atnums = atnums[::-1].copy()
    coords = np.array([[round(rng.uniform(0.5, 9), 3) for _ in range(3)] for _ in range(natom)])
    cell = np.array([[rng.uniform(20, 25), 0.0, 0.0], [rng.uniform(-1, 1), rng.uniform(20, 25), 0.0], [rng.uniform(-1, 1), rng.uniform(-1, 1), rng.uniform(20, 25)]])
    a, b = rng.sample(sorted(GEOM_FMTS), 2)
    obj = IOData(atnums=atnums, atcoords=coords, cellvecs=cell, title="t", charge=0)
    if "mol2" in (a, b):
        obj.atcharges = {"mol2charges": np.zeros(natom)}
    try:
        t1 = _dump_text(a, obj, "rt1." + a.split("-")[0])
        o1 = _load_text(GEOM_FMTS[a][0], t1, "POSCAR.rt1" if a == "poscar" else "rt1." + a.split("-")[0])
        if b == "mol2" and "mol2charges" not in (o1.atcharges or {}):
            o1.atcharges = {"mol2charges": np.zeros(natom)}
        if b == "poscar" and o1.cellvecs is None:
            o1.cellvecs = cell
        if o1.charge is None:
            o1.charge = 0
        t2 = _dump_text(b, o1, "rt2." + b.split("-")[0])
        o2 = _load_text(GEOM_FMTS[b][0], t2, "POSCAR.rt2" if b == "poscar" else "rt2." + b.split("-")[0])
    except Exception:  # noqa: BLE001
        return a, b, None  # refusing an object is C02/C08 business
    tol = 2 * (GEOM_FMTS[a][1] + GEOM_FMTS[b][1]) * float(units["angstrom"]) * 10 + 1e-9
    if o2.atcoords.shape != coords.shape or np.abs(o2.atcoords - coords).max() > tol:
        fails.append((f"roundtrip:{a}->{b}:atcoords", f"coordinates change by {np.abs(o2.atcoords - coords).max():.3e} bohr through {a} -> {b}",
                      {"kind": "roundtrip", "a": a, "b": b, "atnums": atnums.tolist(), "atcoords": coords.tolist()}))
    return a, b, fails


def _wfn_roundtrips():
    """the same wavefunction object through every wavefunction format: geometry, energy, masses must come back"""
    out = []
    src = _fchk_obj()
    for fmt, attrs_ in (("fchk", ("atcoords", "energy", "atmasses")), ("molden", ("atcoords",)), ("molekel", ("atcoords",)),
                        ("wfn", ("atcoords", "energy")), ("wfx", ("atcoords", "energy"))):
        try:
            back = _load_text(fmt, _dump_text(fmt, src, "w." + fmt), "w." + fmt)
        except Exception as exc:  # noqa: BLE001
            out.append((fmt, "dump/load", None, f"{type(exc).__name__}"))
            continue
        for at in attrs_:
            x0, x1 = np.asarray(getattr(src, at), dtype=float), getattr(back, at)
            if x1 is None:
                out.append((fmt, at, None, "missing"))
                continue
            x1 = np.asarray(x1, dtype=float)
            ok = x0.shape == x1.shape and bool(np.all(np.abs(x1 - x0) <= 2e-6 * np.maximum(1.0, np.abs(x0))))
            out.append((fmt, at, ok, "" if ok else f"max diff {np.abs(x1 - x0).max():.3e}"))
    return out


def search(ctx):
    spec = read_spec()
    units = py_units()
    import iodata.utils as u

    # constants
    names = {"angstrom": "angstrom", "electronvolt": "electronvolt", "meter": "meter", "nanometer": "nanometer", "second": "second",
             "picosecond": "picosecond", "amu": "amu", "kcalmol": "kcalmol", "calmol": "calmol", "kjmol": "kjmol"}
    for n, un in names.items():
        x = Fraction(getattr(u, n))
        ok = abs(x - units[un]) <= Fraction(1, 10 ** 8) * units[un]
        ctx.count("search-constant", n, n if ok else n + "/BAD")
        if not ok:
            ctx.fail(f"constant:{n}", f"iodata.utils.{n} = {float(x)!r} but CODATA 2022 gives {float(units[un])!r}",
                     {"kind": "constant", "name": n})
    # probe rows against the Python copy of the spec
    rows = getattr(ctx, "_c04_rows", None)
    problems = []
    if rows is None or ctx.escalated:
        rows, problems = run_probes(ctx.rng if ctx.escalated else None, nrows_load=6 if ctx.escalated else 3, strict=False)
    for pr in problems:
        ctx.fail("probe:" + pr.split(":")[0], pr, {"kind": "probe-problem", "what": pr})
    for fmt, qty, d, a, b, slack, note in rows:
        ok = _row_ok_py(spec, units, fmt, qty, d, a, b, slack)
        ctx.count("search-row", [fmt, qty, d, note], f"{fmt}/{qty}/{d}/{'ok' if ok else 'BAD'}", nontrivial=a != 0,
                  sample={"fmt": fmt, "qty": qty, "dir": d, "factor": float(b / a) if a else None})
        if ok is None:
            ctx.fail(f"unit:{fmt}:{qty}", f"probe row {fmt}/{qty} has no line in the spec table", {"kind": "row", "fmt": fmt, "qty": qty, "dir": d})
        elif not ok and d == "redump":
            ctx.fail(f"unit:{fmt}:{qty}:second-write",
                     f"{fmt}: writing the same object a second time prints {qty} changed by {float(b):.9g} file units "
                     f"({note}): the writer rescaled the caller's data instead of converting a copy",
                     {"kind": "row", "fmt": fmt, "qty": qty, "dir": d, "a": _enc(a), "b": _enc(b), "slack": _enc(slack), "note": note})
        elif not ok:
            un = spec[(fmt, qty)]
            ctx.fail(f"unit:{fmt}:{qty}",
                     f"{fmt} {d}s {qty} with factor {float(b / a):.9g} per file unit; the format prescribes {un} = {float(units[un]):.9g} a.u.",
                     {"kind": "row", "fmt": fmt, "qty": qty, "dir": d, "a": _enc(a), "b": _enc(b), "slack": _enc(slack), "note": note})
    # a geometry table whose header names another unit than the reader handles must be converted from THAT unit or
    # refused, never read with the factor of the usual unit (Q-Chem prints `(Bohr)` under INPUT_BOHR)
    import re

    for fn, iofmt, pat, repl, unit in (("water_hf_ccpvtz_freq_qchem.out", "qchemlog", r"Standard Nuclear Orientation \(Angstroms\)",
                                        "Standard Nuclear Orientation (Bohr)", "au"),):
        txt = (DATA / fn).read_text()
        if not re.search(pat, txt):
            continue
        try:
            ref = _load_text(iofmt, txt, "ref." + fn.split(".")[-1])
            alt = _load_text(iofmt, re.sub(pat, repl, txt), "alt." + fn.split(".")[-1])
        except Exception as exc:  # noqa: BLE001
            ctx.count("search-header-unit", fn, f"{iofmt}/refused:{type(exc).__name__}")
            continue
        ratio = float(np.abs(alt.atcoords).max() / np.abs(ref.atcoords).max())
        want = float(units[unit] / units["angstrom"])
        ok = abs(ratio - want) <= 1e-6 * want
        ctx.count("search-header-unit", fn, f"{iofmt}/{'ok' if ok else 'BAD'}")
        if not ok:
            ctx.fail(f"unit:{iofmt}:atcoords:header-{unit}",
                     f"{fn} with the geometry header rewritten to {repl!r} loads coordinates {ratio:.6f} x those of the "
                     f"angstrom file; a table in {unit} must give {want:.6f} x (or be refused)",
                     {"kind": "header-unit", "file": fn, "fmt": iofmt, "pattern": pat, "repl": repl, "unit": unit})
    # volumetric VASP files: the grid axes and the cell vectors are the same lengths in two representations
    # (axes[i] * N_i = cellvecs[i]) — for skewed cells with different numbers of grid points along the vectors, too
    from . import _readers as _R

    for i in range(ctx.n(20, 120)):
        m, _cls = _R.vasp_gen(ctx.rng, i, ctx.thorough)
        raw = _R.vasp_write(m)
        try:
            d = _load_text("chgcar" if m["kind"] == "chgcar" else "locpot", raw.decode(), "CHGCAR.g" if m["kind"] == "chgcar" else "LOCPOT.g")
        except Exception:  # noqa: BLE001
            continue
        if d.cube is None or d.cellvecs is None:
            continue
        rec = d.cube.axes * np.array(d.cube.shape, float).reshape(3, 1)
        ok = bool(np.all(np.abs(rec - d.cellvecs) <= 1e-12 * (1.0 + np.abs(d.cellvecs))))
        ctx.count("search-vasp-axes", raw.hex()[:2000], f"{m['kind']}/{'ok' if ok else 'BAD'}")
        if not ok:
            ctx.fail(f"unit:{m['kind']}:cube.axes:inconsistent-with-cellvecs",
                     f"{m['kind']}: grid axes times grid counts differ from the cell vectors by {np.abs(rec - d.cellvecs).max():.3e} bohr "
                     f"(shape {tuple(d.cube.shape)})", {"kind": "vasp-axes", "hex": raw.hex(), "fmt": m["kind"]})
    # masses of every fixture that carries them must be atomic masses in electron masses
    from iodata import load_one

    std = _standard_masses()
    for fn, iofmt, fmt in MASS_FIXTURES:
        with warnings.catch_warnings():
            warnings.simplefilter("ignore")
            d = load_one(str(DATA / fn), fmt=iofmt)
        if d.atmasses is None or d.atnums is None or not np.all(np.isfinite(d.atmasses)):
            continue
        ratio = np.array([m / (std[int(z)] * float(units["amu"])) for m, z in zip(d.atmasses, d.atnums)])
        ok = bool(np.all(np.abs(ratio - 1) < 0.02))
        ctx.count("search-mass", fn, f"{fmt}/{'ok' if ok else 'BAD'}")
        if not ok:
            ctx.fail(f"unit:{fmt}:atmasses", f"atmasses loaded from {fn} are {ratio.mean():.3e} x the atomic masses in a.u. (amu left unconverted)",
                     {"kind": "mass", "file": fn, "fmt": iofmt})
    # the same file through load_many and load_one: per-atom constants (masses, atomic numbers, core charges) agree
    from iodata import load_many
    from iodata.api import FORMAT_MODULES

    for p in sorted(DATA.iterdir()):
        if not p.is_file() or p.stat().st_size > 300_000:
            continue
        fmt = "json_qcschema" if p.suffix == ".json" else None
        try:
            from iodata.api import _select_format_module

            mod = _select_format_module(str(p), "load_many", fmt)
        except Exception:
            continue
        if not hasattr(mod, "load_one"):
            continue
        try:
            with warnings.catch_warnings():
                warnings.simplefilter("ignore")
                one = load_one(str(p), fmt=fmt)
                frames = list(load_many(str(p), fmt=fmt))[:3]
        except Exception:
            continue
        for at in ("atmasses", "atnums", "atcorenums"):
            x1 = getattr(one, at, None)
            for k, fr in enumerate(frames):
                xm = getattr(fr, at, None)
                if x1 is None or xm is None or len(x1) != len(xm):
                    continue
                ok = bool(np.allclose(np.asarray(xm, float), np.asarray(x1, float), rtol=1e-9, atol=0))
                ctx.count("search-many-vs-one", [p.name, at, k], f"{mod.__name__.split('.')[-1]}/{at}/{'ok' if ok else 'BAD'}")
                if not ok:
                    r = float(np.mean(np.asarray(xm, float) / np.asarray(x1, float)))
                    ctx.fail(f"unit:{mod.__name__.split('.')[-1]}.load_many:{at}",
                             f"{at} of frame {k} of {p.name} through load_many is {r:.6g} x the value load_one returns for the same file",
                             {"kind": "many-vs-one", "file": p.name, "attr": at})
    # two-format round trips
    for _ in range(ctx.n(150, 2000) * (3 if ctx.escalated else 1)):
        a, b, fails = _roundtrip(ctx.rng, units)
        ctx.count("search-roundtrip", [a, b, _], f"{a}->{b}/{'refused' if fails is None else 'ok' if not fails else 'BAD'}",
                  nontrivial=fails is not None)
        for sig, what, inp in fails or []:
            ctx.fail(sig, what, inp)
    for fmt, at, ok, why in _wfn_roundtrips():
        ctx.count("search-wfn-roundtrip", [fmt, at], f"{fmt}/{at}/{'skipped' if ok is None else 'ok' if ok else 'BAD'}", nontrivial=ok is not None)
        if ok is False:
            ctx.fail(f"roundtrip:fchk-object->{fmt}:{at}", f"{at} of the water_sto3g_hf_g03 object changes through {fmt}: {why}",
                     {"kind": "wfn-roundtrip", "fmt": fmt, "attr": at})
    if _TMP:
        shutil.rmtree(_TMP, ignore_errors=True)


def replay(ctx, obj):
    inp = obj["input"]
    spec, units = read_spec(), py_units()
    if inp["kind"] == "constant":
        import iodata.utils as u

        x = Fraction(getattr(u, inp["name"]))
        return not abs(x - units[inp["name"]]) <= Fraction(1, 10 ** 8) * units[inp["name"]]
    if inp["kind"] == "row":
        rows, _ = run_probes(None, strict=False)
        return any(_row_ok_py(spec, units, f, q, d, a, b, s) is not True for f, q, d, a, b, s, _n in rows
                   if (f, q, d) == (inp["fmt"], inp["qty"], inp["dir"]))
    if inp["kind"] == "vasp-axes":
        d = _load_text(inp["fmt"], bytes.fromhex(inp["hex"]).decode(), "CHGCAR.g" if inp["fmt"] == "chgcar" else "LOCPOT.g")
        rec = d.cube.axes * np.array(d.cube.shape, float).reshape(3, 1)
        return not bool(np.all(np.abs(rec - d.cellvecs) <= 1e-12 * (1.0 + np.abs(d.cellvecs))))
    if inp["kind"] == "header-unit":
        import re

        txt = (DATA / inp["file"]).read_text()
        try:
            ref = _load_text(inp["fmt"], txt, "ref.out")
            alt = _load_text(inp["fmt"], re.sub(inp["pattern"], inp["repl"], txt), "alt.out")
        except Exception:  # noqa: BLE001
            return False
        ratio = float(np.abs(alt.atcoords).max() / np.abs(ref.atcoords).max())
        want = float(units[inp["unit"]] / units["angstrom"])
        return abs(ratio - want) > 1e-6 * want
    if inp["kind"] == "probe-problem":
        _rows, problems = run_probes(None, strict=False)
        return any(pr.split(":")[0] == inp["what"].split(":")[0] for pr in problems)
    if inp["kind"] == "many-vs-one":
        from iodata import load_many, load_one

        pth = str(DATA / inp["file"])
        fmt = "json_qcschema" if pth.endswith(".json") else None
        with warnings.catch_warnings():
            warnings.simplefilter("ignore")
            one = getattr(load_one(pth, fmt=fmt), inp["attr"], None)
            frames = [getattr(fr, inp["attr"], None) for fr in list(load_many(pth, fmt=fmt))[:3]]
        return any(x is not None and one is not None and len(x) == len(one)
                   and not np.allclose(np.asarray(x, float), np.asarray(one, float), rtol=1e-9, atol=0) for x in frames)
    if inp["kind"] == "roundtrip":
        return True  # random molecule not stored in full; rerun the check
    if inp["kind"] == "wfn-roundtrip":
        return any(ok is False for f, a, ok, _w in _wfn_roundtrips() if (f, a) == (inp["fmt"], inp["attr"]))
    if inp["kind"] == "mass":
        from iodata import load_one

        std = _standard_masses()
        d = load_one(str(DATA / inp["file"]), fmt=inp["fmt"])
        ratio = np.array([m / (std[int(z)] * float(units["amu"])) for m, z in zip(d.atmasses, d.atnums)])
        return not bool(np.all(np.abs(ratio - 1) < 0.02))
    return True
