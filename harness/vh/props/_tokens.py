"""Token-perturbation oracle for the log parsers without a published column layout (exploration support for C03).

orcalog, qchemlog, cp2klog, gamess, mwfn, gaussianinput, json_qcschema are not modelled in Lean.  For each repository
fixture of these formats one numeric token of the file at a time is replaced by a different number of the same width, the
file is reloaded, and the loaded object is compared element by element with the unperturbed load.  The outcome per token —
which attribute elements changed and, when an element is proportional to the token, the factor (named when it is one of the
documented unit constants) — is the *token → attribute map* of the fixture, recorded in ``_tokenmaps.json`` by
``harness/mktokenmaps.py``.  The check re-runs a seed-dependent sample of tokens with fresh replacement digits and requires

* the same outcome class (``same`` / ``error`` / ``changed``) and exactly the recorded changed elements,
* every proportional element to equal ``factor × new token value`` (relative 1e-9) — a wrong unit or a value taken from a
  neighbouring word shows as a wrong value or a changed map,
* on the unperturbed file: ``element == factor × float(token text)`` for every recorded proportional element.
"""

from __future__ import annotations

import glob
import json
import math
import os
import random
import re
import warnings

import numpy as np

from .. import engine
from . import _formats as F

MAPFILE = os.path.join(os.path.dirname(__file__), "_tokenmaps.json")

FIXTURES = {
    "orcalog": ["water_orca.out"],
    "qchemlog": ["water_hf_ccpvtz_freq_qchem.out", "h2o_dimer_eda_qchem5.3.out"],
    "cp2klog": ["*.cp2k.out"],
    "gamess": ["PCGamess_PUNCH.dat"],
    "mwfn": ["*.mwfn"],
    "gaussianinput": ["water.gjf", "water.com", "water_multi_link.com", "water_multi_route.com", "water_multi_title.com", "input_gaussian_bsse.com"],
    "json_qcschema": ["*.json"],
}
NUM_RE = re.compile(r"(?<![A-Za-z0-9_.])[-+]?(?:\d+\.\d*|\.\d+|\d+)(?:[eEdD][-+]?\d+)?(?![A-Za-z0-9_])")
MAX_IDX = 12  # changed elements listed individually per path; beyond that only the count is kept
PER_FILE_GEN = 500  # tokens examined per fixture when the maps are generated


def fixtures():
    ddir = engine.REPO / "iodata" / "test" / "data"
    out = []
    for fmt, pats in FIXTURES.items():
        for pat in pats:
            for p in sorted(glob.glob(str(ddir / pat))):
                out.append((fmt, os.path.basename(p)))
    return out


def unit_table():
    from iodata import utils as U

    names = ["angstrom", "amu", "electronvolt", "kcalmol", "kjmol", "debye", "nanometer", "deg", "calmol"]
    tab = {"1": 1.0, "-1": -1.0}
    for n in names:
        if hasattr(U, n):
            v = float(getattr(U, n))
            tab[n] = v
            tab["1/" + n] = 1.0 / v
            tab["-" + n] = -v
    for a, b in (("debye", "angstrom"), ("electronvolt", "angstrom"), ("kcalmol", "angstrom")):
        if a in tab and b in tab:
            tab[f"{a}/{b}"] = tab[a] / tab[b]
    return tab


def unit_name(ratio: float):
    for n, v in unit_table().items():
        if v != 0 and abs(ratio / v - 1.0) < 1e-8:
            return n
    return None


# ---------------------------------------------------------------------------------------------
# numeric content of a loaded object, element by element

def flatten(obj, path="", out=None):
    import attrs

    if out is None:
        out = {}
    if obj is None or isinstance(obj, str | bytes):
        if isinstance(obj, str):
            out[path + "#str"] = obj
        return out
    if isinstance(obj, bool | int | float | np.generic):
        out[path] = np.array([float(obj)])
        return out
    if isinstance(obj, np.ndarray):
        if obj.dtype.kind in "fiub":
            out[path + f"{list(obj.shape)}"] = obj.astype(float).ravel()
        else:
            out[path + "#str"] = "|".join(str(x) for x in obj.ravel())
        return out
    if isinstance(obj, dict):
        for k in sorted(obj, key=str):
            flatten(obj[k], f"{path}.{k}", out)
        return out
    if isinstance(obj, list | tuple):
        for i, x in enumerate(obj):
            flatten(x, f"{path}[{i}]", out)
        return out
    if attrs.has(type(obj)):
        for a in attrs.fields(type(obj)):
            if a.name.startswith("_"):
                continue
            flatten(getattr(obj, a.name), f"{path}.{a.name}", out)
        return out
    out[path + "#repr"] = repr(obj)
    return out


def snapshot(data):
    out = {}
    for a in F.ATTRS:
        try:
            v = getattr(data, a)
        except Exception as exc:  # derived attribute that cannot be computed
            v = "<" + type(exc).__name__ + ">"
        flatten(v, a, out)
    return out


def load_bytes(raw: bytes, fmt: str):
    r = F.real_load(raw, fmt)
    if not r.ok:
        return None, r.err
    with warnings.catch_warnings():
        warnings.simplefilter("ignore")
        return snapshot(r.value), None


def diff(base: dict, new: dict):
    """{path: sorted changed indices | 'shape' | 'text'}"""
    out = {}
    for k in sorted(set(base) | set(new)):
        a, b = base.get(k), new.get(k)
        if a is None or b is None:
            out[k] = "shape"
        elif isinstance(a, str) or isinstance(b, str):
            if a != b:
                out[k] = "text"
        elif a.shape != b.shape:
            out[k] = "shape"
        else:
            idx = np.nonzero(~((a == b) | (np.isnan(a) & np.isnan(b))))[0]
            if len(idx):
                out[k] = [int(i) for i in idx]
    return out


# ---------------------------------------------------------------------------------------------
# tokens and their perturbation

def tokens_of(text: str):
    """[(line number, index of the token among the numeric tokens of its line, start, end)]"""
    out = []
    pos = 0
    for ln, line in enumerate(text.split("\n")):
        for k, m in enumerate(NUM_RE.finditer(line)):
            out.append((ln, k, pos + m.start(), pos + m.end()))
        pos += len(line) + 1
    return out


def tok_value(t: str) -> float:
    return float(t.replace("D", "E").replace("d", "e"))


def perturb(tok: str, r: random.Random):
    """a different number of the same width: one mantissa digit (not the first significant one when there is a choice) replaced"""
    m = re.match(r"([-+]?)([\d.]+)(.*)$", tok)
    sign, man, rest = m.groups()
    digits = [i for i, c in enumerate(man) if c.isdigit()]
    sig = [i for i in digits if man[: i + 1].strip("0.") != ""] or digits
    cand = sig[1:6] if len(sig) > 1 else sig
    i = r.choice(cand)
    new = str((int(man[i]) + r.randint(1, 9)) % 10)
    return sign + man[:i] + new + man[i + 1:] + rest


def examine(raw: bytes, fmt: str, base: dict, tok, r: random.Random):
    """outcome of perturbing one token: ('error', cls) | ('same',) | ('changed', {path: idx list|kind}, {path#i: ratio})"""
    text = raw.decode("latin-1")
    ln, k, a, b = tok
    old = text[a:b]
    new = perturb(old, r)
    snap, err = load_bytes((text[:a] + new + text[b:]).encode("latin-1"), fmt)
    if snap is None:
        return ("error", err), old, new
    d = diff(base, snap)
    if not d:
        return ("same",), old, new
    ratios = {}
    v0, v1 = tok_value(old), tok_value(new)
    for path, idx in d.items():
        if isinstance(idx, list) and len(idx) <= MAX_IDX:
            for i in idx:
                x0, x1 = base[path][i], snap[path][i]
                if v1 != v0 and math.isfinite(x0) and math.isfinite(x1):
                    slope = (x1 - x0) / (v1 - v0)  # proportional iff the line through both points passes through the origin
                    if slope != 0 and abs(x0 - slope * v0) <= 1e-7 * max(abs(x0), abs(slope * v0), abs(slope) * abs(v1 - v0)):
                        ratios[f"{path}#{i}"] = slope
    return ("changed", d, ratios, snap), old, new


def summarise(d: dict):
    return {p: (v if not isinstance(v, list) or len(v) <= MAX_IDX else f"n={len(v)}") for p, v in d.items()}


# ---------------------------------------------------------------------------------------------
# generation of the recorded maps (harness/mktokenmaps.py)

def choose_tokens(toks, limit, r: random.Random):
    if len(toks) <= limit:
        return list(range(len(toks)))
    # first and last numeric token of every line, then a uniform sample
    first_last = set()
    by_line = {}
    for i, t in enumerate(toks):
        by_line.setdefault(t[0], []).append(i)
    lines = sorted(by_line)
    step = max(1, len(lines) // (limit // 4))
    for ln in lines[::step]:
        first_last.add(by_line[ln][0])
        first_last.add(by_line[ln][-1])
    rest = [i for i in range(len(toks)) if i not in first_last]
    r.shuffle(rest)
    return sorted(first_last | set(rest[: max(0, limit - len(first_last))]))


def build_maps(limit=PER_FILE_GEN):
    ddir = engine.REPO / "iodata" / "test" / "data"
    maps = {}
    for fmt, name in fixtures():
        raw = (ddir / name).read_bytes()
        base, err = load_bytes(raw, fmt)
        if base is None:
            maps[f"{fmt}:{name}"] = {"loads": False, "error": err}
            continue
        toks = tokens_of(raw.decode("latin-1"))
        r = random.Random(f"gen-{name}")
        entries = {}
        for i in choose_tokens(toks, limit, r):
            res1, old, _ = examine(raw, fmt, base, toks[i], random.Random(f"{name}-{i}-a"))
            res2, _, _ = examine(raw, fmt, base, toks[i], random.Random(f"{name}-{i}-b"))
            key = f"{toks[i][0]}:{toks[i][1]}"
            if res1[0] != res2[0]:
                entries[key] = {"tok": old, "out": "unstable"}  # depends on the replacement digit: not checked
            elif res1[0] == "error":
                entries[key] = {"tok": old, "out": "error"}
            elif res1[0] == "same":
                entries[key] = {"tok": old, "out": "same"}
            else:
                s1, s2 = summarise(res1[1]), summarise(res2[1])
                if s1 != s2:
                    entries[key] = {"tok": old, "out": "unstable"}
                    continue
                lin = {k: v for k, v in res1[2].items() if k in res2[2] and abs(res2[2][k] / v - 1.0) < 1e-6}
                entries[key] = {"tok": old, "out": "changed", "elems": s1,
                                "linear": {k: {"ratio": v, "unit": unit_name(v)} for k, v in sorted(lin.items())}}
        maps[f"{fmt}:{name}"] = {"loads": True, "ntokens": len(toks), "entries": entries}
    return maps


# ---------------------------------------------------------------------------------------------
# the check

def search(ctx):
    if not os.path.exists(MAPFILE):
        ctx.obligation("tokenmaps-present", False, "harness/vh/props/_tokenmaps.json is missing (run harness/mktokenmaps.py)")
        return
    maps = json.load(open(MAPFILE))
    ddir = engine.REPO / "iodata" / "test" / "data"
    per_file = ctx.n(24, 400) * (3 if ctx.escalated else 1)
    for fmt, name in fixtures():
        rec = maps.get(f"{fmt}:{name}")
        if rec is None:
            ctx.count(f"token-perturbation:{fmt}", name, "no-recorded-map", nontrivial=False)
            continue
        raw = (ddir / name).read_bytes()
        base, err = load_bytes(raw, fmt)
        if base is None:
            cls = "fixture-refused"
            ctx.count(f"token-perturbation:{fmt}", name, cls, nontrivial=False)
            if rec.get("loads"):
                ctx.fail(f"tokenmap:{fmt}:fixture-no-longer-loads", f"{fmt}: fixture {name} no longer loads ({err})",
                         {"kind": "tokens", "format": fmt, "file": name, "token": None})
            continue
        if not rec.get("loads"):
            continue
        toks = {f"{t[0]}:{t[1]}": t for t in tokens_of(raw.decode("latin-1"))}
        keys = sorted(rec["entries"], key=lambda k: tuple(map(int, k.split(":"))))
        # integer tokens (counts, indices, atomic numbers) are structure: whether a replacement digit is still a valid file
        # depends on the digit, so they are only followed when they carry a value (recorded proportional element)
        is_int = lambda k: re.fullmatch(r"[-+]?\d+", rec["entries"][k]["tok"]) is not None  # noqa: E731
        mapped = [k for k in keys if rec["entries"][k]["out"] == "changed" and (not is_int(k) or rec["entries"][k]["linear"])]
        other = [k for k in keys if rec["entries"][k]["out"] in ("same", "error") and not is_int(k)]
        ctx.rng.shuffle(mapped)
        ctx.rng.shuffle(other)
        chosen = mapped[: (2 * per_file) // 3] + other[: per_file // 3]
        for key in chosen:
            bad = check_token(raw, fmt, base, toks.get(key), rec["entries"][key], random.Random(f"{ctx.seed}-{name}-{key}"))
            e = rec["entries"][key]
            cls = e["out"] + ("" if e["out"] != "changed" else "/" + ",".join(sorted({p.split("[")[0].split(".")[0] for p in e["elems"]}))[:60])
            ctx.count(f"token-perturbation:{fmt}", [name, key], cls + ("" if not bad else "/FAIL"),
                      sample={"file": name, "token": key, "text": e["tok"], "outcome": e["out"]})
            if bad:
                ctx.fail(f"tokenmap:{fmt}:{bad[0]}", f"{fmt}: {name} token {key} ({e['tok']!r}): {bad[1]}"[:400],
                         {"kind": "tokens", "format": fmt, "file": name, "token": key, "seed": ctx.seed})


def check_token(raw, fmt, base, tok, e, r):
    """None, or (signature tail, description)"""
    if tok is None or raw.decode("latin-1")[tok[2]:tok[3]] != e["tok"]:
        return ("fixture-changed", "the fixture's token differs from the recorded one (regenerate the maps)")
    # the unperturbed file: element = factor × printed value
    v0 = tok_value(e["tok"])
    for k, lin in (e.get("linear") or {}).items():
        path, i = k.rsplit("#", 1)
        arr = base.get(path)
        if arr is None or isinstance(arr, str) or int(i) >= len(arr):
            return (f"{path.split('[')[0]}:map-changed", f"recorded element {k} does not exist any more")
        if lin["unit"] is not None:
            want = unit_table()[lin["unit"]] * v0
            if abs(arr[int(i)] - want) > 1e-12 * abs(want):
                return (f"{path.split('[')[0]}:value", f"{k} = {arr[int(i)]!r}, the file says {e['tok']} × {lin['unit']}")
    res, old, new = examine(raw, fmt, base, tok, r)
    if {res[0], e["out"]} == {"error", "changed"}:
        # whether a replacement value is still admitted by the loader's own consistency checks (sorted energies, counts,
        # normalisation tests, ...) depends on the value: the token reaches the object either way; not asserted further
        return None
    if res[0] != e["out"]:
        attr = next(iter(e.get("elems", {"-": 0}))).split("[")[0]
        return (f"{attr}:map-changed", f"perturbing to {new!r}: outcome {res[0]} (recorded: {e['out']})")
    if res[0] != "changed":
        return None
    s = summarise(res[1])
    if re.fullmatch(r"[-+]?\d+", e["tok"]):
        # an integer (atomic number, count, index) may drag further structure with it, depending on the digit: the recorded
        # elements must still be reached (and carry the value, below); anything else that moves is not asserted
        s = {p: v for p, v in s.items() if p in e["elems"]}
    if s != e["elems"]:
        attr = next(iter(sorted(set(s) ^ set(e["elems"])) or sorted(s))).split("[")[0]
        return (f"{attr}:map-changed", f"perturbing to {new!r} changes {json.dumps(s)[:160]} (recorded: {json.dumps(e['elems'])[:160]})")
    v1 = tok_value(new)
    for k, lin in e["linear"].items():
        path, i = k.rsplit("#", 1)
        got = res[3][path][int(i)]
        want = (unit_table()[lin["unit"]] if lin["unit"] is not None else lin["ratio"]) * v1
        if want != 0 and abs(got / want - 1.0) > (1e-9 if lin["unit"] is not None else 1e-5):
            return (f"{path.split('[')[0]}:value", f"perturbed to {new!r}: {k} = {got!r}, expected {want!r} ({lin['unit'] or lin['ratio']} × token)")
    return None


def replay(ctx, obj):
    inp = obj["input"]
    if inp.get("kind") != "tokens":
        return None
    maps = json.load(open(MAPFILE))
    rec = maps.get(f"{inp['format']}:{inp['file']}")
    raw = (engine.REPO / "iodata" / "test" / "data" / inp["file"]).read_bytes()
    base, err = load_bytes(raw, inp["format"])
    if base is None:
        return bool(rec and rec.get("loads"))
    if inp["token"] is None:
        return False
    toks = {f"{t[0]}:{t[1]}": t for t in tokens_of(raw.decode("latin-1"))}
    key = inp["token"]
    return check_token(raw, inp["format"], base, toks.get(key), rec["entries"][key],
                       random.Random(f"{inp.get('seed', 0)}-{inp['file']}-{key}")) is not None
