"""C18 — the command-line converter does exactly what the API does."""

from __future__ import annotations

import inspect
import os
import shutil
import subprocess
import sys
import tempfile
import warnings
from concurrent.futures import ThreadPoolExecutor

from .. import flowlib as fl
from ..engine import REPO

MODULES = ["Iodata.Props.C18"]
RULE = (
    "cli: argument vectors over {-i/--infmt, -o/--outfmt, -c/--allow-changes, -m/--many} in every order and spelling, "
    "given or omitted, plus usage errors; the REAL main() runs in-process with the four API names of iodata.__main__ "
    "replaced by recorders that bind their arguments against the real API signatures; compared with the Lean "
    "evaluation of the extracted main/convert terms. search: `python -m iodata ...` as a subprocess on (corpus file, "
    "target format) pairs x options x pre-existing output, compared with the API calls made in-process: exit status, "
    "output bytes, stderr. non-trivial = distinct argv / distinct (file, target, options)"
)
TRUSTED = [
    "the ast translator harness/vh/flowlib.py (__main__.py -> Gen/ApiFlow.lean: convert, main, signatures, argparseTable; "
    "every except / suppress / errstate / seterr of the package -> Gen/Handlers.lean)",
]
ASSUMPTIONS = [
    "argparse semantics for the option kinds used (value option, store_true, positionals); abbreviations (--inf), "
    "`--opt=value` and clustered short flags are not modelled (not generated)",
    "numpy floating-point traps only turn silent inf/nan into exceptions (numpy semantics); that no code of the package "
    "intercepts such an exception without re-raising, nor changes the error mode, is theorem fp_traps_never_swallowed over "
    "the generated handler table; the subprocess search additionally runs generated inputs that do raise floating-point "
    "flags (zero cell volume, overflow, null shells in un-normalised Molden files)",
    "an exception leaving main() ends the interpreter with a traceback on stderr and exit status 1",
]
TIME_LIMIT = {"quick": 900, "thorough": 3600}


def translate(ctx):
    fl.translate_apiflow(ctx)
    fl.translate_registry(ctx)
    fl.translate_handlers(ctx)


def _impl_cli(argv):
    """Run the real main() with recording stand-ins for the API functions."""
    import numpy as np

    import iodata.__main__ as cli
    from iodata import api

    calls = []

    def rec(name):
        real = getattr(api, name)
        target = inspect.unwrap(real)
        # the decorated API functions are plain closures: take the signature from the source function
        sig = inspect.signature(_SIGS[name])

        def f(*a, **k):
            ba = sig.bind(*a, **k)
            ba.apply_defaults()
            d = ba.arguments
            parts = [f"filename={d['filename']}", f"fmt={d['fmt']}"]
            if "allow_changes" in d:
                parts.append(f"allow_changes={d['allow_changes']}")
            calls.append(f"{name}({','.join(parts)})")
            return ("result-of", name)

        return f

    saved = {n: getattr(cli, n) for n in ("load_one", "load_many", "dump_one", "dump_many")}
    old_argv, old_err = sys.argv, np.geterr()
    devnull = open(os.devnull, "w")
    old_stderr = sys.stderr
    try:
        for n in saved:
            setattr(cli, n, rec(n))
        sys.argv = ["iodata-convert", *argv]
        sys.stderr = devnull
        try:
            cli.main()
        except SystemExit as exc:
            return "usage-error" if exc.code == 2 else f"exit-{exc.code}"
        except TypeError as exc:
            return "type-error " + str(exc)[:60]
        return " ".join(calls)
    finally:
        sys.stderr = old_stderr
        devnull.close()
        sys.argv = old_argv
        np.seterr(**old_err)
        for n, f in saved.items():
            setattr(cli, n, f)


_SIGS = {}


def _load_sigs():
    """Functions with the API's own signatures (the public names are wrapped by a *args/**kwargs decorator)."""
    import ast

    src = (REPO / "iodata" / "api.py").read_text()
    tree = ast.parse(src)
    for node in tree.body:
        if isinstance(node, ast.FunctionDef) and node.name in ("load_one", "load_many", "dump_one", "dump_many"):
            stub = ast.FunctionDef(name=node.name, args=node.args, body=[ast.Pass()], decorator_list=[], returns=None,
                                   type_comment=None, type_params=[])
            for a in node.args.args + node.args.kwonlyargs:
                a.annotation = None
            mod = ast.Module(body=[stub], type_ignores=[])
            ast.fix_missing_locations(mod)
            ns = {}
            exec(compile(mod, "<sig>", "exec"), ns)  # noqa: S102 - a `pass` stub carrying the signature only
            _SIGS[node.name] = ns[node.name]


def _argvs(ctx):
    rng = ctx.rng
    out = []
    fmts = ["xyz", "sdf", "fchk", "molden", "json_qcschema", "nope"]
    for i_sp in (None, "-i", "--infmt"):
        for o_sp in (None, "-o", "--outfmt"):
            for c_sp in (None, "-c", "--allow-changes"):
                for m_sp in (None, "-m", "--many"):
                    opts = []
                    if i_sp:
                        opts.append([i_sp, rng.choice(fmts)])
                    if o_sp:
                        opts.append([o_sp, rng.choice(fmts)])
                    if c_sp:
                        opts.append([c_sp])
                    if m_sp:
                        opts.append([m_sp])
                    for _ in range(2):
                        rng.shuffle(opts)
                        pos = [rng.choice(["in.xyz", "a/b/in.fchk", "x"]), rng.choice(["out.sdf", "o.molden", "y"])]
                        groups = [*opts]
                        # positionals anywhere between option groups
                        k1 = rng.randint(0, len(groups))
                        groups.insert(k1, [pos[0]])
                        k2 = rng.randint(k1 + 1, len(groups))
                        groups.insert(k2, [pos[1]])
                        out.append(([t for g in groups for t in g], "options"))
    out += [([], "usage"), (["only-one"], "usage"), (["a", "b", "c"], "usage"), (["-i"], "usage"), (["-x", "a", "b"], "usage"),
            (["-i", "xyz", "-i", "sdf", "a", "b"], "repeat")]
    return out


def correspond(ctx):
    _load_sigs()
    reqs, outs, classes = [], [], []
    for argv, cls in _argvs(ctx):
        if cls == "repeat":
            continue  # argparse: the last occurrence wins — not modelled
        reqs.append("cli " + " ".join(argv) if argv else "cli")
        outs.append(_impl_cli(argv))
        classes.append(cls + "/" + ("many" if ("-m" in argv or "--many" in argv) else "one"))
    ctx.corr("cli", reqs, outs, None, classes)


# ----------------------------------------------------------------------------------------------------
# S: subprocess vs API
# ----------------------------------------------------------------------------------------------------
PAIRS = [
    ("water.xyz", "sdf", False), ("water.xyz", "xyz", False), ("example.sdf", "xyz", False), ("caffeine.mol2", "pdb", False),
    ("water_trajectory.xyz", "xyz", True), ("water_trajectory.xyz", "pdb", True), ("example.sdf", "mol2", True),
    ("water_sto3g_hf_g03.fchk", "molden", False), ("water_sto3g_hf_g03.fchk", "wfn", False), ("h2o_sto3g.wfn", "wfx", False),
    ("h2o_sto3g.wfn", "molden", False), ("h2o_sto3g.wfn", "fchk", False), ("water.xyz", "molden", False),
    ("water.xyz", "fcidump", False), ("FCIDUMP.molpro.h2", "fcidump", False), ("POSCAR.water", "xyz", False),
    ("cubegen_h2o_5points.cube", "cube", False), ("water.xyz", "cube", False), ("ch5plus.pdb", "poscar", False),
    ("h2o_sto3g.wfn", "mkl", False), ("water_sto3g_hf_g03.fchk", "fchk", False), ("water.xyz", "nosuchformat", False),
    ("water_hfs_321g.fchk", "wfx", False), ("li_sp_virtual_orca.molden", "molden", False),
    # format names are passed verbatim: spellings the API rejects must be rejected by the CLI, too
    ("water.xyz", "XYZ", False), ("water.xyz", "Pdb", False), ("water.xyz", " sdf", False), ("water.xyz", "sdf ", False),
    ("water_trajectory.xyz", "PDB", True), ("water.xyz", "in:XYZ", False), ("water.xyz", "in: xyz", False),
    ("water.xyz", "in:xyz", False), ("water_trajectory.xyz", "in:Xyz", True),
]
VERBATIM = {"XYZ", "Pdb", " sdf", "sdf ", "PDB"}
EXT = {"molekel": "mkl"}


def _api_run(infile, outpath, many, infmt, outfmt, allow, pre, keep=False):
    from iodata import dump_many, dump_one, load_many, load_one

    if os.path.exists(outpath) and not keep:
        os.unlink(outpath)
    if pre is not None:
        with open(outpath, "w") as fh:
            fh.write(pre)
    with warnings.catch_warnings():
        warnings.simplefilter("ignore")
        try:
            if many:
                dump_many(load_many(infile, fmt=infmt), outpath, allow_changes=allow, fmt=outfmt)
            else:
                dump_one(load_one(infile, fmt=infmt), outpath, allow_changes=allow, fmt=outfmt)
            err = None
        except Exception as exc:  # noqa: BLE001
            err = type(exc).__name__
    content = open(outpath, "rb").read() if os.path.exists(outpath) else None
    return err, content


def _convert_run(infile, outpath, many, infmt, outfmt, allow, pre):
    import numpy as np

    from iodata.__main__ import convert

    if pre is not None:
        with open(outpath, "w") as fh:
            fh.write(pre)
    old = np.geterr()
    with warnings.catch_warnings():
        warnings.simplefilter("ignore")
        try:
            convert(infile, outpath, many, infmt, outfmt, allow)
            err = None
        except Exception as exc:  # noqa: BLE001
            err = type(exc).__name__
        finally:
            np.seterr(**old)
    content = open(outpath, "rb").read() if os.path.exists(outpath) else None
    return err, content


def _cli_run(infile, outpath, many, infmt, outfmt, allow, pre, keep=False, cwd=None):
    if os.path.exists(outpath) and not keep:
        os.unlink(outpath)
    if pre is not None:
        with open(outpath, "w") as fh:
            fh.write(pre)
    cmd = [sys.executable, "-W", "ignore", "-m", "iodata"]
    if infmt:
        cmd += ["-i", infmt]
    if outfmt:
        cmd += ["--outfmt", outfmt]
    if allow:
        cmd += ["-c"]
    if many:
        cmd += ["-m"]
    cmd += [infile, outpath]
    env = dict(os.environ, PYTHONPATH=str(REPO), PYTHONDONTWRITEBYTECODE="1")
    p = subprocess.run(cmd, capture_output=True, text=True, env=env, cwd=cwd or os.path.dirname(outpath), timeout=600)
    content = open(outpath, "rb").read() if os.path.exists(outpath) else None
    return p.returncode, content, p.stderr


def _degenerate_inputs(rng):
    """Generated inputs on which numpy raises a floating-point flag somewhere in the loader or writer — the only
    inputs on which the trapping CLI and the non-trapping API can take different paths."""
    import numpy as np

    from .. import gto
    from .. import vendorfiles as vf

    out = {}
    grid = " 2 2 2\n" + " ".join(["1.0"] * 8) + "\n"
    out["CHGCAR.zerovol"] = ("zero volume\n 1.0\n 1.0 0.0 0.0\n 2.0 0.0 0.0\n 0.0 0.0 1.0\n H\n 1\nDirect\n"
                             " 0.0 0.0 0.0\n\n" + grid)
    out["huge.xyz"] = "1\nhuge\nH 1e308 0.0 0.0\n"
    # Molden files with un-normalised contractions (the loader's last-resort repair) and a null shell (zero norm)
    for k in range(2):
        for _ in range(50):
            case = vf.gen_true(rng, "unnorm", "molden", max_l=rng.choice([1, 2]))
            if case is not None:
                break
        else:
            continue
        enc = vf.encode(case, "unnorm", rng)
        last = max(sh["ic"] for sh in enc["shells"])
        enc["shells"].append({"ic": last, "l": 0, "kind": "c", "exps": [1.0], "coefs": [0.0]})
        # write_molden emits the shells grouped by centre in list order: the null shell's row comes after the rows
        # of all shells written before it
        order = [i for ia in range(len(case["zs"])) for i, sh in enumerate(enc["shells"]) if sh["ic"] == ia]
        nrow_before = sum(len(gto.molden_labels(enc["shells"][i]["l"], enc["shells"][i]["kind"]))
                          for i in order[: order.index(len(enc["shells"]) - 1)])
        for key in ("Ca", "Cb"):
            if enc[key] is not None:
                enc[key] = np.insert(enc[key], nrow_before, 0.0, axis=0)
        out[f"nullshell{k}.molden"] = vf.write_molden(case, enc, rng)
    return out


def check_case(case, work):
    fname, target, many, explicit, allow, pre = case[:6]
    if len(case) > 7 and case[7] and case[7][0] == "symlink-in":
        gd = tempfile.mkdtemp(dir=work)
        real = os.path.join(gd, case[7][1])
        shutil.copyfile(str(REPO / "iodata" / "test" / "data" / case[7][2]), real)
        infile = os.path.join(gd, fname)
        os.symlink(real, infile)
    elif len(case) > 6 and case[6] is not None:
        gd = tempfile.mkdtemp(dir=work)
        infile = os.path.join(gd, fname)
        with open(infile, "w") as fh:
            fh.write(case[6])
    else:
        infile = str(REPO / "iodata" / "test" / "data" / fname)
    if not os.path.exists(infile):
        return "skip", None
    d = tempfile.mkdtemp(dir=work)
    ext = EXT.get(target, target)
    name = "FCIDUMP.out" if target == "fcidump" else ("POSCAR.out" if target == "poscar" else f"out.{ext}")
    if explicit:
        name = "out.dat2"
    infmt = None
    outfmt = target if explicit else None
    if target.startswith("in:"):
        infmt, outfmt, name = target[3:], None, "out.xyz"
    if target == "mkl":
        outfmt = "molekel" if explicit else None
    if len(case) > 7 and case[7] and case[7][0] == "missing-dir":
        d2 = tempfile.mkdtemp(dir=work)
        a_err, _ab = _api_run(infile, os.path.join(d, "new", "sub", name), many, infmt, outfmt, allow, None)
        rc, _cb, stderr = _cli_run(infile, os.path.join(d2, "new", "sub", name), many, infmt, outfmt, allow, None, cwd=d2)
        left = os.path.exists(os.path.join(d2, "new"))
        if rc == 0:
            return "bad", f"output directory missing: CLI exit 0 although the API calls raise {a_err}"
        if left and not os.path.exists(os.path.join(d, "new")):
            return "bad", "output directory missing: the CLI failed but left a newly created directory behind (the API calls create nothing)"
        return "ok-failure", None
    if len(case) > 7 and case[7] and case[7][0] == "inplace":
        # the output name is the input name: each executor works on its own copy
        base = os.path.basename(infile)
        if explicit:
            infmt = outfmt
        cp1, cp2 = os.path.join(d, base), os.path.join(tempfile.mkdtemp(dir=work), base)
        shutil.copyfile(infile, cp1)
        shutil.copyfile(infile, cp2)
        a_err, a_bytes = _api_run(cp1, cp1, many, infmt, outfmt, allow, None, keep=True)
        rc, c_bytes, stderr = _cli_run(cp2, cp2, many, infmt, outfmt, allow, None, keep=True)
        prebytes = open(infile, "rb").read()
        if rc == 0:
            if a_err is not None:
                return "bad", f"in-place: CLI exit 0 but the API calls raise {a_err}"
            if c_bytes != a_bytes:
                return "bad", "in-place: CLI exit 0 with a file different from the one the API calls leave"
            return "ok-success", None
        return ("ok-failure", None) if a_err is not None and a_err in stderr else ("bad", f"in-place: CLI exit {rc}, API {a_err or 'succeeds'}")
    a_err, a_bytes = _api_run(infile, os.path.join(d, "api_" + name) if False else os.path.join(d, name), many, infmt, outfmt, allow, pre)
    d2 = tempfile.mkdtemp(dir=work)
    rc, c_bytes, stderr = _cli_run(infile, os.path.join(d2, name), many, infmt, outfmt, allow, pre)
    prebytes = None if pre is None else pre.encode()
    if rc == 0:
        if a_err is not None:
            return "bad", f"CLI exit 0 but the API calls raise {a_err}"
        if c_bytes != a_bytes:
            return "bad", "CLI exit 0 with output bytes different from the API's"
        return "ok-success", None
    if not stderr.strip():
        return "bad", f"CLI exit {rc} without an error message"
    if a_err in ("PrepareDumpError", "FileFormatError", "LoadError") and c_bytes != prebytes and a_bytes == prebytes:
        return "bad", f"pre-flight failure ({a_err}) but the CLI changed the existing output file"
    if a_err is None:
        # allowed: the CLI's floating-point traps found something the API passes silently
        if "FloatingPointError" in stderr:
            return "ok-fptrap", None
        return "bad", f"CLI exit {rc} although the API calls succeed: {stderr.strip().splitlines()[-1][:200]}"
    if a_err not in stderr:
        return "bad", f"CLI error message does not name the problem ({a_err}): {stderr.strip().splitlines()[-1][:200]}"
    return "ok-failure", None


def _case_input(case, work):
    """(input path, output base name, infmt, outfmt) of a case, as check_case derives them"""
    fname, target, many, explicit, allow, pre = case[:6]
    gd = tempfile.mkdtemp(dir=work)
    if len(case) > 7 and case[7] and case[7][0] == "symlink-in":
        real = os.path.join(gd, case[7][1])
        shutil.copyfile(str(REPO / "iodata" / "test" / "data" / case[7][2]), real)
        infile = os.path.join(gd, fname)
        os.symlink(real, infile)
    elif len(case) > 6 and case[6] is not None:
        infile = os.path.join(gd, fname)
        with open(infile, "w") as fh:
            fh.write(case[6])
    else:
        infile = str(REPO / "iodata" / "test" / "data" / fname)
    ext = EXT.get(target, target)
    name = "FCIDUMP.out" if target == "fcidump" else ("POSCAR.out" if target == "poscar" else f"out.{ext}")
    if explicit:
        name = "out.dat2"
    infmt, outfmt = None, (target if explicit else None)
    if target.startswith("in:"):
        infmt, outfmt, name = target[3:], None, "out.xyz"
    if target == "mkl":
        outfmt = "molekel" if explicit else None
    return infile, name, infmt, outfmt


def check_convert_case(case, work):
    """convert() called in this process — the function behind the CLI — against the API calls, on a copy of the input
    at a path and with a modification time that earlier cases have used with other content: its outcome may depend
    on the arguments and the file content only."""
    fname, target, many, explicit, allow, pre = case[:6]
    infile, name, infmt, outfmt = _case_input(case, work)
    if not os.path.exists(infile):
        return "skip", None
    fixed = os.path.join(work, "fixed")
    os.makedirs(fixed, exist_ok=True)
    base = os.path.basename(infile)
    suffix = os.path.splitext(infile)[1]
    by_prefix = base.upper().startswith(("FCIDUMP", "POSCAR", "CHGCAR", "AECCAR", "LOCPOT"))  # recognised by a name prefix
    fin = os.path.join(fixed, ("input" + suffix) if (suffix and not by_prefix) else base)
    shutil.copyfile(infile, fin)
    os.utime(fin, (1_000_000_000, 1_000_000_000))
    a_err, a_bytes = _api_run(fin, os.path.join(tempfile.mkdtemp(dir=work), name), many, infmt, outfmt, allow, pre)
    f_err, f_bytes = _convert_run(fin, os.path.join(tempfile.mkdtemp(dir=work), name), many, infmt, outfmt, allow, pre)
    if (f_err, f_bytes) != (a_err, a_bytes):
        return "bad", (f"convert() in-process: {f_err or 'returns'} with {'the same' if f_bytes == a_bytes else 'different'} "
                       f"output bytes, the API calls: {a_err or 'return'}")
    return "ok-" + ("success" if a_err is None else "failure"), None


def _cases(ctx):
    rng = ctx.rng
    cases = []
    for fname, target, many in PAIRS:
        combos = [(e, a, p) for e in (False, True) for a in (False, True) for p in (None, "OLD CONTENT\n")]
        if not ctx.thorough and not ctx.escalated:
            combos = rng.sample(combos, 3)
        for e, a, p in combos:
            if target in VERBATIM:
                e = True
            cases.append((fname, target, many, e, a, p))
    # --many with an input format that has no trajectory reader: the API calls refuse before the output is touched
    for src, tgt in (("h2o_sto3g.wfn", "xyz"), ("water_hfs_321g.fchk", "xyz"), ("li_sp_virtual_orca.molden", "pdb"), ("POSCAR.water", "sdf")):
        for pre in (None, "OLD CONTENT\n"):
            cases.append((src, tgt, True, False, False, pre))
    # output in a directory that does not exist: the API calls fail to open it (OSError), nothing is created
    for src, tgt, many in (("water.xyz", "sdf", False), ("water_trajectory.xyz", "xyz", True), ("water_sto3g_hf_g03.fchk", "mkl", False)):
        cases.append((src, tgt, many, False, False, None, None, ("missing-dir",)))
    # a trajectory whose third frame is damaged: with --many the API calls fail when they reach it
    traj = (REPO / "iodata" / "test" / "data" / "water_trajectory.xyz")
    if traj.exists():
        tl = traj.read_text().splitlines(keepends=True)
        n0 = int(tl[0])
        k = 2 * (n0 + 2) + 3
        if k < len(tl):
            broken = tl[:k] + [tl[k].replace(tl[k].split()[1], "1.x3", 1)] + tl[k + 1:]
            cut = tl[: 2 * (n0 + 2) + 2]
            for name, text in (("broken-frame.xyz", "".join(broken)), ("cut-frame.xyz", "".join(cut))):
                for tgt in ("xyz", "pdb"):
                    for pre in (None, "OLD CONTENT\n"):
                        cases.append((name, tgt, True, False, False, pre, text))
    # conversion of a file onto itself (input and output name the same file)
    for src, explicit in (("water.xyz", False), ("example.sdf", False), ("caffeine.mol2", False), ("water.xyz", True)):
        cases.append((src, os.path.splitext(src)[1][1:], False, explicit, False, None, None, ("inplace",)))
    # paths that are symbolic links: the format is inferred from the name given, not from the link target's name
    for link, target_name, src, tgt in (("in.xyz", "data.sdf", "water.xyz", "xyz"), ("in.sdf", "store.xyz", "example.sdf", "xyz"),
                                        ("cur.xyz", "frame_0042.pdb", "water.xyz", "pdb")):
        cases.append((link, tgt, False, False, False, None, None, ("symlink-in", target_name, src)))
    for name, text in _degenerate_inputs(rng).items():
        targets = ["molden", "fchk"] if name.endswith(".molden") else (["cube", "xyz"] if name.startswith("CHGCAR") else ["xyz", "pdb"])
        for t in targets:
            cases.append((name, t, False, False, rng.random() < 0.5, None, text))
            if name.endswith(".molden"):
                cases.append((name, t, False, True, True, None, text))
    return cases


def search(ctx):
    work = tempfile.mkdtemp(prefix="vh-c18-")
    try:
        cases = _cases(ctx)
        with ThreadPoolExecutor(max_workers=12) as ex:
            results = list(ex.map(lambda c: check_case(c, work), cases))
        for case, (verdict, what) in zip(cases, results):
            if verdict == "skip":
                continue
            key = {"kind": "cli", "case": list(case)}
            ctx.count("search-cli", key, verdict, sample=key)
            if verdict == "bad":
                ctx.fail(f"cli:{case[1]}:{what.split(':')[0][:60]}", f"{case}: {what}", key)
        # one after the other, in this process, all on the same few paths
        order = list(cases)
        ctx.rng.shuffle(order)
        for case in order:
            verdict, what = check_convert_case(case, work)
            if verdict == "skip":
                continue
            key = {"kind": "convert", "case": list(case)}
            ctx.count("search-convert", key, verdict, sample={"kind": "convert", "case": list(case[:6])})
            if verdict == "bad":
                hist = [list(c) for c in order[: order.index(case)] if os.path.splitext(c[0])[1] == os.path.splitext(case[0])[1]][-6:]
                ctx.fail(f"convert:{case[1]}:{what.split(':')[0][:60]}", f"{case[:6]}: {what}", dict(key, history=hist))
                break
    finally:
        shutil.rmtree(work, ignore_errors=True)


def replay(ctx, obj):
    work = tempfile.mkdtemp(prefix="vh-c18-")
    try:
        if obj["input"].get("kind") == "convert":
            for c in obj["input"].get("history", []):
                check_convert_case(tuple(c), work)
            return check_convert_case(tuple(obj["input"]["case"]), work)[0] == "bad"
        return check_case(tuple(obj["input"]["case"]), work)[0] == "bad"
    finally:
        shutil.rmtree(work, ignore_errors=True)
