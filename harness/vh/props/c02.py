"""C02 — save-then-reload returns the same data (byte-level formats: model + theorems + byte-exact tie)."""

from __future__ import annotations

from . import _checks as K
from ._adapters import ADAPTERS
from ._layoutsw import translate  # noqa: F401  (T1: Gen/Layouts and Gen/LayoutsW)

MODULES = ["Iodata.Props.C02", "Iodata.Props.C02W"]
RULE = (
    "per format, quantised objects (a printed real is the integer round(|x|*10^d) and a sign; a scientific field is the pair "
    "(d+1 mantissa digits, decimal exponent)). XYZ/SDF/PDB: atom counts cycle through 1,2,3,9,10,11,99,100,101,999,1000,1001,"
    "9999,10000,10001 (thorough: also 12000, PDB 99999; SDF capped at its 999-atom columns) then random 1-40; elements cycle "
    "through Z=1..118; magnitudes from the classes {0, -0, last digit only, smallest/largest value with k integer digits for "
    "every k the column holds, wider than the column}; titles empty / printable ASCII of length 1..200; bonds 0..many of "
    "every type (PDB: both orders, repeated, up to >4 partners per atom; PDB titles and COMPND of 1, 2, 9, 10, 11, 12, 30, 101 "
    "lines incl. empty lines; MOL2: atom types / charges present or absent, bond types inside and outside the table); "
    "optional attributes present/absent. Cube: grid "
    "shapes cycle through row lengths 1,5,6,7,11,12,13,18,19,25 (row%6 = 0..5), 1..n rows, an empty grid, then random; "
    "1-11 atoms incl. zero core charges; values with exponents 0,+-1,+-9,+-10,+-99 and three digits. FCHK fields: 1-7 fields "
    "of the four kinds, array lengths cycling through 0,1,2,4,5,6,7,9..13,17..19,24..26,29..31,35..37,59..61,100, integers "
    "up to 12 characters and reals with three-digit exponents (touching columns, outside the proved domain: both sides must "
    "still agree), random subsets of label_patterns; FCHK objects: 1-40 atoms (thorough 334), every subset of masses / "
    "energy / six charge kinds / gradient / Hessian / dipole / quadrupole / polarizability / SCF density, five run types. "
    "dump:<fmt> compares the bytes of the real writer (iodata.api.dump_one; fchk-fields: the four _dump_* functions; "
    "dump-loop:cube: _write_cube_data against the transcribed counter loop) with the model's, load:<fmt> the re-quantised "
    "result of the real reader on those bytes with the model's load; shuffles:fchk compares tril / _triangle_to_dense / the "
    "quadrupole order with numpy and the real code; index-loop/index-fill:fcidump the writer's canonical quadruples for "
    "1..7 orbitals and the array the real reader builds from arbitrary (also non-canonical, repeated) lines; "
    "grouping/direct-coordinates:poscar the written atom order, element/count lines and inv(cell)^T r for random element "
    "lists (1-1001 atoms, 1-20 elements) and integer cells. search:<fmt> evaluates load_one(dump_one(x)) against x attribute by "
    "attribute on unquantised random objects (XYZ, SDF, PDB, MOL2, Cube, FCIDUMP, POSCAR, FCHK with s/p/sp/d shells, "
    "restricted/unrestricted orbitals and all optional attributes; tolerance: half a unit of the last printed digit). "
    "non-trivial = distinct request"
)
TRUSTED = [
    "harness/vh/props/_layouts.py: ast extraction of f-string fields / line slices / words[i] uses and assembly of the Layout records",
    "harness/vh/props/_adapters.py: construction of IOData objects from quantised model objects and exact (Fraction) re-quantisation",
    "lean/Iodata/Drv/Fmt.lean: hex and object (de)coding, splitting of file bytes into lines",
    "harness/vh/props/_fchk.py expected_fields(): which labels iodata's FCHK dump_one writes for an object with a one-primitive "
    "basis and one orbital, in which order (structure-level knowledge; values come from the quantised object)",
    "harness/vh/props/_cube.py, _fchk.py: exact (Fraction) re-quantisation of loaded doubles to mantissa/exponent pairs",
    "harness/vh/props/_mol2.py, _fcidump.py, _poscar.py: object construction, parsing of the index columns / element and count "
    "lines of the real writer's output, recovery of the written atom order from tagged coordinates",
]
ASSUMPTIONS = [
    "text-mode I/O: files contain printable ASCII and '\\n' only (universal-newline translation is the identity)",
    "CPython format(float, '.df') and float(str) are correctly rounded; |x|*10^d <= 10^15 so that the three roundings of "
    "x = (k/10^d)*unit; x/unit cannot move a printed digit (derivation in _formats.py)",
    "int()/float() features not used by any writer (underscores, exponents in fixed fields, inf/nan, non-ASCII digits) are "
    "outside the reader models (the model reports an error where CPython would accept)",
    "titles are single-line and carry no leading/trailing blanks (readers strip them)",
    "scientific fields carry at most 15 significant digits in the C02/C15 streams, so that format(float(text)) = text in CPython; "
    "FCHK array elements need a two-digit exponent to stay separated in the 16 columns (E16.8; three-digit exponents of "
    "negative numbers touch their neighbour in Gaussian's own layout as well)",
    "Cube: the writer's counter loop is proved equal to the closed form only by computation for row lengths 1..14 (and compared "
    "byte for byte on every generated case)",
]
TIME_LIMIT = {"quick": 1200, "thorough": 7200}
from . import _w as _W; RULE, TRUSTED, ASSUMPTIONS = RULE + _W.RULE, TRUSTED + _W.TRUSTED, ASSUMPTIONS + _W.ASSUMPTIONS  # noqa: E402, E702

RW = ["xyz", "sdf", "pdb"]  # + mol2, cube, fchk fields, fcidump/poscar structure layers (own flows)


def correspond(ctx):
    from . import _fchk

    for k in RW:
        K.corr_roundtrip(ctx, ADAPTERS[k], ctx.n(700, 2500))
    from ._cube import CUBE, corr_loop
    from ._fcidump import corr_index
    from ._mol2 import MOL2

    K.corr_roundtrip(ctx, MOL2, ctx.n(700, 2500))
    corr_index(ctx, ctx.n(7, 10))
    from ._poscar import corr_struct

    corr_struct(ctx, ctx.n(200, 800))

    K.corr_roundtrip(ctx, CUBE, ctx.n(800, 3000))
    corr_loop(ctx, ctx.n(500, 2000))
    _fchk.corr_fields(ctx, ctx.n(2000, 8000))
    _fchk.corr_objects(ctx, ctx.n(800, 3000))
    _fchk.corr_shuffles(ctx)
    from . import _w; _w.correspond(ctx)  # second group of formats (FCIDUMP text, POSCAR text, FCHK objects, WFN/WFX, QCSchema)


def search(ctx):
    mult = 3 if ctx.escalated else 1
    from ._adapters2 import SEARCH_ONLY

    for k, ad in SEARCH_ONLY.items():
        K.search_c02(ctx, ad, ctx.n(600, 2500) * mult)
    for k in RW:
        K.search_c02(ctx, ADAPTERS[k], ctx.n(600, 2500) * mult)
    from ._fchk import FCHK_FREE

    K.search_c02(ctx, FCHK_FREE, ctx.n(800, 3000) * mult)
    from . import _w; _w.search(ctx)  # second group of formats (FCIDUMP text, POSCAR text, FCHK objects, WFN/WFX, QCSchema)
    from . import _wfround; _wfround.search(ctx)  # wavefunction formats: generated objects through dump_one/load_one


def replay(ctx, obj):
    if obj.get("input", {}).get("kind") == "c01case":
        from . import _wfround

        return _wfround.replay(obj)
    from . import _w; return _w.replay_or(ctx, obj, K.replay_generic)
