"""C02 — save-then-reload returns the same data (byte-level formats: model + theorems + byte-exact tie)."""

from __future__ import annotations

from . import _checks as K
from ._adapters import ADAPTERS
from ._layouts import translate  # noqa: F401  (T1)

MODULES = ["Iodata.Props.C02"]
RULE = (
    "per format, quantised objects (a printed real is the integer round(|x|*10^d) and a sign): atom counts cycle through "
    "1,2,3,9,10,11,99,100,101,999,1000,1001 (thorough: also 9999,10000,10001,12000 and the format's own column "
    "boundaries) then random 1-40; elements cycle through Z=1..118; magnitudes drawn from classes {0, -0, last digit only, "
    "smallest/largest value with k integer digits for every k the column holds, wider than the column}; titles empty / "
    "printable ASCII with inner blanks of length 1..200; bonds 0..many of every type; optional attributes present/absent. "
    "dump:<fmt> compares the bytes of iodata.api.dump_one with the model's dump, load:<fmt> the re-quantised result of "
    "iodata.api.load_one on those bytes with the model's load. search:<fmt> evaluates load_one(dump_one(x)) against x "
    "attribute by attribute on unquantised random objects (tolerance: half a unit of the last printed digit). "
    "non-trivial = distinct request"
)
TRUSTED = [
    "harness/vh/props/_layouts.py: ast extraction of f-string fields / line slices / words[i] uses and assembly of the Layout records",
    "harness/vh/props/_adapters.py: construction of IOData objects from quantised model objects and exact (Fraction) re-quantisation",
    "lean/Iodata/Drv/Fmt.lean: hex and object (de)coding, splitting of file bytes into lines",
]
ASSUMPTIONS = [
    "text-mode I/O: files contain printable ASCII and '\\n' only (universal-newline translation is the identity)",
    "CPython format(float, '.df') and float(str) are correctly rounded; |x|*10^d <= 10^15 so that the three roundings of "
    "x = (k/10^d)*unit; x/unit cannot move a printed digit (derivation in _formats.py)",
    "int()/float() features not used by any writer (underscores, exponents in fixed fields, inf/nan, non-ASCII digits) are "
    "outside the reader models (the model reports an error where CPython would accept)",
    "titles are single-line and carry no leading/trailing blanks (readers strip them)",
]
TIME_LIMIT = {"quick": 1200, "thorough": 7200}

RW = ["xyz", "sdf", "pdb"]


def correspond(ctx):
    from . import _fchk

    for k in RW:
        K.corr_roundtrip(ctx, ADAPTERS[k], ctx.n(40, 400))
    from ._cube import CUBE, corr_loop

    K.corr_roundtrip(ctx, CUBE, ctx.n(60, 500))
    corr_loop(ctx, ctx.n(40, 300))
    _fchk.corr_fields(ctx, ctx.n(120, 1200))
    _fchk.corr_objects(ctx, ctx.n(60, 500))
    _fchk.corr_shuffles(ctx)


def search(ctx):
    mult = 3 if ctx.escalated else 1
    from ._adapters2 import SEARCH_ONLY

    for k, ad in SEARCH_ONLY.items():
        K.search_c02(ctx, ad, ctx.n(30, 400) * mult)
    for k in RW:
        K.search_c02(ctx, ADAPTERS[k], ctx.n(40, 600) * mult)
    from ._fchk import FCHK_FREE

    K.search_c02(ctx, FCHK_FREE, ctx.n(60, 600) * mult)


def replay(ctx, obj):
    return K.replay_generic(ctx, obj)
