"""FCHK (C02 / C03 / C15): field-layer correspondence with the Lean model and object-level direct search.

Quantised reals are ``(neg, man, exp)``: the ``d+1`` mantissa digits ``D.DDDD`` read as an integer and the
decimal exponent, i.e. the text ``{: w.dE}`` prints.  The Python object is built from ``float("<man>e<exp-d>")``
(correctly rounded) so that for ``d + 1 <= 15`` significant digits the real writer prints exactly these digits;
a loaded double is re-quantised exactly with ``fractions.Fraction``.

Whole files go through the real ``iodata.api.dump_one`` / ``load_one``: the object carries a minimal basis (one
s primitive on atom 0) and one restricted orbital, because FCHK cannot be written or read without them; the
fields this adds are listed in ``expected_fields`` (structure-level knowledge of ``dump_one``, trusted).
"""

from __future__ import annotations

import io
import os
import random
import warnings
from fractions import Fraction

import numpy as np

from . import _formats as F
from ._adapters import Adapter

D = 8
QUAD_W = [0, 3, 5, 1, 2, 4]  # FCHK order XX, YY, ZZ, XY, XZ, YZ of an alphabetically stored quadrupole


# ---------------------------------------------------------------------------------------------
# scientific numbers


def sci_float(s, d=D) -> float:
    neg, m, e = s
    v = float(f"{m}e{e - d}")
    return -v if neg else v


def sci_quant(v, d=D):
    """exact (mantissa, exponent) of a double at d decimals, rounding half-even on the exact binary value"""
    v = float(v)
    neg = np.signbit(v)
    if v != v or v in (float("inf"), float("-inf")):
        return (bool(neg), -1, 0)
    if v == 0:
        return (bool(neg), 0, 0)
    a = Fraction(abs(v))
    e = len(str(a.numerator)) - len(str(a.denominator))
    while Fraction(10) ** e > a:
        e -= 1
    while Fraction(10) ** (e + 1) <= a:
        e += 1
    m = round(a / Fraction(10) ** (e - d))
    if m == 10 ** (d + 1):
        m, e = 10**d, e + 1
    return (bool(neg), int(m), int(e))


def sci_text(s, d=D, marker="E") -> str:
    """decimal text from integers only"""
    neg, m, e = s
    ds = str(m).rjust(d + 1, "0")
    return ("-" if neg else "") + ds[0] + "." + ds[1:] + marker + ("-" if e < 0 else "+") + str(abs(e)).rjust(2, "0")


def enc_sci(s) -> str:
    return ("-" if s[0] else "") + f"{s[1]}@{s[2]}"


EXPS = [0, 0, 1, -1, 2, -3, 9, -9, 10, -10, 99, -99]


def rand_sci(rng, d=D, wide=False):
    r = rng.random()
    neg = rng.random() < 0.45
    if r < 0.06:
        return (neg, 0, 0)
    if r < 0.14:
        m = 10**d
    elif r < 0.22:
        m = 10 ** (d + 1) - 1
    else:
        m = rng.randint(10**d, 10 ** (d + 1) - 1)
    if wide and rng.random() < 0.04:
        e = rng.choice([100, -100, 120, -300])  # three-digit exponent: fills the 16 columns (outside the model's domain)
    else:
        e = rng.choice(EXPS) if rng.random() < 0.5 else rng.randint(-20, 20)
    return (neg, m, e)


def rand_int(rng, wide=False):
    r = rng.random()
    if r < 0.1:
        return 0
    if r < 0.2:
        return rng.choice([1, -1, 9, -9, 10, -10])
    if r < 0.3:
        return rng.choice([9999999999, -9999999999, 2147483647, -2147483648])
    if wide and r < 0.33:
        return rng.choice([99999999999, -99999999999, 123456789012])  # 12 characters: touches its neighbour
    return rng.randint(-(10 ** rng.randint(1, 10)), 10 ** rng.randint(1, 10))


LEN_CLASSES = [0, 1, 2, 4, 5, 6, 7, 9, 10, 11, 12, 13, 17, 18, 19, 24, 25, 26, 29, 30, 31, 35, 36, 37, 59, 60, 61, 100]


# ---------------------------------------------------------------------------------------------
# encoding for the driver


def enc_field(f) -> str:
    label, kind, val = f
    if kind == "i":
        p = str(val)
    elif kind == "r":
        p = enc_sci(val)
    elif kind == "I":
        p = F.enc_list(val, str, "/")
    else:
        p = F.enc_list(val, enc_sci, "/")
    return f"{F.enc_str(label)}:{kind}:{p}"


def enc_opt(s):
    return "-" if s is None else F.enc_str(s)


def enc_obj(q) -> str:
    return ";".join([F.enc_str(q["title"]), enc_opt(q["run_type"]), enc_opt(q["lot"]), enc_opt(q["basis"]),
                     F.enc_list(q["fields"], enc_field)])


def enc_loaded(title, run_type, lot, basis, fields) -> str:
    return ";".join([F.enc_str(title), enc_opt(run_type), F.enc_str(lot), enc_opt(basis), F.enc_list(fields, enc_field)])


def quant_fields(d: dict, dS=D, dA=D, expect=None):
    """dict of `_load_fchk_low` -> field list in file order; with `expect` (label -> expected field) a real is reported as
    the expected (mantissa, exponent) when the loaded double IS the double that text denotes (needed above 15 digits)"""
    out = []
    for label, v in d.items():
        if label in ("title", "command", "lot", "obasis_name"):
            continue
        ex = (expect or {}).get(label)

        def q(x, dd, exs):
            if exs is not None and sci_float(exs, dd) == float(x) and np.signbit(sci_float(exs, dd)) == np.signbit(float(x)):
                return exs
            return sci_quant(x, dd)

        if isinstance(v, np.ndarray):
            if v.dtype.kind == "i":
                out.append((label, "I", [int(x) for x in v]))
            else:
                exl = ex[2] if ex is not None and ex[1] == "R" and len(ex[2]) == len(v) else [None] * len(v)
                out.append((label, "R", [q(x, dA, e) for x, e in zip(v, exl)]))
        elif isinstance(v, int | np.integer):
            out.append((label, "i", int(v)))
        else:
            out.append((label, "r", q(v, dS, ex[2] if ex is not None and ex[1] == "r" else None)))
    return out


# ---------------------------------------------------------------------------------------------
# generic field lists through the real `_dump_*` functions


def real_dump_fields(fields) -> bytes:
    from iodata.formats import fchk as M

    f = io.StringIO()
    for label, kind, val in fields:
        if kind == "i":
            M._dump_integer_scalars(label, val, f)
        elif kind == "r":
            M._dump_real_scalars(label, sci_float(val), f)
        elif kind == "I":
            M._dump_integer_arrays(label, np.array(val, dtype=np.int64), f)
        else:
            M._dump_real_arrays(label, np.array([sci_float(x) for x in val], dtype=float), f)
    return f.getvalue().encode("latin-1")


def real_load_low(raw: bytes, patterns=None):
    from iodata.formats import fchk as M
    from iodata.utils import LineIterator

    path = os.path.join(F.tmpdir(), f"low{os.getpid()}.fchk")
    with open(path, "wb") as fh:
        fh.write(raw)
    try:
        with warnings.catch_warnings():
            warnings.simplefilter("ignore")
            with LineIterator(path) as lit:
                return M._load_fchk_low(lit, patterns)
    finally:
        os.unlink(path)


LABEL_CHARS = "abcdefghijklmnopqrstuvwxyzABCDEFGHIJKLMNOPQRSTUVWXYZ0123456789()=/-+ ._"
KNOWN_LABELS = ["Number of atoms", "Total Energy", "Atomic numbers", "Nuclear charges", "Current cartesian coordinates",
                "P(S=P) Contraction coefficients", "Cartesian Force Constants", "Quadrupole Moment", "Type 7 Charges"]


def rand_label(rng, used):
    while True:
        if rng.random() < 0.4:
            s = rng.choice(KNOWN_LABELS)
        else:
            n = rng.choice([1, 2, 7, 20, 39, 40]) if rng.random() < 0.5 else rng.randint(1, 40)
            s = "".join(rng.choice(LABEL_CHARS) for _ in range(n)).strip() or "x"
        if s not in used and s not in ("title", "command", "lot", "obasis_name"):
            used.add(s)
            return s


def gen_fields(rng, i, wide):
    used = set()
    fields = []
    for k in range(rng.randint(1, 7)):
        label = rand_label(rng, used)
        kind = "irIR"[(i + k) % 4]
        n = LEN_CLASSES[(i * 3 + k) % len(LEN_CLASSES)] if rng.random() < 0.7 else rng.randint(0, 40)
        if kind == "i":
            fields.append((label, kind, rand_int(rng, wide)))
        elif kind == "r":
            fields.append((label, kind, rand_sci(rng, D, wide)))
        elif kind == "I":
            fields.append((label, kind, [rand_int(rng, wide) for _ in range(n)]))
        else:
            fields.append((label, kind, [rand_sci(rng, D, wide) for _ in range(n)]))
    return fields


def in_domain(fields, int_w=12, sci_w=16, d=D) -> bool:
    for _, kind, val in fields:
        if kind == "I" and any(len(str(x)) >= int_w for x in val):
            return False
        if kind == "R" and any(len(sci_text(x, d)) + (0 if x[0] else 1) >= sci_w for x in val):
            return False
    return True


HEADER = b"t".ljust(72) + b"\n" + b"SP".ljust(10) + b"HF".ljust(30) + b"STO-3G".rjust(33) + b"\n"


def corr_fields(ctx, n):
    """generic field lists: bytes of the real `_dump_*` functions vs the model; `_load_fchk_low` (all labels, or a list of
    label patterns) on header + those bytes vs the model's reader"""
    rng = ctx.rng
    dreq, dimp, dcls, lreq, limp, lcls = [], [], [], [], [], []
    for i in range(n):
        fields = gen_fields(rng, i, wide=True)
        q = {"title": "t", "run_type": None, "lot": None, "basis": None, "fields": fields}
        raw = real_dump_fields(fields)
        dom = in_domain(fields)
        lens = sorted({len(v) % 6 if k == "I" else len(v) % 5 for _, k, v in fields if k in "IR"} or {0})
        cls = f"dom={int(dom)}/kinds={''.join(sorted({k for _, k, _ in fields}))}/ragged={lens[-1] != 0}"
        dreq.append(f"fmt dumpfields fchk - {enc_obj(q)}")
        dimp.append("ok " + raw.hex())
        dcls.append(cls)
        labels = [f[0] for f in fields]
        pats = None if rng.random() < 0.5 else rng.sample(labels, rng.randint(1, len(labels)))
        opts = "-" if pats is None else "-+" + "|".join(p.encode("latin-1").hex() for p in pats)
        whole = HEADER + raw
        try:
            d = real_load_low(whole, pats)
            line = "ok " + enc_loaded("t", "energy", "hf", "sto-3g", quant_fields(d))
        except Exception as exc:  # noqa: BLE001
            line = "err LoadError" if F.err_class(exc) in ("LoadError", "ValueError", "Other:IndexError") else "err " + F.err_class(exc)
        lreq.append(f"fmt load fchk {opts} {whole.hex()}")
        limp.append(line)
        lcls.append(cls + f"/patterns={'all' if pats is None else 'subset'}" + ("" if line.startswith("ok") else "/" + line))
    ctx.corr("dump:fchk-fields", dreq, dimp, None, dcls)
    ctx.corr("load:fchk-fields", lreq, limp, None, lcls)


# ---------------------------------------------------------------------------------------------
# whole objects (minimal basis + one orbital) through iodata.api


RUN_TYPES = [None, "energy", "opt", "scan", "freq", "foo", "sp"]
LOTS = [None, "hf", "B3LYP", "ccsd(t)", "MP2", "rhf/6-31g"]
BASES = [None, "sto-3g", "6-31G*", "aug-cc-pVTZ"]
CHARGE_KINDS = [("mulliken", "Mulliken Charges"), ("esp", "ESP Charges"), ("npa", "NPA Charges"), ("mbs", "MBS Charges"),
                ("hirshfeld", "Type 6 Charges"), ("cm5", "Type 7 Charges")]


class Fchk(Adapter):
    key = fmt = "fchk"

    def pick_natom(self, rng, i, thorough):
        classes = [1, 2, 3, 4, 5, 6, 7, 11, 12, 13, 20, 40] + ([100, 334] if thorough else [])
        return classes[i] if i < len(classes) else rng.randint(1, 12)

    def gen(self, rng, natom, i):
        def rs():
            return rand_sci(rng, D)

        q = {
            "title": F.rand_title(rng)[:70].strip(),
            "run_type": RUN_TYPES[i % len(RUN_TYPES)],
            "lot": LOTS[(i // 2) % len(LOTS)],
            "basis": BASES[(i // 3) % len(BASES)],
            "atnums": [(i * 7 + k) % 118 + 1 for k in range(natom)],
            "coords": [rs() for _ in range(3 * natom)],
            "masses": None if rng.random() < 0.4 else [(False, rng.randint(10**D, 3 * 10**D), rng.choice([0, 1, 2])) for _ in range(natom)],
            "energy": None if rng.random() < 0.3 else rs(),
            "charges": {k: [rs() for _ in range(natom)] for k, _ in CHARGE_KINDS if rng.random() < 0.35},
            "gradient": None if rng.random() < 0.5 else [rs() for _ in range(3 * natom)],
            "hessian": None if rng.random() < 0.6 or natom > 13 else [rs() for _ in range(3 * natom * (3 * natom + 1) // 2)],
            "dipole": None if rng.random() < 0.4 else [rs() for _ in range(3)],
            "quadrupole": None if rng.random() < 0.4 else [rs() for _ in range(6)],
            "polar": None if rng.random() < 0.5 else [rs() for _ in range(6)],
            "rdm": None if rng.random() < 0.5 else rs(),
            "alpha": rs(), "coef": rs(), "eps": rs(), "c": rs(),
        }
        q["corenums"] = [z - rng.choice([0, 0, 0, 2]) if z > 2 else z for z in q["atnums"]]
        q["fields"] = self.expected_fields(q)
        opt = [k for k in ("masses", "energy", "gradient", "hessian", "dipole", "quadrupole", "polar", "rdm") if q[k] is not None]
        cls = (f"natom={natom if natom in (1, 2, 3, 4, 5, 6, 7, 11, 12, 13, 20, 40, 100, 334) else 'rand'}/run={q['run_type']}"
               f"/opt={len(opt) + len(q['charges'])}/quad={int(q['quadrupole'] is not None)}/hess={int(q['hessian'] is not None)}")
        return q, "-", cls

    def expected_fields(self, q):
        """what `dump_one` writes for the object of `build` (labels, kinds, order; values from the quantised object)"""
        natom = len(q["atnums"])
        # with orbitals present the number of electrons is theirs (one doubly occupied orbital) and the charge is derived
        fs = [("Number of atoms", "i", natom), ("Number of electrons", "i", 2), ("Charge", "i", sum(q["corenums"]) - 2)]
        fs += [("Multiplicity", "i", 1), ("Number of alpha electrons", "i", 1), ("Number of beta electrons", "i", 1),
               ("Atomic numbers", "I", list(q["atnums"])),
               ("Nuclear charges", "R", [sci_quant(float(c)) for c in q["corenums"]]),
               ("Current cartesian coordinates", "R", list(q["coords"]))]
        if q["masses"] is not None:
            fs += [("Integer atomic weights", "I", [int(round(sci_float(m))) for m in q["masses"]]),
                   ("Real atomic weights", "R", list(q["masses"]))]
        fs += [("Number of basis functions", "i", 1), ("Number of independent functions", "i", 1),
               ("Number of contracted shells", "i", 1), ("Number of primitive shells", "i", 1),
               ("Pure/Cartesian d shells", "i", 0), ("Pure/Cartesian f shells", "i", 0), ("Highest angular momentum", "i", 0),
               ("Largest degree of contraction", "i", 1), ("Shell types", "I", [0]), ("Number of primitives per shell", "I", [1]),
               ("Shell to atom map", "I", [1]), ("Primitive exponents", "R", [q["alpha"]]),
               ("Contraction coefficients", "R", [q["coef"]]), ("Coordinates of each shell", "R", list(q["coords"][:3]))]
        if q["energy"] is not None:
            fs += [("SCF Energy", "r", q["energy"]), ("Total Energy", "r", q["energy"])]
        fs += [("Alpha Orbital Energies", "R", [q["eps"]]), ("Alpha MO coefficients", "R", [q["c"]])]
        if q["rdm"] is not None:
            fs.append(("Total SCF Density", "R", [q["rdm"]]))
        for k, label in CHARGE_KINDS:
            if k in q["charges"]:
                fs.append((label, "R", list(q["charges"][k])))
        if q["gradient"] is not None:
            fs.append(("Cartesian Gradient", "R", list(q["gradient"])))
        if q["hessian"] is not None:
            fs.append(("Cartesian Force Constants", "R", list(q["hessian"])))
        if q["dipole"] is not None:
            fs.append(("Dipole Moment", "R", list(q["dipole"])))
        if q["quadrupole"] is not None:
            fs.append(("Quadrupole Moment", "R", [q["quadrupole"][k] for k in QUAD_W]))
        if q["polar"] is not None:
            fs.append(("Polarizability", "R", list(q["polar"])))
        return fs

    @staticmethod
    def _dense(tri, n):
        m = np.zeros((n, n))
        k = 0
        for i in range(n):
            for j in range(i + 1):
                m[i, j] = m[j, i] = sci_float(tri[k])
                k += 1
        return m

    def build(self, q, opts="-"):
        from iodata import IOData
        from iodata.basis import MolecularBasis, Shell
        from iodata.formats.fchk import CONVENTIONS
        from iodata.orbitals import MolecularOrbitals
        from iodata.utils import amu

        natom = len(q["atnums"])
        sf = sci_float
        kw = {
            "title": q["title"] or None, "run_type": q["run_type"], "lot": q["lot"], "obasis_name": q["basis"],
            "atnums": np.array(q["atnums"]), "atcorenums": np.array(q["corenums"], float),
            "atcoords": np.array([sf(c) for c in q["coords"]]).reshape(natom, 3),
            "obasis": MolecularBasis([Shell(0, [0], ["c"], np.array([sf(q["alpha"])]), np.array([[sf(q["coef"])]]))], CONVENTIONS, "L2"),
            "mo": MolecularOrbitals("restricted", 1, 1, np.array([2.0]), np.array([[sf(q["c"])]]), np.array([sf(q["eps"])])),
        }
        if q["masses"] is not None:
            kw["atmasses"] = np.array([sf(m) for m in q["masses"]]) * amu
        if q["energy"] is not None:
            kw["energy"] = sf(q["energy"])
        if q["charges"]:
            kw["atcharges"] = {k: np.array([sf(x) for x in v]) for k, v in q["charges"].items()}
        if q["gradient"] is not None:
            kw["atgradient"] = np.array([sf(x) for x in q["gradient"]]).reshape(natom, 3)
        if q["hessian"] is not None:
            kw["athessian"] = self._dense(q["hessian"], 3 * natom)
        mom = {}
        if q["dipole"] is not None:
            mom[(1, "c")] = np.array([sf(x) for x in q["dipole"]])
        if q["quadrupole"] is not None:
            mom[(2, "c")] = np.array([sf(x) for x in q["quadrupole"]])
        if mom:
            kw["moments"] = mom
        if q["polar"] is not None:
            kw["extra"] = {"polarizability_tensor": self._dense(q["polar"], 3)}
        if q["rdm"] is not None:
            kw["one_rdms"] = {"scf": np.array([[sf(q["rdm"])]])}
        return IOData(**kw)

    def enc(self, q):
        return enc_obj(q)


FCHK = Fchk()


def corr_objects(ctx, n, generations=1):
    """whole files through iodata.api.dump_one / load_one, model and implementation in lock step"""
    ad = FCHK
    rng = ctx.rng
    dreq, dimp, dcls, loads = [], [], [], []
    for i in range(n):
        q, opts, cls = ad.gen(rng, ad.pick_natom(rng, i, ctx.thorough), i)
        r = F.real_dump(ad.build(q), "fchk")
        dreq.append(f"fmt dump fchk - {enc_obj(q)}")
        dimp.append("ok " + r.value.hex() if r.ok else "err " + r.err)
        dcls.append(cls + ("" if r.ok else "/refused:" + r.err))
        if r.ok:
            loads.append((r.value, cls))
    ctx.corr("dump:fchk", dreq, dimp, None, dcls)
    lreq, limp, lcls, second = [], [], [], []
    for raw, cls in loads:
        line, obj = _impl_load(raw)
        lreq.append(f"fmt load fchk - {raw.hex()}")
        limp.append(line)
        lcls.append(cls + ("" if line.startswith("ok") else "/" + line))
        if obj is not None and generations > 1:
            second.append((line[3:], obj, cls))
    ctx.corr("load:fchk", lreq, limp, None, lcls)
    if generations > 1:
        g2req, g2imp, g2cls = [], [], []
        for enc, obj, cls in second:
            r = F.real_dump(obj, "fchk")
            t, rt, lot, bas, fs = enc.split(";")
            g2req.append(f"fmt dump fchk - {';'.join([t, rt, lot, bas, fs])}")
            g2imp.append("ok " + r.value.hex() if r.ok else "err " + r.err)
            g2cls.append(cls)
        ctx.corr("dump-gen2:fchk", g2req, g2imp, None, g2cls)


def _impl_load(raw, dS=D, dA=D, expect=None):
    r = F.real_load(raw, "fchk")
    if not r.ok:
        return "err " + r.err, None
    d = r.value
    try:
        low = real_load_low(raw, None)
    except Exception as exc:  # noqa: BLE001
        return "err low:" + type(exc).__name__, None
    return "ok " + enc_loaded(d.title, d.run_type, d.lot, d.obasis_name, quant_fields(low, dS, dA, expect)), d


# ---------------------------------------------------------------------------------------------
# C03: Gaussian's own widths (E22.15 scalars), independent Python writer


def spec_write(q) -> bytes:
    """independent writer of Gaussian's formatted-checkpoint layout: A40,3X,A1,5X,I12 | E22.15; A40,3X,A1,3X,'N=',I12; 6I12; 5E16.8"""
    L = [q["title"].ljust(72), (q["command"]).ljust(10) + q["LOT"].ljust(30) + q["BASIS"].rjust(33)]
    for label, kind, val in q["fields"]:
        if kind == "i":
            L.append(label.ljust(40) + "   I     " + str(val).rjust(12))
        elif kind == "r":
            L.append(label.ljust(40) + "   R     " + sci_text(val, 15).rjust(22))
        elif val:
            L.append(label.ljust(40) + f"   {kind}   N=" + str(len(val)).rjust(12))
            per = 6 if kind == "I" else 5
            for k in range(0, len(val), per):
                ch = val[k : k + per]
                L.append("".join(str(x).rjust(12) for x in ch) if kind == "I" else "".join(sci_text(x, 8).rjust(16) for x in ch))
    return ("\n".join(L) + "\n").encode("latin-1")


def c03_flow(ctx, n):
    ad = FCHK
    rng = ctx.rng
    reqs, cases = [], []
    for i in range(n):
        q, _, cls = ad.gen(rng, ad.pick_natom(rng, i, ctx.thorough), i)
        q["title"] = q["title"] or "spec"
        # Gaussian prints real scalars with 15 decimals
        q["fields"] = [(l, k, rand_sci(rng, 15) if k == "r" else v) for l, k, v in q["fields"]]
        # a file of another program: header words as that program writes them
        q["command"] = {"energy": "SP", "opt": "FOpt", "scan": "Scan", "freq": "Freq"}.get(q["run_type"] or "", "NA" if not q["run_type"] else q["run_type"].upper())
        q["LOT"] = (q["lot"] or "NA").upper()
        q["BASIS"] = (q["basis"] or "NA").upper()
        reqs.append(f"fmt spec fchk spec {enc_obj(q)}")
        cases.append((q, cls))
    outs = ctx.driver(reqs)
    lreq, limp, lcls = [], [], []
    for (q, cls), out in zip(cases, outs):
        raw = bytes.fromhex(out[3:])
        py = spec_write(q)
        same = py == raw
        ctx.count("spec-writers-agree:fchk", None, "same" if same else "DIFFER", nontrivial=False)
        if not same:
            ctx.obligation("spec-writers-agree:fchk", False, f"Lean spec renderer and Python spec writer differ: {raw[:300]!r} vs {py[:300]!r}")
        expect = {f[0]: f for f in q["fields"]}
        line, _ = _impl_load(raw, 15, 8, expect)
        rt = {"SP": "energy", "FOpt": "opt", "Scan": "scan", "Freq": "freq"}.get(q["command"])
        want = "ok " + enc_loaded(q["title"], rt, q["LOT"].lower(), q["BASIS"].lower(), [f for f in q["fields"] if f[1] in "ir" or f[2]])
        ctx.count("spec-load:fchk", enc_obj(q), cls + ("" if line == want else "/DIFF"), sample={"format": "fchk", "class": cls})
        if line != want:
            k = next((a for a, (x, y) in enumerate(zip(line.split(","), want.split(","))) if x != y), -1)
            ctx.fail("fchk:spec:mismatch", f"fchk: a file in Gaussian's layout is not loaded as written (first differing field #{k})",
                     {"kind": "c03", "format": "fchk", "opts": "spec", "hex": raw.hex(), "expect": want})
        lreq.append(f"fmt load fchk spec {raw.hex()}")
        limp.append(line)
        lcls.append(cls)
    ctx.corr("load-spec:fchk", lreq, limp, None, lcls)


def replay_c03(inp):
    line, _ = _impl_load(bytes.fromhex(inp["hex"]), 15, 8, None)
    return line != inp["expect"]


# ---------------------------------------------------------------------------------------------
# index shuffles against numpy / the real `_triangle_to_dense`


def corr_shuffles(ctx):
    from iodata.formats.fchk import _triangle_to_dense

    rng = ctx.rng
    req, imp, cls = [], [], []
    for n in [0, 1, 2, 3, 4, 5, 6, 7, 9, 12, 20, 30]:
        m = np.array([[rng.randint(-99, 99) for _ in range(n)] for _ in range(n)], dtype=np.int64).reshape(n, n)
        req.append(f"fmt tril fchk - {n};" + F.enc_list(m.ravel().tolist(), str, "/"))
        imp.append("ok " + F.enc_list(m[np.tril_indices(n)].tolist(), str, "/"))
        cls.append(f"tril/n={n}")
        t = [rng.randint(-999, 999) for _ in range(n * (n + 1) // 2)]
        if n:
            dm = _triangle_to_dense(np.array(t, float))
            req.append("fmt dense fchk - " + F.enc_list(t, str, "/"))
            imp.append(f"ok {dm.shape[0]};" + F.enc_list([int(v) for v in dm.ravel()], str, "/"))
            cls.append(f"dense/n={n}")
    q = [rng.randint(-99, 99) for _ in range(6)]
    req.append("fmt quadw fchk - " + F.enc_list(q, str, "/"))
    imp.append("ok " + F.enc_list([q[k] for k in QUAD_W], str, "/"))
    cls.append("quadrupole-writer-order")
    ctx.corr("shuffles:fchk", req, imp, None, cls)


# ---------------------------------------------------------------------------------------------
# S: unquantised objects with s/p shells, orbitals and every optional attribute through iodata.api


class FchkFree(Adapter):
    key = fmt = "fchk"

    def pick_natom(self, rng, i, thorough):
        return [1, 2, 3, 4, 5, 7, 12][i % 7] if i < 14 else rng.randint(1, 9 if not thorough else 30)

    def free_spec(self, rng, natom, i):
        return {"seed": rng.getrandbits(48), "natom": natom, "unrestricted": rng.random() < 0.4,
                "run_type": RUN_TYPES[i % 5], "scale": rng.choice([1e-3, 1.0, 1e3, 1e-30, 1e30])}

    def free_class(self, s):
        return f"natom={s['natom'] if s['natom'] <= 7 or s['natom'] == 12 else 'rand'}/unrestricted={int(s['unrestricted'])}/run={s['run_type']}/scale={s['scale']}"

    def free_build(self, s):
        from iodata import IOData
        from iodata.basis import MolecularBasis, Shell
        from iodata.formats.fchk import CONVENTIONS
        from iodata.orbitals import MolecularOrbitals
        from iodata.utils import amu

        rng = random.Random(s["seed"])
        n, sc = s["natom"], s["scale"]

        def u(k=1.0):
            return rng.uniform(-1, 1) * k

        atnums = np.array([rng.randint(1, 118) for _ in range(n)])
        shells = []
        for a in range(n):
            for _ in range(rng.randint(1, 2)):
                kind = rng.choice(["s", "p", "sp", "d", "dp"])
                ne = rng.randint(1, 3)
                ex = np.array([rng.uniform(0.05, 50) for _ in range(ne)])
                if kind == "sp":
                    shells.append(Shell(a, [0, 1], ["c", "c"], ex, np.array([[u(), u()] for _ in range(ne)])))
                else:
                    l = {"s": 0, "p": 1, "d": 2, "dp": 2}[kind]
                    shells.append(Shell(a, [l], ["p" if kind == "dp" else "c"], ex, np.array([[u()] for _ in range(ne)])))
        obasis = MolecularBasis(shells, CONVENTIONS, "L2")
        nb = obasis.nbasis
        norb = rng.randint(1, nb)
        nel = rng.randint(1, norb)
        if s["unrestricted"]:
            nbeta = rng.randint(0, nel)
            occs = np.array([1.0] * nel + [0.0] * (norb - nel) + [1.0] * nbeta + [0.0] * (norb - nbeta))
            mo = MolecularOrbitals("unrestricted", norb, norb, occs, np.array([[u() for _ in range(2 * norb)] for _ in range(nb)]),
                                   np.array(sorted(u(5) for _ in range(norb)) + sorted(u(5) for _ in range(norb))))
        else:
            mo = MolecularOrbitals("restricted", norb, norb, np.array([2.0] * nel + [0.0] * (norb - nel)),
                                   np.array([[u() for _ in range(norb)] for _ in range(nb)]), np.array(sorted(u(5) for _ in range(norb))))

        def sym(k, scale=1.0):
            m = np.array([[u(scale) for _ in range(k)] for _ in range(k)])
            return (m + m.T) / 2

        kw = {
            "title": F.rand_title(rng)[:70].strip() or None, "run_type": s["run_type"], "lot": rng.choice(LOTS), "obasis_name": rng.choice(BASES),
            "atnums": atnums, "atcoords": np.array([[u(20) for _ in range(3)] for _ in range(n)]), "obasis": obasis, "mo": mo,
            "energy": u(1000), "atmasses": np.array([rng.uniform(1, 300) for _ in range(n)]) * amu,
            "atcharges": {k: np.array([u() for _ in range(n)]) for k, _ in CHARGE_KINDS if rng.random() < 0.6},
            "atgradient": np.array([[u(sc) for _ in range(3)] for _ in range(n)]),
            "athessian": sym(3 * n, sc),
            "moments": {(1, "c"): np.array([u(sc) for _ in range(3)]), (2, "c"): np.array([u(sc) for _ in range(6)])},
            "extra": {"polarizability_tensor": sym(3, sc)},
            "one_rdms": {k: sym(nb) for k in ["scf", "scf_spin", "post_scf_ao", "post_scf_spin_ao"] if rng.random() < 0.5},
        }
        if any(k.startswith("post") for k in kw["one_rdms"]) and not any(t in (kw["lot"] or "NA").upper() for t in ("MP2", "MP3", "CC", "CI")):
            kw["lot"] = rng.choice(["MP2", "ccsd(t)"])  # FCHK labels a post-SCF density by its method (unlabelled case: _fchkw.postscf_eval)
        return IOData(**kw)

    def compare(self, x, y):
        bad = []

        def real(name, a, b):
            a, b = np.asarray(a, float), np.asarray(b, float)
            if a.shape != b.shape:
                bad.append((name, f"shape {a.shape} -> {b.shape}"))
            elif a.size and not (np.abs(a - b) <= 0.5000001e-8 * np.maximum(np.abs(a), 1e-300) * 10).all():
                k = int(np.argmax(np.abs(a - b) / np.maximum(np.abs(a), 1e-300)))
                bad.append((name, f"element {k}: {a.ravel()[k]!r} -> {b.ravel()[k]!r}"))

        if not np.array_equal(x.atnums, y.atnums):
            bad.append(("atnums", "differ"))
        real("atcorenums", x.atcorenums, y.atcorenums)
        real("atcoords", x.atcoords, y.atcoords)
        real("atmasses", x.atmasses, y.atmasses)
        real("energy", x.energy, y.energy)
        real("atgradient", x.atgradient, y.atgradient)
        real("athessian", x.athessian, y.athessian)
        for k in x.atcharges:
            if k not in y.atcharges:
                bad.append(("atcharges", f"kind {k} lost"))
            else:
                real("atcharges:" + k, x.atcharges[k], y.atcharges[k])
        for k in x.moments:
            if k not in y.moments:
                bad.append(("moments", f"{k} lost"))
            else:
                real(f"moments:{k[0]}", x.moments[k], y.moments[k])
        real("polarizability", x.extra["polarizability_tensor"], y.extra.get("polarizability_tensor", np.zeros(0)))
        lot = (x.lot or "NA").upper()
        post = any(t in lot for t in ("MP2", "MP3", "CC", "CI"))
        for k, m in x.one_rdms.items():
            if k.startswith("post") and not post:
                continue  # written under the label "Total NA Density", which is not an FCHK field
            if k == "scf" and x.mo.kind == "restricted" and x.mo.occs.sum() % 2 == 1:
                continue
            if k not in y.one_rdms:
                if k == "scf" and x.mo.kind == "restricted" and not np.array_equal(x.mo.occsa, x.mo.occsb):
                    continue
                bad.append(("one_rdms", f"{k} lost"))
            else:
                real("one_rdms:" + k, m, y.one_rdms[k])
        if x.run_type in ("energy", "opt", "scan", "freq") and y.run_type != x.run_type:
            bad.append(("run_type", f"{x.run_type!r} -> {y.run_type!r}"))
        if (x.lot or "NA").lower() != y.lot:
            bad.append(("lot", f"{x.lot!r} -> {y.lot!r}"))
        if (x.obasis_name or "NA").lower() != y.obasis_name:
            bad.append(("obasis_name", f"{x.obasis_name!r} -> {y.obasis_name!r}"))
        if (x.title or "FCHK generated by IOData") != y.title:
            bad.append(("title", f"{x.title!r} -> {y.title!r}"))
        real("mo.energies", x.mo.energies, y.mo.energies)
        real("mo.coeffs", x.mo.coeffs, y.mo.coeffs)
        if not np.array_equal(x.mo.occs, y.mo.occs):
            bad.append(("mo.occs", "differ"))
        if len(x.obasis.shells) != len(y.obasis.shells):
            bad.append(("obasis", "number of shells"))
        else:
            for a, b in zip(x.obasis.shells, y.obasis.shells):
                if a.icenter != b.icenter or list(a.angmoms) != list(b.angmoms) or list(a.kinds) != list(b.kinds):
                    bad.append(("obasis", "shell structure"))
                    break
                real("obasis.exponents", a.exponents, b.exponents)
                real("obasis.coeffs", a.coeffs, b.coeffs)
        return bad


FCHK_FREE = FchkFree()
