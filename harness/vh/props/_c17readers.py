"""C17, "guaranteed => set" for the formats with a Lean reader (Model/Rd/*): translator part.

`translate(ctx)` writes `lean/Iodata/Gen/ReaderKeys.lean` from the source of the modelled format modules:

* `resultKeys`: for every `load_one`, by `ast`: the keys that are in EVERY dictionary the function can return
  (`always`) and the keys that are stored on some paths only (`sometimes`);
  a `load_one` may take its dictionary from a module-level helper (`result = _load_vasp_grid(lit)`, also one
  imported by `from .chgcar import ...`): the helper's returns are analysed the same way;
* `loadManyFrames`: for every `load_many` of these modules, whether every `yield` yields, unmodified, a dictionary
  returned by `load_one(lit, ...)`;
* `notNoneDefaults`: the `attrs` fields of `IOData` whose default is not `None` (`factory=dict`), by public name.

The analysis is deliberately narrow: any statement shape it does not know (`del result[...]`, `.pop`, `.update`,
a returned expression that is neither a dict display nor a local name bound to one, ...) raises, which the engine
reports as a broken translator obligation.
"""

from __future__ import annotations

import ast

from ..engine import REPO, lean_list

FORMATS = ["xyz", "sdf", "mol2", "pdb", "cube", "gromacs", "poscar", "chgcar", "locpot", "charmm"]


class ShapeError(ValueError):
    pass


def _chars(s):
    out = []
    for c in s:
        if 32 < ord(c) < 127 and c not in "'\\":
            out.append(f"'{c}'")
        elif c == "'":
            out.append("'\\''")
        elif c == "\\":
            out.append("'\\\\'")
        else:
            out.append(f"Char.ofNat {ord(c)}")
    return "[" + ",".join(out) + "]"


def _func(tree, name):
    fs = [n for n in tree.body if isinstance(n, ast.FunctionDef) and n.name == name]
    if len(fs) != 1:
        raise ShapeError(f"expected exactly one top-level def {name}")
    return fs[0]


def _walk_no_nested(node):
    """all nodes below `node`, not entering nested function / class definitions"""
    todo = list(ast.iter_child_nodes(node))
    while todo:
        n = todo.pop()
        yield n
        if not isinstance(n, (ast.FunctionDef, ast.AsyncFunctionDef, ast.ClassDef, ast.Lambda)):
            todo.extend(ast.iter_child_nodes(n))


def _dict_keys(d: ast.Dict):
    keys = []
    for k in d.keys:
        if not (isinstance(k, ast.Constant) and isinstance(k.value, str)):
            raise ShapeError("dictionary display with a non-literal key or ** unpacking")
        keys.append(k.value)
    return keys


def _store_key(stmt, r):
    """the key stored into the local dictionary `r` by the simple statement `stmt`:
    ('const', k) | ('var', name) | None"""

    def sub_key(t):
        # r[<key>]   or   r.setdefault(<key>, ...)[...]
        if isinstance(t, ast.Subscript) and isinstance(t.value, ast.Name) and t.value.id == r:
            return t.slice
        if (isinstance(t, ast.Subscript) and isinstance(t.value, ast.Call) and isinstance(t.value.func, ast.Attribute)
                and t.value.func.attr == "setdefault" and isinstance(t.value.func.value, ast.Name)
                and t.value.func.value.id == r and t.value.args):
            return t.value.args[0]
        return None

    if isinstance(stmt, ast.Assign) and len(stmt.targets) == 1:
        k = sub_key(stmt.targets[0])
        if k is None:
            return None
        if isinstance(k, ast.Constant) and isinstance(k.value, str):
            return ("const", k.value)
        if isinstance(k, ast.Name):
            return ("var", k.id)
        raise ShapeError(f"store into {r}[...] with a key that is neither a literal nor a name")
    return None


def _must(stmts, r):
    """keys stored into `r` on every normal completion of the statement list"""
    out = set()
    for s in stmts:
        k = _store_key(s, r)
        if k is not None:
            out.add(k)
        elif isinstance(s, ast.If):
            out |= _must(s.body, r) & _must(s.orelse, r)
        elif isinstance(s, ast.With):
            out |= _must(s.body, r)
        elif isinstance(s, ast.Try):
            out |= _must(s.finalbody, r)
    return out


def _may(fn, r):
    out = set()
    for n in _walk_no_nested(fn):
        if isinstance(n, ast.stmt):
            k = _store_key(n, r)
            if k is not None:
                out.add(k)
    return out


def _forbid_removals(fn, r):
    for n in _walk_no_nested(fn):
        if isinstance(n, ast.Delete):
            for t in n.targets:
                if (isinstance(t, ast.Subscript) and isinstance(t.value, ast.Name) and t.value.id == r) or (
                        isinstance(t, ast.Name) and t.id == r):
                    raise ShapeError(f"del on the returned dictionary {r}")
        if (isinstance(n, ast.Call) and isinstance(n.func, ast.Attribute) and isinstance(n.func.value, ast.Name)
                and n.func.value.id == r and n.func.attr not in ("setdefault", "get", "keys", "items", "values")):
            raise ShapeError(f"{r}.{n.func.attr}(...) on the returned dictionary")
        if isinstance(n, (ast.AugAssign, ast.AnnAssign)) and isinstance(n.target, ast.Name) and n.target.id == r:
            raise ShapeError(f"augmented / annotated assignment to the returned dictionary {r}")


def _resolve_helper(mod: str, name: str):
    """(module, FunctionDef) of the module-level function `name` visible in formats/<mod>.py: defined there, or
    imported by `from .<other> import name`"""
    tree = ast.parse((REPO / "iodata" / "formats" / f"{mod}.py").read_text())
    fs = [n for n in tree.body if isinstance(n, ast.FunctionDef) and n.name == name]
    if len(fs) == 1:
        return mod, fs[0]
    if len(fs) > 1:
        raise ShapeError(f"{mod}.{name} is defined more than once")
    for n in tree.body:
        if isinstance(n, ast.ImportFrom) and n.level == 1 and n.module and "." not in n.module and any(
                a.name == name and a.asname is None for a in n.names):
            return _resolve_helper(n.module, name)
    raise ShapeError(f"cannot resolve the helper {name} of formats/{mod}.py")


def result_keys(fmt: str):
    """(always, sometimes) for iodata/formats/<fmt>.py:load_one"""
    src = (REPO / "iodata" / "formats" / f"{fmt}.py").read_text()
    return _fn_keys(fmt, _func(ast.parse(src), "load_one"), 0)


def _fn_keys(fmt: str, fn, depth: int):
    """(always, sometimes) for the dictionaries returned by the function `fn` of formats/<fmt>.py"""
    import importlib

    if depth > 3:
        raise ShapeError("helper chain too deep")
    rets = [n for n in _walk_no_nested(fn) if isinstance(n, ast.Return)]
    if not rets:
        raise ShapeError("load_one has no return statement")
    alws, somes = [], []
    for ret in rets:
        v = ret.value
        if isinstance(v, ast.Dict):
            alws.append(set(_dict_keys(v)))
            somes.append(set())
            continue
        if not isinstance(v, ast.Name):
            raise ShapeError(f"{fn.name} returns neither a dict display nor a local name")
        r = v.id
        _forbid_removals(fn, r)
        binds = []
        for n in _walk_no_nested(fn):
            targets = []
            if isinstance(n, ast.Assign):
                targets = n.targets
            elif isinstance(n, (ast.For, ast.AsyncFor)):
                targets = [n.target]
            elif isinstance(n, ast.With):
                targets = [i.optional_vars for i in n.items if i.optional_vars is not None]
            elif isinstance(n, ast.NamedExpr):
                targets = [n.target]
            for t in targets:
                for m in ast.walk(t):
                    if isinstance(m, ast.Name) and m.id == r and isinstance(m.ctx, ast.Store):
                        binds.append(n)
        if len(binds) != 1 or not isinstance(binds[0], ast.Assign) or len(binds[0].targets) != 1 or not isinstance(
                binds[0].targets[0], ast.Name):
            raise ShapeError(f"the returned name {r} is not bound by exactly one `{r} = ...` statement")
        bind = binds[0]
        helper_some = set()
        if isinstance(bind.value, ast.Dict):
            always = set(("const", k) for k in _dict_keys(bind.value))
        elif (isinstance(bind.value, ast.Call) and isinstance(bind.value.func, ast.Name) and not bind.value.keywords
              and len(bind.value.args) == 1 and isinstance(bind.value.args[0], ast.Name)
              and bind.value.args[0].id == "lit"):
            # `result = _helper(lit)`: the dictionary of a module-level helper
            ha, hs = _fn_keys(*_resolve_helper(fmt, bind.value.func.id), depth + 1)
            always = set(("const", k) for k in ha)
            helper_some = set(hs)
        else:
            raise ShapeError(f"the returned name {r} is bound neither to a dict display nor to `helper(lit)`")
        may = _may(fn, r)
        if bind in fn.body:
            # stores that every path through the statements AFTER the binding performs
            after = fn.body[fn.body.index(bind) + 1:]
            always |= _must(after, r)
            # the table-driven loop of XYZ: `for attrname, ... in atom_columns:` whose body always stores r[attrname]
            for s in after:
                if (isinstance(s, ast.For) and isinstance(s.iter, ast.Name) and s.iter.id == "atom_columns"
                        and isinstance(s.target, ast.Tuple) and s.target.elts and isinstance(s.target.elts[0], ast.Name)):
                    var = s.target.elts[0].id
                    if ("var", var) in _must(s.body, r):
                        # the default columns (atom_columns=None): evaluated from the module
                        defaulted = any(
                            isinstance(t, ast.If) and isinstance(t.test, ast.Compare)
                            and isinstance(t.test.left, ast.Name) and t.test.left.id == "atom_columns"
                            and len(t.body) == 1 and isinstance(t.body[0], ast.Assign)
                            and isinstance(t.body[0].value, ast.Name) and t.body[0].value.id == "DEFAULT_ATOM_COLUMNS"
                            for t in fn.body[: fn.body.index(s)])
                        if not defaulted:
                            raise ShapeError("atom_columns is not defaulted to DEFAULT_ATOM_COLUMNS before the loop")
                        mod = importlib.import_module(f"iodata.formats.{fmt}")
                        cols = mod.DEFAULT_ATOM_COLUMNS
                        if not cols:
                            raise ShapeError("DEFAULT_ATOM_COLUMNS is empty")
                        for col in cols:
                            always.add(("const", col[0]))
                        may = {k for k in may if k != ("var", var)}
        if any(k[0] == "var" for k in always | may):
            raise ShapeError(f"store into {r}[name] with a key the translator cannot resolve")
        alws.append({k[1] for k in always})
        somes.append(({k[1] for k in may} | helper_some) - {k[1] for k in always})
    always = set.intersection(*alws)
    sometimes = set.union(*alws, *somes) - always
    return sorted(always), sorted(sometimes)


def frames_are_load_one(fmt: str):
    """every `yield` of load_many yields a local name whose only binding is `<name> = load_one(lit, ...)` and which is
    not modified afterwards; None when the module has no load_many"""
    src = (REPO / "iodata" / "formats" / f"{fmt}.py").read_text()
    tree = ast.parse(src)
    if not any(isinstance(n, ast.FunctionDef) and n.name == "load_many" for n in tree.body):
        return None
    fn = _func(tree, "load_many")
    ys = [n for n in _walk_no_nested(fn) if isinstance(n, (ast.Yield, ast.YieldFrom))]
    if not ys:
        return False
    for y in ys:
        if not (isinstance(y, ast.Yield) and isinstance(y.value, ast.Name)):
            return False
        d = y.value.id
        for n in _walk_no_nested(fn):
            if isinstance(n, ast.Assign):
                for t in n.targets:
                    for m in ast.walk(t):
                        if isinstance(m, ast.Name) and m.id == d:
                            ok = (t is m and isinstance(n.value, ast.Call) and isinstance(n.value.func, ast.Name)
                                  and n.value.func.id == "load_one" and n.value.args
                                  and isinstance(n.value.args[0], ast.Name) and n.value.args[0].id == "lit")
                            if not ok:
                                return False
            elif isinstance(n, (ast.Delete, ast.AugAssign)):
                if any(isinstance(m, ast.Name) and m.id == d for m in ast.walk(n)):
                    return False
            elif (isinstance(n, ast.Call) and isinstance(n.func, ast.Attribute) and isinstance(n.func.value, ast.Name)
                  and n.func.value.id == d):
                return False
    return True


def not_none_defaults():
    import attrs
    from iodata import IOData

    out = []
    for f in attrs.fields(IOData):
        d = f.default
        if d is attrs.NOTHING:
            raise ShapeError(f"IOData field {f.name} has no default")
        if isinstance(d, attrs.Factory) or d is not None:
            out.append(f.name.lstrip("_"))
    return out


def translate(ctx):
    rows, frames = [], []
    for fmt in FORMATS:
        a, s = result_keys(fmt)
        rows.append(f"({_chars(fmt)}, {lean_list(a, _chars)}, {lean_list(s, _chars)})")
        fr = frames_are_load_one(fmt)
        if fr is not None:
            frames.append(f"({_chars(fmt)}, {'true' if fr else 'false'})")
    body = [
        "namespace Iodata.Gen.ReaderKeys",
        "",
        "/-- `load_one` of the format modules with a Lean reader, by `ast`: (module, keys that are in every dictionary the",
        "function can return, keys that are stored on some paths only) -/",
        "def resultKeys : List (List Char × List (List Char) × List (List Char)) :=\n  [" + ",\n   ".join(rows) + "]\n",
        "/-- `load_many` of these modules: does every `yield` yield, unmodified, a dictionary returned by `load_one(lit, …)`? -/",
        "def loadManyFrames : List (List Char × Bool) :=\n  [" + ", ".join(frames) + "]\n",
        "/-- `attrs` fields of `IOData` whose default is not `None` (by public name) -/",
        "def notNoneDefaults : List (List Char) :=\n  " + lean_list(not_none_defaults(), _chars) + "\n",
        "end Iodata.Gen.ReaderKeys\n",
    ]
    ctx.gen_write("ReaderKeys", "\n".join(body))
