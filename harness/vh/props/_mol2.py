"""MOL2 adapter (byte-level model): quantised object <-> IOData, generators (C02 / C03 / C15)."""

from __future__ import annotations

import numpy as np

from . import _formats as F
from ._adapters import Adapter, _symbols, _units, pick_nbond, rand_bonds

TYPES = ["c3", "ca", "n", "hc", "O.3", "N.pl3", "C.ar", "Du", "S.o2", "a.very.long.type", "X"]


class Mol2M(Adapter):
    key = fmt = "mol2"

    def gen(self, rng, natom, i, spec=False):
        digits = rng.choice([1, 2, 4, 5, 9])
        types = spec or rng.random() < 0.6
        charges = spec or rng.random() < 0.6
        atoms = []
        for k in range(natom):
            z = (i * 7 + k) % 118 + 1
            atoms.append((z, *(F.rand_fx(rng, 4, digits, digits, allow_wide=True) for _ in range(3)),
                          rng.choice(TYPES) if types else None, F.rand_fx(rng, 4, 1, 1) if charges else None))
        nb = pick_nbond(rng, natom, i)
        bonds = rand_bonds(rng, natom, nb, types=(1, 2, 3, 4, 5, 6, 7, 8, 9, 10, 11, 0, 12, 99)) or None
        q = {"title": F.rand_title(rng), "atoms": atoms, "bonds": bonds}
        cls = (f"natom={natom if natom in F.SIZE_CLASSES_THOROUGH else 'rand'}/types={int(types)}/charges={int(charges)}"
               f"/bonds={'none' if not bonds else 'table' if all(1 <= b[2] <= 11 for b in bonds) else 'unknown-type'}")
        return q, "-", cls

    def enc(self, q):
        def atom(a):
            return ":".join([str(a[0]), F.enc_fx(a[1]), F.enc_fx(a[2]), F.enc_fx(a[3]),
                             "-" if a[4] is None else F.enc_str(a[4]), "-" if a[5] is None else F.enc_fx(a[5])])

        return ";".join([F.enc_str(q["title"]), F.enc_list(q["atoms"], atom),
                         "-" if q["bonds"] is None else F.enc_list(q["bonds"], lambda b: f"{b[0]}:{b[1]}:{b[2]}")])

    enc_any = enc

    def build(self, q, opts="-"):
        from iodata import IOData

        at = q["atoms"]
        n = len(at)
        kw = {"atnums": np.array([a[0] for a in at], int), "title": q["title"] or None,
              "atcoords": np.array([[F.fx_float(v, 4) for v in a[1:4]] for a in at], float).reshape(n, 3) * _units()}
        if at and at[0][4] is not None:
            kw["atffparams"] = {"attypes": np.array([a[4] for a in at])}
        if at and at[0][5] is not None:
            kw["atcharges"] = {"mol2charges": np.array([F.fx_float(a[5], 4) for a in at])}
        if q["bonds"]:
            kw["bonds"] = np.array(q["bonds"], int)
        return IOData(**kw)

    def quant(self, d, opts="-"):
        ang = _units()
        atoms = [(int(d.atnums[k]), *(F.fx_quant(d.atcoords[k, j], 4, ang) for j in range(3)), str(d.atffparams["attypes"][k]),
                  F.fx_quant(d.atcharges["mol2charges"][k], 4)) for k in range(d.natom)]
        bonds = None if d.bonds is None else [tuple(int(v) for v in b) for b in d.bonds]
        return {"title": d.title if d.title is not None else "", "atoms": atoms, "bonds": bonds}

    # ---- C03: the model's own renderer is the free-format record layout; the independent writer is SPEC_ONLY["mol2"] ----
    def spec_gen(self, rng, natom, i):
        q, opts, cls = self.gen(rng, natom, i, spec=True)
        q["title"] = q["title"] or "spec"
        return q, opts, cls

    def enc_spec(self, m):
        return self.enc(m)

    def spec_obj(self, m):
        from iodata.periodic import num2bond

        bonds = None if m["bonds"] is None else [(a, b, t if t in num2bond else 8) for a, b, t in m["bonds"]]
        return {"title": m["title"], "atoms": m["atoms"], "bonds": bonds}

    def spec_write(self, m, opts):
        return None

    def spec_diff(self, m, line):
        return "mismatch" if line.startswith("ok") else line.replace(" ", "-")


MOL2 = Mol2M()
_ = _symbols
