"""C15 — after one save/reload cycle, further cycles change nothing."""

from __future__ import annotations

from . import _checks as K
from ._adapters import ADAPTERS
from ._layoutsw import translate  # noqa: F401  (T1: Gen/Layouts and Gen/LayoutsW)

MODULES = ["Iodata.Props.C15", "Iodata.Props.C15W"]
RULE = (
    "same object generators as C02 (sizes around every width boundary, all elements, magnitude classes, titles, bonds, "
    "optional attributes; Cube shapes with every row%6, FCHK objects with every optional section). dump/load/dump-gen2:<fmt> "
    "(xyz, sdf, pdb incl. multi-line TITLE/COMPND, mol2, cube, fchk): model and implementation in lock step through two generations (bytes of generation 1 and "
    "2, re-quantised reload). cycles:<fmt> (those five and mol2, fcidump, poscar): three save/reload cycles on the real code "
    "from unquantised random objects; reload 2 must be bit-identical to reload 1 (every IOData attribute, array bytes), the "
    "files of generation 2 and 3 byte-identical; PDB objects with 2..101-line titles and compounds are always among them. "
    "corpus:<file>-><fmt>: (2bcw.pdb with its 14-line COMPND always included) every file of iodata/test/data that loads, written to "
    "every format that accepts it, three cycles. non-trivial = distinct request / distinct (file, format) pair"
)
TRUSTED = [
    "harness/vh/props/_layouts.py, _adapters.py, lean/Iodata/Drv/Fmt.lean as for C02",
    "harness/vh/props/_formats.py snap(): bit-exact snapshot of IOData attributes (array dtype, shape, bytes)",
]
ASSUMPTIONS = [
    "as C02; bit-identity of generations is observed on the real code (cycles/corpus streams), the theorems speak about "
    "quantised objects",
]
TIME_LIMIT = {"quick": 1200, "thorough": 7200}
from . import _w as _W; RULE, TRUSTED, ASSUMPTIONS = RULE + _W.RULE, TRUSTED + _W.TRUSTED, ASSUMPTIONS + _W.ASSUMPTIONS  # noqa: E402, E702

RW = ["xyz", "sdf", "pdb"]


def correspond(ctx):
    from . import _fchk

    for k in RW:
        K.corr_roundtrip(ctx, ADAPTERS[k], ctx.n(160, 800), generations=2)
    _fchk.corr_objects(ctx, ctx.n(200, 1000), generations=2)
    from ._cube import CUBE
    from ._mol2 import MOL2

    K.corr_roundtrip(ctx, MOL2, ctx.n(160, 800), generations=2)

    K.corr_roundtrip(ctx, CUBE, ctx.n(200, 1000), generations=2)
    from . import _w; _w.correspond(ctx)  # second group of formats (FCIDUMP text, POSCAR text, FCHK objects, WFN/WFX, QCSchema)


def search(ctx):
    mult = 3 if ctx.escalated else 1
    from ._adapters2 import SEARCH_ONLY

    for k, ad in SEARCH_ONLY.items():
        K.search_c15(ctx, ad, ctx.n(150, 800) * mult)
    for k in RW:
        K.search_c15(ctx, ADAPTERS[k], ctx.n(150, 800) * mult)
    from ._fchk import FCHK_FREE

    K.search_c15(ctx, FCHK_FREE, ctx.n(150, 800) * mult)
    K.corpus_cycles(ctx)
    K.json_variant_cycles(ctx)
    from . import _w; _w.search(ctx)  # second group of formats (FCIDUMP text, POSCAR text, FCHK objects, WFN/WFX, QCSchema)


def replay(ctx, obj):
    from . import _w; return _w.replay_or(ctx, obj, K.replay_generic)
