"""C03 search: records that carry their own label must be attached to the atom they name, in any order.

WFX `<Nuclear Cartesian Energy Gradients>`: every row starts with the nuclear name; the rows may be listed in any
order and may cover a subset of the nuclei (the loader documents NaN rows for the others)."""

import os
import tempfile
import warnings

import numpy as np

from ..engine import REPO

DATA = REPO / "iodata" / "test" / "data"


def _variants(rng, text):
    """(label, new text, expected gradient rows by nuclear name or None) for one WFX file"""
    lines = text.splitlines(keepends=True)
    try:
        a = next(i for i, l in enumerate(lines) if l.strip() == "<Nuclear Cartesian Energy Gradients>")
        b = next(i for i, l in enumerate(lines) if l.strip() == "</Nuclear Cartesian Energy Gradients>")
        n0 = next(i for i, l in enumerate(lines) if l.strip() == "<Nuclear Names>")
        n1 = next(i for i, l in enumerate(lines) if l.strip() == "</Nuclear Names>")
    except StopIteration:
        return
    names = [l.strip() for l in lines[n0 + 1:n1]]
    rows = lines[a + 1:b]
    if len(rows) < 2:
        return
    # distinct tracer values so that a misplaced row is visible
    new_rows, expected = [], {}
    for k, row in enumerate(rows):
        name = row.split()[0]
        vals = [round(rng.uniform(-1, 1), 6) + (k + 1) for _ in range(3)]
        expected[name] = vals
        new_rows.append(f"{name:<10s} {vals[0]: .14E} {vals[1]: .14E} {vals[2]: .14E}\n")
    for trial in range(4):
        perm = list(range(len(new_rows)))
        if trial == 0:
            perm = perm[1:] + perm[:1]  # a cyclic rotation: not its own inverse for >= 3 rows
        elif trial == 1:
            perm = perm[::-1]
        else:
            rng.shuffle(perm)
        body = [new_rows[i] for i in perm]
        exp = dict(expected)
        label = f"rows-permuted:{perm}"
        if trial == 3 and len(body) > 1:
            dropped = body.pop(rng.randrange(len(body)))
            exp[dropped.split()[0]] = None
            label += ":one-row-dropped"
        yield label, "".join(lines[:a + 1] + body + lines[b:]), names, exp


def search(ctx):
    from iodata import load_one

    for path in sorted(DATA.glob("*.wfx")):
        if path.stat().st_size > 400_000:
            continue
        text = path.read_text()
        try:
            with warnings.catch_warnings():
                warnings.simplefilter("ignore")
                load_one(str(path))
        except Exception:
            continue  # a deliberately broken fixture
        for label, new, names, exp in _variants(ctx.rng, text):
            with tempfile.TemporaryDirectory(prefix="c03lab-") as tmp:
                p = os.path.join(tmp, path.name)
                with open(p, "w") as fh:
                    fh.write(new)
                try:
                    with warnings.catch_warnings():
                        warnings.simplefilter("ignore")
                        d = load_one(p)
                except Exception as exc:
                    ctx.count("search-labelled-records", [path.name, label], "wfx-gradient/raises:" + type(exc).__name__)
                    if "dropped" not in label:
                        ctx.fail("labelled:wfx:atgradient:refused",
                                 f"{path.name} with its gradient rows listed in another order ({label}) is refused: {exc!r}"[:400],
                                 {"kind": "labelled", "file": path.name, "label": label})
                    continue
            bad = None
            g = d.atgradient
            if g is None or len(g) != len(names):
                bad = f"atgradient has shape {None if g is None else g.shape}"
            else:
                for i, nm in enumerate(names):
                    e = exp.get(nm)
                    if e is None:
                        if nm in exp and not np.isnan(g[i]).all():
                            bad = f"nucleus {nm} has no row in the file but atgradient[{i}] = {g[i].tolist()}"
                        continue
                    if not np.allclose(g[i], e, rtol=0, atol=1e-12):
                        bad = f"row labelled {nm} = {e} but atgradient[{i}] = {g[i].tolist()}"
                        break
            ctx.count("search-labelled-records", [path.name, label], "wfx-gradient/" + ("ok" if bad is None else "misplaced"),
                      sample={"file": path.name, "variant": label})
            if bad:
                ctx.fail("labelled:wfx:atgradient", f"{path.name} ({label}): {bad}",
                         {"kind": "labelled", "file": path.name, "label": label})


def replay(ctx, obj):
    n0 = len(ctx.failures)
    search(ctx)
    return any(f["sig"].startswith("labelled:") for f in ctx.failures[n0:])
