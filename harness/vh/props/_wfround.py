"""Wavefunction-format round trips for C02 / C15: reuse C01's generated objects (mixed pure/Cartesian kinds, every
supported angular momentum, shuffled shell order, signed conventions, restricted/unrestricted orbitals) and its
independent comparison (`run_case`: dump_one -> load_one, orbitals as functions of space, occupations, energies,
densities, and the written file parsed without iodata)."""

import random


def search(ctx, n_quick=300, n_thorough=3000, tag="c02"):
    from . import c01

    rng = random.Random(f"{tag}-{ctx.seed}-wf")
    tabs = c01.tabs_cached()
    n = ctx.n(n_quick, n_thorough) * (3 if ctx.escalated else 1)
    cases = []
    for i in range(n):
        fmt = c01.FORMATS[i % len(c01.FORMATS)]
        cases.append({"kind": "gen", "spec": c01.gen_spec(rng, fmt, tabs), "fmt": fmt, "allow": True, "id": i})
    results = c01.run_cases(cases)
    for case, res in zip(cases, results):
        ctx.count("wf-roundtrip", [case["id"], case["fmt"], tag], f"{case['fmt']}/{res['cls']}", nontrivial=res["nontrivial"],
                  sample={"fmt": case["fmt"], "class": c01.case_class(case), "result": res["cls"]})
        if res["fail"]:
            ctx.fail("wf:" + res["fail"]["sig"], res["fail"]["what"], {"kind": "c01case", "case": case})


def replay(obj):
    from . import c01

    return c01.run_case(obj["input"]["case"])["fail"] is not None
