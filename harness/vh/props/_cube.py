"""Cube adapter (byte-level model): quantised object <-> IOData, generators, spec writer (C02 / C03 / C15)."""

from __future__ import annotations

import numpy as np

from . import _formats as F
from ._adapters import Adapter, dec_text
from ._fchk import enc_sci, rand_sci, sci_float, sci_quant, sci_text

SHAPES = [(1, 1, 1), (1, 1, 5), (1, 1, 6), (1, 1, 7), (2, 1, 11), (1, 2, 12), (2, 2, 13), (3, 2, 1), (2, 3, 2), (1, 1, 18), (2, 1, 19),
          (0, 1, 1), (1, 3, 4), (4, 1, 6), (1, 1, 25), (2, 2, 8), (1, 5, 3)]


class CubeM(Adapter):
    key = fmt = "cube"

    def pick_natom(self, rng, i, thorough):
        return [1, 2, 3, 1, 9, 10, 11][i % 7] if i < 14 else rng.randint(1, 6 if not thorough else 120)

    def gen(self, rng, natom, i, spec=False):
        def fx(digits=2):
            return F.rand_fx(rng, 6, digits, digits, allow_wide=not spec)

        if i < len(SHAPES):
            shape = SHAPES[i]
        else:
            shape = (rng.randint(1, 3), rng.randint(1, 3), rng.randint(1, 20 if rng.random() < 0.8 else 40))
        n = shape[0] * shape[1] * shape[2]
        atoms = []
        for k in range(natom):
            z = (i * 7 + k) % 118 + 1
            r = rng.random()
            q = (False, z * 10**6) if r < 0.6 else (False, max(z - 2, 1) * 10**6) if r < 0.8 else (False, 0) if (r < 0.9 and not spec) else F.rand_fx(rng, 6, 2, 2)
            if q[1] == 0 and spec:
                q = (False, z * 10**6)
            atoms.append((z, q, fx(), fx(), fx()))
        q = {"title": F.rand_title(rng), "origin": (fx(3), fx(3), fx(3)), "shape": list(shape),
             "axes": [(fx(1), fx(1), fx(1)) for _ in range(3)], "atoms": atoms, "data": [rand_sci(rng, 5, wide=not spec) for _ in range(n)]}
        ghost = any(a[1][1] == 0 for a in atoms)
        cls = f"natom={natom if natom <= 3 or natom in (9, 10, 11) else 'rand'}/row%6={shape[2] % 6}/rows={'1' if shape[0] * shape[1] == 1 else 'n' if n else '0'}/ghost={int(ghost)}"
        return q, "-", cls

    @staticmethod
    def _vec(v):
        return ":".join(F.enc_fx(c) for c in v)

    def enc(self, q):
        return ";".join([F.enc_str(q["title"]), self._vec(q["origin"]), ":".join(str(s) for s in q["shape"]),
                         "/".join(self._vec(a) for a in q["axes"]),
                         F.enc_list(q["atoms"], lambda a: ":".join([str(a[0]), *(F.enc_fx(c) for c in a[1:])])),
                         F.enc_list(q["data"], enc_sci, "/")])

    def build(self, q, opts="-"):
        from iodata import IOData
        from iodata.utils import Cube

        n = len(q["atoms"])
        cube = Cube(origin=np.array([F.fx_float(c, 6) for c in q["origin"]]),
                    axes=np.array([[F.fx_float(c, 6) for c in a] for a in q["axes"]]),
                    data=np.array([sci_float(v, 5) for v in q["data"]], float).reshape(tuple(q["shape"])))
        return IOData(title=q["title"] or None, atnums=np.array([a[0] for a in q["atoms"]], int),
                      atcorenums=np.array([F.fx_float(a[1], 6) for a in q["atoms"]], float),
                      atcoords=np.array([[F.fx_float(c, 6) for c in a[2:5]] for a in q["atoms"]], float).reshape(n, 3), cube=cube)

    def quant(self, d, opts="-"):
        c = d.cube
        atoms = [(int(d.atnums[k]), F.fx_quant(d.atcorenums[k], 6), *(F.fx_quant(d.atcoords[k, j], 6) for j in range(3))) for k in range(d.natom)]
        return {"title": d.title or "", "origin": tuple(F.fx_quant(v, 6) for v in c.origin), "shape": [int(s) for s in c.data.shape],
                "axes": [tuple(F.fx_quant(v, 6) for v in a) for a in c.axes], "atoms": atoms,
                "data": [sci_quant(v, 5) for v in c.data.ravel()]}

    # ---- C03 ----
    def spec_gen(self, rng, natom, i):
        q, opts, cls = self.gen(rng, natom, i, spec=True)
        q["title"] = q["title"] or "spec"
        return q, opts, cls

    def enc_spec(self, m):
        return self.enc(m)

    def spec_obj(self, m):
        return m

    def spec_write(self, m, opts):
        """independent writer of the Gaussian cube layout: I5,4F12.6 header records, 6E13.5 data, a new record per row"""
        L = [m["title"], "OUTER LOOP: X, MIDDLE LOOP: Y, INNER LOOP: Z"]

        def f(v):
            return dec_text(v, 6).rjust(12)

        L.append(str(len(m["atoms"])).rjust(5) + "".join(f(c) for c in m["origin"]))
        for s, a in zip(m["shape"], m["axes"]):
            L.append(str(s).rjust(5) + "".join(f(c) for c in a))
        for a in m["atoms"]:
            L.append(str(a[0]).rjust(5) + "".join(f(c) for c in a[1:]))
        bs = m["shape"][2]
        for r in range(0, len(m["data"]), max(bs, 1)):
            row = m["data"][r : r + bs]
            for k in range(0, len(row), 6):
                L.append("".join(sci_text(v, 5).rjust(13) for v in row[k : k + 6]))
        return ("\n".join(L) + "\n").encode("latin-1")

    def spec_diff(self, m, line):
        return "mismatch" if line.startswith("ok") else line.replace(" ", "-")


CUBE = CubeM()


def corr_loop(ctx, n):
    """the writer's counter loop as transcribed (`dataLoop`) against the bytes of the real `_write_cube_data`"""
    import io

    from iodata.formats.cube import _write_cube_data

    rng = ctx.rng
    req, imp, cls = [], [], []
    for i in range(n):
        q, _, c = CUBE.gen(rng, 1, i)
        f = io.StringIO()
        _write_cube_data(f, np.array([sci_float(v, 5) for v in q["data"]], float).reshape(tuple(q["shape"])), q["shape"][2])
        req.append(f"fmt dumploop cube - {CUBE.enc(q)}")
        imp.append("ok " + f.getvalue().encode().hex())
        cls.append(c)
    ctx.corr("dump-loop:cube", req, imp, None, cls)
